CHECK = dict(
    level='model_checking',
    parts=[dict(name='sched3', src=['harness/sched.c'], lib=['list.c', 'messageq.c', 'util.c', '@VERIF@/harness/sched_shim.c'], cflags=['-DPROP=3'], workers=12,
                deadline=dict(quick=300, thorough=3000)),
           dict(name='c03s', src=['harness/c06_fibre.c'], cflags=['-DPROP=3', '-Wno-format-truncation'], workers=64,
                objs=[('@VERIF@/harness/c06_scn.c', ['-fsanitize=thread', '-Dmemset=vs_memset', '-Dmemcpy=vs_memcpy', '-Dmemmove=vs_memmove'])], objs_lib=True,
                deadline=dict(quick=300, thorough=3000))],
    rule='explicit-state BFS over histories of the real fibre.c scheduler (file-scope state reached by #including fibre.c) '
         'against a FIFO/timer/atomic-queue model; alphabet: fibre_run, fibre_run_atomic, fibre_kill from outside and '
         'fibre_scheduler_next(t) carrying the script the dispatched protothread body executes (up to two of fibre_run / '
         'fibre_kill / fibre_run_atomic / fibre_timeout on any fibre, then yield/wait/exit/fail); every transition compares '
         'dispatch identity, fibre_self, kill/run_atomic results and restart-from-beginning; states are distinct by canonical '
         '(implementation queues, cursors, resume points, relative due times) + model; states at the depth bound are probed by '
         'draining the scheduler so the effect of the last operation is observed',
    bounds=dict(quick='3 fibres, two-action scripts: depth 4 from the empty scheduler, depth 3 from 7 start states with the '
                      '8-slot atomic queue pre-filled (2..8 requests) and its cursors advanced; 4 fibres single-action scripts '
                      'depth 5; 2 fibres depth 6',
                thorough='same configurations one to two levels deeper (5 / 4 / 7 / 8)'),
    assumptions=['scope guards of the quantifier enforced by the generator: one unsatisfied fibre_timeout per dispatch, at most '
                 '8 undrained fibre_run_atomic requests (<=3 pending outside the pre-filled start states)',
                 'single-threaded histories only (interrupt placements are C03/C06)'],
    technique='explicit-state model checking (BFS over API histories x fibre programs) of the real scheduler against a reference model',
    level_text='Every history up to the stated depth over the full external alphabet, with every scripted fibre body, is executed '
               'on the real scheduler and compared step by step with the reference model; start states with a nearly full atomic '
               'queue and wrapped cursors make the capacity and wrap cases reachable at small depth.',
    level_note='Trusted: the ~60-line scheduler model. Bounded depth (reported in evidence), 2-4 fibres.',
    design_ref='DESIGN.md sections 3 and 4 (C01)',
)

# build variants (bin/checks.py): -DNDEBUG in both tiers (side effects inside assert), the slower builds in thorough only
CHECK['variants'] = ['sched3', ('c03s', ['gcc -O2 -DNDEBUG'])]
CHECK['variant_tiers'] = {'gcc -Os': ('thorough',), 'gcc -O0': ('thorough',), 'clang -O2': ()}

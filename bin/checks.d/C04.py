CHECK = dict(
    level='model_checking', engine='vsched',
    parts=[dict(name='c04', src=['harness/c04_messageq.c'], workers=64,
                objs=[('@VERIF@/harness/c04_scn.c', ['-fsanitize=thread', '-Dmemset=vs_memset', '-Dmemcpy=vs_memcpy', '-Dmemmove=vs_memmove'])],
                deadline=dict(quick=400, thorough=3000)),
           dict(name='c04deep', src=['harness/c04_deep.c'], workers=12,
                objs=[('@REPO@/librfn/messageq.c', ['-fsanitize=thread'])],
                deadline=dict(quick=400, thorough=1800))],
    rule='stateless exploration of every schedule of the real messageq.c (compiled with -fsanitize=thread against the '
         'replacement runtime engine/vsched.c: a scheduling point before every atomic operation, interrupt handlers injected '
         'as nested run-to-completion calls, spins made blocking), depth-first over choice sequences with a visited set of '
         'complete-state hashes (registered memory + observation history of every live context + ghost monitor); each execution '
         'is checked against a ghost ownership model per buffer (free/claimed/sent/held: no double hand-out, exact payload, claim order, claim fails only with no free buffer counting claims in progress, free count at quiescence); states = distinct hashed '
         'states at choice points, transitions = scheduling steps + injected interrupts, traces = executions run on the real code',
    bounds=dict(quick='1-2 senders x depth 1..3 x 1-2 messages each, retrying and give-up senders, receiver thread or no receiver, from fresh / wrapped-cursor / full / one-slot-free start states: ALL interleavings (2 senders x 2 messages: <=3 preemptions); 3 senders: <=2 preemptions (senders only: <=3); receiver main + 1..3 sender interrupts nested up to 3 deep and sender main + 1..3 sender interrupts nested up to 2 deep: all placements; plus the deep-nesting family: N = 1..300 claims in flight at once (each handler interrupted before its atomic operation #P, P = 0..6, by the next), depth 1/2/4/8 x 0..2 buffers free: every tuple, one execution each',
                thorough='2 senders x 1 message: all interleavings from every start state; 2 senders x 2 messages: <=4 preemptions; 3 senders <=3 preemptions (senders only <=4); up to 4 sender interrupts nested 3 deep: all placements; plus one spurious weak-CAS failure per execution as a further deviation class; deep-nesting chains up to 500 claims'),
    assumptions=['sequentially consistent interleavings at atomic-operation granularity; justified for weak memory by the '
                 'data-race check of C07 over the same scenarios', 'one receiver; releases in receive order (API rule)',
                 'state-hash pruning trusts the 128-bit hash'],
    technique='stateless model checking of the implementation: exhaustive schedule enumeration (DFS over scheduling choices with state-hash pruning) under a controlled scheduler',
    level_text='Every interleaving (threads) and every interrupt placement of the listed one-producer/one-consumer scenarios is executed '
               'on the real messageq.c; each is compared with a FIFO model including the fails-only-if clauses and storage bounds.',
    level_note='Trusted: engine/vsched.c (scheduler, TSan-ABI runtime), the ghost ownership oracle, gcc -fsanitize=thread instrumentation.',
    design_ref='DESIGN.md sections 2.2 and 4 (C04)',
)

# build variants (bin/checks.py): only -DNDEBUG (side effects inside assert) - the schedule exploration is too expensive to repeat on every build
CHECK['variants'] = [('c04', ['gcc -O2 -DNDEBUG']), ('c04deep', ['gcc -Os', 'gcc -O0', 'gcc -O2 -DNDEBUG'])]	# (clang's -fsanitize=thread ABI differs from the shim's)	# the cheap deterministic families run on every build
CHECK['variant_tiers'] = {'gcc -O2 -DNDEBUG': ('quick',)}

CHECK = dict(
    level='model_checking', engine='vsched',
    parts=[dict(name='c05', src=['harness/c05_ringbuf.c'], workers=64,
                objs=[('@VERIF@/harness/c05_scn.c', ['-fsanitize=thread', '-Dmemset=vs_memset', '-Dmemcpy=vs_memcpy', '-Dmemmove=vs_memmove'])],
                deadline=dict(quick=400, thorough=3000)),
           # sequential family (harness/c05_seq.c): cheap, so it runs on every build variant and under AddressSanitizer
           dict(name='c05seq', src=['harness/c05_seq.c'], lib=['ringbuf.c'], workers=16, deadline=dict(quick=300, thorough=1800)),
           dict(name='c05seqasan', variant='gcc -O1 AddressSanitizer', src=['harness/c05_seq.c'], lib=['ringbuf.c'], workers=16,
                cflags=['-O1', '-fsanitize=address', '-fsanitize-recover=address', '-fno-omit-frame-pointer', '-DC05_ASAN'],
                deadline=dict(quick=300, thorough=1800))],
    rule='stateless exploration of every schedule of the real ringbuf.c (compiled with -fsanitize=thread against the '
         'replacement runtime engine/vsched.c: a scheduling point before every atomic operation, interrupt handlers injected '
         'as nested run-to-completion calls, spins made blocking), depth-first over choice sequences with a visited set of '
         'complete-state hashes (registered memory + observation history of every live context + ghost monitor); each execution '
         'is checked against a FIFO ghost model (values, order, fails-only-if-full/empty, bounds); states = distinct hashed '
         'states at choice points, transitions = scheduling steps + injected interrupts, traces = executions run on the real code',
    bounds=dict(quick='buf_len 2..4, every start index, 1..4 bytes (0xff 0x00 0x80 0x7f), producer retry / give-up / putchar, consumer '
                      'get-until / fixed empty+get attempts; two free threads, consumer-main with producer interrupts, producer-main '
                      'with consumer interrupts: ALL interleavings (no preemption bound; termination by state hashing)',
                thorough='buf_len 2..6, 1..5 bytes, same topologies, all interleavings'),
    assumptions=['sequentially consistent interleavings at atomic-operation granularity; justified for weak memory by the '
                 'data-race check of C07 over the same scenarios', 'one producer and one consumer context (the documented usage)',
                 'state-hash pruning trusts the 128-bit hash'],
    technique='stateless model checking of the implementation: exhaustive schedule enumeration (DFS over scheduling choices with state-hash pruning) under a controlled scheduler',
    level_text='Every interleaving (threads) and every interrupt placement of the listed one-producer/one-consumer scenarios is executed '
               'on the real ringbuf.c; each is compared with a FIFO model including the fails-only-if clauses and storage bounds.',
    level_note='Trusted: engine/vsched.c (scheduler, TSan-ABI runtime), the ghost FIFO oracle, gcc -fsanitize=thread instrumentation.',
    design_ref='DESIGN.md sections 2.2 and 4 (C05)',
)

# build variants (bin/checks.py): only -DNDEBUG (side effects inside assert) - the schedule exploration is too expensive to repeat on every build
CHECK['variants'] = [('c05', ['gcc -O2 -DNDEBUG']), 'c05seq']
CHECK['variant_tiers'] = {'gcc -O2 -DNDEBUG': ('quick', 'thorough')}
CHECK['variant_unsigned_char'] = True

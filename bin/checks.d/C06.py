CHECK = dict(
    level='model_checking', engine='vsched',
    parts=[dict(name='c06', src=['harness/c06_fibre.c'], cflags=['-DPROP=6', '-Wno-format-truncation'], workers=64,
                objs=[('@VERIF@/harness/c06_scn.c', ['-fsanitize=thread', '-Dmemset=vs_memset', '-Dmemcpy=vs_memcpy', '-Dmemmove=vs_memmove'])], objs_lib=True,
                deadline=dict(quick=400, thorough=3000))],
    rule='stateless exploration of the real fibre.c/list.c/messageq.c (compiled with -fsanitize=thread against engine/vsched.c): a '
         'scripted main loop (scheduler passes + main-context fibre_run/fibre_kill/fibre_run_atomic) over an event-handling fibre, a '
         'yielding fibre and a sleeping fibre, with every sequence of K interrupt-side calls (fibre_run_atomic on each fibre, '
         'fibre_eventq_claim+fill+send) injected as nested run-to-completion handlers before every atomic operation of the main '
         'context, or run as free threads; DFS over choice sequences with a visited set of complete-state hashes; every execution is '
         'checked against a ghost model of pending reasons and sent events (no lost or duplicated wake-up or event, no spurious '
         'dispatch, queues well-formed at every pass boundary); states = distinct hashed states at choice points',
    bounds=dict(quick='7 main-loop situations x every sequence of 1..2 interrupt-side actions from 5 kinds x nesting 1..2: ALL placements; '
                      'the same as free threads with <=2 preemptions for 4 situations; depth-1 event queue and nearly full atomic run '
                      'queue (6,7 pre-filled) variants; an event queue 3 deep whose cursors have been through 254/255/256 real '
                      'claim/send/receive/release cycles before 2 events arrive; settle phase of up to 12 further passes',
                thorough='adds every sequence of 3 interrupt-side actions (<=3 deviations) for 3 situations, free threads with <=3 preemptions'),
    assumptions=['interrupt handlers run to completion and nest at most 2 deep; injection points are the atomic operations of the main '
                 'context (sufficient for data-race-free code, checked by C07 on the same scenarios)',
                 'a run request that races with a main-context fibre_kill may or may not survive (the statement leaves it open)',
                 'sequential exactness of the dispatch order is C01; here only reasons-based necessity and sufficiency are checked'],
    technique='stateless model checking of the implementation: exhaustive enumeration of interrupt placements and preemption-bounded thread schedules under a controlled scheduler, with state-hash pruning',
    level_text='Every placement of up to 2 (thorough: 3) interrupt-context calls, nested to depth 2, between any two atomic operations of '
               'the main-context scheduler and fibre code is executed on the real code for the listed situations and checked for lost / '
               'duplicated wake-ups and events and for queue corruption; the free-thread variant is preemption-bounded.',
    level_note='Trusted: engine/vsched.c, the ghost reasons/events oracle, gcc -fsanitize=thread instrumentation.',
    design_ref='DESIGN.md sections 2.2 and 4 (C06)',
)

# build variants (bin/checks.py): only -DNDEBUG (side effects inside assert) - the schedule exploration is too expensive to repeat on every build
CHECK['variants'] = ['c06']
CHECK['variant_tiers'] = {'gcc -Os': (), 'gcc -O0': (), 'clang -O2': (), 'gcc -O2 -DNDEBUG': ('quick',)}

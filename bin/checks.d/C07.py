CHECK = dict(
    level='model_checking', engine='vsched',
    parts=[dict(name='c07rb', src=['harness/c05_ringbuf.c'], cflags=['-DC07', '-Wno-format-truncation'], workers=64,
                objs=[('@VERIF@/harness/c05_scn.c', ['-fsanitize=thread', '-Dmemset=vs_memset', '-Dmemcpy=vs_memcpy', '-Dmemmove=vs_memmove'])], deadline=dict(quick=400, thorough=3000)),
           dict(name='c07mq', src=['harness/c04_messageq.c'], cflags=['-DC07', '-Wno-format-truncation'], workers=64,
                objs=[('@VERIF@/harness/c04_scn.c', ['-fsanitize=thread', '-Dmemset=vs_memset', '-Dmemcpy=vs_memcpy', '-Dmemmove=vs_memmove'])], deadline=dict(quick=400, thorough=3000)),
           dict(name='c07fb', src=['harness/c06_fibre.c'], cflags=['-DC07', '-DPROP=6', '-Wno-format-truncation'], workers=64,
                objs=[('@VERIF@/harness/c06_scn.c', ['-fsanitize=thread', '-Dmemset=vs_memset', '-Dmemcpy=vs_memcpy', '-Dmemmove=vs_memmove'])], objs_lib=True, deadline=dict(quick=400, thorough=3000)),
           # not a deciding step: the ring buffer and message queue bodies as real free-running pthreads under the real
           # ThreadSanitizer runtime for a few seconds, as an independent cross-check of the detector (thorough tier only)
           dict(name='c07tsan', src=['harness/c07_tsan_free.c'], cflags=['-fsanitize=thread', '-pthread', '-O1'], workers=1,
                tiers=('thorough',), deadline=dict(thorough=60))],
    rule='every execution explored for C04, C05 and C06 (same scenario sets, same explorer) with a vector-clock happens-before '
         'detector: the clocks are computed only from the memory-order argument compiled into each executed atomic operation '
         '(release store / RMW publishes, acquire load / RMW joins, relaxed operations only through fences, a relaxed store ends a '
         'release sequence, atomic_signal_fence orders nothing between threads); every plain access to registered shared memory '
         '(queue descriptors, storage, scheduler state, fibres) is checked against the last conflicting accesses of every other '
         'context; scheduler hand-offs add no edges. The state hash includes rank-compressed clocks, so two executions are merged '
         'only if every future happens-before comparison has the same outcome',
    bounds=dict(quick='the quick scenario sets of C04, C05 and C06', thorough='the thorough scenario sets of C04, C05 and C06'),
    assumptions=['interrupt handler invocations together form one logical interrupt-side thread (they are totally ordered on the '
                 'interrupted core); it is unordered with the main context except through the program\'s atomics',
                 'the clause "long randomised real-thread runs under ThreadSanitizer" of the quantifier is sampling and is not a '
                 'deciding step of this check',
                 'weak-memory behaviours of racy programs are not explored (no such checker installed); the property only needs '
                 'data-race-freedom, which is what is decided'],
    technique='stateless model checking of the implementation with an in-runtime vector-clock data-race detector over all explored schedules',
    level_text='For every schedule explored for C04-C06 the happens-before relation induced by the compiled memory orders is computed and '
               'every plain access to shared memory is checked for an unordered conflicting access; evidence tabulates every atomic '
               'operation executed by location and memory order.',
    level_note='Trusted: engine/vsched.c (clock algebra, shadow memory), gcc -fsanitize=thread instrumentation reporting every plain access.',
    design_ref='DESIGN.md sections 2.2 and 4 (C07)',
)

# build variants (bin/checks.py): only -DNDEBUG (side effects inside assert) - the schedule exploration is too expensive to repeat on every build
CHECK['variants'] = [('c07rb', ['gcc -O2 -DNDEBUG', 'gcc -Os']), ('c07mq', ['gcc -O2 -DNDEBUG']), ('c07fb', ['gcc -O2 -DNDEBUG'])]
CHECK['variant_tiers'] = {'gcc -O2 -DNDEBUG': ('quick',), 'gcc -Os': ('quick', 'thorough')}
# the fallback definitions of <librfn/atomic.h> (compilers without <stdatomic.h>) are part of what the property is anchored in
for _p in list(CHECK['parts']):
    if _p['name'] in ('c07rb', 'c07mq'):
        _q = dict(_p); _q['name'] = _p['name'] + '_noatomics'; _q['variant'] = 'gcc -O2 -D__STDC_NO_ATOMICS__'
        _q['cflags'] = list(_p.get('cflags', [])) + ['-D__STDC_NO_ATOMICS__']
        if _p['name'] == 'c07mq': _q['tiers'] = ('thorough',)	# the message-queue exploration is the expensive one
        CHECK['parts'].append(_q)

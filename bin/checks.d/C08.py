import os, sys

SHARDS = 16

def _gen(repo, verif, bdir, tier):
    sys.path.insert(0, os.path.join(verif, 'harness'))
    import importlib, c08_gen
    importlib.reload(c08_gen)
    n = c08_gen.generate(bdir, 3, 2, SHARDS, extra_nodes=0 if tier == 'quick' else 4)
    open(os.path.join(bdir, 'c08_nprogs.txt'), 'w').write(str(n))

def _part(name, cc, opt, tiers):
    # -g0: the generated shards are large (thorough: 16 MB each); at -O1 gcc needs minutes per thorough shard, so the
    # thorough tier compiles at -O0 with both compilers and the quick tier at -O1 with gcc
    return dict(name=name, cc=cc, src=['harness/c08_protothreads.c'], workers=16, prebuild=_gen, tiers=tiers,
                objs=[('@BUILD@/c08_progs_%d.c' % i, [opt, '-g0', '-w', '-I@VERIF@/harness']) for i in range(SHARDS)] +
                     [('@BUILD@/c08_progs_%d.c' % i, [opt, '-g0', '-w', '-I@VERIF@/harness'], '@BUILD@/c08_progs_%d_empty.c' % i,
                       'the programs with an unbraced "if (c) PT_x(); else PT_y();"') for i in range(SHARDS, SHARDS + 2)],
                deadline=dict(quick=200, thorough=2400))

CHECK = dict(
    level='exploration',
    parts=[_part('c08', 'gcc', '-O1', ('quick',)), _part('c08gcc', 'gcc', '-O0', ('thorough',)), _part('c08clang', 'clang', '-O0', ('thorough',))],
    rule='every protothread body with at most N statements (yield, wait, wait_until, exit, fail, exit_on, fail_on, PT_SPAWN / '
         'PT_SPAWN_AND_CHECK / PT_CALL / PT_SPAWN+PT_CHILD_OK of six fixed children two of which spawn children themselves, '
         'if/else and for-loops over persistent variables nested up to 2 deep, and the unbraced forms "if (c) PT_x();", "if (c) PT_x(); else PT_y();", "for (...) PT_x();") is generated at build time as C using the real PT_* '
         'macros of the current protothreads.h and compiled; for every program every environment-answer script with at most D '
         'departures from "true" is enumerated (DFS over consumed positions) and the function is invoked until it exits, then '
         'restarted after PT_INIT; each invocation is compared (return code, side effects, conditions evaluated, loop variables) '
         'with an interpreter of a flat instruction table generated from the same AST; distinct = distinct (program, sequence of return codes and effects) '
         'pairs, counted with a hash set',
    bounds=dict(quick='N = 3 statements (about 60 000 programs; exit_on/fail_on also with a double-typed condition), D = 3 departures, gcc',
                thorough='N = 3 over the full alphabet plus N = 4 over a reduced alphabet of 8 statement kinds, D = 4 departures, compiled with gcc and with clang'),
    assumptions=['scope of the quantifier: one PT_* blocking macro per source line, none inside a nested switch, PT_CHILD_OK consulted '
                 'before the next blocking point, re-invocation after exit only following PT_INIT',
                 'PT_CALL is checked for what the header defines (child restarted and run to completion inside one invocation); '
                 'it is not required to set PT_CHILD_OK', 'children come from a fixed pool of six bodies'],
    technique='bounded-exhaustive enumeration of programs x environment answer scripts (deviation-bounded), differential against a reference interpreter',
    level_text='All protothread bodies up to the size bound, each under all environment scripts up to the deviation bound, are executed '
               'through the real macros and compared invocation by invocation with an independent interpreter.',
    level_note='Trusted: c08_gen.py (the C emitter and the table emitter are generated from one AST but by separate code paths) and the '
               '60-line interpreter. Program size and deviation bounds as stated.',
    design_ref='DESIGN.md section 4 (C08)',
)

CHECK = dict(
    level='model_checking',
    parts=[dict(name='c09', src=['harness/c09_list.c'], lib=['list.c'], workers=16,
                deadline=dict(quick=300, thorough=1800))],
    rule='explicit-state BFS to a fixpoint over (2 lists, node pool with duplicate keys, one iterator per list) driving '
         'the real list.c; every transition = one list operation applied to the implementation and to an array model, '
         'followed by a full traversal comparison; a state is distinct when its raw image (list heads, stale tails, node '
         'links, iterator internals, model, and every static of list.c - it is linked as an object of its own whose writable '
         'sections are part of each snapshot) differs. The API part of the observation runs on the live state, which is put back '
         'afterwards, so an observation cannot repair what an operation left behind. Long-list family (counted under traces): '
         'lengths {33,65,129,255,256,257,1000,65535,65536,65537} x built by tail insert / push / sorted insert (<= 1000) x 7 probe '
         'operations x positions {0,1,31,32,33,n/2,254..257,n-2,n-1}, each case built afresh and compared with an array model',
    bounds=dict(quick='node pools of 1..5 nodes (keys 1223, 221, 1111, 3211, 12, 1, 12233, 32121, and four 4-node pools whose key differences - the comparator results - are multiples of 2^8, of 2^16, change sign when narrowed, or need 31 bits): complete reachable state space',
                thorough='adds 6-node pools (122333, 321321): complete reachable state space'),
    assumptions=['scope: a node is never inserted while a member of a list; an iterator is used only until its list '
                 'is mutated by a non-iterator operation', 'one iterator per list',
                 'what a free node holds in its link field is not judged (reusability is decided by reusing it)'],
)
CHECK.update(
    technique='explicit-state model checking: BFS to a fixpoint over operation histories of the real list.c against an array model',
    level_text='Complete reachable state space of (2 lists x node pool up to 5 nodes (6 in thorough) x one iterator per '
               'list) under all 11 list operations, each transition executed on the real list.c and compared with an '
               'abstract sequence (full traversal + every return value). Histories of every length are covered for '
               'these universes because the search reaches a fixpoint.',
    level_note='Trusted: the array model and the harness scope guards (no double insertion, iterator invalidated by '
               'foreign mutation). Universe bounded to 6 nodes / 2 lists / 1 iterator per list.',
    design_ref='DESIGN.md section 4, C09',
)

CHECK['variants'] = ['c09']

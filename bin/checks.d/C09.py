CHECK = dict(
    level='model_checking',
    parts=[dict(name='c09', src=['harness/c09_list.c'], workers=8,
                deadline=dict(quick=120, thorough=900))],
    rule='explicit-state BFS to a fixpoint over (2 lists, node pool with duplicate keys, one iterator per list) driving '
         'the real list.c; every transition = one list operation applied to the implementation and to an array model, '
         'followed by a full traversal comparison; a state is distinct when its raw image (list heads, stale tails, node '
         'links, iterator internals, model) differs',
    bounds=dict(quick='node pools of 1..5 nodes (keys 1223, 221, 1111, 3211, 12, 1, 12233, 32121, and four 4-node pools whose key differences - the comparator results - are multiples of 2^8, of 2^16, change sign when narrowed, or need 31 bits): complete reachable state space',
                thorough='adds 6-node pools (122333, 321321): complete reachable state space'),
    assumptions=['scope: a node is never inserted while a member of a list; an iterator is used only until its list '
                 'is mutated by a non-iterator operation', 'one iterator per list'],
)
CHECK.update(
    technique='explicit-state model checking: BFS to a fixpoint over operation histories of the real list.c against an array model',
    level_text='Complete reachable state space of (2 lists x node pool up to 5 nodes (6 in thorough) x one iterator per '
               'list) under all 11 list operations, each transition executed on the real list.c and compared with an '
               'abstract sequence (full traversal + every return value). Histories of every length are covered for '
               'these universes because the search reaches a fixpoint.',
    level_note='Trusted: the array model and the harness scope guards (no double insertion, iterator invalidated by '
               'foreign mutation). Universe bounded to 6 nodes / 2 lists / 1 iterator per list.',
    design_ref='DESIGN.md section 4, C09',
)

# build variants: the same enumeration on other builds of the librfn sources (conditional code such as __OPTIMIZE_SIZE__ /
# __OPTIMIZE__ / __clang__, and compiler-dependent arithmetic, show only there); counted separately by the driver
def _variants(parts, names):
    out = []
    for p in parts:
        if p['name'] not in names:
            continue
        for tag, cc, flags, tiers in (('gcc -Os', 'gcc', ['-Os'], ('quick', 'thorough')), ('clang -O2', 'clang', [], ('thorough',))):
            q = dict(p)
            q['name'] = p['name'] + '_' + tag.split()[0] + tag.split()[1].strip('-')
            q['variant'] = tag
            q['cc'] = cc
            q['cflags'] = list(p.get('cflags', [])) + flags
            q['tiers'] = tiers
            out.append(q)
    return out
CHECK['parts'] = CHECK['parts'] + _variants(CHECK['parts'], ['c09'])
CHECK['bounds'] = dict((k, v + '; the whole enumeration repeated on a gcc -Os build' + (' and a clang -O2 build' if k == 'thorough' else '') + ' of the librfn sources (counted separately)') for k, v in CHECK['bounds'].items())

CHECK = dict(
    level='model_checking',
    parts=[dict(name='c09', src=['harness/c09_list.c'], workers=8,
                deadline=dict(quick=120, thorough=900))],
    rule='explicit-state BFS to a fixpoint over (2 lists, node pool with duplicate keys, one iterator per list) driving '
         'the real list.c; every transition = one list operation applied to the implementation and to an array model, '
         'followed by a full traversal comparison; a state is distinct when its raw image (list heads, stale tails, node '
         'links, iterator internals, model) differs',
    bounds=dict(quick='node pools of 1..4 nodes (keys 1223, 221, 1111, 3211, 12, 1): complete reachable state space',
                thorough='adds 5-node pools (12233, 32121): complete reachable state space'),
    assumptions=['scope: a node is never inserted while a member of a list; an iterator is used only until its list '
                 'is mutated by a non-iterator operation', 'one iterator per list'],
)
CHECK.update(
    technique='explicit-state model checking: BFS to a fixpoint over operation histories of the real list.c against an array model',
    level_text='Complete reachable state space of (2 lists x node pool up to 5 nodes (6 in thorough) x one iterator per '
               'list) under all 11 list operations, each transition executed on the real list.c and compared with an '
               'abstract sequence (full traversal + every return value). Histories of every length are covered for '
               'these universes because the search reaches a fixpoint.',
    level_note='Trusted: the array model and the harness scope guards (no double insertion, iterator invalidated by '
               'foreign mutation). Universe bounded to 6 nodes / 2 lists / 1 iterator per list.',
    design_ref='DESIGN.md section 4, C09',
)

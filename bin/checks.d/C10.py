import os

def _gen(repo, verif, bdir, tier):
    geoms = []
    for d in range(1, 33):
        for m in (1, 2, 3, 4, 7, 8, 12):
            for s in sorted({0, 1, m - 1}):
                if s < m:
                    geoms.append((d, m, s))
    # message sizes near the 16-bit limit of the descriptor: offsets beyond 64 KiB, slot arithmetic in 16/32 bits
    for d, m, sl in ((2, 65535, 0), (3, 32768, 0), (3, 40000, 1), (5, 16384, 3), (17, 4096, 0), (32, 4096, 1), (32, 2115, 0), (32, 65535, 0), (31, 2200, 7)):
        geoms.append((d, m, sl))
    with open(os.path.join(bdir, 'c10_geoms.h'), 'w') as f:
        for i, (d, m, s) in enumerate(geoms):
            f.write('static messageq_t sq_%d = MESSAGEQ_VAR_INIT(STATIC_BASE, %d, %d);\n' % (i, d * m + s, m))
        f.write('static const geom_t geoms[] = {\n')
        for i, (d, m, s) in enumerate(geoms):
            f.write(' { %d, %d, %d, &sq_%d },\n' % (d, m, s, i))
        f.write('};\n')

CHECK = dict(
    level='model_checking',
    parts=[dict(name='c10', src=['harness/c10_messageq.c'], workers=16, prebuild=_gen,
                deadline=dict(quick=150, thorough=1500))],
    rule='explicit-state BFS to a fixpoint, one run per geometry (depth, msg_len, slack) and constructor, driving the real '
         'messageq.c sequentially: claim / send (any claimed-unsent message) / receive / release (oldest held); each '
         'transition is compared with a per-slot status model (returned pointers, NULLs, messageq_empty, payload, guard and '
         'slack bytes); distinct = distinct raw (descriptor + model) images per geometry',
    bounds=dict(quick='9 geometries with message sizes 2115..65535 (storage beyond 64 KiB); depths 1..32 with msg_len 4 (slack 0,1,3) and all 7 message sizes x slacks at depths 1,2,3,8,31,32; '
                      'depth<=5: complete reachable space; depth 6..12: at most 3 claimed-unsent messages; depth>=13: at '
                      'most 2 claimed-unsent and 3 held; both constructors compared field by field for every geometry, '
                      'static twin explored for depth<=4 and 32',
                thorough='all 32 depths x msg_len {1,2,3,4,7,8,12} x slack {0,1,msg_len-1}; depth<=7: complete reachable space; depth 8..16: at most 4 claimed-unsent; depth>=17: at most 3 claimed-unsent and 5 held'),
    assumptions=['sequential use only (concurrency is C04)', 'releases follow receives in order (API rule)',
                 'for depth>5 the number of claimed-but-unsent (and for depth>12 held) messages is bounded as stated'],
    technique='explicit-state model checking: BFS to a fixpoint per queue geometry over the real messageq.c against a slot-status model',
    level_text='For every geometry the reachable state space of sequential claim/send/receive/release histories (sends '
               'reordered among claimed messages) is enumerated to a fixpoint on the real code and every returned pointer, '
               'NULL and messageq_empty answer compared with a bounded-FIFO model; both constructors are compared for every '
               'geometry. For depth > 5 the fixpoint is under a stated bound on outstanding unsent/held messages.',
    level_note='Trusted: the slot-status model. Depth > 5 restricted to <=3 (<=2 beyond 12) claimed-unsent messages.',
    design_ref='DESIGN.md section 4, C10',
)

CHECK['variants'] = ['c10']

import os

# ---- generator of c10_geoms.h: the geometries searched by BFS and their static-initialiser twins.
# A twin is one object `static messageq_t x = MESSAGEQ_VAR_INIT(<pointer expression>, <base_len expression>, <msg_len
# expression>)`. The three arguments are SPELLED in every way a caller may legally spell a constant: a literal, and an
# expression whose top-level operator comes from each precedence level of C at or below the operators a macro body can
# apply to an unparenthesised argument (cast, division): * / % + - << >> & ^ | ?: (and > == && || where the value is 1),
# sizeof and a cast. Every spelling is pinned to its intended value by a _Static_assert in the generated header (integers)
# or by a run-time comparison in the harness (pointers).

FULL_PRODUCT = [(3, 4, 1), (1, 1, 0), (2, 3, 2), (32, 4, 3), (5, 12, 11), (3, 40000, 1)]

# pointer spellings; c10_sa is a union { uint8_t b[]; uint32_t w[]; uint64_t q[]; }, every spelling means c10_sa.b + 64
PTR_FORMS = [
    ('macro', 'C10_STATIC_BASE'),
    ('add-u32', 'c10_sa.w + 16'),
    ('addr-of', '&c10_sa.b[64]'),
    ('add-sub-u64', 'c10_sa.q + 16 - 8'),
    ('cond', '1 ? (void *) (c10_sa.b + 64) : (void *) c10_sa.b'),
]


def _low(v):
    return v & -v


def _ctz(v):
    return (_low(v)).bit_length() - 1


def bl_forms(d, m, s, types):
    """spellings of base_len = d*m+s (the numerator of base_len / msg_len)"""
    v = d * m + s
    b = s if s else 1
    types.add(v); types.add(m)
    f = [('lit', '%d' % v), ('mul', '1 * %d' % v), ('div', '%d / 2' % (2 * v)), ('mod', '%d %% %d' % (2 * v + 1, v + 1)),
         ('add', '%d + %d' % (v - b, b)), ('sub', '%d - %d' % (v + m, m)), ('shl', '%d << %d' % (v >> _ctz(v), _ctz(v))),
         ('shr', '%d >> 1' % (2 * v)), ('and', '%d & 16777215' % v), ('xor', '%d ^ 16777216' % (v ^ 16777216)),
         ('or', '%d | %d' % (v & ~_low(v), _low(v))), ('cond', '1 ? %d : 1' % v), ('sizeof', 'sizeof(c10_ty_%d)' % v),
         ('cast', '(size_t) %d' % v), ('n-sizeof-plus', '%d * sizeof(c10_ty_%d) + %d' % (d, m, s))]
    if v == 1:
        f += [('rel', '2 > 1')]
    return f


def ml_forms(v, types):
    """spellings of msg_len = v (the denominator); the first operand is never 0 so that a macro that drops its
    parentheses miscomputes instead of dividing by zero at compile time"""
    types.add(v)
    f = [('lit', '%d' % v), ('mul', '1 * %d' % v), ('div', '%d / 2' % (2 * v)), ('mod', '%d %% %d' % (3 * v + 1, 2 * v + 1)),
         ('add', '1 + %d' % (v - 1)), ('sub', '%d - 1' % (v + 1)), ('shl', '%d << %d' % (v >> _ctz(v), _ctz(v))),
         ('shr', '%d >> 1' % (2 * v)), ('and', '65535 & %d' % v), ('xor', '%d ^ 65536' % (v ^ 65536)),
         ('or', '%d | %d' % (v, _low(v))), ('cond', '1 ? %d : %d' % (v, v + 1)), ('sizeof', 'sizeof(c10_ty_%d)' % v),
         ('cast', '(uint16_t) %d' % v)]
    if v == 1:
        f += [('rel', '2 > 1'), ('eq', '1 == 1'), ('land', '1 && 1'), ('lor', '1 || 0')]
    return f


def geometries():
    geoms = []
    for d in range(1, 33):
        for m in (1, 2, 3, 4, 7, 8, 12):
            for s in sorted({0, 1, m - 1}):
                if s < m:
                    geoms.append((d, m, s))
    # message sizes up to the 16-bit limit of the descriptor: offsets beyond 64 KiB, slot arithmetic in 16/32 bits
    geoms += [(2, 65535, 0), (3, 32768, 0), (3, 40000, 1), (5, 16384, 3), (17, 4096, 0), (32, 4096, 1), (32, 2115, 0),
              (32, 65535, 0), (31, 2200, 7),
              (4, 40000, 0), (7, 24000, 5), (14, 7000, 0), (9, 5000, 1), (32, 3000, 0), (32, 10000, 3), (32, 50000, 1)]
    return geoms


MAXD, MAXM = 32, 65535      # depths of the statement; largest message size enumerated


def _gen(repo, verif, bdir, tier):
    """c10_types.h (shared declarations), c10_geoms.h (geometry table + the plain twin of every geometry, part of the
    harness translation unit) and one optional compile unit per base_len spelling class, c10_spelled_<k>.c, each with an
    empty stand-in c10_spelled_<k>_empty.c: a header under which one legal spelling no longer compiles must not take the
    whole check down (bin/check compiles the stand-in, says so in a note and stops calling the run exhaustive)."""
    geoms = geometries()
    types = set()
    nb = len(bl_forms(1, 1, 0, set()))          # the largest number of base_len spellings (value 1 has all of them)
    units = [[] for _ in range(nb)]             # per base_len spelling class: (geometry index, ptr, bl, ml)
    for gi, (d, m, s) in enumerate(geoms):
        B, M = bl_forms(d, m, s, types), ml_forms(m, types)
        if (d, m, s) in FULL_PRODUCT:
            k = 0
            for bi, b in enumerate(B):
                for q in M:
                    units[bi].append((gi, PTR_FORMS[k % len(PTR_FORMS)], b, q))
                    k += 1
        else:
            # one rotating combination of spellings
            bi = gi % len(B)
            units[bi].append((gi, PTR_FORMS[gi % len(PTR_FORMS)], B[bi], M[(gi * 7 + gi // len(B)) % len(M)]))
    with open(os.path.join(bdir, 'c10_types.h'), 'w') as f:
        f.write('#ifndef C10_TYPES_H_\n#define C10_TYPES_H_\n#include <stddef.h>\n#include <stdint.h>\n#include <librfn/messageq.h>\n')
        f.write('#define C10_MAXD %d\n#define C10_MAXM %d\n' % (MAXD, MAXM))
        f.write('#define C10_ARENA_MAX ((C10_MAXD + 1) * C10_MAXM + 16)\n')
        f.write('typedef union { uint8_t b[C10_ARENA_MAX + 192]; uint32_t w[(C10_ARENA_MAX + 192) / 4]; uint64_t q[(C10_ARENA_MAX + 192) / 8]; } c10_sa_t;\n')
        f.write('extern c10_sa_t c10_sa;\n#define C10_STATIC_BASE (c10_sa.b + 64)\n')
        f.write('typedef struct { messageq_t *obj; const char *text; int geom; } c10_twin_t;\n')
        f.write('typedef struct { int d, m, s; } c10_geom_t;\n')
        f.write('typedef struct { const c10_twin_t *t; int n; const char *what; } c10_unit_t;\n')
        for v in sorted(types):
            f.write('typedef uint8_t c10_ty_%d[%d];\n' % (v, v))
        f.write('#endif\n')
    for k, tw in enumerate(units):
        with open(os.path.join(bdir, 'c10_spelled_%d.c' % k), 'w') as f:
            f.write('#include "c10_types.h"\n')
            for j, (gi, p, b, q) in enumerate(tw):
                d, m, s = geoms[gi]
                f.write('_Static_assert((%s) == %d && (%s) == %d, "generator: spelling does not mean its value");\n' % (b[1], d * m + s, q[1], m))
                f.write('static messageq_t c10_u%d_%d = MESSAGEQ_VAR_INIT(%s, %s, %s);\n' % (k, j, p[1], b[1], q[1]))
            f.write('const c10_twin_t c10_spelled_%d[] = {\n' % k)
            for j, (gi, p, b, q) in enumerate(tw):
                f.write(' { &c10_u%d_%d, "MESSAGEQ_VAR_INIT(%s, %s, %s)", %d },\n' % (k, j, p[1], b[1], q[1], gi))
            f.write(' { NULL, NULL, -1 }\n};\nconst int c10_spelled_%d_n = %d;\n' % (k, len(tw)))
        with open(os.path.join(bdir, 'c10_spelled_%d_empty.c' % k), 'w') as f:
            f.write('#include "c10_types.h"\nconst c10_twin_t c10_spelled_%d[] = { { NULL, NULL, -1 } };\nconst int c10_spelled_%d_n = 0;\n' % (k, k))
    with open(os.path.join(bdir, 'c10_geoms.h'), 'w') as f:
        for gi, (d, m, s) in enumerate(geoms):
            f.write('static messageq_t c10_plain_%d = MESSAGEQ_VAR_INIT(C10_STATIC_BASE, %d, %d);\n' % (gi, d * m + s, m))
        f.write('static const c10_twin_t c10_plain[] = {\n')
        for gi, (d, m, s) in enumerate(geoms):
            f.write(' { &c10_plain_%d, "MESSAGEQ_VAR_INIT(C10_STATIC_BASE, %d, %d)", %d },\n' % (gi, d * m + s, m, gi))
        f.write('};\nstatic const c10_geom_t c10_geoms[] = {\n')
        for (d, m, s) in geoms:
            f.write(' { %d, %d, %d },\n' % (d, m, s))
        f.write('};\n#define C10_UNITS %d\nstatic c10_unit_t c10_units[C10_UNITS];\n' % nb)
        for k in range(nb):
            f.write('extern const c10_twin_t c10_spelled_%d[]; extern const int c10_spelled_%d_n;\n' % (k, k))
        f.write('static void c10_units_init(void)\n{\n')
        tags = [t for t, _ in bl_forms(1, 1, 0, set())]
        for k in range(nb):
            f.write('\tc10_units[%d] = (c10_unit_t){ c10_spelled_%d, c10_spelled_%d_n, "base_len spelled with %s" };\n' % (k, k, k, tags[k]))
        f.write('}\nstatic uint8_t *c10_ptr_form(int k)\n{\n\tswitch (k) {\n')
        for k, (tag, text) in enumerate(PTR_FORMS):
            f.write('\tcase %d: return (uint8_t *) (%s);\n' % (k, text))
        f.write('\t}\n\treturn NULL;\n}\n#define C10_PTR_FORMS %d\n' % len(PTR_FORMS))


N_UNITS = len(bl_forms(1, 1, 0, set()))
SPELLED_OBJS = [('@BUILD@/c10_spelled_%d.c' % k, [], '@BUILD@/c10_spelled_%d_empty.c' % k,
                 'the static twins whose base_len argument is spelled with "%s"' % bl_forms(1, 1, 0, set())[k][0])
                for k in range(N_UNITS)]

# on an oversubscribed machine the global deadline can be stretched: VERIF_DEADLINE_SCALE=4 bin/check C10
_SCALE = float(os.environ.get('VERIF_DEADLINE_SCALE', '1') or 1)

CHECK = dict(
    level='model_checking',
    parts=[dict(name='c10', src=['harness/c10_messageq.c'], lib=['messageq.c'], objs=SPELLED_OBJS, workers=16, prebuild=_gen,
                deadline=dict(quick=600 * _SCALE, thorough=3000 * _SCALE))],
    rule='four families, all driving the real messageq.c (linked as an object of its own; the harness sees the public header '
         'only) sequentially and all judged by one oracle: a per-slot status model (free/claimed/sent/held, three cyclic '
         'cursors; the first buffer a fresh queue hands out fixes where the cycle starts) against every returned pointer, NULL, '
         'messageq_empty answer, the payload of owned slots, the slack and the guard bytes. (A) explicit-state BFS to a '
         'fixpoint, one search per geometry (depth, msg_len, slack), alphabet claim / send (any claimed-unsent message) / '
         'receive / release (oldest held) / messageq_init again on the used descriptor; the descriptor handed to messageq_init '
         'is filled with 0x00, 0xFF and 0xA5 first (an image the first search has visited is not searched again). (B) static '
         'initialiser: for every geometry a plain MESSAGEQ_VAR_INIT object plus objects whose arguments are spelled as '
         'expressions - base_len and msg_len with a top-level operator of every class * / % + - << >> & ^ | ?: (> == && || for '
         'the value 1), sizeof, a cast, n*sizeof(T)+slack; the storage pointer as a parenthesised macro, &array[i], unparenthesised '
         'pointer sums over uint32_t and uint64_t views and a conditional; every spelling is pinned to its value by _Static_assert. '
         'A twin whose image is byte-identical to what messageq_init builds is equivalent; any other image is searched like (A) in '
         'place; the plain twin of depths <= 4 and 32 is searched anyway. (C) counter start states: N real '
         'claim-send-receive-release cycles, each compared, with N on both sides of 2^8 and 2^16 (thorough: also 2^31 and 2^32); '
         'at each N the image must be one search (A) visited, else a search starts there. (D) geometry sweep: one fixed history '
         'of 9*depth+6 operations (fill, overfull claim, send+receive one by one, rotate, fill across the wrap, send newest first, '
         'drain) per case. states/transitions = BFS; traces = BFS transitions + sweep operations; a state is distinct by its raw '
         '(descriptor + model + library statics) image within one search',
    bounds=dict(quick='(A) 16 geometries with message sizes 2115..65535 (storage beyond 64 KiB); depths 1..32 with msg_len 4 (slack 0,1,3) and all 7 message '
                      'sizes {1,2,3,4,7,8,12} x slacks {0,1,msg_len-1} at depths 1,2,3,8,31,32; depth<=5: complete reachable space; depth 6..12: at '
                      'most 3 claimed-unsent messages; depth>=13: at most 2 claimed-unsent and 3 held. (B) all 592 geometries of the thorough tier: plain twin + one '
                      'rotating spelling; 6 geometries x full product (15-16 base_len spellings x 14-18 msg_len spellings, pointer spelling '
                      'rotating). (C) depths 1..32 at msg_len 4 slack 1: N in {254,255,256,257,65534,65535,65536,65537}. (D) every msg_len '
                      '1..65535 at depth 32, and depths 1..31 for msg_len <= 16, 2^k-1 / 2^k / 2^k+1 (k <= 16) and {100,1000,2114,2115,3000,5000,7000,'
                      '10000,24000,40000,50000,65534}; slack 0 and msg_len-1',
                thorough='(A) all 32 depths x msg_len {1,2,3,4,7,8,12} x slack {0,1,msg_len-1} + the 16 large geometries; depth<=7: complete '
                         'reachable space; depth 8..16: at most 4 claimed-unsent; depth>=17: at most 3 claimed-unsent and 5 held. (B) as quick. '
                         '(C) as quick, and for depth 3 on to N in {2^31-2..2^31+1, 2^32-2..2^32+1} (4.3e9 real cycles, every one compared). (D) every '
                         'msg_len 1..65535 at every depth 1..32, slack 0 and msg_len-1'),
    assumptions=['sequential use only (concurrency is C04)', 'releases follow receives in order (API rule)',
                 'for depth>5 the number of claimed-but-unsent (and for depth>12 held) messages in the BFS is bounded as stated',
                 'message sizes up to 65535 (the width of the descriptor field today)',
                 'counters wider than 32 bits cannot be driven to their wrap by real calls; a 2^32 wrap only in the thorough tier and at depth 3',
                 'where the cycle of buffers starts on a fresh queue is not judged; two constructors "describe the same queue" when both '
                 'conform to the same model from their first operation on (raw state-graph sizes are reported, not judged)'],
    technique='explicit-state model checking: BFS to a fixpoint per queue geometry over the real messageq.c against a slot-status model, '
              'plus exhaustive enumeration of scripted histories over all message sizes and of argument spellings of the static initialiser',
    level_text='For every geometry the reachable state space of sequential claim/send/receive/release/re-init histories (sends '
               'reordered among claimed messages) is enumerated to a fixpoint on the real code and every returned pointer, '
               'NULL and messageq_empty answer compared with a bounded-FIFO model; the static initialiser is instantiated with '
               'literal and expression arguments of every operator class and compared with messageq_init for every geometry; '
               'every message size 1..65535 is swept with a fixed wrap-crossing history; cursor counters are driven by real calls '
               'across 2^8 and 2^16 at every depth (2^31 and 2^32 at depth 3 in the thorough tier). For depth > 5 the fixpoint is under a stated bound on '
               'outstanding unsent/held messages.',
    level_note='Trusted: the slot-status model. Depth > 5 restricted to <=3 (<=2 beyond 12) claimed-unsent messages in the BFS.',
    design_ref='DESIGN.md section 4, C10',
)

CHECK['variants'] = ['c10']

CHECK = dict(
    level='exploration',
    parts=[dict(name='c11', src=['harness/c11_bintree.c'], workers=16,
                deadline=dict(quick=240, thorough=1500))],
    rule='every binary tree shape with 0..N nodes is produced by Catalan unranking (a hash set confirms the shapes are '
         'pairwise distinct and their number equals the Catalan sum), built into a byte arena and handed to the real '
         'bintree.c (compiled directly, it is not in librfn.a). One evaluation = one operation on one tree: an in-/pre-/'
         'post-order iteration stepped with bintree_next to NULL (or j nodes followed by bintree_iterate_complete), a '
         'bintree_free / bintree_free_left / bintree_free_right call with a logging deallocator, or one list iteration '
         'of a spine. Oracles: returned sequence == recursive traversal of the harness\'s own shape arrays AND == '
         'librfn\'s bintree_traverse_*; arena bytes after completion == before; deallocation log = exactly the nodes '
         'of the subtree, once each, children before parents; link of the parent NULL after free_left/right; '
         'deallocated nodes are poisoned with an odd pointer into an inaccessible page (main pass) or their page is '
         'revoked with mprotect (guard pass), so following a stale link / any access faults. distinct_nontrivial = '
         'number of distinct (pass, layout, operation, shape, observed sequence) tuples of operations applied at the '
         'root of a tree with >= 2 nodes (plus the list cases), counted with a 128-bit hash set; operations rooted at '
         'inner nodes and trees with < 2 nodes are evaluations but not counted as distinct.',
    bounds=dict(
        quick='ALL shapes with 0..12 nodes (290 512 shapes) x {3 iterators, free, free_left, free_right} at the root, '
              '8-byte aligned nodes; additionally for <= 10 nodes an under-aligned layout (stride 18, addresses 2 mod 4), '
              'for <= 9 nodes every node as root of every operation, "j nodes then bintree_iterate_complete" for every j, '
              'and the guard-page pass (page revoked on dealloc) for the three free variants at every node; list spines '
              'left/right-leaning of length 1..12 with leaf and with inner-node elements',
        thorough='ALL shapes with 0..15 nodes (13 402 697 shapes), same operations; under-aligned layout <= 13 nodes; every '
                 'node as root, complete-after-j and guard-page pass <= 12 nodes; list spines of length 1..32'),
    assumptions=[
        'scope: well-formed trees (no sharing, no cycles), nodes at least 2-byte aligned (both an 8-aligned and a '
        '2-mod-4 placement are enumerated), one iterator at a time, no mutation by the caller during iteration other '
        'than the deallocation done by bintree_free itself',
        'bintree_free_left/right are only called on an existing node (they dereference it); the empty tree is '
        'covered for the iterators and bintree_free',
        '"never reads a node after it has been deallocated" is observed exactly (revoked page, any load or store faults) '
        'for trees up to the guard-pass bound; above it only through its consequences (following the poisoned link '
        'faults, a store into the poisoned node is seen, the deallocation log goes wrong). A store into a deallocated '
        'node is reported under the same clause as a read.',
        'the statement\'s "larger random and degenerate shapes sampled" part is not implemented (technique family is '
        'exhaustive enumeration only); maximal left/right spines and zig-zags up to the node bound are part of the '
        'enumerated set',
        'list clause: spines exactly as in the header comment (list nodes form one left- or one right-leaning chain, '
        'every other child is an element for which is_list() is false); mixed-direction list trees are outside the '
        'statement and not generated',
        'x86-64 only: the under-aligned placement relies on the CPU accepting unaligned pointer loads',
    ],
)
CHECK.update(
    technique='bounded-exhaustive enumeration of all binary tree shapes up to a node bound (Catalan unranking) driving the '
              'real bintree.c, compared with an independent recursive reference, with byte-image, deallocation-log, '
              'poison and revoked-page oracles',
    level_text='Every binary tree shape with at most 12 nodes (15 in the thorough tier), including the empty tree, single '
               'nodes and all maximally unbalanced trees, is run through the three threaded iterators and the three free '
               'variants of the real bintree.c; order is compared with an independent recursive traversal and with '
               'librfn\'s own recursive traversals, the byte image of all nodes is compared before/after, and the '
               'deallocator log is checked for exactly-once, children-first and no access after deallocation (page '
               'revoked per node for shapes up to 9 (12) nodes). List iterator versus bintree_traverse_list on all '
               'left/right spines of length 1..12 (32). Exhaustive for the stated bounds, nothing sampled.',
    level_note='Bounded: trees above the node bound are not examined (the algorithms have no size-dependent branches, but '
               'that is an argument, not a check). Read-after-dealloc is exact only up to the guard-pass bound. Trusted: '
               'the shape unranking (cross-checked by the distinct-shape count == Catalan sum) and the 20-line recursive '
               'reference traversals.',
    design_ref='DESIGN.md section 4, C11',
)

CHECK['variants'] = ['c11']

import os


def _gen(repo, verif, bdir, tier):
    # the typed-wrapper instantiation is a compile unit of its own (the harness file compiled a second time): if the
    # current BINTREE_DECLARE_INLINE_WRAPPERS no longer accepts it, the stub is compiled instead, the driver says so and
    # the run is not called exhaustive - the rest of the check still gives its verdict
    open(os.path.join(bdir, 'c11_wrap.c'), 'w').write('#define C11_WRAPPER_UNIT 1\n#include "c11_bintree.c"\n')
    open(os.path.join(bdir, 'c11_wrap_stub.c'), 'w').write('#define C11_WRAPPER_STUB 1\n#include "c11_bintree.c"\n')


CHECK = dict(
    level='exploration',
    parts=[dict(name='c11', src=['harness/c11_bintree.c'], lib=['bintree.c'], workers=16, prebuild=_gen,
                objs=[('@BUILD@/c11_wrap.c', [], '@BUILD@/c11_wrap_stub.c',
                       'the BINTREE_DECLARE_INLINE_WRAPPERS instantiation (wrapper-against-plain-function differential)')],
                deadline=dict(quick=300, thorough=2700))],
    rule='five passes over the real bintree.c (not in librfn.a; the driver compiles it as an object of its own, so no harness '
         'identifier shares a translation unit with it and a static it may grow is part of the resettable library image). MAIN: every '
         'binary tree shape with 0..N nodes is produced by Catalan unranking (a hash set confirms the shapes are pairwise '
         'distinct and their number equals the Catalan sum) and built into a byte arena whose node stride is derived from '
         'sizeof(bintree_node_t) (8-aligned with a gap, and under-aligned: sizeof+2, addresses 2 mod 4 / 0 mod 4); the nodes '
         'are placed in memory ascending with the pre-order id, reversed, and in one fixed permutation per node count. One '
         'evaluation = one operation on one tree: an in-/pre-/post-order iteration stepped with bintree_next to NULL (or j '
         'nodes followed by bintree_iterate_complete), a bintree_free / bintree_free_left / bintree_free_right call with a '
         'logging deallocator (also one that itself frees another tree), or one list iteration of a spine. Oracles: returned '
         'sequence == traversal of the harness\'s own shape arrays AND == librfn\'s bintree_traverse_*; every LINK of every '
         'node has its original value after completion (other bytes of a node are not judged, bytes between nodes must not '
         'change); deallocation log = exactly the nodes of the subtree, once each, children before parents (a call with NULL '
         'is tolerated and counted); link of the parent NULL after free_left/right; deallocated nodes are filled with an odd '
         'pointer into an inaccessible page, so following a stale link faults and a store is seen. GUARD: small shapes, every '
         'node at the end of a page of its own that the deallocator revokes with mprotect, so any later access faults. DEEP: '
         'a fixed family of 14 degenerate / bushy shapes (left spine, right spine, zig-zag starting left / right, one left step then a right spine and its mirror image, two spines under one root leaning inwards / outwards, left comb, '
         'right comb, zig-zag comb, heap-shaped full tree, left / right spine ending in a full tree) at every node count of a '
         'stated size list, all six operations at the root plus complete-after-j for j in {1, n/2, n-1}, six layouts, same '
         'oracles; in this pass the iterators and the free functions run on a 32 KiB stack of their own with an inaccessible page '
         'below it (the harness keeps a 1 GiB stack for the recursive traversals only), so stack use that grows with the depth of '
         'the tree is a fault. LIST: bintree_iterate_list against the list e0..e_len and against bintree_traverse_list on left- and '
         'right-leaning spines of every length of a stated list, elements leaves or inner nodes, nodes allocated ascending or '
         'descending; is_list(NULL) is answered "no" and counted. WRAP: BINTREE_DECLARE_INLINE_WRAPPERS is instantiated once '
         '(node type with the bintree_node_t at a non-zero offset) and every wrapper is run against the plain function on two '
         'identical trees for every small shape and every node as argument. A hanging or run-away library call (watchdog; '
         'callbacks bounded by a multiple of the node count) is a violation. distinct_nontrivial = number of distinct (pass, '
         'layout, operation, shape, observed sequence) tuples of operations applied at the root of a tree with >= 2 nodes '
         '(plus the list and wrapper cases), counted with a 128-bit hash set; operations rooted at inner nodes and trees '
         'with < 2 nodes are evaluations but not counted as distinct.',
    bounds=dict(
        quick='MAIN: ALL shapes with 0..12 nodes (290 512 shapes) x {3 iterators, free, free_left, free_right} at the root, '
              '8-aligned stride, nodes placed ascending (reversed placement <= 11 nodes, permuted <= 10); under-aligned stride '
              '(ascending and reversed) <= 10 nodes; <= 9 nodes every node as root of every operation, "j nodes then '
              'bintree_iterate_complete" for every j; <= 7 nodes a deallocator that frees another tree. GUARD: <= 9 nodes, the '
              'three free variants at every node, ascending and reversed. DEEP: 14 shapes x node counts {13..130 (every one), '
              '254..258, 510..514, 999..1001, 1022..1026, 65534..65538} x 6 layouts (around 2^16: 3 layouts, complete-after-j on the first); operations that walk down from the root for '
              'every node (post-order, the free variants) only where sum of node depths <= 3 000 000, i.e. not on the deep '
              'members at 2^16 (in-/pre-order and the recursive traversals run there). LIST: lengths {1..130, 254..258, 510..514, '
              '999..1001, 1022..1026} both directions, 65534..65538 right-leaning only (the left-leaning iterator is quadratic). '
              'WRAP: all shapes <= 6 nodes, every node',
        thorough='MAIN: ALL shapes with 0..15 nodes (13 402 697 shapes), same operations; reversed placement <= 14, permuted <= 13, under-aligned '
                 '<= 13 nodes; every node as root, complete-after-j and GUARD <= 12 nodes. DEEP: as quick, and post-order iteration '
                 'and bintree_free also on the deep members at 65535..65537 nodes (first layout only). LIST: as quick plus '
                 'left-leaning 65535..65537 (ascending allocation). WRAP: <= 8 nodes'),
    assumptions=[
        'scope: well-formed trees (no sharing, no cycles), nodes at least 2-byte aligned (an 8-aligned and a 2-mod-4 '
        'placement are enumerated), one iterator at a time, no mutation by the caller during iteration other '
        'than the deallocation done by bintree_free itself; fields of a node other than the two links start as '
        'BINTREE_NODE_VAR_INIT leaves them',
        'bintree_free_left/right are only called on an existing node (they dereference it); the empty tree is '
        'covered for the iterators and bintree_free',
        '"never reads a node after it has been deallocated" is observed exactly (revoked page, any load or store faults) '
        'for trees up to the guard-pass bound; above it only through its consequences (following the poisoned link '
        'faults, a store into the poisoned node is seen, the deallocation log goes wrong). A store into a deallocated '
        'node is reported under the same clause as a read.',
        'the quantifier\'s "larger random and degenerate shapes sampled" is implemented as a fixed, fully enumerated family of '
        'degenerate and bushy shapes at stated sizes (the technique family is exhaustive enumeration; nothing is drawn at random)',
        'the recursive traversals of librfn are the yardstick of the order clause at every size; the harness re-executes itself '
        'with a 1 GiB stack limit so that a 65 538-deep recursion fits on every build (if the limit cannot be raised the '
        'comparison is skipped above limit/1 KiB nodes and counted)',
        'list clause: spines exactly as in the header comment (list nodes form one left- or one right-leaning chain, '
        'every other child is an element for which is_list() is false); mixed-direction list trees are outside the '
        'statement and not generated',
        'the typed wrappers generated by BINTREE_DECLARE_INLINE_WRAPPERS (bintree.h is an anchor file) are held to "does what the '
        'plain function does"; from_bintree / to_bintree map NULL to NULL',
        'x86-64 only: the under-aligned placement relies on the CPU accepting unaligned pointer loads',
    ],
)
CHECK.update(
    technique='bounded-exhaustive enumeration of all binary tree shapes up to a node bound (Catalan unranking) plus a fixed family of '
              'deep shapes and list spines at sizes around every power of two up to 2^16, driving the real bintree.c, compared '
              'with an independent reference traversal, with link-image, deallocation-log, poison and revoked-page oracles',
    level_text='Every binary tree shape with at most 12 nodes (15 in the thorough tier), including the empty tree, single '
               'nodes and all maximally unbalanced trees, is run through the three threaded iterators and the three free '
               'variants of the real bintree.c with the nodes placed in memory in ascending, descending and permuted order and '
               'at 8-aligned and 2-mod-4 addresses; order is compared with an independent traversal and with '
               'librfn\'s own recursive traversals, every link is compared before/after, and the '
               'deallocator log is checked for exactly-once, children-first and no access after deallocation (page '
               'revoked per node for shapes up to 9 (12) nodes). Fourteen degenerate and bushy shapes are run with the same oracles at '
               'every node count 13..130 and on both sides of 2^8, 2^9, 1000, 2^10 and 2^16. List iterator versus '
               'bintree_traverse_list on left/right spines of every length 1..130 and around 2^8, 2^9, 1000, 2^10, 2^16. The '
               'typed wrapper macro is instantiated and compared with the plain functions. Repeated on gcc -Os, -O0, -DNDEBUG '
               '(and clang). Exhaustive for the stated bounds, nothing sampled.',
    level_note='Bounded: between the exhaustive node bound and the deep family only the 14 family shapes are examined, and above '
               '65 538 nodes nothing. Quadratic operations at 2^16 nodes only in the thorough tier. Read-after-dealloc is exact '
               'only up to the guard-pass bound. Trusted: the shape unranking (cross-checked by the distinct-shape count == '
               'Catalan sum), the family generators and the 25-line explicit-stack reference traversals.',
    design_ref='DESIGN.md section 4, C11',
)

CHECK['variants'] = ['c11']

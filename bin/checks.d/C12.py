CHECK = dict(
    level='exploration',
    parts=[dict(name='c12', src=['harness/c12_pack.c'], lib=['pack.c'], workers=16,
                deadline=dict(quick=300, thorough=3600)),
           dict(name='c12asan', src=['harness/c12_pack.c'], lib=['pack.c'], workers=16,
                cflags=['-fsanitize=address', '-fsanitize-recover=address', '-fno-omit-frame-pointer', '-O1', '-DC12_ASAN'],
                deadline=dict(quick=300, thorough=1800))],
    rule='pack.c is linked as an object of its own (its statics, if it ever has any, are reset before every case and saved with '
         'every depth-first frame); the harness includes only <librfn/pack.h> and calls each operation by name (a function-like '
         'macro or static inline in pack.h is simply called). One engine executes every call on the real code and on a model '
         '(expected memory image + unbounded cursor + size given to the last rf_pack_init) and compares after EVERY call: the '
         'buffer image and the bytes beside it, the returned value (0 on overflow), the destination array (copy / zero-filled on '
         'overflow / bytes outside untouched), rf_pack_consumed, rf_pack_remaining (each read twice: into an int, and in the type the function returns, converted to a double, so '
         'that an overflow must be a negative number for a caller who compares the call itself with 0); a fault (inaccessible page, assert, endless '
         'loop) during a call is a violation. The buffer lies flush against an inaccessible page (placement R: its end, L: its '
         'start). Families, each a full product: '
         '(seq) every sequence of calls up to the stated length over the alphabet {each implemented rf_pack_X / rf_unpack_X with '
         'boundary arguments; rf_pack_init on the same buffer ("rewind")}, depth-first with iterative deepening; '
         '(sweep) all 8/16-bit values and all byte-lane patterns of 32-bit values through every implemented scalar '
         'packer/unpacker at exact fit, one byte short and at offset 1, with pack->rewind->unpack round trips; '
         '(runs) every sequence over {pack_bytes, unpack_bytes} x {real array, NULL} x EVERY run length 0..17, and rewind; the '
         'source array has pairwise different bytes and a 0x00; '
         '(src) source arrays with every byte value 0x00..0xff at every position of every run length 1..17 on two backgrounds, '
         'packed at offset 0/1 with 0/1 bytes of slack, rewound and read back (compared with the model and directly with the source); '
         '(reinit) rf_pack_init on the SAME rf_pack_t and the SAME base with every pair (old size, new size) of 0..9 - smaller, '
         'equal, larger - after every prefix and before every suffix of calls of the seq alphabet; the rf_pack_t holds zeros or '
         '0xa5 bytes before its first rf_pack_init; the bytes between the new and the old end are watched like any byte outside; '
         '(mid) buffer sizes x first call x second call x probe call, sizes and run lengths from {0,1,2,3, 2^7, 2^8, 2^15, 2^16 each '
         '-1/+0/+1}, with real source/destination arrays of up to 65537 bytes that end at an inaccessible page; '
         '(wide) buffer sizes and first advance from {0, 2^e-1, 2^e, 2^e+1 for e=1..30, 2^31-2, 2^31-1} inside a 2 GiB mapping '
         'between inaccessible pages, second advance (NULL destination or NULL source) around 2^8 / 2^16 and landing 3,2,1 short '
         'of / exactly at / one past the end, then a probe call or an empty run (so that histories requesting exactly 2^31-1 bytes, e.g. one run of 2^31-1, are included); memory is watched at both edges of the buffer and around the '
         'cursor. Second part (c12asan): seq, runs, reinit and mid again on an AddressSanitizer build of pack.c, the buffer an '
         'exactly-sized accessible region inside a poisoned arena (re-poisoned at every rf_pack_init to the current size), '
         'destination arrays exactly sized; every sanitizer report (suppress_equal_pcs=0) naming a byte of the buffer arena is a '
         'violation - reads included. evaluations = calls executed and compared, one per non-empty history in the seq / runs / reinit / mid / wide families (a shared prefix is re-executed and re-compared but counted once), every call of a sweep or src case. '
         'A case is distinct when its observation tuple (family, build, operation, argument / bytes read, NULL flag, run length, '
         'buffer size, region size, placement, initial rf_pack_t, cursor before the call, position relative to the end: fits / '
         'exact fit / first overflow / after overflow) differs; counted with a hash set; the work units of different workers '
         'cannot produce the same tuple',
    bounds=dict(
        quick='seq: sizes 0..9 x 2 placements, all sequences of length <= 4 over 64 actions (pack_bytes/unpack_bytes with runs 0,1,3 '
              'and NULL or real array; 16-bit packers with 0,1,0x7f,0x80,0xff,0x1234,0x8000,0xffff; 32-bit packers additionally '
              '0x12345678,0x80000000,0xffffffff; the scalar unpackers; rewind). sweep: all 65536 values per 16-bit operation, all '
              '256 per 8-bit unpacker, 3 backgrounds x 4 lanes x 256 patterns per 32-bit operation, each in 5 layouts x 2 '
              'placements. runs: sizes 0..36 x 2 placements, all sequences of length <= 3 over 73 actions. src: 17 run lengths x '
              'every position x 256 values x 2 backgrounds x 2 offsets x 2 slacks x 2 placements. reinit: 100 size pairs x 2 '
              'placements x 2 initial rf_pack_t x (1 call, re-init, <= 2 calls). mid: 16 sizes x 2 placements x 75 x 75 x 9 calls. '
              'wide: 92 sizes x 2 placements x 92 first advances x <= 15 second advances x 2 kinds x 10 last calls, total requested '
              'bytes < 2^31. AddressSanitizer part: seq (length <= 4), runs (<= 3), reinit, mid on 1 placement',
        thorough='as quick with: seq length <= 5; the 32-bit sweeps additionally cover all 65536 patterns of every pair of byte lanes '
                 'on 2 backgrounds; runs length <= 4; reinit additionally with 2 calls before and 1 call after the re-initialisation (zeroed rf_pack_t); wide second '
                 'advance additionally over the whole menu of 92 values'),
    assumptions=[
        'scope: total requested bytes of a history stay below 2^31 (enforced by the generator of the wide family, counted as '
        'scope_guard_skips); largest buffer 2^31-1 bytes',
        'only operations that pack.h declares AND pack.c defines (or pack.h defines as macro / static inline) are exercised; the '
        'evidence notes list the declared-but-missing ones',
        'plain build: reads outside the buffer are observable only when they fault on the inaccessible page (one side per '
        'placement) or change a returned value; the AddressSanitizer part observes every read outside the buffer for buffers of '
        '0..65537 bytes whose start is 8-byte aligned (shadow granularity), not for the 2 GiB family',
        'buffers above 65601 bytes are not modelled byte by byte: 288/320 bytes at each edge and 32 bytes on each side of the item '
        'at the cursor are watched; zero runs longer than 64 bytes that fit such a buffer are left out (wide_touch_guard_skips)',
        'an unpack call must leave the buffer unchanged (else "unpacking what was packed returns the original values" fails for the next '
        'reader); reads beyond the end of a SOURCE array are not judged unless they fault',
        'arguments of the seq sequences come from a boundary set; arbitrary 32-bit values are covered per byte lane (pairs of '
        'lanes in the thorough tier), not exhaustively',
        'trusted: the model and the harness; x86-64 little-endian host only (the byte-wise shifts in pack.c are host '
        'independent by construction, which is not re-checked on a big-endian host)',
    ],
)
CHECK.update(
    technique='bounded-exhaustive enumeration of call histories of the real pack.c on guard-page-flush buffers (and exactly-sized '
              'AddressSanitizer regions) against a byte-vector/cursor model, plus exhaustive value sweeps',
    level_text='Every sequence of up to 4 (thorough: 5) calls over all implemented pack/unpack operations with boundary arguments on '
               'every buffer size 0..9; every sequence of up to 3 (4) byte-run calls with every run length 0..17 on sizes 0..36; every '
               'byte value at every source position; re-initialisation with every other size on the same base; sizes, runs and cursors '
               'on both sides of 2^7..2^16 with real arrays and of every power of two up to 2^31-1 in a 2 GiB guard-paged mapping; '
               'every 16-bit value and byte-lane pattern through each scalar operation - each call compared with the model (memory, '
               'canaries, return value, destination array, consumed, remaining), repeated on -Os / -O0 / -DNDEBUG / clang builds and '
               '(memory clauses) under AddressSanitizer.',
    level_note='Bounded: sequence lengths, buffer sizes and argument menus as stated; 32-bit values are not enumerated exhaustively; '
               'buffers above 64 KiB are watched at the edges and at the cursor only. AddressSanitizer is used for the "no byte outside is '
               'read" clause on buffers up to 65537 bytes. Trusted: the model in harness/c12_pack.c.',
    design_ref='DESIGN.md section 4, C12',
)

CHECK['variants'] = ['c12']

CHECK = dict(
    level='exploration',
    parts=[dict(name='c12', src=['harness/c12_pack.c'], workers=16,
                deadline=dict(quick=240, thorough=1500))],
    rule='phase 1: for every buffer size 0..9, placed flush against an inaccessible page (right-aligned, then left-aligned), '
         'every sequence of calls up to the stated length over the alphabet {each rf_pack_X / rf_unpack_X that pack.c '
         'implements, with boundary arguments; rf_pack_init on the same buffer ("rewind")} is executed on the real pack.c '
         '(depth-first, iterative deepening) and every call is compared with a byte-vector + unbounded-cursor model: buffer '
         'image, canary bytes beside the buffer, returned value, destination array, rf_pack_consumed, rf_pack_remaining; a '
         'fault during a call is a violation. phase 2: value sweeps (all 8/16-bit values, all byte-lane patterns of 32-bit '
         'values) through every implemented scalar packer/unpacker at exact fit, one byte short and at offset 1, with '
         'pack->rewind->unpack round trips. evaluations = calls checked (= non-empty call sequences in phase 1). A case is '
         'distinct when its observation tuple (phase, operation, argument / bytes read, NULL flag, run length, buffer size, '
         'alignment, cursor before the call, position relative to the end: fits / exact fit / first overflow / after '
         'overflow) differs; the tuples are packed injectively into 64 bits and counted with a hash set',
    bounds=dict(
        quick='buffer sizes 0..9 x 2 alignments; all sequences of length <= 4 over 64 actions (pack_bytes/unpack_bytes with '
              'runs 0,1,3 and NULL or real array; 16-bit packers with 0,1,0x7f,0x80,0xff,0x1234,0x8000,0xffff; 32-bit '
              'packers additionally 0x12345678,0x80000000,0xffffffff; the scalar unpackers; rewind); sweeps: all 65536 '
              'values per 16-bit operation, all 256 per 8-bit unpacker, 3 backgrounds x 4 lanes x 256 patterns per 32-bit '
              'operation, each in 5 layouts x 2 alignments',
        thorough='as quick with sequences of length <= 5, and the 32-bit sweeps additionally cover all 65536 patterns of '
                 'every pair of byte lanes on 2 backgrounds'),
    assumptions=[
        'scope: total requested bytes stay far below 2^31 (at most 20 here)',
        'only operations that pack.h declares AND pack.c defines are exercised (detected at link time through weak '
        'references); the evidence notes list the declared-but-missing ones',
        'reads outside the buffer are observable only when they fault on the guard page (one side per alignment pass) or '
        'change a returned value; writes outside are seen on both sides (guard page / 16 canary bytes)',
        'arguments of the sequences come from a boundary set; arbitrary 32-bit values are covered per byte lane (pairs of '
        'lanes in the thorough tier), not exhaustively',
        'trusted: the byte-vector model and the harness; x86-64 little-endian host only (the byte-wise shifts in pack.c '
        'are host independent by construction, which is not re-checked on a big-endian host)',
    ],
)
CHECK.update(
    technique='bounded-exhaustive enumeration of call histories of the real pack.c on guard-page-flush buffers against a '
              'byte-vector/cursor model, plus exhaustive value sweeps',
    level_text='Every sequence of up to 4 (thorough: 5) calls over all implemented pack/unpack operations with boundary '
               'arguments, on every buffer size 0..9 in both guard-page alignments, each call compared with the model '
               '(buffer image, canaries, return value, destination array, consumed, remaining); every 16-bit value and '
               'every byte-lane pattern of 32-bit values through each scalar operation at and around exact fit.',
    level_note='Bounded: sequence length 4/5, buffer sizes up to 9, boundary argument set; 32-bit values are not '
               'enumerated exhaustively. ASan is not used (the buffers are mmap-ed guard-page areas, which observe '
               'excursions exactly). Trusted: the model in harness/c12_pack.c.',
    design_ref='DESIGN.md section 4, C12',
)

CHECK['variants'] = ['c12']

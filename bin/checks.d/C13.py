# the librfn sources the WAV header code needs, each compiled as an object of its own (util.c wants time_now(): stub in the harness)
WAVLIB = ['pack.c', 'util.c', 'string.c', 'wavheader.c']
CHECK = dict(
    level='model_checking', distinct_global=True,
    parts=[dict(name='c13', src=['harness/c13_wavheader.c'], lib=WAVLIB, workers=1,
                deadline=dict(quick=300, thorough=1800)),
           dict(name='c13d', src=['harness/c13_wavheader.c'], lib=WAVLIB, workers=16, cflags=['-DC13_DECODE_FIRST'],
                deadline=dict(quick=300, thorough=1800))],
    rule='part c13 (states/transitions/traces): explicit-state BFS with vx_bfs to a fixpoint over the state graph of the two '
         'mutators of the real wavheader.c (linked as a separate object, its statics part of every snapshot) - fill(0x00|0xff|0x55) '
         'as first step, init(rate in {1,8000,44100,192000,65535,65536,768000,2^24+1}, channels in {1,2,6,8,127,128,255,256,2048,'
         '4096,16383,32767}, S16LE|S32LE|FLOAT), set_num_frames(0|1|2|1000|65535|65536|65537|2^24|largest n that fits|that n + 1); '
         'a state is the raw structure plus the model (arguments of the last init, last frame count); after every init/'
         'set_num_frames the structure is copied and the oracle runs on the copy, the API functions with a non-const parameter '
         'on further copies (an observation neither repairs nor disturbs the explored state): validate()==0, decode(encode(h)) '
         'equal to h in every named member AND in every other non-padding byte of the structure, and in length (decode from an '
         'exactly-sized buffer ending at a PROT_NONE page), RIFF size == encoded length - 8 + data size, data size == frames * '
         'block_align, block_align/byte_rate/bits_per_sample/channels/rate follow from the arguments. Violating states are still '
         'expanded. '
         'part c13d (evaluations/distinct_nontrivial): the decode-first clause over the complete C14 corpus (all byte '
         'strings of length 0..L; 9 header templates - PCM16, PCM32, float+fact, extensible, 20-byte fmt, PCM16+fact, '
         'extensible+fact, PCM16 followed by a LIST chunk, float+fact followed by a JUNK chunk - x <= D deviating fields x '
         'adversarial value menus (see C14) x every truncation length; triple deviations from the core menus): every accepted '
         'string is re-encoded into a guard-paged buffer of exactly the reported length and compared '
         'with the input, ignored extension bytes zeroed; plus the big-header family: full product of 18 fmt-extension lengths '
         '(0 .. 16 MiB, on both sides of 2^8, 2^12, 2^16, 2^17, 2^24) x 5 cb_size values x 3 format tags x fact chunk or not x 0/2 '
         'trailing bytes = 1080 headers of up to 16 MiB. evaluations = decode calls; distinct_nontrivial = distinct '
         '(template, input bytes, declared length) triples that were ACCEPTED and re-encoded, counted with a hash set',
    bounds=dict(quick='mutator graph: complete reachable state space (histories of every length over the stated alphabet: 3 fills, '
                      '288 init triples, 10 frame counts); decode-first: L = 2, D = 2 (3271 single, 568 145 double deviations), plus '
                      '1080 big headers',
                thorough='mutator graph: complete reachable state space over 13 rates (adds 96000, 2^18, 2^24-1, 2^30, 2^31-1) x 22 '
                         'channel counts (adds 3, 63, 64, 257, 2047, 4095, 8191, 8192, 16384, 32768) x 3 formats and 16 frame counts '
                         '(adds 3, 255, 256, 257, 2^24+1, largest n - 1); decode-first: L = 3, D = 2 over the full menus + D = 3 over '
                         'the core menus, plus 1080 big headers'),
    assumptions=['scope guard: init combinations whose block alignment exceeds 16 bits or whose byte rate exceeds 32 bits, and '
                 'frame counts whose data or RIFF size exceeds 32 bits, are generated, skipped and counted; the header length that '
                 'enters the RIFF limit is what the real encoder emits for the header at hand (no constant); set_num_frames '
                 'is applied only to an initialised header',
                 'argument values are the stated menus, not all of int x int x uint32; the structure arithmetic is linear in '
                 'them, the menus hit 1, typical values, both sides of 2^8 / 2^16 / 2^24 for every product that could be narrowed, '
                 'and the largest values that fit',
                 '"identical structure" = every member equal, padding excepted: named members are compared one by one, all other '
                 'bytes after __builtin_clear_padding (a compiler without that builtin - clang 14 - compares every byte; the '
                 'structure has no padding on x86-64 today)',
                 'the fact chunk size (librfn writes 12 for a 4-byte payload) is not judged: the statement does not mention it; '
                 'what rf_wavheader_get_format answers is not judged either (counted)',
                 'decode-first: "decodes successfully" means 0 <= result <= supplied length; inputs come from the bounded '
                 'C14 corpus, not from all byte strings'],
)
CHECK.update(
    technique='explicit-state model checking of the header mutators (BFS to a fixpoint against an argument-record model) plus '
              'bounded-exhaustive decode/re-encode over the C14 corpus',
    level_text='Complete reachable state graph of rf_wavheader_init / rf_wavheader_set_num_frames over 3 start fillings x 288 '
               'init argument triples x 10 frame counts (thorough 858 x 16), every reached structure checked against all clauses of the statement '
               'through the real validate/encode/decode; and every accepted input of the C14 mutation corpus re-encoded and '
               'compared byte for byte.',
    level_note='Argument menus are finite (boundary values included); the decode-first direction is bounded by the corpus '
               '(<= 3 field deviations from nine templates, all strings up to 3 bytes). Trusted: the 10-line arithmetic model '
               'and the reference parser used to locate ignored extension bytes.',
    design_ref='DESIGN.md section 4, C13',
)

CHECK['variants'] = ['c13', 'c13d']

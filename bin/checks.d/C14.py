# the librfn sources the WAV header code needs, each compiled as an object of its own (util.c wants time_now(): stub in the harness)
WAVLIB = ['pack.c', 'util.c', 'string.c', 'wavheader.c']
CHECK = dict(
    level='fault_enumeration',
    parts=[dict(name='c14', src=['harness/c14_wavdecode.c'], lib=WAVLIB, workers=16,
                deadline=dict(quick=300, thorough=1800)),
           dict(name='c14asan', src=['harness/c14_helpers.c'], lib=WAVLIB, workers=16,
                cflags=['-fsanitize=address', '-fsanitize-recover=address', '-fno-omit-frame-pointer', '-O1'],
                deadline=dict(quick=300, thorough=1800))],
    rule='bounded-exhaustive enumeration of malformed inputs to the real rf_wavheader_decode (librfn linked as separate objects, '
         'its statics reset before every decode): (S) every byte string of length 0..L; (H) nine header templates (PCM16, PCM32, '
         'float+fact, extensible with the 22-byte extension, 20-byte fmt chunk without it, PCM16+fact, extensible+fact, PCM16 '
         'followed by a LIST chunk, float+fact followed by a JUNK chunk) with every choice of <= D deviating fields, each '
         'deviating field taking every value of a menu derived from its kind, its template value v and the constants K the '
         'grammar compares it with (ids: one byte off at each of the 4 positions, case of each letter flipped one by one and '
         'all at once, fact/data/LIST/bext/JUNK/FACT/"fmt "; 16-bit: 0,1,3,22,0xfffe,0xffff,0x100,0xff00,0x7fff,0x8000 and '
         'K+0x100, K+0x8000 for K = v, the tags 1/3/0xfffe, the widths 16/32, the extension size 22; 32-bit: 0,1,4,12,15..19,'
         '40,41,v-1,v+1,v+0x100,v+0x10000,0x7fffffff,0x80000000,0xffffffee..0xffffffff; GUID: zero, one bit, the tag menu in its '
         'first two bytes), followed by 2 extra bytes, presented at EVERY truncation length 0..len+2 (a prefix that ends before '
         'the last deviating field is an input of the case without that deviation and is judged there; its result still enters '
         'the truncation clause). Triple deviations (thorough) draw from a reduced core menu per kind. Each input lies in a buffer of '
         'exactly the declared size ending at a PROT_NONE page (second placement: starting right after one); the result is compared '
         'with an independent 64-bit reference parser, then validate/get_format/tostring run on the structure left behind; a call '
         'that does not return within one to two 4 s watchdog periods is reported as an endless loop, and after 2 of them the '
         'worker stops and hands in everything found. Call-history clause: every deviating header at full length is decoded, then '
         'its template at the same address and length, then the header again, without resetting the library in between; each result '
         'is held against the same contract. evaluations = decode calls with the end-guarded placement on inputs the case '
         'owns; distinct_nontrivial = distinct (template, input bytes, declared length) triples, counted with a hash set; '
         'distinct_observations = distinct (decoded structure, accepted?) pairs handed to the helpers. '
         'Big-header family: full product of 18 fmt-extension lengths (0 .. 16 MiB, on both sides of 2^8, 2^12, 2^16, 2^17, 2^24) x 5 '
         'cb_size values x 3 format tags x fact chunk or not x 0/2 trailing bytes = 1080 headers, each presented complete and at up to '
         '18 truncation points around every layout boundary. '
         'Second part (c14asan, AddressSanitizer build of harness and librfn objects; every input in a malloc block of exactly the '
         'declared size, so the end of the buffer takes every alignment): (P) FULL PRODUCT of an extreme-value menu per numeric field '
         '(format tag 10, channels 13, sample rate 9, block align 9, bits 9, data size 8 values, sub-format 4; every 16-bit menu with '
         '0x100, 0xff00, 0x7fff, 0x8000) over three header shapes (plain, fmt+fact, extensible); (D) dense small values: full product '
         'channels x block_align x bits_per_sample, each 0..32, x 3 shapes x 3 format tags x 3 data sizes; (T) truncation sweep: every '
         'template header with <= 1 (thorough 2) deviating fields at every truncation length t from malloc(t), and (S) every byte '
         'string of 0..2 bytes; each decoded, then validate/get_format/tostring on the result; any ASan report, signal or endless '
         'loop is a violation (a family stops at its first one)',
    bounds=dict(quick='L = 2 (65 793 strings); D = 2 deviating fields out of 13..21, all 9 templates (3271 single and 568 145 double '
                      'deviations), every truncation length; 1080 big headers (up to 16 MiB) x <= 19 lengths; ASan part: product family '
                      '2 426 112 field combinations, dense family 970 299, truncation sweep D = 1 and all strings of <= 2 bytes (176 638 decodes '
                      'from exactly-sized heap blocks); call-history clause on every deviating header at full length',
                thorough='L = 3 (16.8 million strings); D = 2 over the full menus plus D = 3 over the core menus (3.4 million triple '
                         'deviations), all 9 templates, every truncation length, both guard placements at every length; big headers, '
                         'product and dense families as in quick; ASan truncation sweep D = 2 (13.6 million decodes)'),
    assumptions=['declared length == real buffer length (the statement\'s "reads only the supplied bytes")',
                 'x86-64/LP64: pointer arithmetic far past the buffer (rf_pack cursor += 0xffffffed) does not fault by itself; '
                 'it is undefined behaviour in C but the property does not speak about it',
                 'the reference parser (wav_common.h, 30 lines) is trusted; it follows the chunk grammar, takes no pad byte '
                 'after odd chunk sizes and treats fmt sizes < 16, 17, odd sizes, cb_size 22 outside a 40-byte fmt chunk and a '
                 'fact chunk whose size field is not 4 as headers whose length the statement does not define (memory safety, '
                 '>= RF_WAVHEADER_MIN_SIZE, truncation and helper clauses still enforced there)',
                 'the chunk that follows fmt (or fact) is the last chunk of the header whatever its id (LIST, JUNK, ...): that is '
                 'the layout librfn documents; a decoder that steps over such chunks reports another length and is flagged',
                 '"terminates": a helper call still running after one to two watchdog periods of 4 s is called an endless loop '
                 '(2^32 trivial iterations end well inside that)',
                 'accept/reject decisions are not checked: the statement allows a negative result for any input',
                 'quantifier says "random" strings: replaced by the structured exhaustive corpus above, nothing is sampled'],
)
CHECK.update(
    technique='bounded-exhaustive fault enumeration: deviation-bounded field mutation of valid WAV headers x every truncation '
              'point, guard-page placement and exactly-sized heap blocks under AddressSanitizer, independent reference parser',
    level_text='Every header within <= 2 (thorough 3) field deviations of nine templates over adversarial value menus, at '
               'every truncation length, plus all byte strings up to 2 (3) bytes, decoded by the real code in exactly-sized '
               'guard-paged buffers and compared with a 64-bit reference parser; helpers run on every distinct resulting structure; '
               'under AddressSanitizer the full product of extreme field values, the dense product of small channel / alignment / '
               'width values and the truncation sweep from exactly-sized malloc blocks.',
    level_note='Bounded: inputs further than 3 field deviations from a template (except the all-numeric-fields product families of the ASan part), menu values not listed and headers longer '
               'than 82 bytes are covered only by the big-header family (skipped fmt extension). Trusted: the reference parser, the guard-page mechanism and AddressSanitizer.',
    design_ref='DESIGN.md section 4, C14',
)

CHECK['variants'] = ['c14']

CHECK = dict(
    level='fault_enumeration',
    parts=[dict(name='c14', src=['harness/c14_wavdecode.c'], workers=16,
                deadline=dict(quick=120, thorough=900)),
           dict(name='c14asan', src=['harness/c14_helpers.c'], workers=16,
                cflags=['-fsanitize=address', '-fsanitize-recover=address', '-fno-omit-frame-pointer', '-O1'],
                deadline=dict(quick=120, thorough=300))],
    rule='bounded-exhaustive enumeration of malformed inputs to the real rf_wavheader_decode: (S) every byte string of '
         'length 0..L; (H) five valid headers (PCM16, PCM32, float+fact, extensible with the 22-byte extension, 20-byte '
         'fmt chunk without it) with every choice of <= D deviating fields, each deviating field taking every value of a '
         'fixed adversarial menu (ids: one byte off/"fact"/"data"; 16-bit: 0,1,3,22,0xfffe,0xffff; 32-bit: 0,1,4,12,15..19,'
         '40,41,v-1,v+1,0x7fffffff,0x80000000,0xffffffee..0xffffffff), followed by 2 extra bytes, presented at EVERY '
         'truncation length 0..len+2. Each input lies in a buffer of exactly the declared size ending at a PROT_NONE page '
         '(second placement: starting right after one); the result is compared with an independent 64-bit reference '
         'parser, then validate/get_format/tostring run on the structure left behind. evaluations = decode calls with '
         'the end-guarded placement; distinct_nontrivial = distinct (template, input bytes, declared length) triples, '
         'counted with a hash set over the inputs that show the last deviation (other prefixes are inputs of a case with '
         'fewer deviations); distinct_observations = distinct (decoded structure, accepted?) pairs handed to the helpers. '
         'Big-header family: full product of 18 fmt-extension lengths (0 .. 16 MiB, on both sides of 2^8, 2^12, 2^16, 2^17, 2^24) x 5 '
         'cb_size values x 3 format tags x fact chunk or not x 0/2 trailing bytes = 1080 headers, each presented complete and at up to '
         '18 truncation points around every layout boundary. '
         'Second part (c14asan, AddressSanitizer build of the librfn sources): FULL PRODUCT of an extreme-value menu per numeric '
         'field (format tag 6, channels 9, sample rate 9, block align 5, bits 5, data size 8 values, sub-format 4) over three header '
         'shapes (plain, fmt+fact, extensible), each decoded from an exactly-sized heap buffer, then validate/get_format/tostring on '
         'the result; any ASan report or signal is a violation',
    bounds=dict(quick='L = 2 (65 793 strings); D = 2 deviating fields out of 13..20, all 5 templates, every truncation length; helpers product family: all 388 800 field combinations; 1080 big headers (up to 16 MiB) x <= 19 lengths',
                thorough='L = 3 (16.8 million strings); D = 3 deviating fields, all 5 templates, every truncation length, '
                         'both guard placements at every length; helpers product family and big headers as in quick'),
    assumptions=['declared length == real buffer length (the statement\'s "reads only the supplied bytes")',
                 'x86-64/LP64: pointer arithmetic far past the buffer (rf_pack cursor += 0xffffffed) does not fault by itself; '
                 'it is undefined behaviour in C but the property does not speak about it',
                 'the reference parser (wav_common.h, 25 lines) is trusted; it follows the chunk grammar, takes no pad byte '
                 'after odd chunk sizes and treats fmt sizes < 16, 17, odd sizes and cb_size 22 outside a 40-byte fmt chunk '
                 'as headers whose length the statement does not define (memory safety, >= 44, truncation and helper '
                 'clauses still enforced there)',
                 'accept/reject decisions are not checked: the statement allows a negative result for any input',
                 'quantifier says "random" strings: replaced by the structured exhaustive corpus above, nothing is sampled'],
)
CHECK.update(
    technique='bounded-exhaustive fault enumeration: deviation-bounded field mutation of valid WAV headers x every truncation '
              'point, guard-page placement, independent reference parser',
    level_text='Every header within <= 2 (thorough 3) field deviations of five valid templates over adversarial value menus, at '
               'every truncation length, plus all byte strings up to 2 (3) bytes, decoded by the real code in exactly-sized '
               'guard-paged buffers and compared with a 64-bit reference parser; helpers run on every distinct resulting structure.',
    level_note='Bounded: inputs further than 3 field deviations from a valid header (except the all-numeric-fields product family of the ASan part), menu values not listed and headers longer '
               'than 70 bytes are covered only by the big-header family (skipped fmt extension). Trusted: the reference parser and the guard-page mechanism.',
    design_ref='DESIGN.md section 4, C14',
)

CHECK['variants'] = ['c14']

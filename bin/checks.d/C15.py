import os as _os
_H = _os.path.join(_os.path.dirname(_os.path.dirname(_os.path.dirname(_os.path.abspath(__file__)))), 'harness', 'c15_console.c')
CHECK = dict(
    level='model_checking',
    # The harness file is compiled twice: as the harness (public headers only), and - with -DC15_SHIM, as one of the lib= objects
    # whose writable sections the driver renames - as console.c plus two accessors for its static command table. Every static of
    # the library (command table, scheduler, the help command's function-scope statics, anything a change adds) is therefore part
    # of the image that is reset before every case and saved with every BFS state. The library objects are built with
    # -finstrument-functions (the harness sees when one of the library's own commands is entered, whatever it prints) and
    # -fstack-protector-all (an overrun local buffer of the library is a deterministic fault, not a jump through a smashed address).
    parts=[dict(name='c15', src=['harness/c15_console.c'],
                lib=['list.c', 'messageq.c', 'ringbuf.c', 'fibre.c', 'util.c', _H],
                libflags=['-DC15_SHIM', '-finstrument-functions', '-fstack-protector-all'],
                cflags=['-Wno-format-truncation', '-Wno-unused-but-set-variable'], workers=32,
                deadline=dict(quick=300, thorough=1800))],
    rule='All sizes come from the library (line buffer = sizeof scratch.buf, a line holds one character less, table slots = '
         'lengthof(cmd_table)); registered: a, ab (yields, then uses the scratch area), b, abababab, ababababa, Ab, !~, ~! next to '
         'the built-ins. '
         'Part A: explicit-state BFS over character streams delivered one character at a time with console_process to the real '
         'console.c, from the empty line and from lines pre-filled to capacity-9 .. capacity, over two alphabets (editing: a b SP TAB '
         '\' " BS ^C NL; case/boundary: a b A B ! ~ SP NL BS); state = console object + reference line editor + image of all '
         'library statics; the last level is expanded on the spot and only hashed. Before every character the bytes of the scratch '
         'union behind the line buffer are poisoned: storing and erasing must leave them alone, a command checks them when it is '
         'dispatched (a new prompt may wipe the scratch area). Every completed line (newline, or the buffer filling: the full line '
         'may run with its last character or with the next one, never later) is compared with a reference tokenizer: which command '
         'ran (harness commands by capture, built-ins by function entry), exactly one, argc, argv strings, argv inside the line '
         'buffer and NUL-terminated; unknown and empty lines run nothing. '
         'Part B: stream families delivered through console_process, console_putchar + scheduler passes (per character and in '
         'bursts) and console_eval in a fibre (behind every injected string lies a trap line): short = every stream up to a length; '
         'long = lines of every length 1..capacity with 1..4 tokens (plain / all printables / quoted last argument), three endings '
         'at capacity, followed by a second long line; unknown = first tokens of every length 1..capacity that name nothing; names = '
         '12 spellings around every registered and built-in name (other case, one shorter / longer, neighbours); printable = each of '
         '0x21..0x7e as a name, glued in front of and behind a name, and in arguments; tokens = every combination of six token kinds '
         '(plain, mixed case/punctuation, single- and double-quoted, quoted with a blank, quoted with the other quote) x 3 '
         'separators; script = many short lines, 120..1000 characters. '
         'Part E: every sequence of 1..3 console_eval calls from 8 strings (empty, one line, two lines, unfinished line, longer than '
         'the ring) on one console: each call exits, the commands run are those of the concatenation, once. '
         'Part C: every order of up to 4 registrations from 4 names, and filling the table to capacity and 8 beyond in ascending and '
         'descending name order: registration succeeds while a slot is free, a failed one leaves the whole library image unchanged, '
         'after every step every registered name typed into a fresh console runs its own descriptor, built-ins stay found, unknown '
         'names and the empty line run nothing',
    bounds=dict(quick='part A: all histories of 7 characters from the empty line (both alphabets), 5 from 6 pre-filled lines (editing '
                      'alphabet), 4 from 2 pre-filled lines (case alphabet); part B: short streams <=5, long 1144 streams, unknown 632, '
                      'names 119, printable 94, tokens 1..5 tokens over six kinds + 6 tokens over three kinds (17271 lines), 11 scripts, '
                      'each through 3-4 deliveries; part E 584 sequences; part C 64 orders + 2 capacity runs',
                thorough='part A 9 / 7 characters (editing), 8 / 6 (case); short streams <=6; tokens 1..6 over six kinds + 7 over three; the rest as quick'),
    assumptions=['where the statement is silent (leading blanks, a quote inside a word, unterminated or empty quotes, text glued to a '
                 'closing quote, a fifth token or anything after the fourth, a quoted fourth token, what becomes of the character that '
                 'follows a full buffer) only memory safety, argc<=4 and "at most one command per line" are enforced; argv slots >= argc '
                 'are not judged',
                 'when a full buffer is dispatched (with its last character or with the next one) is not judged; after a full line '
                 'only Ctrl-C, newline and backspace are explored as the next character because the next line is determined only then',
                 'the scratch union is the console\'s own: wiping all of it at a new prompt (as the header documents) is accepted; '
                 'between prompt and dispatch nothing behind scratch.buf may change (only observable where the union is larger than '
                 'the line buffer, as on x86-64)',
                 'built-in commands are recognised by entry into their functions (-finstrument-functions on the library objects); '
                 'part C identifies a descriptor by console_t.cmd inside the command (the containerof() use the header describes)',
                 'library statics are reset by restoring the renamed data sections of the library objects; state kept elsewhere '
                 '(heap, stdio) is not'],
    technique='explicit-state model checking (BFS over input streams against a reference line editor/tokenizer) plus bounded-exhaustive differential delivery',
    level_text='Every input stream up to the depth bound is executed on the real console, character by character, and every completed '
               'line is compared with a reference editor/tokenizer; systematic families of longer lines (every length up to the buffer '
               'capacity, every printable character, 1..6 tokens with quotes, unknown names of every length) go through each delivery '
               'path; sequences of console_eval calls, registration orders and table capacity are enumerated.',
    level_note='Trusted: the reference editor/tokenizer (60 lines). Reduced alphabets, bounded depth; longer inputs only from the stated families.',
    design_ref='DESIGN.md section 4 (C15)',
)

CHECK['variants'] = ['c15']
CHECK['variant_unsigned_char'] = True

CHECK = dict(
    level='model_checking',
    parts=[dict(name='c15', src=['harness/c15_console.c'], cflags=['-Wno-format-truncation', '-Wno-unused-but-set-variable'], workers=18,
                deadline=dict(quick=150, thorough=1500))],
    rule='part A: explicit-state BFS over character streams (alphabet a b SP TAB \' " BS ^C NL) delivered with console_process to the '
         'real console.c (command table and scheduler state reached by #including the sources), from the empty line and from lines '
         'pre-filled to 70..79 characters; state = console object + reference line editor; every completed line is compared with a '
         'reference tokenizer (command identity, argc, argv strings, argv inside the line buffer and NUL-terminated, nothing written '
         'outside the 80-byte line buffer). Part B: every stream up to a length bound, plus long lines around the ring size and the '
         '79-character limit, delivered again through console_putchar + scheduler passes (per character and in bursts) and through '
         'console_eval running in a fibre; same oracle, plus "the injection completes". Part C: every order of up to 4 registrations '
         'from 4 names, then filling the table to capacity and beyond. distinct = distinct (line, invocation) observations',
    bounds=dict(quick='part A depth 7 from the empty line, depth 5 from 6 pre-filled lines; part B all streams of length <=5 ending in a '
                      'newline + 324 long streams; part C 64 orders + capacity',
                thorough='part A depth 9 / 7; part B length <=6'),
    assumptions=['where the statement is silent (leading blanks, a quote inside a word, unterminated or empty quotes, text glued to a '
                 'closing quote, a fifth token, what happens to the 80th character) only memory safety and argc<=4 are enforced',
                 'x86-64 layout: the scratch union is 160 bytes', 'commands: a, ab (yields twice), b'],
    technique='explicit-state model checking (BFS over input streams against a reference line editor/tokenizer) plus bounded-exhaustive differential delivery',
    level_text='Every input stream up to the depth bound is executed on the real console through each delivery path and every completed line '
               'is compared with a reference editor/tokenizer; registration orders and capacity are enumerated.',
    level_note='Trusted: the reference tokenizer (40 lines). Reduced alphabet, bounded depth.',
    design_ref='DESIGN.md section 4 (C15)',
)

CHECK['variants'] = ['c15']

import os, subprocess, sys, concurrent.futures as cf


def _c16_gen(verif):
    sys.path.insert(0, os.path.join(verif, 'harness'))
    try:
        import c16_gen
    finally:
        sys.path.pop(0)
    return c16_gen


def _c16_keys(tier):
    """Structured 64-bit constants for the compile-time table, canonical order, no duplicates."""
    full = (1 << 64) - 1
    out, have = [], set()

    def add(k):
        k &= full
        if k not in have:
            have.add(k)
            out.append(k)

    add(0)
    add(full)
    for i in range(64):                       # every 1-bit pattern and its complement
        add(1 << i)
        add(~(1 << i))
    for i in range(64):                       # every 2-bit pattern
        for j in range(i + 1, 64):
            add((1 << i) | (1 << j))
    for lo in range(64):                      # every contiguous mask lo..hi
        for hi in range(lo + 1, 64):
            add(((1 << (hi + 1)) - 1) & ~((1 << lo) - 1))
    # 3-bit patterns over the positions next to every halving boundary of the recursive macros
    pos = [0, 1, 2, 3, 4, 7, 8, 15, 16, 17, 31, 32, 33, 47, 48, 62, 63]
    if tier == 'thorough':
        pos = [0, 1, 2, 3, 4, 5, 7, 8, 9, 15, 16, 17, 23, 24, 31, 32, 33, 39, 40, 47, 48, 49, 55, 56, 57, 59, 60, 61, 62, 63]
    for a in range(len(pos)):
        for b in range(a + 1, len(pos)):
            for c in range(b + 1, len(pos)):
                add((1 << pos[a]) | (1 << pos[b]) | (1 << pos[c]))
    return out


def _c16_prebuild(repo, verif, builddir, tier):
    """The generated tables of constant-expression arguments (harness/c16_gen.py):
    c16_mtab_small.inc  the argument-form families for the macros (LP64): literals of every suffix and base, casts,
                        operator expressions - used by every build variant
    c16_mtab_big.inc    the same plus the bulk of structured 64-bit ULL literals - the primary gcc -O2 build only
    c16_ftab.inc        the argument-form families for the four functions (values below 2^32)
    The user unit expands const_pop(arg) / const_lssb(arg) in static initialisers and calls f(arg); the values are compared
    by the harness at run time rather than by _Static_assert, so that a wrong value is a replayable VIOLATION with the
    offending argument and not a build error."""
    g = _c16_gen(verif)
    forms = g.macro_forms(64)
    have = set(t for t, _ in forms)
    bulk = [('0x%016xULL' % k, k) for k in _c16_keys(tier)]
    g.write_mtab(os.path.join(builddir, 'c16_mtab_small.inc'), 'LP64 argument forms', forms)
    g.write_mtab(os.path.join(builddir, 'c16_mtab_big.inc'), 'LP64 argument forms + structured literals (%s tier)' % tier,
                 forms + [b for b in bulk if b[0] not in have])
    g.write_ftab(os.path.join(builddir, 'c16_ftab.inc'), 'LP64 argument forms of the function calls', g.func_forms(64))


_ASSERT_H = '''/* <assert.h> of the ILP32 build of check C16 (the sandbox has no 32-bit C library headers) */
#undef assert
#ifdef NDEBUG
#define assert(e) ((void)0)
#else
void __assert_fail(const char *, const char *, unsigned int, const char *) __attribute__((noreturn));
#define assert(e) ((e) ? (void)0 : __assert_fail(#e, __FILE__, __LINE__, __func__))
#endif
'''


def _c16_prebuild_ilp32(repo, verif, builddir, tier):
    """ILP32 (gcc -m32 -ffreestanding): (1) the compile-time table: c16_user.c -DC16U_MACROS -DC16U_TABLE_ONLY compiled to an
    object whose table lies in a section of its own, read back with objcopy -O binary - nothing is run; (2) the libc-free
    helper program(s) c16_ilp32_<opt>.bin = c16_ilp32.c + c16_user.c (both sections) + c16_fptr.c + librfn/bitops.c.
    A step that fails (no -m32 support, a library source that needs headers the sandbox does not have for 32 bits) leaves
    that piece out with a note; it is never a build error of the check."""
    g = _c16_gen(verif)
    h = os.path.join(verif, 'harness')
    g.write_mtab(os.path.join(builddir, 'c16_mtab_ilp32.inc'), 'ILP32 argument forms', g.macro_forms(32))
    g.write_ftab(os.path.join(builddir, 'c16_ftab_ilp32.inc'), 'ILP32 argument forms of the function calls', g.func_forms(32))
    inc = os.path.join(builddir, 'c16_inc32')
    os.makedirs(inc, exist_ok=True)
    with open(os.path.join(inc, 'assert.h'), 'w') as f:
        f.write(_ASSERT_H)
    base = ['gcc', '-m32', '-ffreestanding', '-fno-stack-protector', '-fno-pie', '-g', '-std=gnu11', '-Wall',
            '-Wno-unused-function', '-Wno-unused-variable', '-fno-strict-aliasing', '-DLIBRFN_VERIF=1', '-DC16_ILP32',
            '-isystem', inc, '-I' + h, '-I' + os.path.join(repo, 'include'), '-I' + os.path.join(repo, 'librfn'), '-I' + builddir]
    opts = ['-O2'] if tier == 'quick' else ['-O2', '-Os', '-O0']
    user = os.path.join(h, 'c16_user.c')
    jobs = {}   # object -> (command, fallback command or None)

    def obj(name):
        return os.path.join(builddir, 'c16i_' + name + '.o')

    jobs['tab'] = (base + ['-O2', '-DC16U_MACROS', '-DC16U_TABLE_ONLY', '-DC16U_TABLE_SECTION="c16tab"', '-c', user, '-o', obj('tab')], None)
    for o in opts:
        t = o[1:]
        jobs['lib' + t] = (base + [o, '-c', os.path.join(repo, 'librfn', 'bitops.c'), '-o', obj('lib' + t)], None)
        jobs['uf' + t] = (base + [o, '-DC16U_FUNCS', '-c', user, '-o', obj('uf' + t)], None)
        jobs['um' + t] = (base + [o, '-DC16U_MACROS', '-c', user, '-o', obj('um' + t)], None)
        jobs['fp' + t] = (base + [o, '-c', os.path.join(h, 'c16_fptr.c'), '-o', obj('fp' + t)],
                          base + [o, '-c', os.path.join(h, 'c16_fptr_none.c'), '-o', obj('fp' + t)])
        jobs['main' + t] = (base + [o, '-mpopcnt', '-c', os.path.join(h, 'c16_ilp32.c'), '-o', obj('main' + t)], None)

    def run(name):
        cmd, fb = jobs[name]
        r = subprocess.run(cmd, capture_output=True, text=True)
        if r.returncode and fb:
            r = subprocess.run(fb, capture_output=True, text=True)
        err = ''
        if r.returncode:
            lines = [l for l in r.stderr.splitlines() if 'error' in l] or r.stderr.splitlines() or ['?']
            err = lines[0][:200]
        return name, err

    failed = {}
    with cf.ThreadPoolExecutor(max_workers=int(os.environ.get('VERIF_JOBS', os.cpu_count() or 4))) as ex:
        for name, err in ex.map(run, sorted(jobs)):
            if err:
                failed[name] = err
    notes = []
    # (1) the table
    blob = b''
    table_ok = 0
    if 'tab' in failed:
        notes.append('the -m32 table object does not compile: ' + failed['tab'])
    else:
        binp = os.path.join(builddir, 'c16i_tab.bin')
        r = subprocess.run(['objcopy', '-O', 'binary', '-j', 'c16tab', obj('tab'), binp], capture_output=True, text=True)
        if r.returncode or not os.path.exists(binp):
            notes.append('objcopy could not extract the table section: ' + (r.stderr.strip().splitlines() or ['?'])[0][:200])
        else:
            blob = open(binp, 'rb').read()
            table_ok = 1
    # (2) the helpers
    for o in opts:
        t = o[1:]
        out = os.path.join(builddir, 'c16_ilp32_%s.bin' % t)
        bad = [n for n in ('lib' + t, 'uf' + t, 'um' + t, 'fp' + t, 'main' + t) if n in failed]
        if bad:
            notes.append('the -m32 %s helper was not built: %s' % (o, failed[bad[0]]))
            continue
        r = subprocess.run(['gcc', '-m32', '-nostdlib', '-static', '-no-pie'] + [obj(n + t) for n in ('main', 'uf', 'um', 'fp', 'lib')] +
                           ['-o', out], capture_output=True, text=True)
        if r.returncode:
            notes.append('the -m32 %s helper does not link: %s' % (o, (r.stderr.strip().splitlines() or ['?'])[0][:200]))
    with open(os.path.join(builddir, 'c16_ilp32_gen.h'), 'w') as f:
        f.write('/* generated by bin/checks.d/C16.py: the table section of the -m32 object, %d bytes */\n' % len(blob))
        f.write('#define C16_ILP32_TABLE_OK %d\n' % table_ok)
        f.write('#define C16_ILP32_NOTE "%s"\n' % '; '.join(notes).replace('\\', '/').replace('"', "'"))
        f.write('static const unsigned char c16_ilp32_table[] = {\n')
        for i in range(0, len(blob), 40):
            f.write(' ' + ''.join('%d,' % b for b in blob[i:i + 40]) + '\n')
        f.write(' 0 };\n')


_FP = ('@VERIF@/harness/c16_fptr.c', [], '@VERIF@/harness/c16_fptr_none.c',
       'the pointer-call family of the four functions (taking their addresses)')


def _ilp32(name, opt, tiers):
    return dict(name=name, src=['harness/c16_bitops.c'], workers=16, tiers=tiers,
                cflags=['-DC16_PART_ILP32', '-DC16_ILP32_OPT="%s"' % opt, '-DC16_ILP32_BIN="@BUILD@/c16_ilp32_%s.bin"' % opt[1:]],
                deadline=dict(quick=300, thorough=1800), prebuild=_c16_prebuild_ilp32)


CHECK = dict(
    level='exploration',
    parts=[
        dict(name='c16f', src=['harness/c16_bitops.c'], lib=['bitops.c'], workers=16, cflags=['-DC16_PART_FUNCS'],
             objs=[('@VERIF@/harness/c16_user.c', ['-DC16U_FUNCS']), _FP],
             deadline=dict(quick=300, thorough=1800), prebuild=_c16_prebuild),
        dict(name='c16m', src=['harness/c16_bitops.c'], lib=['bitops.c'], workers=16, cflags=['-DC16_PART_MACROS'],
             objs=[('@VERIF@/harness/c16_user.c', ['-DC16U_MACROS'])],
             deadline=dict(quick=300, thorough=1800), prebuild=_c16_prebuild),
        _ilp32('c16i', '-O2', ('quick', 'thorough')),
        _ilp32('c16iOs', '-Os', ('thorough',)),
        _ilp32('c16iO0', '-O0', ('thorough',)),
    ],
    rule='The harness never includes a librfn header: the calls and macro expansions live in a "user" unit (harness/c16_user.c) that '
         'includes only <librfn/bitops.h> resp. <stdint.h> + <librfn/constexpr.h>, exactly as a user of the library writes them; '
         'bitops.c is linked as a separate object. One evaluation = one result compared with the definition (compiler builtins '
         '__builtin_popcount/clz/ctz(ll), -1 / 32 for zero, cross-checked against bit-by-bit loops at every start-up); a result '
         'keeps its exact value whatever type the expression has (an unsigned 2^64-1 is not -1). '
         'part c16f: (1) bitcnt(x), clz(x), ctz(x), ilog2(x) with a uint32_t variable for every 32-bit x (ilog2: x > 0); (2) the same '
         'through pointers to the four functions - all 2^32 when the public header defines one of the names as a macro (then the '
         'out-of-line function is different code) and in the thorough tier, else every <=3-bit pattern, contiguous mask and '
         'complement; and the out-of-line functions again on those structured values through an assembly trampoline that fills every '
         'caller-saved register with one of three patterns first (a result must not depend on what the registers held: this is '
         'how a builtin with an undefined result shows); (3) argument-form families: run-time values of 15 integer types (int, unsigned, uint8/16/32/64_t, int64_t, char, '
         'signed char, short, long, unsigned long, long long, unsigned long long, _Bool: every non-negative value of types up to 16 '
         'bits, structured values of wider types), 19 operator expressions (one per precedence level of C: * + - << >> < == & ^ | '
         '&& || ?: and the unary operators) over uint8_t and uint32_t run-time operands written as the argument without '
         'parentheses, and a generated table of constant-expression arguments (literals of every suffix in hex/decimal/octal, '
         'casts, sizeof, character constants, the same operator expressions over literals). '
         'part c16m: const_pop/const_lssb (a) at run time on a uint64_t variable: structured 64-bit patterns and lanes (bounds), '
         '(b) at run time on the same typed-value and operator-expression families (operands uint8_t, uint32_t, uint64_t), '
         '(c) evaluated by the compiler in static initialisers of the generated table of constant-expression arguments - each '
         'compared with the definition, and the compile-time value with the run-time value of the same argument. The value of '
         'every generated constant argument is computed by a model of C integer constant expressions in Python and compared with '
         'the compiler\'s own (uint64_t)(argument); a disagreement stops the run as an internal error. Negative arguments and '
         'signed overflow are not generated (counted as skipped_out_of_scope where the type decides at run time). '
         'part c16i (ILP32, gcc -m32 -ffreestanding: int, long and pointers 32 bits wide, as on the library\'s Cortex-M targets): the '
         'same user unit and bitops.c compiled for ILP32; the compile-time table is read back from the object file with objcopy '
         '(nothing is run); all 2^32 arguments of the four functions, the structured patterns and the argument-form families are '
         'evaluated by a libc-free 32-bit helper program (harness/c16_ilp32.c) that the part drives through a pipe; its counters '
         'carry the tag [gcc -m32 -O2]. '
         'distinct = distinct (work block, result tuple) pairs where every result agreed with the definition: per 2^24-block of x '
         '(bitcnt, clz, ctz), per lane unit / per worker share of a family (const_pop, const_lssb) resp. (function, result); work '
         'blocks are disjoint between workers, so the sum counts no case twice, but only result tuples are counted, not arguments '
         '(all arguments are distinct by construction). A failing case of an argument-form family whose plain form (uint32_t / '
         'uint64_t variable of the same value) fails too is reported under the signature of the plain form (smallest failing '
         'argument / first failing structured pattern), so that one defect keeps one signature per build.',
    bounds=dict(
        quick='functions: all 2^32 arguments by plain call (complete); by pointer every <=3-bit pattern/mask/complement (all 2^32 if '
              'the header defines a name as a macro) plus the same values x 3 register patterns (~1.4*10^5 calls); typed run-time arguments ~4.7*10^5 cases, operator-expression arguments '
              '~1.3*10^5, 1868 constant-expression arguments x 4 functions. macros at run time: 0, ~0, every 1-, 2- and 3-bit '
              'pattern and every contiguous mask of 64 bits, each with its complement; 8 lanes (low half sweeping with high half in '
              '{0,1,0x80000000,0xffffffff}, and vice versa) where the sweeping half takes all 2^24 values v and v<<8; typed '
              '(~1.5*10^5) and operator-expression (~1.4*10^5) arguments. macros at compile time: 8093 constant-expression '
              'arguments (3328 argument forms + 4765 structured ULL literals: 0, ~0, 1-bit and complement, 2-bit, contiguous '
              'masks, 3-bit over 17 boundary positions). Build variants: lanes 2^16 values at 3 alignments and only the 3328 '
              'argument forms in the table. ILP32: gcc -m32 -O2 (functions complete, macro patterns/forms, 3872 table entries, no lanes)',
        thorough='as quick, and: functions through pointers all 2^32; typed families with 3-bit patterns; macros at run time every '
                 '4-bit pattern, lanes sweep all 2^32 values of the half (variants: 2^24 at 2 alignments); table with 3-bit '
                 'patterns over 30 positions (11466 entries); ILP32 also at -Os and -O0'),
    assumptions=[
        'gcc builtins __builtin_popcount/clz/ctz(ll) are the reference; they are validated against naive bit loops on '
        '~5*10^5 structured values at every start-up (also inside the ILP32 helper), not on every argument',
        'the 2^64 argument space of const_pop/const_lssb is covered on sub-spaces only (coverage.exhaustive is false; '
        'exhaustive_functions is 1 for the four functions)',
        '"compile-time constant" is observed as a static initialiser whose argument is a constant expression; '
        '"run-time value" as the same macro on a function parameter of a separately compiled unit',
        'ilog2(0) is outside the statement (assert) and is never called; negative arguments of signed types are outside the '
        'statement (what a bit counter makes of a negative int is not stated) and are never passed',
        'ILP32 is x86 -m32 (int/long/pointer 32 bit, little endian), not ARM: word sizes and integer conversions are those of the '
        'real targets, code generation and char signedness (covered by the -funsigned-char variant on LP64) are not; the 32-bit '
        'build has no C library in this sandbox, so <assert.h> is a stub provided by the check and the helper is freestanding',
        'if -m32 objects cannot be built or 32-bit programs cannot be run, the ILP32 part degrades to a note (coverage.notes) '
        'instead of an error: the table read-back needs only the compiler and objcopy, the rest needs 32-bit execution',
        'a result far outside the range of a bit count is named "out-of-range" in the signature (its value is in the message): '
        'such values are usually indeterminate (undefined builtin results) and would make the signature unstable',
    ],
)
CHECK.update(
    technique='bounded-exhaustive enumeration: all 2^32 arguments of the four functions (LP64 build variants and an ILP32 build); '
              'structured sub-spaces of the 2^64 macro arguments at run time and at compile time; exhaustive families of '
              'argument types and syntactic argument forms',
    level_text='bitcnt, clz, ctz and ilog2 are called from a translation unit that includes only the public header, on every one '
               'of the 2^32 possible arguments (ilog2 on all x > 0), and compared with the compiler builtins: for the functions the '
               'property is decided completely, on LP64 in six builds (gcc -O2, -Os, -O0, -DNDEBUG, -funsigned-char; clang in the '
               'thorough tier) and on ILP32 (gcc -m32). const_pop and const_lssb are checked on every pattern with at most 3 '
               '(thorough: 4) set bits, every contiguous mask, the complements of those, and 8 lanes in which one 32-bit half takes '
               'every 24-bit value at two alignments (thorough: every value) while the other half is 0, 1, 0x80000000 or 0xffffffff. '
               'Both the functions and the macros are also exercised with arguments of every integer type and with operator '
               'expressions and literals of every spelling passed unparenthesised, at run time and (macros) as constant expressions '
               'evaluated by the compiler: 8093 (thorough: 11466) static initialisers are compared with the definition and with '
               'the run-time result.',
    level_note='Not a proof for the macros: 2^64 arguments cannot be enumerated; the covered sub-spaces follow the recursive '
               'halving structure of the macros (each half complete, the other half from a boundary set), the C integer types and '
               'the precedence levels of C operators. Trusted: gcc builtins (self-checked against loops on a structured subset), '
               'the compiler\'s evaluation of (uint64_t)(argument).',
    design_ref='DESIGN.md section 4, C16',
)

CHECK['variants'] = ['c16f', 'c16m']
CHECK['variant_unsigned_char'] = True

CHECK = dict(
    level='model_checking',
    parts=[dict(name='c17', src=['harness/c17_rand.c'], lib=['rand.c'], workers=16,
                deadline=dict(quick=300, thorough=1800))],
    variants=['c17'], variant_unsigned_char=True,
    rule='the generator is a finite state machine with one state word: every state s in 1..2^31-2 is loaded into *seedp, the '
         'real rand31_r (rand.c linked as a separate object, called through <librfn/rand.h> as a user would, its statics reset before every block and every single step) makes one step, and the returned value and the stored seed are compared with the 64-bit '
         'reference 16807*s mod (2^31-1) and with the range 1..2^31-2. states = generator states visited (each exactly once, '
         'so all are distinct), transitions = traces = rand31_r steps compared with the reference. '
         'states_where_carta_fold_exceeds_modulus counts the states that take the conditional-subtraction path. Thorough: one '
         'worker also walks the orbit of the real generator from seed 1 in lock-step with the reference (orbit_steps) and '
         'requires the first return to 1 after exactly 2^31-2 steps.',
    bounds=dict(quick='all 2^31-2 states 1..2^31-2, one step each: the complete transition relation of the statement',
                thorough='all 2^31-2 states, one step each, plus the complete orbit from seed 1 (2^31-2 consecutive steps)'),
    assumptions=['reference: (uint64_t)s * 16807 % 2147483647 as compiled by gcc',
                 'states 0 and 2^31-1..2^32-1 are outside the statement and are not run',
                 'full period: in the quick tier it follows from the exhaustive step check by number theory (16807 is a '
                 'primitive root mod 2^31-1); only the thorough tier checks it directly by walking the orbit'],
)
CHECK.update(
    technique='explicit-state model checking: the complete transition relation of the generator (2^31-2 states) against 64-bit '
              'reference arithmetic; thorough adds the full orbit walk',
    level_text='Every one of the 2^31-2 valid generator states is executed through the real rand31_r and the returned value and '
               'the updated seed are compared with 16807*s mod (2^31-1) computed in 64 bits, and with the range 1..2^31-2. '
               'The thorough tier additionally walks all 2^31-2 steps of the orbit from seed 1 and checks the first return to '
               '1 happens exactly at the end (full period, state 0 never reached).',
    level_note='Trusted: the 64-bit reference expression and the compiler. Nothing is sampled; the state space of the statement '
               'is covered completely.',
    design_ref='DESIGN.md section 4, C17',
)

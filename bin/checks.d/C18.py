CHECK = dict(
    level='exploration',
    # hex.c is compiled as an object of its own (lib=): the harness includes only <librfn/hex.h>, so no static or helper of
    # hex.c can clash with a harness name, and whatever hex.c keeps in statics is reset before every case.
    # The deadlines are safety caps (the enumeration needs well under a minute of 16 cores in the quick tier).
    parts=[dict(name='c18', src=['harness/c18_hex.c'], lib=['hex.c'], workers=16,
                deadline=dict(quick=1800, thorough=7200))],
    rule='bounded-exhaustive enumeration driving the real hex.c (linked as a separate object), five families: '
         '(a) byte arrays dumped with hex_dump_to_file into a bounded stdio sink; the text must be lines of 16 two-digit '
         'lower-case pairs equal to the array (white space, an address prefix, 0x and a missing final newline are tolerated '
         'because the statement does not exclude them) and is parsed back with hex_get_byte: a1 = lengths 0..49 with every '
         'byte value at every position over 6 backgrounds, a2 = lengths on both sides of 2^6..2^10 and 2^12 (thorough: 2^15, '
         '2^16) and of the next multiple of 16, 6 backgrounds (two with a period that is no power of two, so that a wrapped '
         'index reads a different byte), the odd byte next to every such boundary, 10 boundary values; '
         '(b) every text of the grammar [ws* hexdigits ":"] (ws* ["0x"] pair)* ws* "\\n" over finite token alphabets with 1 and '
         '2 lines of up to 3 pairs - basic alphabet {"", " ", tab} / {"", " \\t\\r"} and a wide one that adds the repeated '
         'separators "  ", "\\t\\t", "   " between pairs, after a pair and before the newline - plus all 22x22 two-character hex '
         'pairs alone/prefixed/after an address/next to a second pair, 18 white-space strings (CR, VT, FF, repeated blanks and '
         'tabs) in every position of 12 line shapes, indented and up to 24-digit addresses; expected bytes from an independent '
         'reference parser of that grammar; '
         '(c) ALL strings up to the stated length over {0,a,F,x,:,space,newline,z,0x80} and ALL strings up to a smaller length '
         'over a 28-character alphabet with every character a libc number parser or a sloppy range test treats specially '
         "(- + x X, both ends and the outer neighbours / : @ G ` g of the hex ranges, tab, CR, and the high bytes 0x80 0x8a 0xa0 "
         '0xb0 0xc6 0xe1 0xff that alias white space or hex digits when masked or sign-extended); '
         '(d) byte sweep: 7 short templates ("00\\n", "00 00\\n", "0x00\\n", "0: 00\\n", "00\\n00\\n", " 00 \\n", "00") with all '
         '256 byte values at every position and all 256x256 combinations at every pair of positions; '
         '(e) long texts: 16 shapes (white-space run between pairs / before the first pair / before the newline / after the '
         'address / before the address / as a line of its own, empty lines, lines, pairs on one line with and without '
         'separators or 0x, address digits, prefixed lines, a long malformed line) with the count on both sides of 2^7, 2^8, 2^9 '
         '(thorough: 2^15, 2^16), white space = blanks, tabs, CRs or blank-tab alternating. '
         'Texts of (b)-(e) end flush against a PROT_NONE page, those of (c) and (d) are also run starting right after one. '
         'Every text is read with both calling protocols (resume with s=NULL, the cursor first pointing to a readable decoy; '
         'hex_get_byte(cur,&cur) as tests/hextest.c does). The safety clauses (range, termination within len+2 calls, sticky '
         '-1, no fault, no endless loop) are judged on every text, the returned bytes on every text of (b)-(e) that the '
         'reference grammar accepts. An evaluation is one (case, protocol, placement) run; it is non-trivial when at least one '
         'byte was returned or dumped; distinct = distinct tuples (part, fault, complete sequence of results including the '
         'calls after the first -1 [, dump text]), counted with a hash set, each tuple only by the worker owning its hash '
         '(lower bound of the global count)',
    bounds=dict(quick='(a1) lengths 0..49 x every position x 256 values x 6 backgrounds (0x00,0x0f,0xa0,0xff,ramp,i mod 251) = '
                      '1,881,601 arrays; (a2) lengths {63..65,79..81,127..129,143..145,255..257,271..273,511..513,527..529,'
                      '1023..1025,4095..4097} x 6 backgrounds x positions {0,1,15,16,17,127,128,254..257,4095,4096,len-2,len-1} x '
                      'values {00,09,0a,10,7f,80,9f,a0,f9,ff}; '
                      '(b) wide alphabet: {none,"10:","0fA0:"} x up to 3 x ({"", " ", tab, "  ", "\\t\\t", "   "} ["0x"] {0a,F9}) x '
                      '{"", " \\t\\r", "  ", "\\t\\t", "   "} = 216,375 single lines, and every line of up to 2 pairs (9,015) before '
                      'and after every line of up to 1 pair (375) = 6.76 M two-line texts; basic alphabet: 11,310 lines of up to 3 '
                      'pairs, every ordered pair of them (127.9 M); the 22x22 pair sweep, 864 separator texts, 126 address texts; '
                      '(c) all 9^0+..+9^7 = 5,380,840 strings of length <= 7 and all 28^0+..+28^4 = 637,421 strings of length <= 4 '
                      'over the 28-character alphabet, 2 placements x 2 protocols; (d) 69 position pairs x 65,536 + 33 positions x '
                      '256 = 4,530,432 texts, 2 placements x 2 protocols; (e) 34 shape/white-space combinations x counts '
                      '{127,128,129,255,256,257,258,511,512,513} = 340 texts, 2 protocols',
                thorough='(a1) as quick; (a2) adds lengths {32767..32769, 65535..65537} and positions {32767,32768,65534..65536}; '
                         '(b) pair values {0a,F9,bC}: 719,835 single lines of the wide alphabet, every line of up to 2 pairs '
                         '(19,995) before and after every line of up to 1 pair (555) = 22.2 M, every line of up to 3 pairs over '
                         '{0a,F9} (216,375) before and after every line of up to 1 pair (375) = 162.3 M; basic alphabet: 37,050 '
                         'lines, every ordered pair (1.37 G); (c) all 48,427,561 strings of length <= 8 and all 17,847,789 '
                         'strings of length <= 5 over the 28-character alphabet; (d) as quick; (e) adds the counts '
                         '{32767..32769, 65535..65537} where the text stays within 200,000 characters (544 texts less those '
                         'counted as skipped)'),
    assumptions=['cursor protocol: first call hex_get_byte(text,&p), later calls hex_get_byte(NULL,&p) (mode 1; *p points to a '
                 'readable decoy text before the first call); the hextest.c idiom hex_get_byte(cur,&cur) (mode 2) is '
                 'value-checked only on texts without an address prefix (there every call is a "first" call; what an '
                 'address prefix means for a call that starts in the middle of a line is left open by the statement)',
                 'C locale (isspace/isxdigit of bytes >= 0x80 are false); glibc ctype tables accept negative char values',
                 'texts outside the reference grammar (a malformed or unterminated line somewhere) are judged on the safety '
                 'clauses only: the statement does not say which bytes they yield',
                 'dump shape: white space between pairs, CR before the newline, an "address:" prefix, 0x in front of a pair '
                 'and a missing final newline are tolerated (the statement does not exclude them); every line must hold 16 '
                 'lower-case pairs, the last one the remainder; a dump that writes more than 16*len+4096 characters is a '
                 'violation (dump-runaway)',
                 'memory safety is observed with guard pages (a read one byte past the NUL or one byte before the first '
                 'character faults); reads inside the page but outside the string on the other side are not observable',
                 'the sink of the dump is a stdio stream created with fopencookie (fully buffered, caller-side locking)'],
)
CHECK.update(
    technique='bounded-exhaustive enumeration of arrays, grammar texts, all short strings, byte sweeps and long texts against a '
              'reference parser, with guard-page placement for memory safety, on five (thorough: six) builds of hex.c',
    level_text='Every byte array of length 0..49 with one odd byte (all 256 values at all positions, 6 backgrounds) and arrays '
               'of lengths on both sides of 2^6..2^12 (thorough: 2^15, 2^16) are dumped and parsed back; every 1- and 2-line text '
               'of the well-formed grammar over finite token alphabets (including repeated separators) is compared with a '
               'reference parser; every string of length <= 7 (<= 8 thorough) over a 9-character alphabet and of length <= 4 '
               '(<= 5) over a 28-character alphabet of special characters, every one- and two-position byte substitution (all '
               '256 / 256x256 values) in 7 short templates, and long texts with counts on both sides of 2^7..2^9 (thorough: '
               '2^15, 2^16) are parsed flush against guard pages, checking range, termination within len+2 calls, sticky -1, '
               'absence of faults and endless loops, and the returned bytes whenever the text is in the grammar. The whole '
               'enumeration is repeated on gcc -Os, -O0, -DNDEBUG and -funsigned-char builds (thorough: clang). Lengths and '
               'alphabets are bounded, hence exploration.',
    level_note='Trusted: the reference grammar parser (40 lines, also the shape checker of the dump), mmap/mprotect guard '
               'pages, fopencookie. Arrays with two or more independent odd bytes, texts with more than 2 lines or 3 pairs '
               'per line outside the long-text shapes, strings longer than 8 characters outside the templates, texts whose '
               'last line has no newline (safety clauses only) and interleaved parses of two texts are not enumerated. No '
               'ASan build: the guard pages are the (more precise) memory oracle and a sanitizer abort would be a harness '
               'error rather than a recorded violation.',
    design_ref='DESIGN.md section 4, C18',
)

CHECK['variants'] = ['c18']
CHECK['variant_unsigned_char'] = True

CHECK = dict(
    level='exploration',
    parts=[dict(name='c18', src=['harness/c18_hex.c'], lib=['hex.c'], workers=16,
                deadline=dict(quick=900, thorough=3000))],
    rule='bounded-exhaustive enumeration driving the real hex.c, three sub-spaces: (a) byte arrays of length 0..49 with '
         'every byte value at every position over 5 backgrounds, dumped with hex_dump_to_file into a memstream, shape of '
         'the text checked, text parsed back with hex_get_byte; (b) every text of the grammar '
         '[hexdigits ":"] (ws* ["0x"] pair)* ws* "\\n" over a finite token alphabet with 1 and 2 lines of up to 3 pairs, '
         'plus all 22x22 two-character hex pairs alone/prefixed/after an address/next to a second pair, expected bytes '
         'from an independent reference parser of that grammar; (c) ALL strings up to the stated length over '
         "{0,a,F,x,:,space,newline,z,0x80}, each placed with its NUL as the last byte before a PROT_NONE page and again "
         'starting right after one. Every text is read with both calling protocols (resume with s=NULL; '
         'hex_get_byte(cur,&cur) as tests/hextest.c does). An evaluation is one (case, protocol, placement) run; it is '
         'non-trivial when at least one byte was returned or dumped; distinct = distinct tuples (part, fault, complete '
         'sequence of results including the calls after the first -1 [, dump text]), counted with a hash set, each tuple '
         'only by the worker owning its hash (lower bound of the global count)',
    bounds=dict(quick='(a) lengths 0..49 x every position x 256 values x 5 backgrounds (0x00,0x0f,0xa0,0xff,ramp); '
                      '(b) lines = {none,"10:","0fA0:"} x up to 3 x ({"", " ", tab} ["0x"] {0a,F9}) x {"", " \\t\\r"} = 11,310 '
                      'lines, every 1- and 2-line text (127.9 M), plus the 22x22 pair sweep; (c) all 9^0+..+9^7 = '
                      '5,380,840 strings of length <= 7, 2 placements x 2 protocols',
                thorough='(a) as quick; (b) pair values {0a,F9,bC}: 37,050 lines, every 1- and 2-line text (1.37 G); '
                         '(c) all 48,427,561 strings of length <= 8, 2 placements x 2 protocols'),
    assumptions=['cursor protocol: first call hex_get_byte(text,&p), later calls hex_get_byte(NULL,&p) (mode 1); the '
                 'hextest.c idiom hex_get_byte(cur,&cur) (mode 2) is value-checked only on texts without an address '
                 'prefix, because there every call is a "first" call and a later "addr:" swallows the rest of the '
                 'current line by design of the API',
                 'C locale (isspace/isxdigit of bytes >= 0x80 are false); glibc ctype tables accept negative char values',
                 'dump shape: blanks between pairs and a missing final newline would be tolerated (the statement does '
                 'not exclude them); lines must hold 16 lower-case pairs, the last one the remainder',
                 'memory safety is observed with guard pages (a read one byte past the NUL or one byte before the first '
                 'character faults); reads inside the page but outside the string on the other side are not observable'],
)
CHECK.update(
    technique='bounded-exhaustive enumeration of arrays, grammar texts and all short strings against a reference parser, '
              'with guard-page placement for memory safety',
    level_text='Every byte array of length 0..49 with one odd byte (all 256 values at all positions, 5 backgrounds) is '
               'dumped and parsed back; every 1- and 2-line text of the well-formed grammar over a finite token alphabet '
               'is compared with a reference parser; every string of length <= 7 (<= 8 thorough) over a 9-character '
               'alphabet is parsed flush against guard pages on either side, checking range, termination within len+2 '
               'calls, sticky -1 and absence of faults. Lengths/alphabets are bounded, hence exploration.',
    level_note='Trusted: the reference grammar parser (40 lines), the shape checker, mmap/mprotect guard pages. Arrays '
               'with two or more independent odd bytes, texts with more than 2 lines or 3 pairs per line, and strings '
               'longer than 8 characters are not enumerated. No ASan build: the guard pages are the (more precise) '
               'memory oracle and a sanitizer abort would be a harness error rather than a recorded violation.',
    design_ref='DESIGN.md section 4, C18',
)

CHECK['variants'] = ['c18']
CHECK['variant_unsigned_char'] = True

CHECK = dict(
    level='model_checking', distinct_global=True,
    parts=[dict(name='c19', src=['harness/c19_rotenc.c'], workers=16,
                deadline=dict(quick=120, thorough=900))],
    rule='two exhaustive enumerations over the real rotenc.c. Part 1 (16 partitions = (last_state,next) pairs): every '
         'reachable start state (last_state x 16-bit internal position x latched count) x next state, then every second '
         'next state; each decode step is compared with the Gray-cycle model (+1 clockwise / -1 anticlockwise / 0 for '
         'repeat and two-bit jump; count latched iff the new state is the detent, otherwise unchanged; low 8 bits of '
         'count14 == count). Part 2 (one worker): vx_bfs to a fixpoint from ROTENC_VAR_INIT over all input sequences on '
         'the ghost-augmented machine (rotenc_t + wide true position T + wide true latched position L + "no invalid jump '
         'yet" flag), a step being enabled while |T - 4L| <= 4W quarter steps; after every decode internal == T mod 2^16, '
         'rotenc_count == L mod 256, rotenc_count14 == L mod 2^14, low bytes agree, and for jump-free histories both '
         'readings lie within one click of T/4. A BFS state is distinct when (rotenc_t fields, T mod 2^16, T-4L, flag) '
         'differs; "distinct" counts distinct observation tuples (input, internal_count, count, count14) with a hash set.',
    bounds=dict(quick='part 1: all 4 x 65536 (last_state, position) pairs x 8 latched-count values (0,1,127,128,254,255, '
                      'current clicks, clicks+1) x 4 next x 4 second-next states; part 2: complete reachable state space '
                      '(fixpoint, histories of every length) for drift window W = 2 clicks - covers every position 0..65535',
                thorough='part 1: all 4 x 65536 x 256 start states x 4 x 4 next states (2^28 start points, unreachable '
                         'ones skipped and counted); part 2: fixpoint for drift window W = 100 clicks'),
    assumptions=['inputs are 2-bit states 0..3; the decoder starts from ROTENC_VAR_INIT with the encoder resting at the detent '
                 'state (true position 0, latched position 0)',
                 'clockwise is the cycle 00 -> 01 -> 11 -> 10 -> 00 named in rotenc.c; the detent state is 00',
                 'scope of the "readings equal the latched position" clauses: the true position stays within W clicks of '
                 'the last detent reading (with invalid jumps the drift is otherwise unbounded and no 8-bit latch could be right)',
                 'the "never more than one click from the true position" clause is checked only for histories without an '
                 'invalid two-bit jump (after a jump the detent no longer sits on a multiple of four quarter steps, and '
                 'even the exact latched value may be up to 1.5 clicks away)',
                 'part 1 writes the public fields of rotenc_t directly to place the decoder in each start state; states '
                 'with last_state == detent but count != position/4 are unreachable and skipped (counted)'],
)
CHECK.update(
    technique='explicit-state model checking: exhaustive one/two-step transition check over all decoder states plus BFS to a '
              'fixpoint over input sequences of the ghost-augmented decoder against a wide-integer position model',
    level_text='Part 2 reaches a fixpoint: the complete reachable state space of the real rotenc_decode/rotenc_count/'
               'rotenc_count14 under all sequences of the four 2-bit states (repeats, bounce, invalid jumps) with the true '
               'position kept within W clicks (2 quick / 100 thorough) of the last detent reading; every 16-bit position and '
               'therefore the 8-, 14- and 16-bit wrap points are crossed in both directions (counted). Part 1 checks the '
               '+1/-1/0 rule and the latch rule from every decoder state independently of reachability from reset.',
    level_note='Trusted: the Gray-cycle reference model, the wide-integer ghost and the argument that (T mod 2^16, T-4L) is a '
               'sufficient canonical form. The drift window W bounds the sequences covered by the latched-reading clauses.',
    design_ref='DESIGN.md section 4, C19',
)

CHECK['variants'] = ['c19']

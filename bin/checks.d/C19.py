CHECK = dict(
    level='model_checking', distinct_global=True,
    parts=[dict(name='c19', src=['harness/c19_rotenc.c'], lib=['rotenc.c'], workers=16,
                deadline=dict(quick=300, thorough=1800))],
    rule='rotenc.c is linked as an object of its own and used through <librfn/rotenc.h> only; every decoder state is reached by '
         'real rotenc_decode calls from ROTENC_VAR_INIT (no field of rotenc_t is written by the harness, no field order, width '
         'or completeness is assumed; only internal_count is read, and judged by differences modulo 2^16); a copy of a state is '
         'the whole rotenc_t image plus every static of rotenc.c. One step function drives the real code and a wide-integer '
         'ghost (true position T in quarter steps, true latched position L in clicks = floor(T/4) at the last decode of the '
         'detent state, "no invalid jump yet" flag) over 5 operations - decode(0..3) followed by rotenc_count, and "r" = '
         'rotenc_count14 as a pure read. After a decode: position moved by exactly +1 clockwise / -1 anticlockwise / 0 for a '
         'repeat or two-bit jump; rotenc_count (read into an unsigned) <= 255 and == L mod 256; within one click of T/4 for '
         'jump-free histories. After a read: neither the position nor rotenc_count moved; count14 <= 0x3fff; count14 == L mod '
         '2^14 while |T - 4L| <= 4*127 quarter steps; low 8 bits == rotenc_count; within one click of T/4 for jump-free '
         'histories. Enumerations: (seq) vx_bfs to a fixpoint from reset over all sequences of the 5 operations, a decode '
         'enabled while afterwards |T - 4L| <= 4W quarter steps; a BFS state is distinct when (whole rotenc_t image, statics of '
         'rotenc.c, T mod 2^16, T-4L, previous state, flag) differs, so states that differ in a hidden field or static are never '
         'merged, and every read pattern (never, once, twice in a row, after any number of decodes) is part of the space. '
         '(step) from every reachable decoder state (last_state x 16-bit position x latched count; visited by real paths: plain '
         'rotation either way around the whole 16-bit circle started on either phase, and per latched count a rotation to that '
         'click followed by detent-avoiding laps 2,1,3 / 1,2,3 around the whole circle) decode(0..3), read, decode(0..3), read on '
         'copies. (walk) 8 walkers (cw/acw x started with/without an invalid jump x reading count14 after every decode / never, '
         'the never-reading ones read twice on a throw-away copy at every step) around the whole 14-bit click circle; at bases '
         '(arrivals at the detent): (drift) 6 lap patterns that never visit the detent (3,2,1 / 3,1,2 / 1,3,2 / 2,3,1 / 1,2,3 / '
         '2,1,3) out to +-127 clicks from the latch, count14 against the ghost latch after every decode; (gap) 300 clicks of '
         'rotation either way without reading count14 on the main line, read twice on a copy at every step; (rest) each of the 4 '
         'states polled 301 times, every one-decode continuation on a copy after each poll. (dwell) every prefix of <= P decodes '
         'from reset x each of the 4 states polled N times x main line reading / never reading x after each poll every '
         'continuation of <= Q decodes on copies. "distinct" counts distinct observation tuples (operation, position mod 2^16, '
         'count, count14) of the search with a hash set.',
    bounds=dict(quick='seq: complete reachable state space (fixpoint, histories of every length) for drift window W = 3 clicks - covers '
                      'every position 0..65535; step: 4 rotation paths + 2 lap paths for each latched count in {0,1,2,31,32,63,64,65,'
                      '127,128,129,191,192,193,254,255}, every state on them probed two decodes deep; walk: all 16384 clicks (+3) per '
                      'walker; drift bases: within 2 clicks of every multiple of 128 clicks plus every offset -128..127 around clicks 0 '
                      '(14/16-bit wrap), 128, 256, 8192 and 16128; gap and rest bases: within 1 click of every multiple of 128; dwell: '
                      'P=4, N=301, Q=2 and P=2, N=66001, Q=1',
                thorough='seq: fixpoint for drift window W = 100 clicks; step: all 256 latched counts; drift bases: every click '
                         '0..16383; gap and rest bases: within 2 clicks of every multiple of 128; dwell: P=6, N=301, Q=3 and P=3, '
                         'N=66001, Q=1'),
    assumptions=['inputs are 2-bit states 0..3; the decoder starts from ROTENC_VAR_INIT with the encoder resting at the detent '
                 'state (true position 0, latched position 0)',
                 'clockwise is the cycle 00 -> 01 -> 11 -> 10 -> 00 named in rotenc.c; the detent state is 00',
                 'scope of "count14 equals the latched position": the true position is within 127 clicks of the last detent '
                 'reading (W clicks in the search) - with invalid jumps the drift is otherwise unbounded and no 8-bit latch next to '
                 'a live position could be extended; rotenc_count == L mod 256, the low-8-bit agreement and the range of both '
                 'readings are judged at any drift',
                 'the "never more than one click from the true position" clause is checked only for histories without an '
                 'invalid two-bit jump (after a jump the detent no longer sits on a multiple of four quarter steps, and '
                 'even the exact latched value may be up to 1.5 clicks away)',
                 'the internal position is the field internal_count taken modulo 2^16 and judged by its change per decode; '
                 'hidden per-object or static counters are covered up to 66000 identical polls (dwell) and, inside the search, to any '
                 'depth the state cap 65536*(8W+2) allows'],
)
CHECK.update(
    technique='explicit-state model checking: BFS to a fixpoint over operation sequences (decodes and reads) of the ghost-augmented '
              'decoder against a wide-integer position model, plus bounded-exhaustive scripted families (every reachable decoder '
              'state two decodes deep, drift laps to +-127 clicks, read gaps, long dwells) through the same step oracle',
    level_text='The search reaches a fixpoint: the complete reachable state space of the real rotenc_decode/rotenc_count/'
               'rotenc_count14 (linked as a separate object, whole rotenc_t image and library statics part of every state) under '
               'all sequences of the four 2-bit states and of count14 reads (repeats, bounce, invalid jumps, any read pattern) '
               'with the true position kept within W clicks (3 quick / 100 thorough) of the last detent reading; every 16-bit '
               'position and therefore the 8-, 14- and 16-bit wrap points are crossed in both directions (counted). The step '
               'family checks the +1/-1/0 rule and the latch rule two decodes deep from every reachable (last_state, position, '
               'latched count) state; the drift family checks count14 against the latch out to +-127 clicks next to every multiple '
               'of 128 clicks (every click in thorough); the dwell and rest families poll one state up to 66001 times.',
    level_note='Trusted: the Gray-cycle reference model, the wide-integer ghost and the argument that (T mod 2^16, T-4L) is a '
               'sufficient canonical form next to the whole object image. The drift window W bounds the sequences the search '
               'covers; beyond it the scripted families cover the stated lap patterns only.',
    design_ref='DESIGN.md section 4, C19',
)

CHECK['variants'] = ['c19']
CHECK['variant_unsigned_char'] = True

CHECK = dict(
    level='model_checking',
    parts=[dict(name='c20', src=['harness/c20_mlog.c'], workers=16,
                objs=[('@REPO@/librfn/string.c', []), ('@REPO@/librfn/util.c', [])],
                deadline=dict(quick=120, thorough=1500))],
    rule='x', bounds=dict(quick='', thorough=''), assumptions=[],
)
CHECK.update(technique='x', level_text='x', level_note='x', design_ref='DESIGN.md section 4, C20')

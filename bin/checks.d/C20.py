_LIB = ['mlog.c', 'string.c', 'util.c']     # strdup_printf / xmalloc come with mlog.c; util.c wants a time_now() (stub in the harness)

CHECK = dict(
    level='model_checking',
    parts=[
        # main part: start counts 0 .. 2^26+258, count family + content family (repeated on every build variant)
        dict(name='c20', src=['harness/c20_mlog.c'], lib=_LIB, workers=16, deadline=dict(quick=1200, thorough=3600)),
        # fold part: start counts 2^27-257 .. 2^31+298 (quick) / 2^31+599 (thorough); every worker makes its own 2^31+ real calls
        dict(name='c20fold', src=['harness/c20_mlog.c'], lib=_LIB, cflags=['-DC20_FOLD=1'], workers=4, tiers=('quick',),
             deadline=dict(quick=1200)),
        dict(name='c20foldt', src=['harness/c20_mlog.c'], lib=_LIB, cflags=['-DC20_FOLD=1'], workers=8, tiers=('thorough',),
             deadline=dict(thorough=3600)),
    ],
    rule='vx_bfs over operation histories of the real mlog.c, linked as an object of its own (lib=: nothing of the harness knows '
         'its representation; the library state is the opaque image of all its statics, part of every snapshot) against an '
         'unbounded-list model (64-bit message count, no ring or fold arithmetic; reference text from a format walker with '
         'properly typed arguments). Every start state is reached by REAL calls: a worker climbs a ladder of mlog calls from '
         'an empty log once and takes an image at each start count P it owns; second-generation starts add mlog_clear and Q in '
         '{1,255,256,257} more real calls. Start counts: every P in 0..1030 (observed), searches from {0,1,2,254..258,510..514,'
         '766..770} and 2^b + {-257,-256,-255,-2,-1,0,1,2,254..258} for b = 9..30 (every width a counter could have), and '
         '2^31-1+j for j = -300..299 (thorough ..600). Reads are part of the history: after the start state and after every '
         'operation a reads pass on the live library - mlog_get_line(k) for k = -2..258 and 11 extreme k (INT_MIN..INT_MAX), '
         'mlog_dump twice in a row, the boundary k (-1, 0, v-1, v, 255, 256) twice in a row - each compared with the model; '
         'after every single read the image of the library statics is compared with the one before it: an unchanged image '
         'means the read cannot influence anything later (so interleavings with it add nothing), a changed one makes that '
         'read (mlog_dump, mlog_get_line(k) for the k classes -1,0,1,v-2..v+1,254,255,256,INT_MIN,INT_MAX) an operation of the '
         'search from there on, at most 1 (quick) / 2 (thorough) per history. Count family: all sequences of <= D operations over {mlog, mlog_nice, '
         'mlog_clear}, the message rotating with its sequence number through 8 shapes (0..3 arguments, %s first / third, '
         'values >= 2^32 in every position, no trailing newline, %%). Content family: from P in {0,1,255,256,257,600} one of 161 '
         'menu messages (17 values on both sides of 2^7,8,15,16,31,32,63,64 and INT_MIN/-1/INT_MAX in each of the three '
         'positions; string pointers above 2^32 in each position; 0..3 arguments; empty format, newline only, no trailing '
         'newline, %% forms; lines of 2^j-1, 2^j, 2^j+1 bytes for j = 5..16 through a %s argument and through a literal '
         'format) through mlog and through mlog_nice, then sequences over a reduced menu of 23, mlog_clear and "the same call '
         'again" (identical consecutive messages). mlog_nice: recording with 256 recorded is a violation, what it records '
         'must be the message; not recording although there is room is not judged (the statement says "only while"), the '
         'model follows what mlog_get_line(n) shows and counts it. A search ends with its first counterexample. State and transition counts differ a little between builds: the argument registers a call does not use are stored by mlog and are part of the image.',
    bounds=dict(quick='count family: 888 start counts (236 up to 2^26+258 in the main part; 652 from 2^27-257 to 2^31+298 in the '
                      'fold part, whose 4 workers each make 2^31+298 real calls) x all sequences of <= 5 (main) / <= 4 (fold) '
                      'operations, plus 3548 second-generation starts x <= 2 operations; content family: 6 start counts x 322 '
                      'first messages x all sequences of <= 2 operations (the fold part runs on the primary build only in this tier)',
                thorough='count family: 1189 start counts (fold part up to 2^31+599, 8 workers) x all sequences of <= 8 (main) / '
                         '<= 6 (fold) operations, plus 4752 second-generation starts x <= 4 (main) / <= 3 (fold) operations; content '
                         'family: <= 3 operations from the counts 0 and 256, <= 2 from 1, 255, 257, 600; the fold part is repeated '
                         'on every build variant too'),
    assumptions=['the library is deterministic in its statics: what it keeps lives in static storage of mlog.c / string.c / '
                 'util.c (all of it is part of every snapshot and of the purity test of the reads); state kept in heap blocks '
                 'reachable from those statics would not be restored between branches',
                 'x86-64 calling convention (the three variadic arguments travel in registers); arguments are unsigned long, '
                 'int, char and char* to constant strings; formats and strings are constant data in an mmap()ed arena above 2^32',
                 'start counts between 1030 and 2^31-301 are visited on both sides of every power of two only (and observed at '
                 'every multiple of 2^26); a defect that damages the log at some other count is seen only if the damage '
                 'persists to the next start count of the ladder',
                 'mlog_nice declining to record while fewer than 256 are recorded is allowed by the statement and not judged '
                 '(counter nice_declined_although_room_not_judged, 0 on the current sources)',
                 'the string mlog_get_line returns is released with free() as mlog.h prescribes; a result free() rejects is '
                 'reported as a fault of mlog_get_line',
                 'read operations inside a history (only for reads that change the statics) are limited to the k classes named '
                 'in the rule and to 1 (quick) / 2 (thorough) per history; the reads pass after it always covers every k'],
)
CHECK.update(
    technique='explicit-state model checking: bounded-depth BFS over operation histories (writes, and reads whenever they '
              'have side effects) of the real, separately compiled mlog.c from start states reached only by real calls '
              '(up to 2^31+ of them, across the counter fold), against an unbounded-list model',
    level_text='Every sequence of up to 5 (quick; 8 thorough) operations from {mlog, mlog_nice, mlog_clear} from 236 start '
               'counts up to 2^26+258 and of up to 4 (6) from 652 (953) counts from 2^27-257 to 2^31+298 (+599) - around every '
               'power of two and every count within 300 of the 2^31-1 fold - plus second-generation starts (cleared and '
               'refilled), each reached by genuine mlog calls only; a content family sends 161 message shapes (wide values and '
               'string pointers in every argument position, 0..3 arguments, empty / unterminated / %% formats, lines of 31 to '
               '65537 bytes) through mlog and mlog_nice and follows them with further messages, clears and exact repeats. '
               'After each operation all of mlog_get_line(-2..258 and extreme k) and mlog_dump (twice) run on the live '
               'library and are compared with an unbounded list; a read that changes any static of the library becomes an '
               'operation of the search.',
    level_note='Depth-bounded (not a fixpoint). Trusted: the list model and its format walker, the generated ladder messages, '
               'and that the library keeps its state in its statics.',
    design_ref='DESIGN.md section 4, C20',
)

CHECK['variants'] = ['c20', 'c20foldt']

CHECK = dict(
    level='model_checking',
    parts=[dict(name='c20', src=['harness/c20_mlog.c'], workers=16,
                # strdup_printf (used by mlog_get_line) and xmalloc come from the real librfn sources, compiled apart
                objs=[('@REPO@/librfn/string.c', []), ('@REPO@/librfn/util.c', [])],
                deadline=dict(quick=300, thorough=2400))],
    rule='vx_bfs over operation histories of the real mlog.c (static log reached by #include "mlog.c") against an unbounded-'
         'list model (64-bit message count, no ring or fold arithmetic). 722 start states: message count P in '
         '{0,1,254..258,510..514} built by P real mlog calls, P = 2^b + {-1,0,1,255,256} for b = 9..30 (every width the counter could be narrowed to), and P = 2^31-1+j for j = -300..299 built by setting log.head = '
         'P-300 and issuing 300 real mlog calls (ring content, slot alignment and the counter fold come from the real code). '
         'From each start all sequences of <= D operations over {mlog with 0,1,2,3 arguments, mlog_nice, mlog_clear}; after '
         'the start state and after every operation mlog_get_line(k) for k = -2..258 and 11 extreme k (INT_MIN..INT_MAX) '
         'and the mlog_dump output are compared with the model. A state is distinct when (log.head, all 256 slots by format '
         'and consumed arguments, model) differs; "distinct" counts distinct observation tuples (all returned lines + dump '
         'text) with a hash set. Messages carry a global sequence number in their arguments, 0-argument messages one of 7 '
         'texts.',
    bounds=dict(quick='722 start states x all operation sequences of length <= 4',
                thorough='722 start states x all operation sequences of length <= 6; plus one run of 2^31+600 real mlog '
                         'calls from an empty log with no positioning, compared with the model after every call for counts '
                         '<= 600 and >= 2^31-901 and every 2^26 calls, and required to produce, at each of the 600 '
                         'positioned counts, the same log state and observations as the positioned construction'),
    assumptions=['positioning shortcut: before the first fold log.head equals the number of messages logged, so writing '
                 'P-300 into log.head reproduces a reachable counter value (premise and result are checked against 2^31+600 '
                 'real calls in the thorough tier only; the quick tier relies on it)',
                 'x86-64 calling convention (the three variadic arguments travel in registers), arguments are unsigned long, '
                 'char* to constant strings, int and char; format strings are string literals',
                 'message counts between 520 and 2^31-901 are visited only at multiples of 2^26 (thorough long run); the '
                 'ring arithmetic depends on the count only through count mod 256 and its position relative to 256 and to '
                 'the fold, all of which are covered',
                 'reads (mlog_get_line, mlog_dump) are performed after every operation in a fixed order, not interleaved as '
                 'separate operations of the search'],
)
CHECK.update(
    technique='explicit-state model checking: bounded-depth BFS over operation histories of the real mlog.c from 612 start '
              'states (including both sides of the 2^31 counter fold) against an unbounded-list model, plus a 2^31+600 call '
              'conformance run',
    level_text='Every sequence of up to 4 (quick) / 6 (thorough) operations from {mlog x 0..3 arguments, mlog_nice, '
               'mlog_clear} from each of 722 start states - message counts 0, 1, 254..258, 510..514, around every power of two 2^9..2^30 and every count within '
               '300 of the 2^31-1 fold point - executed on the real mlog.c; after each operation all of mlog_get_line(-2..258 '
               'and extreme k) and mlog_dump are compared with an unbounded list. Thorough additionally crosses the fold with '
               '2^31+600 genuine calls and shows the positioned start states equal the genuinely reached ones.',
    level_note='Depth-bounded (not a fixpoint). Trusted: the list model, the lazily generated bulk messages, and - in the '
               'quick tier - the log.head positioning shortcut.',
    design_ref='DESIGN.md section 4, C20',
)

CHECK['variants'] = ['c20']

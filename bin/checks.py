"""Per-property configuration of bin/check. Each file bin/checks.d/<ID>.py defines
CHECK = dict(level=..., parts=[...], rule=..., bounds=..., assumptions=[...], and
for the manifest: technique=..., level_text=..., level_note=..., design_ref=...)."""
import glob, os, runpy

CHECKS = {}
for _f in sorted(glob.glob(os.path.join(os.path.dirname(os.path.abspath(__file__)), 'checks.d', 'C*.py'))):
    CHECKS[os.path.basename(_f)[:-3]] = runpy.run_path(_f)['CHECK']

"""Per-property configuration of bin/check. Each file bin/checks.d/<ID>.py defines
CHECK = dict(level=..., parts=[...], rule=..., bounds=..., assumptions=[...], and
for the manifest: technique=..., level_text=..., level_note=..., design_ref=...)."""
import glob, os, runpy

# Build variants: a check that sets variants=[part names] has those parts repeated on other builds of the librfn sources -
# conditional code (__OPTIMIZE_SIZE__, __OPTIMIZE__, NDEBUG, __clang__), side effects inside assert(), compiler- and
# ABI-dependent arithmetic show only there. The repository's own Makefile builds without -O, so -O0 is a shipped
# configuration. The driver keeps a variant's counts apart and tags its violations.
VARIANTS = [
    # tag, compiler, extra flags, tiers
    ('gcc -Os', 'gcc', ['-Os'], ('quick', 'thorough')),
    ('gcc -O0', 'gcc', ['-O0'], ('quick', 'thorough')),
    ('gcc -O2 -DNDEBUG', 'gcc', ['-DNDEBUG'], ('quick', 'thorough')),
    ('clang -O2', 'clang', [], ('thorough',)),
]
UNSIGNED_CHAR = ('gcc -O2 -funsigned-char', 'gcc', ['-funsigned-char'], ('quick', 'thorough'))


def expand_variants(check):
    names = check.get('variants')
    if not names:
        return check
    table = list(VARIANTS) + ([UNSIGNED_CHAR] if check.get('variant_unsigned_char') else [])
    # variant_tiers = {tag: tiers}: expensive checks run some variants in one tier only; a tag mapped to () is left out
    vt = check.get('variant_tiers', {})
    table = [(tag, cc, flags, tuple(vt.get(tag, tiers))) for tag, cc, flags, tiers in table]
    # an entry of variants is a part name, or (part name, [tags]) to give that part only some of the variants
    only = dict((n[0], n[1]) for n in names if isinstance(n, tuple))
    names = [n[0] if isinstance(n, tuple) else n for n in names]
    out = []
    for p in check['parts']:
        if p['name'] not in names:
            continue
        for tag, cc, flags, tiers in table:
            if p['name'] in only and tag not in only[p['name']]:
                continue
            q = dict(p)
            q['name'] = p['name'] + '_' + ''.join(ch for ch in tag if ch.isalnum())
            q['variant'] = tag
            q['cc'] = cc
            q['cflags'] = list(p.get('cflags', [])) + flags
            q['tiers'] = tuple(t for t in tiers if t in p.get('tiers', ('quick', 'thorough')))
            if q['tiers']:
                out.append(q)
    check['parts'] = check['parts'] + out
    check['bounds'] = dict((k, v + '; the whole enumeration repeated on other builds of the librfn sources, counted separately: ' +
                            ', '.join(t[0] for t in table if k in t[3])) for k, v in check['bounds'].items())
    return check


CHECKS = {}
for _f in sorted(glob.glob(os.path.join(os.path.dirname(os.path.abspath(__file__)), 'checks.d', 'C*.py'))):
    CHECKS[os.path.basename(_f)[:-3]] = expand_variants(runpy.run_path(_f)['CHECK'])

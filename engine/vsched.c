/*
 * vsched.c - see vsched.h. This file is #included by the (uninstrumented)
 * harness translation unit after vx.h; it implements the part of the
 * -fsanitize=thread ABI that gcc emits for C code, a coroutine scheduler, the
 * DFS explorer and the vector-clock race detector.
 */
#include "vsched.h"

#include <ucontext.h>

/* ------------------------------------------------------------------ state */

typedef struct { uint32_t c[VS_MAXCTX]; } vs_vc;

typedef struct {
	uint64_t ha, hb;		/* observation history hash */
	vs_vc vc;			/* happens-before clock */
	vs_vc acq_pending;		/* clocks read by relaxed loads, joined by a later acquire fence */
	vs_vc rel_fence;		/* clock at the last release fence (published by later relaxed stores) */
	int has_rel_fence;
	int live;
	/* spin detection: atomic call sites visited since this context last changed memory */
	/* spin detection: call sites of atomic operations and the values observed since the context last made
	 * progress; a context that is back at a site having only observed values that memory still holds (and
	 * having written nothing blindly) would repeat itself for ever: it is blocked until one of them changes */
	struct { void *site; uint64_t ha, hb; int obs_start; } spin[24];
	int nspin;
	struct { const uint8_t *addr; uint8_t n, wrote; uint64_t val; } obs[64], watch[64];
	int nobs, nwatch, obs_overflow, blind_write, obs_wrote;
} vs_ctx;

typedef struct { uint8_t *p; size_t n; int kind; const char *name;
		 /* shadow (VS_SHARED only) */
		 int8_t *wctx; uint32_t *wclk; uint32_t *rclk; /* [n][VS_MAXCTX] */ } vs_reg;

#define VS_MAXREG 12
#define VS_MAXLOC 48
#define VS_STACK (256 * 1024)
#define VS_MAXCHOICE 4096

static struct {
	const vs_scenario *scn; const vs_options *opt; vs_stats *st;
	int running;			/* an execution is in progress (hooks active) */
	int in_setup;
	ucontext_t sched_ctx, thr_ctx[VS_MAXT];
	int finished[VS_MAXT], started[VS_MAXT];
	int blocked[VS_MAXT];		/* spinning: enabled again when a watched value changes */
	int cur;			/* running thread */
	vs_ctx ctx[VS_MAXCTX];
	int stack0[VS_MAXH + 1], depth0;	/* thread 0: active context stack (ids), depth0 = handlers active */
	int next_handler;
	vs_reg reg[VS_MAXREG]; int nreg;
	struct { void *addr; vs_vc rel; } loc[VS_MAXLOC]; int nloc;
	uint64_t write_epoch;
	int steps;
	/* choice engine */
	int choice[VS_MAXCHOICE], nalt[VS_MAXCHOICE], cost[VS_MAXCHOICE];
	int npoints, prefix_len, dev_used, bound;
	int abandon;			/* 0 running, 1 pruned, 2 failed, 3 horizon */
	int spurious_used;		/* spurious weak-CAS failures injected in this execution (at most opt->spurious_cas) */
	vx_set seen;			/* visited states (remaining budget folded into the key when bounded) */
	jmp_buf *escape;		/* failures raised while in the scheduler context (init, at_end) */
	int in_sched;
	/* failure record */
	int failed; char fclause[64]; char *fmsg;
	/* tracing */
	int tracing; vx_sb trace;
} V;

static uint8_t vs_stacks[VS_MAXT][VS_STACK] __attribute__((aligned(64)));
static vs_optab_entry vs_tab[128]; static int vs_ntab;

void (*vs_plain_write_hook)(int ctx, const char *region, size_t offset);
int vs_optab(const vs_optab_entry **tab) { *tab = vs_tab; return vs_ntab; }
int vs_tracing(void) { return V.tracing; }

static inline vs_ctx *vs_curctx(void)
{
	if (V.cur == 0) return &V.ctx[V.stack0[V.depth0]];
	return &V.ctx[V.cur < 0 ? 0 : V.cur];
}
int vs_self(void) { return (int)(vs_curctx() - V.ctx); }
/* Happens-before identity: every thread is its own; all interrupt handler invocations together form ONE
 * logical interrupt-side thread (they execute in a total order on the interrupted core), which is not
 * ordered with the main context except through the program's own atomics. */
static inline vs_ctx *vs_hbctx(vs_ctx *c) { int id = (int)(c - V.ctx); return id < V.scn->nthreads ? c : &V.ctx[V.scn->nthreads]; }
int vs_nesting(void) { return V.cur == 0 ? V.depth0 : 0; }

static inline void vs_fold(vs_ctx *c, uint64_t v)
{
	c->ha = vx_mix(c->ha ^ v) + 0x9e3779b97f4a7c15ULL;
	c->hb = vx_mix(c->hb + v * 0x9fb21c651e98df25ULL) ^ (c->ha >> 11);
}
static inline void vc_join(vs_vc *a, const vs_vc *b) { for (int i = 0; i < VS_MAXCTX; i++) if (b->c[i] > a->c[i]) a->c[i] = b->c[i]; }

void vs_trace(const char *fmt, ...)
{
	if (!V.tracing) return;
	va_list ap; va_start(ap, fmt); char *m = vx_vfmt(fmt, ap); va_end(ap);
	int id = vs_self();
	if (id < V.scn->nthreads) vx_sb_printf(&V.trace, "  [T%d%s] %s\n", id, "", m);
	else vx_sb_printf(&V.trace, "  [T0/irq%d depth %d] %s\n", id - V.scn->nthreads, V.depth0, m);
	free(m);
}

/* ------------------------------------------------------------------ regions */

void vs_region(void *p, size_t n, int kind, const char *name)
{
	if (V.nreg >= VS_MAXREG) { fprintf(stderr, "vsched: too many regions\n"); _exit(3); }
	vs_reg *r = &V.reg[V.nreg++];
	r->p = p; r->n = n; r->kind = kind; r->name = name;
	if (kind == VS_SHARED) {
		r->wctx = malloc(n); r->wclk = calloc(n, 4); r->rclk = calloc(n * VS_MAXCTX, 4);
		memset(r->wctx, -1, n);
	} else r->wctx = NULL, r->wclk = r->rclk = NULL;
}
static void vs_regions_clear(void)
{
	for (int i = 0; i < V.nreg; i++) { free(V.reg[i].wctx); free(V.reg[i].wclk); free(V.reg[i].rclk); }
	V.nreg = 0;
}
static inline vs_reg *vs_find(const void *a)
{
	for (int i = 0; i < V.nreg; i++)
		if ((const uint8_t *)a >= V.reg[i].p && (const uint8_t *)a < V.reg[i].p + V.reg[i].n) return &V.reg[i];
	return NULL;
}
static const char *vs_addrname(const void *a, char *buf, size_t n)
{
	vs_reg *r = vs_find(a);
	if (r) snprintf(buf, n, "%s+%ld", r->name, (long)((const uint8_t *)a - r->p));
	else snprintf(buf, n, "<unregistered>");
	return buf;
}

static inline uint64_t vs_peek(const uint8_t *a, int n) { uint64_t v = 0; memcpy(&v, a, (size_t)(n > 8 ? 8 : n)); return v; }
static void vs_observe(vs_ctx *c, const void *addr, size_t n, uint64_t val)
{
	c->obs_wrote = 0;
	if (c->nobs >= 64) {
		/* forget the oldest half of the log (and the call-site visits that refer to it) */
		int drop = 32, k = 0;
		memmove(&c->obs[0], &c->obs[drop], sizeof(c->obs[0]) * (size_t)(c->nobs - drop)); c->nobs -= drop;
		for (int i = 0; i < c->nspin; i++) if (c->spin[i].obs_start >= drop) { c->spin[k] = c->spin[i]; c->spin[k].obs_start -= drop; k++; }
		c->nspin = k;
	}
	c->obs[c->nobs].addr = addr; c->obs[c->nobs].n = (uint8_t)(n > 8 ? 8 : n); c->obs[c->nobs].val = val; c->obs[c->nobs].wrote = 0; c->nobs++;
}
static void vs_progress(vs_ctx *c) { c->nspin = 0; c->nobs = 0; c->obs_overflow = 0; c->blind_write = 0; }
/* is the spinning thread t still looking at the values that made it spin? */
static int vs_still_blocked(int t)
{
	if (!V.blocked[t]) return 0;
	vs_ctx *c = (t == 0) ? &V.ctx[V.stack0[V.depth0]] : &V.ctx[t];
	for (int i = 0; i < c->nwatch; i++) if (vs_peek(c->watch[i].addr, c->watch[i].n) != c->watch[i].val) return 0;
	return 1;
}

/* ------------------------------------------------------------------ failing */

static void vs_to_sched(void)
{
	if (V.cur >= 0) swapcontext(&V.thr_ctx[V.cur], &V.sched_ctx);
}
static void vs_abandon(int why)
{
	V.abandon = why;
	if (!V.in_sched && V.cur >= 0 && V.running) { vs_to_sched(); fprintf(stderr, "vsched: abandoned context resumed\n"); _exit(3); }
}
void vs_fail(const char *clause, const char *fmt, ...)
{
	va_list ap; va_start(ap, fmt); char *m = vx_vfmt(fmt, ap); va_end(ap);
	if (!V.failed) { V.failed = 1; snprintf(V.fclause, sizeof(V.fclause), "%s", clause); free(V.fmsg); V.fmsg = m; }
	else free(m);
	if (V.tracing) vx_sb_printf(&V.trace, "  ** %s: %s\n", V.fclause, V.fmsg);
	if (V.in_sched || V.cur < 0) { V.abandon = 2; longjmp(*V.escape, 1); }	/* raised by init() or the at_end oracle */
	vs_abandon(2);
	_exit(3);
}
static void vs_fault_hook_fn(void)
{
	/* a failed librfn assert, or SIGSEGV/SIGFPE/... raised by the code under test */
	if (!V.running) { fprintf(stderr, "vsched: fault outside an execution: %s\n", vx_fault_msg); _exit(4); }
	vs_fail("fault", "%s", vx_fault_msg);
}

/* ----------------------------------------------------------- state hashing */

static int cmp_u32(const void *a, const void *b) { uint32_t x = *(const uint32_t *)a, y = *(const uint32_t *)b; return x < y ? -1 : x > y; }

static void vs_hash_clocks(vx_hasher *h)
{
	/* Rank-compress every clock component over all places it occurs, so that two
	 * states are merged only if every happens-before comparison the detector can
	 * make in the future has the same outcome. */
	static uint32_t vals[8192];
	int nctx = V.scn->nthreads + (V.scn->nhandlers ? 1 : 0);	/* threads + the interrupt side */
	for (int u = 0; u < nctx; u++) {
		int n = 0;
		for (int t = 0; t < nctx; t++) if (t == V.scn->nthreads || V.ctx[t].live) { vals[n++] = V.ctx[t].vc.c[u]; vals[n++] = V.ctx[t].acq_pending.c[u]; vals[n++] = V.ctx[t].rel_fence.c[u]; }
		for (int l = 0; l < V.nloc; l++) vals[n++] = V.loc[l].rel.c[u];
		for (int r = 0; r < V.nreg; r++) if (V.reg[r].kind == VS_SHARED)
			for (size_t i = 0; i < V.reg[r].n && n < 8000; i++) {
				if (V.reg[r].wctx[i] == u) vals[n++] = V.reg[r].wclk[i];
				if (V.reg[r].rclk[i * VS_MAXCTX + u]) vals[n++] = V.reg[r].rclk[i * VS_MAXCTX + u];
			}
		qsort(vals, (size_t)n, 4, cmp_u32);
		int m = 0; for (int i = 0; i < n; i++) if (!m || vals[m - 1] != vals[i]) vals[m++] = vals[i];
#define RANK(x) ({ uint32_t _x = (x); int lo = 0, hi = m - 1, r_ = 0; while (lo <= hi) { int mid = (lo + hi) / 2; if (vals[mid] < _x) lo = mid + 1; else { r_ = mid; hi = mid - 1; } } (uint64_t)r_; })
		for (int t = 0; t < nctx; t++) if (t == V.scn->nthreads || V.ctx[t].live) { vx_h_u64(h, RANK(V.ctx[t].vc.c[u]) | RANK(V.ctx[t].acq_pending.c[u]) << 16 | RANK(V.ctx[t].rel_fence.c[u]) << 32); }
		/* locations in address order (table order depends on the path taken) */
		for (int r = 0; r < V.nreg; r++)
			for (int l = 0; l < V.nloc; l++) if ((uint8_t *)V.loc[l].addr >= V.reg[r].p && (uint8_t *)V.loc[l].addr < V.reg[r].p + V.reg[r].n)
				vx_h_u64(h, ((uint64_t)((uint8_t *)V.loc[l].addr - V.reg[r].p) << 32) | RANK(V.loc[l].rel.c[u]));
		for (int r = 0; r < V.nreg; r++) if (V.reg[r].kind == VS_SHARED)
			for (size_t i = 0; i < V.reg[r].n; i++) {
				if (V.reg[r].wctx[i] == u) vx_h_u64(h, (i << 20) | RANK(V.reg[r].wclk[i]) | 1ull << 60);
				if (V.reg[r].rclk[i * VS_MAXCTX + u]) vx_h_u64(h, (i << 20) | RANK(V.reg[r].rclk[i * VS_MAXCTX + u]) | 2ull << 60);
			}
#undef RANK
	}
}

static vx_h128 vs_state_hash(int kind)
{
	vx_hasher h; vx_h_init(&h);
	vx_h_u64(&h, (uint64_t)kind | (uint64_t)(V.cur + 1) << 8 | (uint64_t)V.next_handler << 16 | (uint64_t)V.depth0 << 24 | (uint64_t)V.spurious_used << 32);
	for (int r = 0; r < V.nreg; r++) vx_h_bytes(&h, V.reg[r].p, V.reg[r].n);
	for (int t = 0; t < V.scn->nthreads; t++) {
		vx_h_u64(&h, (uint64_t)V.finished[t] | (uint64_t)V.started[t] << 1 | (uint64_t)vs_still_blocked(t) << 2);
		if (t == 0) for (int d = 0; d <= V.depth0; d++) { vs_ctx *c = &V.ctx[V.stack0[d]]; vx_h_u64(&h, (uint64_t)V.stack0[d]); vx_h_u64(&h, c->ha); vx_h_u64(&h, c->hb); }
		else { vx_h_u64(&h, V.ctx[t].ha); vx_h_u64(&h, V.ctx[t].hb); }
	}
	if (V.opt->hash_vc) vs_hash_clocks(&h);
	return vx_h_done(&h);
}

/* ------------------------------------------------------------ choice engine */

/* One choice point with n alternatives; alternatives other than 0 cost `c`
 * deviations each. Replays the prefix, then answers 0. New points are where
 * the state is hashed: an already visited state ends the execution. */
static int vs_choose(int n, int c, int kind)
{
	if (n <= 1) return 0;
	int i = V.npoints;
	if (i >= VS_MAXCHOICE) { vs_abandon(3); return 0; }
	V.st->choice_points++;
	if (i < V.prefix_len) {
		if (V.choice[i] >= n) { fprintf(stderr, "vsched: replay diverged at choice %d (%d of %d)\n", i, V.choice[i], n); _exit(3); }
		if (V.nalt[i] != n && V.nalt[i] != 0) { fprintf(stderr, "vsched: replay diverged at choice %d (arity %d, was %d)\n", i, n, V.nalt[i]); _exit(3); }
		V.nalt[i] = n; V.cost[i] = c;
		V.npoints++;
		if (V.choice[i]) V.dev_used += c;
		return V.choice[i];
	}
	/* new point */
	vx_h128 k = vs_state_hash(kind);
	if (V.bound >= 0) { k.a ^= vx_mix((uint64_t)(V.bound - V.dev_used) + 77); }	/* same state with another remaining budget is another key */
	if (!vx_set_add(&V.seen, k)) { V.st->pruned++; vs_abandon(1); return 0; }
	V.st->states++;
	V.choice[i] = 0; V.nalt[i] = n; V.cost[i] = c;
	V.npoints++;
	return 0;
}

/* ------------------------------------------------------------ race detector */

static void vs_race(const char *what, const void *addr, int other, const char *otherwhat)
{
	char nb[64];
	if (!V.opt->race_detect) return;
	if (V.opt->race_detect == 2) {
		if (!V.st->racy) snprintf(V.st->race_msg, sizeof(V.st->race_msg), "%s of %s by context %d unordered with the %s by context %d", what, vs_addrname(addr, nb, sizeof(nb)), (int)(vs_hbctx(vs_curctx()) - V.ctx), otherwhat, other);
		V.st->racy = 1;
		vs_abandon(5);
		return;
	}
	vs_fail("data-race", "%s of %s by context %d is not ordered by happens-before with the %s by context %d",
		what, vs_addrname(addr, nb, sizeof(nb)), (int)(vs_hbctx(vs_curctx()) - V.ctx), otherwhat, other);
}
static void vs_sched_point(void *site);
static inline void vs_plain(const void *addr, size_t n, int is_write, int is_atomic)
{
	vs_reg *r = vs_find(addr);
	if (!r) return;
	if (!is_atomic && V.opt->fine_grained && r->kind == VS_SHARED && !V.in_setup && !V.in_sched) { V.st->fine_points++; vs_sched_point(NULL); }
	vs_ctx *c = vs_curctx();
	vs_ctx *hc = vs_hbctx(c); int me = (int)(hc - V.ctx);
	size_t off = (size_t)((const uint8_t *)addr - r->p);
	if (off + n > r->n) n = r->n - off;
	if (!is_atomic) {
		V.st->plain_accesses++;
		if (!is_write) { uint64_t v = 0; memcpy(&v, addr, n > 8 ? 8 : n); if (r->kind == VS_SHARED) vs_observe(c, addr, n, v); vs_fold(c, 0x5200 + off * 31 + ((uint64_t)r->kind << 50)); vs_fold(c, v);
			for (size_t i = 8; i < n; i += 8) { v = 0; memcpy(&v, (const uint8_t *)addr + i, n - i > 8 ? 8 : n - i); vs_fold(c, v); } }
		else if (r->kind == VS_SHARED) {
			/* a store is progress too: two scheduling points separated only by a store of an unchanged value must not hash alike */
			vs_fold(c, 0x5700 + off * 31);
			vs_observe(c, NULL, 0, 0);	/* marker: a write that observed nothing */
			if (vs_plain_write_hook && !V.in_setup) vs_plain_write_hook((int)(c - V.ctx), r->name, off);
		}
	}
	if (r->kind != VS_SHARED) return;
	uint32_t now = hc->vc.c[me];
	for (size_t i = off; i < off + n; i++) {
		int w = r->wctx[i];
		/* plain accesses conflict with everything; atomic ones only with plain ones (shadow holds plain accesses only) */
		if (w >= 0 && w != me && r->wclk[i] > hc->vc.c[w]) vs_race(is_atomic ? "atomic access" : is_write ? "plain write" : "plain read", (const uint8_t *)addr + (i - off), w, "plain write");
		if (is_write) {
			uint32_t *rc = &r->rclk[i * VS_MAXCTX];
			for (int u = 0; u < VS_MAXCTX; u++) if (u != me && rc[u] > hc->vc.c[u]) vs_race(is_atomic ? "atomic write" : "plain write", (const uint8_t *)addr + (i - off), u, "plain read");
		}
		if (!is_atomic) {
			if (is_write) { r->wctx[i] = (int8_t)me; r->wclk[i] = now; }
			else r->rclk[i * VS_MAXCTX + me] = now;
		}
	}
}

/* --------------------------------------------------- interrupts, scheduling */

static void vs_run_handler(int k)
{
	int id = V.scn->nthreads + k;
	vs_ctx *c = &V.ctx[id];
	V.st->interrupts_injected++;
	V.next_handler = k + 1;
	V.stack0[++V.depth0] = id;
	c->live = 1;
	if (V.tracing) vx_sb_printf(&V.trace, "  >> interrupt handler %d enters (nesting %d)\n", k, V.depth0);
	V.scn->handler_fn[k](V.scn->handler_arg[k]);
	if (V.tracing) vx_sb_printf(&V.trace, "  << interrupt handler %d returns\n", k);
	c->live = 0;
	V.depth0--;
	/* what the handler did is an observation of the interrupted context only through memory */
}
void vs_drain_handlers(void)
{
	if (!V.running || V.cur != 0 || V.depth0) return;
	while (V.next_handler < V.scn->nhandlers) vs_run_handler(V.next_handler);
}
/* common prologue of every scheduling point */
static void vs_sched_point(void *site)
{
	if (!V.running || V.in_setup) return;
	vs_ctx *c = vs_curctx();
	/* spin detection */
	if (site) {
		/* A spin: this call site has now been reached four times in a row with three identical iterations
		 * in between (same observations, no blind write) and memory still holds every value they saw. (One
		 * or two repetitions also occur when a function is simply called again, e.g. the atomic run queue
		 * is drained twice in one scheduling pass; scenario code calls vs_note() between API calls.) */
		int idx[3], nidx = 0;
		for (int i = c->nspin - 1; i >= 0 && nidx < 3; i--) if (c->spin[i].site == site) idx[nidx++] = i;
		if (nidx == 3 && !c->obs_overflow) {
			int i3 = idx[0], i2 = idx[1], i1 = idx[2];
			int s1 = c->spin[i1].obs_start, s2 = c->spin[i2].obs_start, s3 = c->spin[i3].obs_start, s4 = c->nobs;
			int same = (s2 - s1 == s3 - s2) && (s3 - s2 == s4 - s3) && s4 > s3, nw = 0;
			for (int k = 0; same && k < s4 - s3; k++) {
				if (!c->obs[s3 + k].addr) { same = 0; break; }
				if (c->obs[s1 + k].addr != c->obs[s3 + k].addr || c->obs[s1 + k].val != c->obs[s3 + k].val ||
				    c->obs[s2 + k].addr != c->obs[s3 + k].addr || c->obs[s2 + k].val != c->obs[s3 + k].val) same = 0;
			}
			for (int k = s3; same && k < s4; k++) {
				int first = 1;
				for (int j = s3; j < k; j++) if (c->obs[j].addr == c->obs[k].addr) first = 0;
				if (!first) continue;
				if (vs_peek(c->obs[k].addr, c->obs[k].n) != c->obs[k].val) same = 0;
				else c->watch[nw++] = c->obs[k];
			}
			if (same && nw) {
				/* an iteration that changed memory on the way (a transient decrement that is taken back, say) is
				 * not a pure wait: others may depend on its intermediate states, so it must keep running. Its
				 * history is rewound all the same, which makes the global state repeat, and the visited set then
				 * ends the execution (a cycle in the state space). It only counts as blocked if nobody else can run. */
				int impure = 0;
				for (int k = s3; k < s4; k++) impure |= c->obs[k].wrote;
				if (impure) {
					int others = 0;
					for (int t = 0; t < V.scn->nthreads; t++) if (t != V.cur && !V.finished[t] && !vs_still_blocked(t)) others = 1;
					if (V.cur == 0 && V.next_handler < V.scn->nhandlers && V.depth0 < V.scn->max_nesting) others = 1;
					c->ha = c->spin[i1].ha; c->hb = c->spin[i1].hb; c->nspin = i1; c->nobs = s1;
					if (others) goto spin_done;
				}
				c->ha = c->spin[i1].ha; c->hb = c->spin[i1].hb; c->nspin = i1; c->nobs = s1; c->nwatch = nw;
				V.st->spin_blocks++;
				if (V.cur == 0 && V.next_handler < V.scn->nhandlers && V.depth0 < V.scn->max_nesting) {
					/* thread 0 spins while an interrupt is still to come: it arrives now (forced, no deviation) */
					if (V.tracing) vs_trace("spins; the next interrupt arrives");
					vs_run_handler(V.next_handler);
					c = vs_curctx();
				} else {
					V.blocked[V.cur] = 1;
					if (V.tracing) vs_trace("spins (would repeat itself until one of the %d values it saw changes): blocked", nw);
					vs_to_sched();
					c = vs_curctx();
				}
			}
		}
		spin_done:
		if (c->nspin >= 24) { memmove(&c->spin[0], &c->spin[8], sizeof(c->spin[0]) * 16); c->nspin = 16; }
		{ c->spin[c->nspin].site = site; c->spin[c->nspin].ha = c->ha; c->spin[c->nspin].hb = c->hb; c->spin[c->nspin].obs_start = c->nobs; c->nspin++; }
	}
	/* interrupt injection (thread 0 only) */
	while (V.cur == 0 && V.next_handler < V.scn->nhandlers && V.depth0 < V.scn->max_nesting) {
		if (!vs_choose(2, 1, 2)) break;
		vs_run_handler(V.next_handler);
	}
	/* thread scheduling */
	if (V.scn->nthreads > 1) vs_to_sched();
	if (++V.steps > V.scn->horizon) vs_abandon(3);
}
void vs_point(void) { vs_sched_point(NULL); }
/* scenario code: fold a private progress value into the observation history and declare progress (not a spin) */
void vs_note(uint64_t v) { if (V.running && !V.in_setup) { vs_ctx *c = vs_curctx(); vs_fold(c, 0x4e00 ^ v); vs_progress(c); } }

static void vs_tramp(int t)
{
	V.scn->thread_fn[t](V.scn->thread_arg[t]);
	V.finished[t] = 1;
	vs_to_sched();
	_exit(3);
}

/* one execution under the current prefix; returns when it completed, was pruned or failed */
static void vs_run_one(void)
{
	const vs_scenario *s = V.scn;
	jmp_buf escape;
	V.npoints = 0; V.dev_used = 0; V.abandon = 0; V.steps = 0; V.cur = -1; V.spurious_used = 0;
	V.nloc = 0; V.write_epoch = 1; V.next_handler = 0; V.depth0 = 0; V.stack0[0] = 0;
	memset(V.ctx, 0, sizeof(V.ctx)); memset(V.finished, 0, sizeof(V.finished)); memset(V.started, 0, sizeof(V.started)); memset(V.blocked, 0, sizeof(V.blocked));
	vs_regions_clear();
	V.st->executions++;
	/* set-up runs as context 0; everybody inherits its clock */
	V.running = 1; V.in_setup = 1; V.ctx[0].live = 1; V.ctx[0].vc.c[0] = 1;
	V.escape = &escape; V.in_sched = 1;
	if (setjmp(escape)) { V.running = 0; V.abandon = 2; return; }
	s->init();
	V.in_setup = 0;
	vs_progress(&V.ctx[0]);
	for (int i = 1; i < VS_MAXCTX; i++) { V.ctx[i].vc = V.ctx[0].vc; V.ctx[i].vc.c[i] = 1; }
	V.ctx[0].vc.c[0]++;
	for (int t = 0; t < s->nthreads; t++) {
		V.ctx[t].live = 1;
		getcontext(&V.thr_ctx[t]);
		V.thr_ctx[t].uc_stack.ss_sp = vs_stacks[t]; V.thr_ctx[t].uc_stack.ss_size = VS_STACK; V.thr_ctx[t].uc_link = NULL;
		makecontext(&V.thr_ctx[t], (void (*)(void))vs_tramp, 1, t);
	}
	for (;;) {
		int en[VS_MAXT], n = 0, allfin = 1;
		if (V.cur >= 0 && !V.finished[V.cur] && !vs_still_blocked(V.cur)) en[n++] = V.cur;
		for (int t = 0; t < s->nthreads; t++) {
			if (!V.finished[t]) allfin = 0;
			if (t == V.cur || V.finished[t]) continue;
			if (vs_still_blocked(t)) continue;
			en[n++] = t;
		}
		if (allfin) break;
		if (!n) {
			V.st->deadlocks++;
			if (!s->allow_deadlock) {
				V.cur = -1;
				if (!V.failed) { V.failed = 1; snprintf(V.fclause, sizeof(V.fclause), "deadlock"); free(V.fmsg); V.fmsg = strdup("no context can make progress: every unfinished thread spins on memory nobody else will change"); }
				if (V.tracing) vx_sb_printf(&V.trace, "  ** deadlock\n");
				V.abandon = 2;
			} else V.abandon = 4;
			break;
		}
		int runnable_cur = (n && en[0] == V.cur);
		int saved = V.cur; V.cur = -1;		/* choices made here belong to the scheduler context */
		int c = 0;
		if (n > 1) { V.cur = saved; c = vs_choose(n, runnable_cur ? 1 : 0, 1); if (V.abandon) { V.cur = -1; break; } }
		V.cur = saved;
		if (c && runnable_cur) V.st->preemptions++;
		int t = en[c];
		if (V.tracing && t != V.cur) vx_sb_printf(&V.trace, "  -- switch to T%d%s\n", t, (c && runnable_cur) ? " (preemption)" : "");
		V.cur = t; V.started[t] = 1; V.blocked[t] = 0;
		V.st->steps++;
		V.in_sched = 0;
		swapcontext(&V.sched_ctx, &V.thr_ctx[t]);
		V.in_sched = 1;
		if (V.abandon) break;
	}
	if (!V.abandon) {
		V.cur = -1; V.st->completed++;
		if (s->at_end) {
			/* quiescence: the oracle runs as thread 0 after joining every context */
			for (int i = 1; i < VS_MAXCTX; i++) vc_join(&V.ctx[0].vc, &V.ctx[i].vc);
			V.in_setup = 1; s->at_end(); V.in_setup = 0;
		}	/* the oracle may call the API sequentially */
	}
	V.running = 0;
	if ((uint64_t)V.npoints > V.st->max_depth) V.st->max_depth = (uint64_t)V.npoints;
}

/* ----------------------------------------------------------------- explorer */

static void vs_record_failure(const char *extra_replay)
{
	/* re-run the failing schedule with tracing to obtain the readable trace */
	vx_sb ch = {0}, sig = {0}, rep = {0};
	int n = V.npoints;
	int save_choice[VS_MAXCHOICE]; memcpy(save_choice, V.choice, sizeof(int) * (size_t)n);
	char clause[64]; snprintf(clause, sizeof(clause), "%s", V.fclause);
	char *msg = strdup(V.fmsg ? V.fmsg : "");
	for (int i = 0; i < n; i++) vx_sb_printf(&ch, "%s%d", i ? " " : "", save_choice[i]);
	vx_sb_printf(&sig, "%s|%s%s|", clause, V.scn->name, V.opt->fine_grained ? "+fine" : "");
	for (int i = 0, first = 1; i < n; i++) if (save_choice[i]) { vx_sb_printf(&sig, "%s%d:%d", first ? "" : ",", i, save_choice[i]); first = 0; }
	vx_sb_printf(&rep, "scenario=%s\nfine_grained=%d\n%schoices=%s\n", V.scn->name, V.opt->fine_grained, extra_replay ? extra_replay : "", ch.s ? ch.s : "");
	V.tracing = 1; vx_sb_reset(&V.trace); V.failed = 0;
	V.prefix_len = n; vx_set saved = V.seen; vx_set_init(&V.seen, 10);
	vs_run_one();
	vx_set_free(&V.seen); V.seen = saved; V.tracing = 0;
	int again = V.failed && !strcmp(V.fclause, clause);
	vx_violation(sig.s, rep.s, "%s: %s -- scenario %s, schedule with %d deviation(s)%s\n%s", clause, msg, V.scn->name, V.dev_used,
		     again ? "" : " [did not reproduce when re-run with tracing]", V.trace.s ? V.trace.s : "");
	V.failed = 1;
	free(ch.s); free(sig.s); free(rep.s); free(msg);
}

static int vs_explore_bound(int bound)
{
	V.bound = bound; V.prefix_len = 0;
	vx_set_init(&V.seen, 14);
	int exhausted = 0;
	for (;;) {
		vs_run_one();
		if (V.abandon == 3) { V.failed = 1; snprintf(V.fclause, sizeof(V.fclause), "horizon"); free(V.fmsg); V.fmsg = strdup("execution exceeded the step horizon (livelock or scenario too long)"); }
		if (V.failed) { vs_record_failure(NULL); break; }
		if (V.st->racy) break;
		/* backtrack: deepest point with an untried alternative that fits the budget */
		int i, dev[VS_MAXCHOICE + 1];
		dev[0] = 0; for (i = 0; i < V.npoints; i++) dev[i + 1] = dev[i] + (V.choice[i] ? V.cost[i] : 0);
		for (i = V.npoints - 1; i >= 0; i--) {
			if (V.choice[i] + 1 < V.nalt[i] && (bound < 0 || dev[i] + V.cost[i] <= bound)) break;
		}
		if (i < 0) { exhausted = 1; break; }
		V.choice[i]++; V.prefix_len = i + 1;
		for (int j = i + 1; j < V.npoints; j++) V.nalt[j] = 0;
		if ((V.st->executions & 1023) == 0 && vx_deadline_passed()) break;
		if (V.opt->max_executions && V.st->executions >= V.opt->max_executions) break;
	}
	vx_set_free(&V.seen);
	return exhausted;
}

void vs_explore(const vs_scenario *s, const vs_options *o, vs_stats *out)
{
	memset(out, 0, sizeof(*out)); out->bound_completed = -1;
	V.scn = s; V.opt = o; V.st = out; V.failed = 0; V.tracing = 0;
	vx_fault_hook = vs_fault_hook_fn;
	if (o->bound < 0) {
		if (vs_explore_bound(-1)) out->bound_completed = 1000000; else if (!V.failed && !out->racy) out->capped = 1;
	} else {
		for (int b = o->iterative ? 0 : o->bound; b <= o->bound; b++) {
			if (vs_explore_bound(b)) out->bound_completed = b; else { if (!V.failed && !out->racy) out->capped = 1; break; }
		}
	}
	out->failed = V.failed;
	vx_fault_hook = NULL;
}

int vs_replay(const vs_scenario *s, const vs_options *o, const char *choices)
{
	static vs_stats st; memset(&st, 0, sizeof(st));
	V.scn = s; V.opt = o; V.st = &st; V.failed = 0; V.tracing = 0; V.bound = -1;
	vx_fault_hook = vs_fault_hook_fn;
	int n = 0;
	for (const char *p = choices; *p; ) { while (*p == ' ') p++; if (*p < '0' || *p > '9') break; V.choice[n] = (int)strtol(p, (char **)&p, 10); V.nalt[n] = 0; n++; }
	V.prefix_len = n;
	vx_set_init(&V.seen, 10);
	vs_run_one();
	vx_set_free(&V.seen);
	if (V.abandon == 3 && !V.failed) { V.failed = 1; snprintf(V.fclause, sizeof(V.fclause), "horizon"); V.fmsg = strdup("execution exceeded the step horizon"); }
	if (V.failed) { V.npoints = V.npoints < n ? n : V.npoints; vs_record_failure(NULL); }
	vx_fault_hook = NULL;
	return V.failed;
}

/* ------------------------------------------------ the -fsanitize=thread ABI */

static const char *vs_moname(int mo)
{
	switch (mo) { case __ATOMIC_RELAXED: return "relaxed"; case __ATOMIC_CONSUME: return "consume"; case __ATOMIC_ACQUIRE: return "acquire";
	case __ATOMIC_RELEASE: return "release"; case __ATOMIC_ACQ_REL: return "acq_rel"; default: return "seq_cst"; }
}
static void vs_tabulate(const char *op, const void *addr, int mo)
{
	char nb[48], key[96];
	snprintf(key, sizeof(key), "%s %s %s", op, vs_addrname(addr, nb, sizeof(nb)), vs_moname(mo));
	key[47] = 0;
	for (int i = 0; i < vs_ntab; i++) if (!strcmp(vs_tab[i].what, key)) { vs_tab[i].n++; return; }
	if (vs_ntab < 128) { snprintf(vs_tab[vs_ntab].what, 48, "%.47s", key); vs_tab[vs_ntab++].n = 1; }
}
static int vs_locidx(void *addr)
{
	for (int i = 0; i < V.nloc; i++) if (V.loc[i].addr == addr) return i;
	if (V.nloc >= VS_MAXLOC) { fprintf(stderr, "vsched: too many atomic locations\n"); _exit(3); }
	V.loc[V.nloc].addr = addr; memset(&V.loc[V.nloc].rel, 0, sizeof(vs_vc));
	return V.nloc++;
}
#define IS_ACQ(mo) ((mo) == __ATOMIC_ACQUIRE || (mo) == __ATOMIC_ACQ_REL || (mo) == __ATOMIC_SEQ_CST || (mo) == __ATOMIC_CONSUME)
#define IS_REL(mo) ((mo) == __ATOMIC_RELEASE || (mo) == __ATOMIC_ACQ_REL || (mo) == __ATOMIC_SEQ_CST)

/* happens-before bookkeeping of one atomic access; kind: 0 load, 1 store, 2 rmw */
static void vs_hb(void *addr, int kind, int mo, size_t size)
{
	vs_ctx *c = vs_hbctx(vs_curctx()); int me = (int)(c - V.ctx);
	int l = vs_locidx(addr);
	vs_plain(addr, size, kind != 0, 1);
	if (kind != 1) {	/* reads */
		if (IS_ACQ(mo)) vc_join(&c->vc, &V.loc[l].rel); else vc_join(&c->acq_pending, &V.loc[l].rel);
	}
	if (kind != 0) {	/* writes */
		if (IS_REL(mo)) { if (kind == 2) vc_join(&V.loc[l].rel, &c->vc); else V.loc[l].rel = c->vc; }
		else if (kind == 1) { if (c->has_rel_fence) V.loc[l].rel = c->rel_fence; else memset(&V.loc[l].rel, 0, sizeof(vs_vc)); }	/* relaxed store ends the release sequence */
		else if (c->has_rel_fence) vc_join(&V.loc[l].rel, &c->rel_fence);		/* relaxed RMW continues it */
	}
	c->vc.c[me]++;
}
static void vs_note_op(const char *op, void *addr, int mo, uint64_t result, int changed, size_t width)
{
	vs_ctx *c = vs_curctx();
	vs_reg *r = vs_find(addr);
	V.st->atomic_ops++;
	if (op[0] == 's' && op[1] == 't') vs_observe(c, NULL, 0, 0);	/* a store observes nothing (marker) */
	else if (vs_find(addr)) { vs_observe(c, addr, width, result); if (changed && c->nobs) c->obs[c->nobs - 1].wrote = 1; }
	vs_fold(c, 0xA700 + (uint64_t)(op[0] * 131 + op[1]) + (r ? (uint64_t)((uint8_t *)addr - r->p) << 16 : 0)); vs_fold(c, result);
	if (changed) V.write_epoch++;
	if (!V.in_setup) vs_tabulate(op, addr, mo);
	if (V.tracing) { char nb[48]; vs_trace("%s %s (%s) -> %llu", op, vs_addrname(addr, nb, sizeof(nb)), vs_moname(mo), (unsigned long long)result); }
}

#define VS_ATOMICS(N, T) \
T __tsan_atomic##N##_load(const volatile T *a, int mo) { vs_sched_point(__builtin_return_address(0)); if (V.running) vs_hb((void *)a, 0, mo, sizeof(T)); \
	T v = __atomic_load_n(a, __ATOMIC_SEQ_CST); if (V.running) vs_note_op("load", (void *)a, mo, (uint64_t)v, 0, sizeof(T)); return v; } \
void __tsan_atomic##N##_store(volatile T *a, T v, int mo) { vs_sched_point(__builtin_return_address(0)); if (V.running) vs_hb((void *)a, 1, mo, sizeof(T)); \
	T old = __atomic_exchange_n(a, v, __ATOMIC_SEQ_CST); if (V.running) vs_note_op("store", (void *)a, mo, (uint64_t)v, old != v, sizeof(T)); } \
T __tsan_atomic##N##_exchange(volatile T *a, T v, int mo) { vs_sched_point(__builtin_return_address(0)); if (V.running) vs_hb((void *)a, 2, mo, sizeof(T)); \
	T old = __atomic_exchange_n(a, v, __ATOMIC_SEQ_CST); if (V.running) vs_note_op("exchange", (void *)a, mo, (uint64_t)old, old != v, sizeof(T)); return old; } \
T __tsan_atomic##N##_fetch_add(volatile T *a, T v, int mo) { vs_sched_point(__builtin_return_address(0)); if (V.running) vs_hb((void *)a, 2, mo, sizeof(T)); \
	T old = __atomic_fetch_add(a, v, __ATOMIC_SEQ_CST); if (V.running) vs_note_op("fetch_add", (void *)a, mo, (uint64_t)old, v != 0, sizeof(T)); return old; } \
T __tsan_atomic##N##_fetch_sub(volatile T *a, T v, int mo) { vs_sched_point(__builtin_return_address(0)); if (V.running) vs_hb((void *)a, 2, mo, sizeof(T)); \
	T old = __atomic_fetch_sub(a, v, __ATOMIC_SEQ_CST); if (V.running) vs_note_op("fetch_sub", (void *)a, mo, (uint64_t)old, v != 0, sizeof(T)); return old; } \
T __tsan_atomic##N##_fetch_and(volatile T *a, T v, int mo) { vs_sched_point(__builtin_return_address(0)); if (V.running) vs_hb((void *)a, 2, mo, sizeof(T)); \
	T old = __atomic_fetch_and(a, v, __ATOMIC_SEQ_CST); if (V.running) vs_note_op("fetch_and", (void *)a, mo, (uint64_t)old, (T)(old & v) != old, sizeof(T)); return old; } \
T __tsan_atomic##N##_fetch_or(volatile T *a, T v, int mo) { vs_sched_point(__builtin_return_address(0)); if (V.running) vs_hb((void *)a, 2, mo, sizeof(T)); \
	T old = __atomic_fetch_or(a, v, __ATOMIC_SEQ_CST); if (V.running) vs_note_op("fetch_or", (void *)a, mo, (uint64_t)old, (T)(old | v) != old, sizeof(T)); return old; } \
T __tsan_atomic##N##_fetch_xor(volatile T *a, T v, int mo) { vs_sched_point(__builtin_return_address(0)); if (V.running) vs_hb((void *)a, 2, mo, sizeof(T)); \
	T old = __atomic_fetch_xor(a, v, __ATOMIC_SEQ_CST); if (V.running) vs_note_op("fetch_xor", (void *)a, mo, (uint64_t)old, v != 0, sizeof(T)); return old; } \
T __tsan_atomic##N##_fetch_nand(volatile T *a, T v, int mo) { vs_sched_point(__builtin_return_address(0)); if (V.running) vs_hb((void *)a, 2, mo, sizeof(T)); \
	T old = __atomic_fetch_nand(a, v, __ATOMIC_SEQ_CST); if (V.running) vs_note_op("fetch_nand", (void *)a, mo, (uint64_t)old, 1, sizeof(T)); return old; } \
static int vs_cas##N(volatile T *a, T *e, T v, int mo, int fmo, int weak, void *site) { \
	vs_sched_point(site); \
	T cur = __atomic_load_n(a, __ATOMIC_SEQ_CST); \
	int ok = (cur == *e); \
	if (ok && weak && V.running && !V.in_setup && V.spurious_used < V.opt->spurious_cas && vs_choose(2, 1, 3)) { \
		V.spurious_used++; \
		if (V.running) { vs_hb((void *)a, 0, fmo, sizeof(T)); vs_note_op("cas_weak(spurious failure)", (void *)a, fmo, (uint64_t)cur, 0, sizeof(T)); vs_progress(vs_curctx()); } \
		return 0; } \
	if (V.running) vs_hb((void *)a, ok ? 2 : 0, ok ? mo : fmo, sizeof(T)); \
	if (ok) __atomic_store_n(a, v, __ATOMIC_SEQ_CST); else *e = cur; \
	if (V.running) { vs_note_op(ok ? "cas(success)" : "cas(failure)", (void *)a, ok ? mo : fmo, (uint64_t)cur, ok && cur != v, sizeof(T)); \
		if (!ok) vs_progress(vs_curctx()); }	/* a failed CAS updated the caller's expected value: not a repetition */ \
	return ok; } \
int __tsan_atomic##N##_compare_exchange_strong(volatile T *a, T *e, T v, int mo, int fmo) { return vs_cas##N(a, e, v, mo, fmo, 0, __builtin_return_address(0)); } \
int __tsan_atomic##N##_compare_exchange_weak(volatile T *a, T *e, T v, int mo, int fmo) { return vs_cas##N(a, e, v, mo, fmo, 1, __builtin_return_address(0)); }

VS_ATOMICS(8, uint8_t)
VS_ATOMICS(16, uint16_t)
VS_ATOMICS(32, uint32_t)
VS_ATOMICS(64, uint64_t)

void __tsan_atomic_thread_fence(int mo)
{
	vs_sched_point(__builtin_return_address(0));
	if (!V.running) return;
	vs_ctx *c = vs_hbctx(vs_curctx()); int me = (int)(c - V.ctx);
	if (IS_ACQ(mo)) vc_join(&c->vc, &c->acq_pending);
	if (IS_REL(mo)) { c->rel_fence = c->vc; c->has_rel_fence = 1; }
	c->vc.c[me]++;
	V.st->atomic_ops++;
	if (!V.in_setup) vs_tabulate("thread_fence", NULL, mo);
}
void __tsan_atomic_signal_fence(int mo)
{
	/* orders nothing between threads; not a scheduling point either (compiler barrier only) */
	if (V.running && !V.in_setup) vs_tabulate("signal_fence", NULL, mo);
}

void __tsan_init(void) {}
void __tsan_func_entry(void *pc) { (void)pc; }
void __tsan_func_exit(void) {}
#define VS_RW(N) \
void __tsan_read##N(void *a) { if (V.running) vs_plain(a, N, 0, 0); } \
void __tsan_write##N(void *a) { if (V.running) vs_plain(a, N, 1, 0); } \
void __tsan_unaligned_read##N(void *a) { if (V.running) vs_plain(a, N, 0, 0); } \
void __tsan_unaligned_write##N(void *a) { if (V.running) vs_plain(a, N, 1, 0); }
VS_RW(1) VS_RW(2) VS_RW(4) VS_RW(8) VS_RW(16)
/* the instrumented units are compiled with -Dmemset=vs_memset ...: a block operation the compiler leaves to libc is a plain
 * access to every byte it touches, like any other */
void *vs_memset(void *d, int c, size_t n) { if (V.running && n) vs_plain(d, n, 1, 0); return memset(d, c, n); }
void *vs_memcpy(void *d, const void *s, size_t n) { if (V.running && n) { vs_plain(s, n, 0, 0); vs_plain(d, n, 1, 0); } return memcpy(d, s, n); }
void *vs_memmove(void *d, const void *s, size_t n) { if (V.running && n) { vs_plain(s, n, 0, 0); vs_plain(d, n, 1, 0); } return memmove(d, s, n); }
void __tsan_read_range(void *a, unsigned long n) { if (V.running) vs_plain(a, n, 0, 0); }
void __tsan_write_range(void *a, unsigned long n) { if (V.running) vs_plain(a, n, 1, 0); }
void __tsan_vptr_update(void **a, void *v) { (void)a; (void)v; }
void __tsan_vptr_read(void **a) { (void)a; }

/*
 * vsched.h - stateless schedule exploration of real concurrent C code.
 *
 * The code under test (and the scenario bodies) are compiled with gcc
 * -fsanitize=thread but linked against the runtime in vsched.c instead of
 * libtsan: every C11 atomic becomes a call into the runtime (address, memory
 * order), every plain access to non-local memory becomes __tsan_readN/writeN.
 *
 *  - logical threads are ucontext coroutines; a scheduling point precedes every
 *    atomic operation (and every vs_point());
 *  - interrupt handlers are injected as nested run-to-completion calls into
 *    thread 0 before any of its atomic operations, nested up to max_nesting;
 *  - a DFS explorer enumerates choice sequences (replay prefix, then default),
 *    bounded by the number of deviations (preemptions, injected interrupts,
 *    spurious CAS failures) and pruned by hashing the complete state (registered
 *    memory, observation history of every live context, optionally vector clocks)
 *    at every choice point;
 *  - a vector-clock detector computes happens-before from the memory orders of
 *    the executed atomics only and reports plain/plain and plain/atomic
 *    conflicts that are not ordered (C11 data races).
 */
#ifndef VSCHED_H_
#define VSCHED_H_

#include <stddef.h>
#include <stdint.h>

#define VS_MAXT 6		/* coroutine threads */
#define VS_MAXH 8		/* interrupt handlers per scenario */
#define VS_MAXCTX (VS_MAXT + VS_MAXH)

typedef void (*vs_fn)(void *arg);

enum { VS_SHARED = 1,		/* hashed and race-checked */
       VS_GHOST = 2 };		/* hashed only: oracle/monitor state, per-thread private globals */

typedef struct {
	const char *name;
	void (*init)(void);		/* single-threaded set-up; must reset all scenario state and register regions */
	int nthreads;
	vs_fn thread_fn[VS_MAXT]; void *thread_arg[VS_MAXT];
	int nhandlers;			/* injected into thread 0, in this order */
	vs_fn handler_fn[VS_MAXH]; void *handler_arg[VS_MAXH];
	int max_nesting;		/* a handler may fire while fewer than this many are active */
	void (*at_end)(void);		/* oracle at quiescence (all threads finished) */
	int allow_deadlock;		/* 1: "no enabled thread" ends the execution quietly (counted) */
	int horizon;			/* max scheduling steps per execution */
} vs_scenario;

typedef struct {
	int bound;			/* max deviations; <0 = unbounded (termination by state hashing) */
	int iterative;			/* run bounds 0..bound in turn (smallest counterexample first) */
	int hash_vc;			/* include (rank-compressed) vector clocks in the state hash */
	int race_detect;		/* 1: report data races as failures (clause "data-race"); 2: stop at the first race and
					 * only set vs_stats.racy (the caller re-explores with fine_grained) */
	int fine_grained;		/* plain accesses to VS_SHARED memory are scheduling points too (for racy code) */
	int spurious_cas;		/* a weak CAS may fail spuriously: at most this many times per execution (one deviation each) */
	uint64_t max_executions;	/* 0 = no cap */
} vs_options;

typedef struct {
	uint64_t executions, pruned, completed, deadlocks, choice_points, states, steps;
	uint64_t fine_points;		/* scheduling points at plain accesses (fine_grained) */
	uint64_t atomic_ops, plain_accesses, interrupts_injected, preemptions, spin_blocks, max_depth;
	int bound_completed;		/* largest deviation bound fully explored (-1 none, 1000000 = unbounded) */
	int capped;			/* stopped by deadline / execution cap */
	int failed;			/* a violation was recorded (exploration of this scenario stops) */
	int racy;			/* race_detect==2 found a data race */
	char race_msg[200];
} vs_stats;

/* explore every schedule of the scenario within the options; failures are recorded with vx_violation */
void vs_explore(const vs_scenario *s, const vs_options *o, vs_stats *out);
/* re-execute one recorded schedule ("choices=..." line of a replay file); returns 1 if it failed again */
int vs_replay(const vs_scenario *s, const vs_options *o, const char *choices);

/* ---- callable from scenario / oracle code while an execution is running */
void vs_region(void *p, size_t n, int kind, const char *name);	/* from init() */
void vs_drain_handlers(void);			/* thread 0: fire every handler that has not fired yet, in order (no deviation) */
void vs_point(void);				/* explicit scheduling / interrupt-injection point */
void vs_note(uint64_t v);			/* fold private progress into the history; declares progress (resets spin detection) */
int vs_self(void);				/* logical context id: thread index, or nthreads + handler index */
int vs_nesting(void);				/* active handlers in the running thread */
__attribute__((format(printf, 2, 3), noreturn))
void vs_fail(const char *clause, const char *fmt, ...);
__attribute__((format(printf, 1, 2)))
void vs_trace(const char *fmt, ...);		/* human-readable trace, only recorded when re-running a failure */
int vs_tracing(void);
/* optional: called (in the writing context) before every plain write to VS_SHARED memory during an execution */
extern void (*vs_plain_write_hook)(int ctx, const char *region, size_t offset);
/* per-memory-order tabulation of executed atomics, filled over the whole exploration */
typedef struct { char what[48]; uint64_t n; } vs_optab_entry;
int vs_optab(const vs_optab_entry **tab);

#endif

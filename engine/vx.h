/*
 * vx.h - shared core of the librfn model-checking harnesses (header-only; one
 * harness == one translation unit).
 *
 *  - argument parsing (tier / worker partition / output file / replay file / deadline)
 *  - 128-bit hashing and a visited set
 *  - snapshot store for breadth-first search over operation histories
 *  - fault capture: interposed __assert_fail and SIGSEGV/SIGBUS/SIGFPE/SIGABRT -> siglongjmp
 *  - guard-page allocation (a buffer flush against a PROT_NONE page)
 *  - result file (JSON) consumed by bin/check: counters, samples, notes, violations
 *
 * Nothing here is random: VERIF_SEED only rotates which worker takes which
 * partition.
 */
#ifndef VX_H_
#define VX_H_

#ifndef _GNU_SOURCE
#define _GNU_SOURCE
#endif
#include <setjmp.h>
#include <signal.h>
#include <stdarg.h>
#include <stdint.h>
#include <stdio.h>
#include <stdlib.h>
#include <string.h>
#include <sys/mman.h>
#include <sys/time.h>
#include <time.h>
#include <unistd.h>

/* ------------------------------------------------------------------ args */

typedef struct {
	const char *tier;
	int worker, nworkers;
	const char *out;
	const char *replay;
	double deadline_s;
	uint64_t seed;
	double t0;
} vx_args_t;

static vx_args_t vx_args = { "quick", 0, 1, NULL, NULL, 1e9, 0, 0 };

static double vx_now(void)
{
	struct timespec ts;
	clock_gettime(CLOCK_MONOTONIC, &ts);
	return ts.tv_sec + ts.tv_nsec * 1e-9;
}

static int vx_thorough(void) { return 0 == strcmp(vx_args.tier, "thorough"); }
static double vx_elapsed(void) { return vx_now() - vx_args.t0; }
static int vx_deadline_passed(void) { return vx_elapsed() > vx_args.deadline_s; }

/* does partition p belong to this worker? */
static int vx_mine(uint64_t p)
{
	return (int)((p + vx_args.seed) % (uint64_t)vx_args.nworkers) == vx_args.worker;
}

/* ------------------------------------------------------------- result file */

#define VX_MAXC 256
#define VX_MAXS 12
#define VX_MAXV 16
#define VX_MAXN 32

typedef struct { char name[64]; uint64_t v; int mode; /* 0 sum 1 max 2 and 3 min */ } vx_counter_t;
static vx_counter_t vx_counters[VX_MAXC];
static int vx_ncounters;
static char *vx_samples[VX_MAXS]; static int vx_nsamples;
static char *vx_notes[VX_MAXN]; static int vx_nnotes;
typedef struct { char *sig, *msg, *replay; } vx_viol_t;
static vx_viol_t vx_viols[VX_MAXV]; static int vx_nviols; static uint64_t vx_viol_total;

static vx_counter_t *vx_counter(const char *name, int mode, uint64_t init)
{
	for (int i = 0; i < vx_ncounters; i++)
		if (0 == strcmp(vx_counters[i].name, name))
			return &vx_counters[i];
	if (vx_ncounters >= VX_MAXC) { fprintf(stderr, "vx: too many counters\n"); _exit(3); }
	vx_counter_t *c = &vx_counters[vx_ncounters++];
	snprintf(c->name, sizeof(c->name), "%s", name);
	c->mode = mode; c->v = init;
	return c;
}
static void vx_count(const char *name, uint64_t add) { vx_counter(name, 0, 0)->v += add; }
static void vx_max(const char *name, uint64_t v) { vx_counter_t *c = vx_counter(name, 1, 0); if (v > c->v) c->v = v; }
static void vx_min(const char *name, uint64_t v) { vx_counter_t *c = vx_counter(name, 3, v); if (v < c->v) c->v = v; }
static void vx_and(const char *name, int v) { vx_counter_t *c = vx_counter(name, 2, 1); if (!v) c->v = 0; }

static char *vx_vfmt(const char *fmt, va_list ap)
{
	char *s = NULL;
	if (vasprintf(&s, fmt, ap) < 0) _exit(3);
	return s;
}
__attribute__((format(printf, 1, 2)))
static void vx_sample(const char *fmt, ...)
{
	if (vx_nsamples >= VX_MAXS) return;
	va_list ap; va_start(ap, fmt); vx_samples[vx_nsamples++] = vx_vfmt(fmt, ap); va_end(ap);
}
static int vx_want_sample(void) { return vx_nsamples < VX_MAXS; }
__attribute__((format(printf, 1, 2)))
static void vx_note(const char *fmt, ...)
{
	va_list ap; va_start(ap, fmt); char *s = vx_vfmt(fmt, ap); va_end(ap);
	for (int i = 0; i < vx_nnotes; i++) if (0 == strcmp(vx_notes[i], s)) { free(s); return; }
	if (vx_nnotes >= VX_MAXN) { free(s); return; }
	vx_notes[vx_nnotes++] = s;
}
/* signature: stable identity of the failure (used by known_findings.json);
 * replay: text sufficient for `--replay`; msg: human explanation. Violations
 * with a signature already recorded by this worker are only counted. */
__attribute__((format(printf, 3, 4)))
static void vx_violation(const char *sig, const char *replay, const char *fmt, ...)
{
	vx_viol_total++;
	for (int i = 0; i < vx_nviols; i++) if (0 == strcmp(vx_viols[i].sig, sig)) return;
	if (vx_nviols >= VX_MAXV) return;
	va_list ap; va_start(ap, fmt);
	vx_viols[vx_nviols].sig = strdup(sig);
	vx_viols[vx_nviols].replay = strdup(replay ? replay : "");
	vx_viols[vx_nviols].msg = vx_vfmt(fmt, ap);
	va_end(ap);
	vx_nviols++;
}
static int vx_too_many_violations(void) { return vx_nviols >= VX_MAXV; }

static void vx_json_str(FILE *f, const char *s)
{
	fputc('"', f);
	for (; *s; s++) {
		unsigned char c = (unsigned char)*s;
		if (c == '"' || c == '\\') fprintf(f, "\\%c", c);
		else if (c == '\n') fputs("\\n", f);
		else if (c == '\t') fputs("\\t", f);
		else if (c < 0x20 || c >= 0x7f) fprintf(f, "\\u%04x", c);
		else fputc(c, f);
	}
	fputc('"', f);
}

static void vx_finish(void)
{
	FILE *f = vx_args.out ? fopen(vx_args.out, "w") : stdout;
	if (!f) { perror("vx: out"); _exit(3); }
	fprintf(f, "{\n \"worker\": %d, \"nworkers\": %d, \"tier\": \"%s\", \"wall_s\": %.3f,\n",
		vx_args.worker, vx_args.nworkers, vx_args.tier, vx_elapsed());
	fprintf(f, " \"counters\": {");
	for (int i = 0; i < vx_ncounters; i++) {
		fprintf(f, "%s\n  ", i ? "," : "");
		vx_json_str(f, vx_counters[i].name);
		fprintf(f, ": [%d, %llu]", vx_counters[i].mode, (unsigned long long)vx_counters[i].v);
	}
	fprintf(f, "\n },\n \"samples\": [");
	for (int i = 0; i < vx_nsamples; i++) { fprintf(f, "%s\n  ", i ? "," : ""); vx_json_str(f, vx_samples[i]); }
	fprintf(f, "\n ],\n \"notes\": [");
	for (int i = 0; i < vx_nnotes; i++) { fprintf(f, "%s\n  ", i ? "," : ""); vx_json_str(f, vx_notes[i]); }
	fprintf(f, "\n ],\n \"violation_total\": %llu,\n \"violations\": [", (unsigned long long)vx_viol_total);
	for (int i = 0; i < vx_nviols; i++) {
		fprintf(f, "%s\n  {\"signature\": ", i ? "," : ""); vx_json_str(f, vx_viols[i].sig);
		fprintf(f, ", \"message\": "); vx_json_str(f, vx_viols[i].msg);
		fprintf(f, ", \"replay\": "); vx_json_str(f, vx_viols[i].replay);
		fprintf(f, "}");
	}
	fprintf(f, "\n ]\n}\n");
	if (f != stdout) fclose(f);
}

/* ------------------------------------------- the library's own static state
 * Parts built with `lib=[...]` (bin/check) link the librfn sources as separate objects whose writable sections are
 * renamed to vxlibdata / vxlibbss. Everything the library keeps in statics (file scope or function scope) then lies
 * between the linker-provided bounds below and can be saved, restored, hashed and reset like the rest of the state: a
 * hidden cache cannot leak from one explored branch, case or configuration into the next. Without `lib=` the regions
 * are empty. */
extern char __start_vxlibdata[] __attribute__((weak)), __stop_vxlibdata[] __attribute__((weak));
extern char __start_vxlibbss[] __attribute__((weak)), __stop_vxlibbss[] __attribute__((weak));
static size_t vx_lib_dsz(void) { return __start_vxlibdata ? (size_t)(__stop_vxlibdata - __start_vxlibdata) : 0; }
static size_t vx_lib_bsz(void) { return __start_vxlibbss ? (size_t)(__stop_vxlibbss - __start_vxlibbss) : 0; }
static size_t vx_lib_size(void) { return vx_lib_dsz() + vx_lib_bsz(); }
/* plain byte copies that no sanitizer instruments or intercepts: the regions hold the library's globals WITH the red
 * zones an AddressSanitizer build puts between them */
__attribute__((no_sanitize("address", "thread", "undefined"), noinline))
static void vx_rawcopy(void *d, const void *s, size_t n) { volatile unsigned char *dd = d; const volatile unsigned char *ss = s; while (n--) *dd++ = *ss++; }
static void vx_lib_save(void *dst) { if (vx_lib_dsz()) vx_rawcopy(dst, __start_vxlibdata, vx_lib_dsz()); if (vx_lib_bsz()) vx_rawcopy((char *)dst + vx_lib_dsz(), __start_vxlibbss, vx_lib_bsz()); }
static void vx_lib_restore(const void *src) { if (vx_lib_dsz()) vx_rawcopy(__start_vxlibdata, src, vx_lib_dsz()); if (vx_lib_bsz()) vx_rawcopy(__start_vxlibbss, (const char *)src + vx_lib_dsz(), vx_lib_bsz()); }
static void *vx_lib_pristine;	/* image at program start (taken by vx_init) */
static void vx_lib_reset(void) { if (vx_lib_pristine) vx_lib_restore(vx_lib_pristine); }
static int vx_lib_dirty(void)
{
	if (!vx_lib_pristine) return 0;
	return (vx_lib_dsz() && memcmp(vx_lib_pristine, __start_vxlibdata, vx_lib_dsz())) ||
	       (vx_lib_bsz() && memcmp((char *)vx_lib_pristine + vx_lib_dsz(), __start_vxlibbss, vx_lib_bsz()));
}

static void vx_init(int argc, char **argv)
{
	vx_args.t0 = vx_now();
	if (vx_lib_size()) { vx_lib_pristine = malloc(vx_lib_size()); if (!vx_lib_pristine) _exit(3); vx_lib_save(vx_lib_pristine); }
	for (int i = 1; i < argc; i++) {
		if (!strcmp(argv[i], "--tier") && i + 1 < argc) vx_args.tier = argv[++i];
		else if (!strcmp(argv[i], "--worker") && i + 1 < argc) {
			if (sscanf(argv[++i], "%d/%d", &vx_args.worker, &vx_args.nworkers) != 2) _exit(3);
		} else if (!strcmp(argv[i], "--out") && i + 1 < argc) vx_args.out = argv[++i];
		else if (!strcmp(argv[i], "--replay") && i + 1 < argc) vx_args.replay = argv[++i];
		else if (!strcmp(argv[i], "--deadline") && i + 1 < argc) vx_args.deadline_s = atof(argv[++i]);
		else if (!strcmp(argv[i], "--seed") && i + 1 < argc) vx_args.seed = strtoull(argv[++i], NULL, 0);
		else { fprintf(stderr, "vx: bad argument %s\n", argv[i]); _exit(3); }
	}
	setvbuf(stdout, NULL, _IOLBF, 0);
}

/* read the whole replay file (NULL if none) */
static char *vx_read_replay(void)
{
	if (!vx_args.replay) return NULL;
	FILE *f = fopen(vx_args.replay, "r");
	if (!f) { perror("vx: replay"); _exit(3); }
	size_t cap = 1 << 16, n = 0; char *b = malloc(cap);
	for (;;) { size_t r = fread(b + n, 1, cap - n - 1, f); n += r; if (r == 0) break;
		if (n + 1 >= cap) b = realloc(b, cap *= 2); }
	b[n] = 0; fclose(f);
	return b;
}

/* ------------------------------------------------------------------ hashing */

typedef struct { uint64_t a, b; } vx_h128;

static inline uint64_t vx_mix(uint64_t x)
{
	x ^= x >> 33; x *= 0xff51afd7ed558ccdULL; x ^= x >> 33; x *= 0xc4ceb9fe1a85ec53ULL; x ^= x >> 33;
	return x;
}
typedef struct { uint64_t a, b, n; } vx_hasher;
static inline void vx_h_init(vx_hasher *h) { h->a = 0x9e3779b97f4a7c15ULL; h->b = 0xc2b2ae3d27d4eb4fULL; h->n = 0; }
static inline void vx_h_u64(vx_hasher *h, uint64_t v)
{
	h->n++;
	h->a = vx_mix(h->a ^ v) + 0x165667b19e3779f9ULL * h->n;
	h->b = vx_mix(h->b + v * 0x9fb21c651e98df25ULL + h->n) ^ (h->a >> 7);
}
static inline void vx_h_bytes(vx_hasher *h, const void *p, size_t n)
{
	const uint8_t *c = p; uint64_t v;
	while (n >= 8) { memcpy(&v, c, 8); vx_h_u64(h, v); c += 8; n -= 8; }
	if (n) { v = 0; memcpy(&v, c, n); vx_h_u64(h, v ^ ((uint64_t)n << 56)); }
}
static inline vx_h128 vx_h_done(vx_hasher *h)
{
	vx_h128 r = { vx_mix(h->a ^ h->n) , vx_mix(h->b + h->a) };
	if (!r.a && !r.b) r.a = 1;
	return r;
}

/* visited set of 128-bit keys (open addressing, grows by doubling) */
typedef struct { vx_h128 *t; uint64_t cap, n; } vx_set;
static void vx_set_init(vx_set *s, uint64_t cap_log2)
{
	s->cap = 1ULL << cap_log2; s->n = 0;
	s->t = calloc(s->cap, sizeof(vx_h128));
	if (!s->t) { fprintf(stderr, "vx: out of memory\n"); _exit(3); }
}
static void vx_set_free(vx_set *s) { free(s->t); s->t = NULL; s->n = s->cap = 0; }
static int vx_set_add_raw(vx_set *s, vx_h128 k)
{
	uint64_t i = k.a & (s->cap - 1);
	for (;;) {
		vx_h128 *e = &s->t[i];
		if (!e->a && !e->b) { *e = k; s->n++; return 1; }
		if (e->a == k.a && e->b == k.b) return 0;
		i = (i + 1) & (s->cap - 1);
	}
}
/* returns 1 if k was new */
static int vx_set_add(vx_set *s, vx_h128 k)
{
	if (s->n * 10 >= s->cap * 6) {
		vx_set o = *s;
		s->cap = o.cap * 2; s->n = 0;
		s->t = calloc(s->cap, sizeof(vx_h128));
		if (!s->t) { fprintf(stderr, "vx: out of memory (visited set)\n"); _exit(3); }
		for (uint64_t i = 0; i < o.cap; i++) if (o.t[i].a || o.t[i].b) vx_set_add_raw(s, o.t[i]);
		free(o.t);
	}
	return vx_set_add_raw(s, k);
}
static int vx_set_has(vx_set *s, vx_h128 k)
{
	uint64_t i = k.a & (s->cap - 1);
	for (;;) {
		vx_h128 *e = &s->t[i];
		if (!e->a && !e->b) return 0;
		if (e->a == k.a && e->b == k.b) return 1;
		i = (i + 1) & (s->cap - 1);
	}
}

static void vx_lib_hash(vx_hasher *h) { if (vx_lib_dsz()) vx_h_bytes(h, __start_vxlibdata, vx_lib_dsz()); if (vx_lib_bsz()) vx_h_bytes(h, __start_vxlibbss, vx_lib_bsz()); }

/* ------------------------------------------------- snapshot store for BFS */

typedef struct {
	uint8_t *data; size_t ssz; uint64_t n, cap;
	uint32_t *parent; uint32_t *op; uint32_t *depth;
} vx_store;
#define VX_NOPARENT 0xffffffffu

static void vx_store_init(vx_store *st, size_t ssz)
{
	memset(st, 0, sizeof(*st)); st->ssz = ssz; st->cap = 1024;
	st->data = malloc(st->cap * ssz); st->parent = malloc(st->cap * 4);
	st->op = malloc(st->cap * 4); st->depth = malloc(st->cap * 4);
}
static void vx_store_free(vx_store *st) { free(st->data); free(st->parent); free(st->op); free(st->depth); memset(st, 0, sizeof(*st)); }
static uint64_t vx_store_add(vx_store *st, const void *state, uint32_t parent, uint32_t op, unsigned depth)
{
	if (st->n == st->cap) {
		st->cap *= 2;
		st->data = realloc(st->data, st->cap * st->ssz); st->parent = realloc(st->parent, st->cap * 4);
		st->op = realloc(st->op, st->cap * 4); st->depth = realloc(st->depth, st->cap * 4);
		if (!st->data || !st->parent || !st->op || !st->depth) { fprintf(stderr, "vx: out of memory (store)\n"); _exit(3); }
	}
	memcpy(st->data + st->n * st->ssz, state, st->ssz);
	st->parent[st->n] = parent; st->op[st->n] = op; st->depth[st->n] = (uint32_t)depth;
	return st->n++;
}
static void vx_store_get(vx_store *st, uint64_t i, void *out) { memcpy(out, st->data + i * st->ssz, st->ssz); }
/* history (list of ops) leading to state i, oldest first; returns length */
static int vx_store_trace(vx_store *st, uint64_t i, uint32_t *ops, int max)
{
	int n = 0;
	for (uint64_t j = i; st->parent[j] != VX_NOPARENT; j = st->parent[j]) n++;
	int k = n;
	for (uint64_t j = i; st->parent[j] != VX_NOPARENT; j = st->parent[j]) { k--; if (k < max) ops[k] = st->op[j]; }
	return n < max ? n : max;
}

/* ------------------------------------------------------------ fault capture */

static sigjmp_buf vx_jb;
static volatile int vx_armed;
static volatile int vx_fault_kind;	/* 1 assert, SIGSEGV/SIGBUS/SIGFPE/SIGABRT numbers otherwise */
static char vx_fault_msg[256];
static void *volatile vx_fault_addr;

#define VX_FAULT_ASSERT 1

/* set by engines that run the code under test on other stacks (vsched): called
 * with the fault already described in vx_fault_kind / vx_fault_msg; must not return */
static void (*vx_fault_hook)(void);

/* librfn's assert() lands here. It must never return. */
void __assert_fail(const char *expr, const char *file, unsigned int line, const char *func)
{
	const char *base = strrchr(file, '/');
	snprintf(vx_fault_msg, sizeof(vx_fault_msg), "assert(%s) in %s [%s]", expr, func ? func : "?", base ? base + 1 : file);
	(void)line;
	if (vx_fault_hook) { vx_fault_kind = VX_FAULT_ASSERT; vx_fault_hook(); }
	if (vx_armed) { vx_fault_kind = VX_FAULT_ASSERT; siglongjmp(vx_jb, 1); }
	fprintf(stderr, "vx: unexpected assertion outside VX_TRY: %s (%s:%u)\n", vx_fault_msg, file, line);
	_exit(4);
}
static void vx_sighandler(int sig, siginfo_t *si, void *uc)
{
	(void)uc;
	if (vx_fault_hook) {
		vx_fault_kind = sig; vx_fault_addr = si ? si->si_addr : NULL;
		snprintf(vx_fault_msg, sizeof(vx_fault_msg), "signal %d (%s)", sig,
			 sig == SIGSEGV ? "SIGSEGV" : sig == SIGFPE ? "SIGFPE" : sig == SIGBUS ? "SIGBUS" : "SIGABRT");
		vx_fault_hook();
	}
	if (vx_armed) {
		vx_fault_kind = sig; vx_fault_addr = si ? si->si_addr : NULL;
		snprintf(vx_fault_msg, sizeof(vx_fault_msg), "signal %d (%s)", sig,
			 sig == SIGSEGV ? "SIGSEGV" : sig == SIGFPE ? "SIGFPE" : sig == SIGBUS ? "SIGBUS" : "SIGABRT");
		siglongjmp(vx_jb, 1);
	}
	static const char m[] = "vx: fatal signal outside VX_TRY\n";
	if (write(2, m, sizeof(m) - 1)) {}
	_exit(5);
}
static void vx_install_handlers(void)
{
	static char altstack[1 << 16];
	stack_t ss = { .ss_sp = altstack, .ss_size = sizeof(altstack), .ss_flags = 0 };
	sigaltstack(&ss, NULL);
	struct sigaction sa; memset(&sa, 0, sizeof(sa));
	sa.sa_sigaction = vx_sighandler; sa.sa_flags = SA_SIGINFO | SA_NODEFER | SA_ONSTACK;
	sigaction(SIGSEGV, &sa, NULL); sigaction(SIGBUS, &sa, NULL);
	sigaction(SIGFPE, &sa, NULL); sigaction(SIGABRT, &sa, NULL);
}
/* if (VX_TRY) { ...; VX_END; } else { VX_END; -> vx_fault_kind / vx_fault_msg } */
#define VX_TRY (vx_fault_kind = 0, vx_opseq++, vx_armed = 1, sigsetjmp(vx_jb, 1) == 0)
#define VX_END (vx_armed = 0)

/* ------------------------------------------------------------- guard pages */

/* n bytes whose last byte is immediately followed by (right=1) or whose first
 * byte is immediately preceded by (right=0) an inaccessible page. */
static void *vx_guard_alloc(size_t n, int right)
{
	size_t pg = 4096, body = (n + pg - 1) / pg * pg;
	if (body == 0) body = pg;
	uint8_t *m = mmap(NULL, body + 2 * pg, PROT_READ | PROT_WRITE, MAP_PRIVATE | MAP_ANONYMOUS, -1, 0);
	if (m == MAP_FAILED) { perror("vx: mmap"); _exit(3); }
	mprotect(m, pg, PROT_NONE); mprotect(m + pg + body, pg, PROT_NONE);
	return right ? m + pg + body - n : m + pg;
}

/* --------------------------------------------------------- string builder */

typedef struct { char *s; size_t n, cap; } vx_sb;
__attribute__((format(printf, 2, 3)))
static void vx_sb_printf(vx_sb *b, const char *fmt, ...)
{
	va_list ap; va_start(ap, fmt); char *t = vx_vfmt(fmt, ap); va_end(ap);
	size_t l = strlen(t);
	if (b->n + l + 1 > b->cap) { b->cap = (b->n + l + 1) * 2; b->s = realloc(b->s, b->cap); }
	memcpy(b->s + b->n, t, l + 1); b->n += l; free(t);
}
static void vx_sb_reset(vx_sb *b) { b->n = 0; if (b->s) b->s[0] = 0; }


/* ----------------------------------------------------------------- watchdog */

/* A repeating timer; if the same VX_TRY section is still running at two
 * consecutive ticks the code under test is looping: fault kind VX_FAULT_HANG. */
#define VX_FAULT_HANG 2
static volatile uint64_t vx_opseq, vx_wd_seen;
static volatile int vx_hangs_seen;
static void vx_wd_handler(int sig)
{
	(void)sig;
	if (vx_armed && vx_opseq == vx_wd_seen) {
		vx_fault_kind = VX_FAULT_HANG; vx_hangs_seen++;
		snprintf(vx_fault_msg, sizeof(vx_fault_msg), "no progress for one watchdog period (endless loop)");
		siglongjmp(vx_jb, 1);
	}
	vx_wd_seen = vx_opseq;
}
static void vx_watchdog(double period_s)
{
	struct sigaction sa; memset(&sa, 0, sizeof(sa));
	sa.sa_handler = vx_wd_handler; sa.sa_flags = SA_NODEFER;
	sigaction(SIGALRM, &sa, NULL);
	struct itimerval it; long us = (long)(period_s * 1e6);
	it.it_interval.tv_sec = us / 1000000; it.it_interval.tv_usec = us % 1000000;
	it.it_value = it.it_interval;
	setitimer(ITIMER_REAL, &it, NULL);
}

/* ------------------------------------------- breadth-first search skeleton */

typedef struct {
	void *live; size_t size;		/* the live state image (fixed address) */
	int nops;
	int (*enabled)(int op);			/* may `op` be applied to the live state (scope guard) */
	int (*apply)(int op);			/* apply to implementation and model, run the oracle;
						 * 0 = fine, 1 = violation recorded via vx_fail_* (do not expand) */
	void (*canon)(vx_hasher *h);		/* canonical form of the live state */
	void (*describe)(int op, vx_sb *sb);	/* printable form of an operation */
	int max_depth;				/* 0 = run to a fixpoint */
	uint64_t max_states;			/* 0 = unlimited */
	const char *name;			/* configuration name, goes into replay files */
	void (*save)(void *dst);		/* optional: gather the live state into `size` bytes */
	void (*load)(const void *src);		/* optional: scatter it back */
	int lib_unhashed;			/* the library image is saved and restored with every state but left out of the hash (canon() covers
						 * what matters of it in a canonical form) */
	void (*on_new)(int depth);		/* optional: called on every newly found state (live), e.g. a frontier probe;
						 * must leave the live state as it found it */
	/* results */
	uint64_t states, transitions, disabled; int depth_done, fixpoint, capped;
	/* internals */
	vx_store st; vx_set seen; uint64_t cur; int cur_op;
} vx_bfs;

static vx_bfs *vx_bfs_cur;

/* replay text for the state being expanded + current op */
static void vx_bfs_history(vx_bfs *b, vx_sb *hist, vx_sb *replay)
{
	int len = 0;				/* histories of any length: a truncated history cannot be replayed */
	for (uint64_t j = b->cur; b->st.parent[j] != VX_NOPARENT; j = b->st.parent[j]) len++;
	uint32_t *ops = malloc(sizeof(uint32_t) * ((size_t)len + 2));
	if (!ops) { fprintf(stderr, "vx: out of memory (history)\n"); _exit(3); }
	int n = vx_store_trace(&b->st, b->cur, ops, len + 1);
	ops[n++] = (uint32_t)b->cur_op;
	vx_sb_printf(replay, "config=%s\nops=", b->name ? b->name : "");
	for (int i = 0; i < n; i++) {
		vx_sb_printf(replay, "%s%u", i ? " " : "", ops[i]);
		/* the readable form keeps the first and the last 40 operations of a long history; the replay text is complete */
		if (n > 100 && i >= 40 && i < n - 40) { if (i == 40) vx_sb_printf(hist, "; ... (%d operations) ...", n - 80); continue; }
		if (i) vx_sb_printf(hist, "; ");
		b->describe((int)ops[i], hist);
	}
	vx_sb_printf(replay, "\n");
	free(ops);
}

/* record a violation found while applying the current op of the current BFS */
__attribute__((format(printf, 2, 3)))
static void vx_bfs_fail(const char *clause, const char *fmt, ...)
{
	vx_bfs *b = vx_bfs_cur;
	vx_sb hist = {0}, rep = {0}, sig = {0};
	va_list ap; va_start(ap, fmt); char *m = vx_vfmt(fmt, ap); va_end(ap);
	vx_bfs_history(b, &hist, &rep);
	vx_sb_printf(&sig, "%s|%s|%s", clause, b->name ? b->name : "", hist.s);
	vx_violation(sig.s, rep.s, "%s: %s -- after history [%s]", clause, m, hist.s);
	free(m); free(hist.s); free(rep.s); free(sig.s);
}

static void vx_bfs_run(vx_bfs *b)
{
	/* a stored state = the live image followed by the image of the library's statics (empty without `lib=`) */
	size_t lsz = vx_lib_size(), tot = b->size + lsz;
	uint8_t *save = malloc(tot), *tmp = malloc(tot);
	vx_hasher h;
	vx_bfs_cur = b;
	vx_store_init(&b->st, tot);
	vx_set_init(&b->seen, 16);
	vx_h_init(&h); b->canon(&h); if (!b->lib_unhashed) vx_lib_hash(&h); vx_set_add(&b->seen, vx_h_done(&h));
	if (b->save) b->save(save); else memcpy(save, b->live, b->size);
	vx_lib_save(save + b->size);
	vx_store_add(&b->st, save, VX_NOPARENT, 0, 0);
	b->states = 1; b->transitions = 0; b->fixpoint = 0; b->capped = 0; b->depth_done = 0;
	int last_depth = 0;
	for (b->cur = 0; b->cur < b->st.n; b->cur++) {
		int d = b->st.depth[b->cur];
		if (d != last_depth) { b->depth_done = d; last_depth = d; }	/* all states of depth d-1 expanded */
		if (b->max_depth && d >= b->max_depth) break;
		if ((b->cur & 255) == 0 && vx_deadline_passed()) { b->capped = 1; break; }
		if (b->max_states && b->st.n >= b->max_states) { b->capped = 1; break; }
		if (vx_too_many_violations()) { b->capped = 1; break; }
		vx_store_get(&b->st, b->cur, save);
		for (int op = 0; op < b->nops; op++) {
			if (b->load) b->load(save); else memcpy(b->live, save, b->size);
			vx_lib_restore(save + b->size);
			if (!b->enabled(op)) { b->disabled++; continue; }
			/* faults that cost a watchdog period each must not be retried thousands of times */
			if (vx_too_many_violations() || vx_hangs_seen >= 3) { b->capped = 1; break; }
			b->cur_op = op;
			b->transitions++;
			if (b->apply(op)) continue;
			vx_h_init(&h); b->canon(&h); if (!b->lib_unhashed) vx_lib_hash(&h);
			if (vx_set_add(&b->seen, vx_h_done(&h))) {
				if (b->save) b->save(tmp); else memcpy(tmp, b->live, b->size);
				vx_lib_save(tmp + b->size);
				vx_store_add(&b->st, tmp, (uint32_t)b->cur, (uint32_t)op, (unsigned)d + 1);
				b->states++;
				if (b->on_new) b->on_new(d + 1);
			}
		}
	}
	if (b->cur >= b->st.n && !b->capped) { b->fixpoint = 1; b->depth_done = last_depth + 1; }
	else if (!b->capped) b->depth_done = b->max_depth;
	free(save); free(tmp);
}
static void vx_bfs_free(vx_bfs *b) { vx_store_free(&b->st); vx_set_free(&b->seen); }

/* replay "ops=..." from the initial live state (already set up by the caller) */
static int vx_bfs_replay(vx_bfs *b, const char *text)
{
	const char *p = strstr(text, "ops=");
	if (!p) return -1;
	p += 4;
	vx_bfs_cur = b;
	vx_store_init(&b->st, 1);
	vx_store_add(&b->st, "", VX_NOPARENT, 0, 0);
	b->cur = 0;
	unsigned dep = 0;
	int pending = -1;	/* the last applied op is added to the store only when another one follows, so that
				 * (cur, cur_op) name the same history as during the search (also for on_new probes) */
	for (;;) {
		while (*p == ' ') p++;
		if (*p < '0' || *p > '9') break;
		int op = (int)strtol(p, (char **)&p, 10);
		if (pending >= 0) b->cur = vx_store_add(&b->st, "", (uint32_t)b->cur, (uint32_t)pending, ++dep);
		if (op >= b->nops || !b->enabled(op)) { fprintf(stderr, "vx: replay diverged (op %d not enabled)\n", op); return -1; }
		b->cur_op = op;
		int r = b->apply(op);
		if (r) return 1;
		pending = op;
	}
	return 0;
}
/* value of "key=" line in a replay text (static buffer) */
static const char *vx_replay_field(const char *text, const char *key)
{
	static char buf[256];
	char pat[64]; snprintf(pat, sizeof(pat), "\n%s=", key);
	const char *p = NULL;
	if (0 == strncmp(text, pat + 1, strlen(pat) - 1)) p = text + strlen(pat) - 1;
	else { p = strstr(text, pat); if (p) p += strlen(pat); }
	if (!p) return NULL;
	size_t n = strcspn(p, "\n"); if (n >= sizeof(buf)) n = sizeof(buf) - 1;
	memcpy(buf, p, n); buf[n] = 0;
	return buf;
}

#endif /* VX_H_ */

/* shared between the instrumented scenario TU (c04_scn.c) and the harness/oracle TU (c04_messageq.c) */
#ifndef C04_H_
#define C04_H_
#include <stdbool.h>
#include <stdint.h>
#include <librfn/messageq.h>

#define C4_MSGLEN 2
typedef struct {
	int S, Q, M;		/* senders, queue depth, messages per sender */
	int retry;		/* 1: senders retry a failed claim and the receiver waits for S*M messages; 0: one attempt each */
	int R;			/* retry==0: receive attempts of the receiver */
	int adv, prefill;	/* start state: cursors advanced by adv, then prefill messages sent but not received */
	int topo;		/* 0 threads (S senders + receiver); 1 receiver main + S*M sender interrupts;
				   2 sender main (+ receiver at quiescence) + sender interrupts; 3 threads without receiver */
	int nest;		/* interrupt nesting limit */
	int bound;		/* deviation bound, -1 unbounded */
} c04_cfg;
extern c04_cfg C4;
extern messageq_t c4_mq;
extern uint8_t c4_arena[64];
#define C4_STORE (c4_arena + 16)

void orc_claim_begin(int sender);
void orc_claim_end(int sender, void *p);		/* p may be NULL */
void orc_send_begin(int sender, void *p);
void orc_send_end(int sender, void *p);
void orc_recv_begin(void);
void orc_recv_end(void *p);				/* p may be NULL */
void orc_release_begin(void *p);
void orc_release_end(void *p);

void c4_sender(void *arg); void c4_receiver(void *arg); void c4_irq_sender(void *arg);
#endif

/*
 * C04, deep-nesting family: "any number of senders". N claims are in flight at
 * once on one core - each nested interrupt handler is itself interrupted right
 * before its P-th atomic operation by the next one - for every N up to 300, every
 * P, a few queue depths and fill levels. This is one deterministic execution per
 * parameter tuple (no choices to explore); it exists because counters that are
 * only ever wrong with more than 127 / 255 claims in flight (an 8-bit free count
 * used transiently, say) are beyond any deviation bound of the schedule explorer.
 *
 * messageq.c is compiled with -fsanitize=thread (so that its atomics are calls)
 * and linked with the dozen ABI functions below instead of engine/vsched.c.
 */
#include "vx.h"
#include <librfn/messageq.h>

static messageq_t mq;
static uint8_t store_area[16 + 32 * 300 + 320 + 16];
#define store (store_area + 16)
static int MSGLEN = 4, REM, HOW;	/* message length, bytes of storage beyond the last whole message, 0 messageq_init / 1 MESSAGEQ_VAR_INIT */
static int Q, HELD, N, P;		/* depth, buffers held before the chain starts, chain length, interruption point */

static int MODE, KDONE, KMAX;		/* MODE 1: not a nested chain but KMAX complete claims, one before each atomic operation #>=P of the outer claim */
static int level, opidx[512];		/* nesting level and index of the next atomic operation of the claim at that level */
static void *got[512];
static int chain_active;

static void do_claim(int l);
static void hook(void)
{
	if (!chain_active) return;
	int l = level;
	if (MODE == 1) {
		/* one complete claim by another sender before every atomic operation of the outer claim from #P on */
		if (l == 0 && opidx[0]++ >= P && KDONE < KMAX) { int k = ++KDONE; do_claim(k); }
		return;
	}
	if (opidx[l]++ == P && l + 1 < N) do_claim(l + 1);	/* the next handler arrives right here */
}
static int free_before[512];		/* MODE 1: buffers free when claim #l began */
static void do_claim(int l)
{
	int saved = level;
	level = l; opidx[l] = 0;
	if (MODE == 1) { int taken = 0; for (int i = 1; i < l; i++) taken += got[i] != NULL; free_before[l] = Q - HELD - taken; }
	got[l] = messageq_claim(&mq);
	level = saved;
}
static void init_queue(void)
{
	memset(store_area, 0x5c, sizeof(store_area));
	if (HOW) { messageq_t t = MESSAGEQ_VAR_INIT(store, (size_t)(Q * MSGLEN + REM), (size_t)MSGLEN); memcpy(&mq, &t, sizeof(mq)); }
	else { memset(&mq, 0xa5, sizeof(mq)); messageq_init(&mq, store, (size_t)(Q * MSGLEN + REM), (size_t)MSGLEN); }
}
static int guards_ok(void)
{
	for (int i = 0; i < 16; i++) if (store_area[i] != 0x5c) return 0;
	for (size_t i = (size_t)(16 + Q * MSGLEN); i < sizeof(store_area); i++) if (store_area[i] != 0x5c) return 0;
	return 1;
}

/* ---- the few -fsanitize=thread ABI functions messageq.c needs */
#define DEF(N, T) \
T __tsan_atomic##N##_load(const volatile T *a, int mo) { (void)mo; hook(); return __atomic_load_n(a, __ATOMIC_SEQ_CST); } \
void __tsan_atomic##N##_store(volatile T *a, T v, int mo) { (void)mo; hook(); __atomic_store_n(a, v, __ATOMIC_SEQ_CST); } \
T __tsan_atomic##N##_exchange(volatile T *a, T v, int mo) { (void)mo; hook(); return __atomic_exchange_n(a, v, __ATOMIC_SEQ_CST); } \
T __tsan_atomic##N##_fetch_add(volatile T *a, T v, int mo) { (void)mo; hook(); return __atomic_fetch_add(a, v, __ATOMIC_SEQ_CST); } \
T __tsan_atomic##N##_fetch_sub(volatile T *a, T v, int mo) { (void)mo; hook(); return __atomic_fetch_sub(a, v, __ATOMIC_SEQ_CST); } \
T __tsan_atomic##N##_fetch_and(volatile T *a, T v, int mo) { (void)mo; hook(); return __atomic_fetch_and(a, v, __ATOMIC_SEQ_CST); } \
T __tsan_atomic##N##_fetch_or(volatile T *a, T v, int mo) { (void)mo; hook(); return __atomic_fetch_or(a, v, __ATOMIC_SEQ_CST); } \
T __tsan_atomic##N##_fetch_xor(volatile T *a, T v, int mo) { (void)mo; hook(); return __atomic_fetch_xor(a, v, __ATOMIC_SEQ_CST); } \
int __tsan_atomic##N##_compare_exchange_strong(volatile T *a, T *e, T v, int mo, int fmo) { (void)mo; (void)fmo; hook(); return __atomic_compare_exchange_n(a, e, v, 0, __ATOMIC_SEQ_CST, __ATOMIC_SEQ_CST); } \
int __tsan_atomic##N##_compare_exchange_weak(volatile T *a, T *e, T v, int mo, int fmo) { (void)mo; (void)fmo; hook(); return __atomic_compare_exchange_n(a, e, v, 0, __ATOMIC_SEQ_CST, __ATOMIC_SEQ_CST); }
DEF(8, uint8_t) DEF(16, uint16_t) DEF(32, uint32_t) DEF(64, uint64_t)
void __tsan_atomic_thread_fence(int mo) { (void)mo; } void __tsan_atomic_signal_fence(int mo) { (void)mo; }
void __tsan_init(void) {} void __tsan_func_entry(void *p) { (void)p; } void __tsan_func_exit(void) {}
#define RW(N) void __tsan_read##N(void *a) { (void)a; } void __tsan_write##N(void *a) { (void)a; } \
	void __tsan_unaligned_read##N(void *a) { (void)a; } void __tsan_unaligned_write##N(void *a) { (void)a; }
RW(1) RW(2) RW(4) RW(8) RW(16)
void __tsan_read_range(void *a, unsigned long n) { (void)a; (void)n; } void __tsan_write_range(void *a, unsigned long n) { (void)a; (void)n; }

static uint64_t n_cases, n_claims, n_ok, n_null;
static vx_set distinct;

static void fail(const char *clause, const char *fmt, ...)
{
	va_list ap; va_start(ap, fmt); char *m = vx_vfmt(fmt, ap); va_end(ap);
	char sig[160], rep[160];
	/* one signature per clause: the first (smallest) failing tuple names it */
	snprintf(sig, sizeof(sig), "%s|%s", MODE == 0 ? "deep-nesting" : MODE == 1 ? "stalled-claim" : "geometry", clause);
	snprintf(rep, sizeof(rep), "mode=%d\nQ=%d\nheld=%d\nN=%d\nP=%d\nmsglen=%d\nrem=%d\nhow=%d\n", MODE, Q, HELD, N, P, MSGLEN, REM, HOW);
	if (MODE == 0) vx_violation(sig, rep, "%s: %s -- depth %d, %d buffer(s) held, %d claims in flight, each interrupted before its atomic operation #%d", clause, m, Q, HELD, N, P);
	else if (MODE == 1) vx_violation(sig, rep, "%s: %s -- depth %d, %d buffer(s) held, one claim stalled while %d other claims complete, one before each of its atomic operations from #%d on", clause, m, Q, HELD, N, P);
	else vx_violation(sig, rep, "%s: %s -- depth %d, message length %d, %d spare byte(s) of storage, %d claim/send/receive/release cycles before, descriptor from %s", clause, m, Q, MSGLEN, REM, N, HOW ? "MESSAGEQ_VAR_INIT" : "messageq_init");
	free(m);
}

static int run_case(void)
{
	void *held[32]; int nheld = 0;
	init_queue();
	chain_active = 0; KDONE = 0; KMAX = MODE == 1 ? N : 0;
	for (int i = 0; i < HELD; i++) { held[nheld] = messageq_claim(&mq); if (!held[nheld]) { fail("setup", "sequential claim %d of %d refused", i, Q); return 1; } nheld++; }
	memset(got, 0, sizeof(got));
	chain_active = 1; level = 0;
	if (VX_TRY) { do_claim(0); VX_END; } else { VX_END; chain_active = 0; fail("fault", "%s", vx_fault_msg); return 1; }
	chain_active = 0;
	n_cases++; n_claims += (uint64_t)N;
	/* at most Q - HELD of the N claims may succeed, each with a buffer nobody else has */
	int ok = 0; uint32_t mask = 0;
	int nclaims = MODE == 1 ? 1 + KDONE : N;
	for (int i = 0; i < nheld; i++) mask |= 1u << (((uint8_t *)held[i] - store) / MSGLEN);
	if (MODE == 1 && !got[0]) {
		/* fails only if no buffer was free at some instant during the call: the others take one buffer each and keep it */
		int taken = 0; for (int i = 1; i <= KDONE; i++) taken += got[i] != NULL;
		if (Q - HELD - taken > 0) { fail("claim-fails-with-free-buffer", "the stalled claim returned NULL although %d of %d buffers were still free when it gave up (%d other claims had completed meanwhile, each keeping its buffer)", Q - HELD - taken, Q, KDONE); return 1; }
	}
	for (int l = 0; l < nclaims; l++) if (got[l]) {
		long off = (uint8_t *)got[l] - store;
		ok++;
		if (off < 0 || off >= Q * MSGLEN || off % MSGLEN) { fail("claim-pointer", "claim at nesting level %d returned a pointer outside the storage", l); return 1; }
		if (mask & (1u << (off / MSGLEN))) { fail("double-hand-out", "claim at nesting level %d was given buffer %ld, which already belongs to another claimer", l, off / MSGLEN); return 1; }
		mask |= 1u << (off / MSGLEN);
	}
	n_ok += (uint64_t)ok; n_null += (uint64_t)(nclaims - ok);
	if (ok > Q - HELD) { fail("overcommit", "%d claims succeeded with only %d buffers free", ok, Q - HELD); return 1; }
	/* every claim ran to completion one after the other from the innermost outwards, so with the chain unwound exactly
	 * min(N, free) could have been served; fewer is allowed only while others were in flight - but the outermost claim
	 * completes last, with nobody in flight any more: */
	/* quiescence: send, receive, release everything; then exactly Q claims succeed */
	for (int i = 0; i < nheld; i++) messageq_send(&mq, held[i]);
	for (int l = nclaims - 1; l >= 0; l--) if (got[l]) messageq_send(&mq, got[l]);
	int rec = 0; void *m;
	while ((m = messageq_receive(&mq)) && rec < 64) { messageq_release(&mq, m); rec++; }
	if (rec != nheld + ok) { fail("lost-message", "%d messages sent, %d received", nheld + ok, rec); return 1; }
	int fr = 0; while (fr < Q + 2 && messageq_claim(&mq)) fr++;
	if (fr != Q) { fail("free-count", "after quiescence %d claims succeed, the queue holds %d buffers", fr, Q); return 1; }
	if (!guards_ok()) { fail("outside-the-storage", "bytes beside the whole messages of the storage were modified"); return 1; }
	vx_hasher h; vx_h_init(&h); vx_h_u64(&h, (uint64_t)Q | (uint64_t)HELD << 8 | (uint64_t)P << 16 | (uint64_t)ok << 24 | (uint64_t)(N > 255) << 40 | (uint64_t)(N > 127) << 41);
	vx_set_add(&distinct, vx_h_done(&h));
	return 0;
}

/* ---- MODE 2: geometry family - every depth 1..32 x message lengths that are not powers of two / make the storage cross
 * 2^8 and 2^13 bytes x spare bytes behind the last whole message x both ways of building the descriptor x a run-in of
 * N claim/send/receive/release cycles (cursors on both sides of 2^8 and 2^16); then the queue is filled completely,
 * sent in claim order, and received TWO AT A TIME (the receiver holds two messages before it releases the first) */
static uint8_t pat(int i, int j) { return (uint8_t)(i * 31 + j * 7 + 1); }
static int geometry_case(void)
{
	void *c[34]; int n = 0;
	init_queue();
	chain_active = 0;
	n_cases++;
	if (!(VX_TRY)) { VX_END; fail("fault", "%s", vx_fault_msg); return 1; }
	for (int i = 0; i < N; i++) {
		uint8_t *m = messageq_claim(&mq);
		if (!m) { VX_END; fail("claim-fails-with-free-buffer", "run-in cycle %d: claim refused on an empty queue", i); return 1; }
		m[0] = (uint8_t)i; if (MSGLEN > 1) m[MSGLEN - 1] = (uint8_t)~i;
		messageq_send(&mq, m);
		uint8_t *r = messageq_receive(&mq);
		if (r != m) { VX_END; fail("lost-message", "run-in cycle %d: receive did not return the message just sent", i); return 1; }
		if (r[0] != (uint8_t)i || (MSGLEN > 1 && r[MSGLEN - 1] != (uint8_t)~i)) { VX_END; fail("payload", "run-in cycle %d: contents changed", i); return 1; }
		messageq_release(&mq, r);
	}
	for (; n < Q + 2; n++) {
		c[n] = messageq_claim(&mq);
		if (!c[n]) break;
		long off = (uint8_t *)c[n] - store;
		if (n >= Q) { VX_END; fail("overcommit", "claim number %d succeeds on a queue of %d buffers", n + 1, Q); return 1; }
		if (off < 0 || off + MSGLEN > Q * MSGLEN + REM || off % MSGLEN) { VX_END; fail("claim-pointer", "claim %d returned offset %ld: not a whole message inside the storage", n, off); return 1; }
		for (int k = 0; k < n; k++) if (c[k] == c[n]) { VX_END; fail("double-hand-out", "claims %d and %d were given the same buffer", k, n); return 1; }
		for (int j = 0; j < MSGLEN; j++) ((uint8_t *)c[n])[j] = pat(n, j);
	}
	if (n != Q) { VX_END; fail("claim-fails-with-free-buffer", "only %d of %d buffers can be claimed", n, Q); return 1; }
	for (int i = 0; i < Q; i++) messageq_send(&mq, c[i]);
	for (int i = 0; i < Q; ) {
		uint8_t *r[2]; int k = 0;
		for (; k < 2 && i + k < Q; k++) {
			r[k] = messageq_receive(&mq);
			if (r[k] != c[i + k]) { VX_END; fail(r[k] ? "order" : "lost-message", "message %d of %d: receive returned %s (the receiver holds %d message(s))", i + k, Q, r[k] ? "another buffer than the one claimed at that position" : "NULL", k); return 1; }
			for (int j = 0; j < MSGLEN; j++) if (r[k][j] != pat(i + k, j)) { VX_END; fail("payload", "message %d: byte %d reads 0x%02x, written 0x%02x", i + k, j, r[k][j], pat(i + k, j)); return 1; }
		}
		for (int q = 0; q < k; q++) messageq_release(&mq, r[q]);
		i += k;
	}
	if (messageq_receive(&mq)) { VX_END; fail("extra-message", "receive returns a message after all %d were received", Q); return 1; }
	int fr = 0; while (fr < Q + 2 && messageq_claim(&mq)) fr++;
	VX_END;
	if (fr != Q) { fail("free-count", "after quiescence %d claims succeed, the queue holds %d buffers", fr, Q); return 1; }
	if (!guards_ok()) { fail("outside-the-storage", "bytes beside the whole messages of the storage were modified"); return 1; }
	n_claims += (uint64_t)(N + 2 * Q);
	return 0;
}

int main(int argc, char **argv)
{
	vx_init(argc, argv);
	vx_install_handlers();
	vx_set_init(&distinct, 10);
	char *rp = vx_read_replay();
	if (rp) {
		Q = atoi(vx_replay_field(rp, "Q")); HELD = atoi(vx_replay_field(rp, "held")); N = atoi(vx_replay_field(rp, "N")); P = atoi(vx_replay_field(rp, "P"));
		if (vx_replay_field(rp, "mode")) { MODE = atoi(vx_replay_field(rp, "mode")); MSGLEN = atoi(vx_replay_field(rp, "msglen")); REM = atoi(vx_replay_field(rp, "rem")); HOW = atoi(vx_replay_field(rp, "how")); }
		if (Q < 1 || Q > 32 || MSGLEN < 1 || MSGLEN > 300 || REM < 0 || REM >= 320 || N < 0 || N > 70000) { fprintf(stderr, "c04_deep: malformed replay file\n"); return 3; }
		if (MODE == 2) geometry_case(); else run_case();
		vx_finish();
		return 0;
	}
	MODE = 0; MSGLEN = 4; REM = 0; HOW = 0;
	static const int qs[] = { 1, 2, 4, 8 };
	int maxn = vx_thorough() ? 500 : 300, part = 0, stop = 0;
	for (unsigned qi = 0; qi < 4 && !stop; qi++)
		for (int held = qs[qi]; held >= 0 && held >= qs[qi] - 2 && !stop; held--, part++) {
			if (!vx_mine((uint64_t)part)) continue;
			Q = qs[qi]; HELD = held;
			for (N = 1; N <= maxn && !stop; N++)
				for (P = 0; P <= 6 && !stop; P++)
					if (run_case()) stop = 1;	/* smallest failing tuple first; one is enough */
		}
	/* ---- stalled claim: K complete claims, one before each atomic operation from #P on */
	MODE = 1; MSGLEN = 4; REM = 0;
	static const int q1[] = { 2, 3, 5, 8, 16, 32 };
	for (unsigned qi = 0; qi < 6 && !stop; qi++)
		for (HOW = 0; HOW < 2 && !stop; HOW++, part++) {
			if (!vx_mine((uint64_t)part)) continue;
			Q = q1[qi];
			for (HELD = 0; HELD <= Q && HELD <= 2 && !stop; HELD++)
				for (N = 1; N <= 12 && !stop; N++)
					for (P = 0; P <= 6 && !stop; P++)
						if (run_case()) stop = 1;
		}
	/* ---- geometry */
	MODE = 2; HELD = 0; P = 0;
	static const int mls[] = { 4, 1, 2, 3, 8, 40, 300 };
	static const int advs[] = { 0, 1, 254, 255, 256, 257, 65534, 65535, 65536, 65537 };
	for (Q = 1; Q <= 32 && !stop; Q++)
		for (unsigned mi = 0; mi < 7 && !stop; mi++, part++) {
			if (!vx_mine((uint64_t)part)) continue;
			MSGLEN = mls[mi];
			for (int ri = 0; ri < 3 && !stop; ri++) {
				REM = ri == 0 ? 0 : ri == 1 ? 1 : MSGLEN - 1;
				if (REM >= MSGLEN || (ri == 2 && MSGLEN - 1 <= 1)) continue;
				for (HOW = 0; HOW < 2 && !stop; HOW++)
					for (unsigned ai = 0; ai < 10 && !stop; ai++) {
						N = advs[ai];
						if (N > 300 && !(Q == 3 || Q == 5 || Q == 7 || Q == 17 || Q == 32) ) continue;	/* the long run-ins on depths that do not divide 2^16 (and on 32) */
						if (N > 300 && mi > 1 && !vx_thorough()) continue;
						if (geometry_case()) stop = 1;
					}
			}
		}
	MODE = 0;
	vx_count("traces", n_cases); vx_count("deep_nesting_distinct_outcomes", distinct.n);
	vx_count("deep_nesting_cases", n_cases); vx_count("deep_nesting_claims", n_claims); vx_count("deep_nesting_claims_ok", n_ok); vx_count("deep_nesting_claims_null", n_null);
	vx_max("deep_nesting_max_claims_in_flight", (uint64_t)maxn);
	vx_and("exhaustive", 1);
	vx_finish();
	return 0;
}

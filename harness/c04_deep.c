/*
 * C04, deep-nesting family: "any number of senders". N claims are in flight at
 * once on one core - each nested interrupt handler is itself interrupted right
 * before its P-th atomic operation by the next one - for every N up to 300, every
 * P, a few queue depths and fill levels. This is one deterministic execution per
 * parameter tuple (no choices to explore); it exists because counters that are
 * only ever wrong with more than 127 / 255 claims in flight (an 8-bit free count
 * used transiently, say) are beyond any deviation bound of the schedule explorer.
 *
 * messageq.c is compiled with -fsanitize=thread (so that its atomics are calls)
 * and linked with the dozen ABI functions below instead of engine/vsched.c.
 */
#include "vx.h"
#include <librfn/messageq.h>

static messageq_t mq;
static uint8_t store[64];
#define MSGLEN 4
static int Q, HELD, N, P;		/* depth, buffers held before the chain starts, chain length, interruption point */

static int level, opidx[512];		/* nesting level and index of the next atomic operation of the claim at that level */
static void *got[512];
static int chain_active;

static void do_claim(int l);
static void hook(void)
{
	if (!chain_active) return;
	int l = level;
	if (opidx[l]++ == P && l + 1 < N) do_claim(l + 1);	/* the next handler arrives right here */
}
static void do_claim(int l)
{
	int saved = level;
	level = l; opidx[l] = 0;
	got[l] = messageq_claim(&mq);
	level = saved;
}

/* ---- the few -fsanitize=thread ABI functions messageq.c needs */
#define DEF(N, T) \
T __tsan_atomic##N##_load(const volatile T *a, int mo) { (void)mo; hook(); return __atomic_load_n(a, __ATOMIC_SEQ_CST); } \
void __tsan_atomic##N##_store(volatile T *a, T v, int mo) { (void)mo; hook(); __atomic_store_n(a, v, __ATOMIC_SEQ_CST); } \
T __tsan_atomic##N##_exchange(volatile T *a, T v, int mo) { (void)mo; hook(); return __atomic_exchange_n(a, v, __ATOMIC_SEQ_CST); } \
T __tsan_atomic##N##_fetch_add(volatile T *a, T v, int mo) { (void)mo; hook(); return __atomic_fetch_add(a, v, __ATOMIC_SEQ_CST); } \
T __tsan_atomic##N##_fetch_sub(volatile T *a, T v, int mo) { (void)mo; hook(); return __atomic_fetch_sub(a, v, __ATOMIC_SEQ_CST); } \
T __tsan_atomic##N##_fetch_and(volatile T *a, T v, int mo) { (void)mo; hook(); return __atomic_fetch_and(a, v, __ATOMIC_SEQ_CST); } \
T __tsan_atomic##N##_fetch_or(volatile T *a, T v, int mo) { (void)mo; hook(); return __atomic_fetch_or(a, v, __ATOMIC_SEQ_CST); } \
T __tsan_atomic##N##_fetch_xor(volatile T *a, T v, int mo) { (void)mo; hook(); return __atomic_fetch_xor(a, v, __ATOMIC_SEQ_CST); } \
int __tsan_atomic##N##_compare_exchange_strong(volatile T *a, T *e, T v, int mo, int fmo) { (void)mo; (void)fmo; hook(); return __atomic_compare_exchange_n(a, e, v, 0, __ATOMIC_SEQ_CST, __ATOMIC_SEQ_CST); } \
int __tsan_atomic##N##_compare_exchange_weak(volatile T *a, T *e, T v, int mo, int fmo) { (void)mo; (void)fmo; hook(); return __atomic_compare_exchange_n(a, e, v, 0, __ATOMIC_SEQ_CST, __ATOMIC_SEQ_CST); }
DEF(8, uint8_t) DEF(16, uint16_t) DEF(32, uint32_t) DEF(64, uint64_t)
void __tsan_atomic_thread_fence(int mo) { (void)mo; } void __tsan_atomic_signal_fence(int mo) { (void)mo; }
void __tsan_init(void) {} void __tsan_func_entry(void *p) { (void)p; } void __tsan_func_exit(void) {}
#define RW(N) void __tsan_read##N(void *a) { (void)a; } void __tsan_write##N(void *a) { (void)a; } \
	void __tsan_unaligned_read##N(void *a) { (void)a; } void __tsan_unaligned_write##N(void *a) { (void)a; }
RW(1) RW(2) RW(4) RW(8) RW(16)
void __tsan_read_range(void *a, unsigned long n) { (void)a; (void)n; } void __tsan_write_range(void *a, unsigned long n) { (void)a; (void)n; }

static uint64_t n_cases, n_claims, n_ok, n_null;
static vx_set distinct;

static void fail(const char *clause, const char *fmt, ...)
{
	va_list ap; va_start(ap, fmt); char *m = vx_vfmt(fmt, ap); va_end(ap);
	char sig[160], rep[160];
	/* one signature per clause: the first (smallest) failing tuple names it */
	snprintf(sig, sizeof(sig), "deep-nesting|%s", clause);
	snprintf(rep, sizeof(rep), "Q=%d\nheld=%d\nN=%d\nP=%d\n", Q, HELD, N, P);
	vx_violation(sig, rep, "%s: %s -- depth %d, %d buffer(s) held, %d claims in flight, each interrupted before its atomic operation #%d", clause, m, Q, HELD, N, P);
	free(m);
}

static int run_case(void)
{
	void *held[8]; int nheld = 0;
	memset(store, 0, sizeof(store));
	messageq_init(&mq, store, (size_t)(Q * MSGLEN), MSGLEN);
	chain_active = 0;
	for (int i = 0; i < HELD; i++) { held[nheld] = messageq_claim(&mq); if (!held[nheld]) { fail("setup", "sequential claim %d of %d refused", i, Q); return 1; } nheld++; }
	memset(got, 0, sizeof(void *) * (size_t)N);
	chain_active = 1; level = 0;
	if (VX_TRY) { do_claim(0); VX_END; } else { VX_END; chain_active = 0; fail("fault", "%s", vx_fault_msg); return 1; }
	chain_active = 0;
	n_cases++; n_claims += (uint64_t)N;
	/* at most Q - HELD of the N claims may succeed, each with a buffer nobody else has */
	int ok = 0; uint32_t mask = 0;
	for (int i = 0; i < nheld; i++) mask |= 1u << (((uint8_t *)held[i] - store) / MSGLEN);
	for (int l = 0; l < N; l++) if (got[l]) {
		long off = (uint8_t *)got[l] - store;
		ok++;
		if (off < 0 || off >= Q * MSGLEN || off % MSGLEN) { fail("claim-pointer", "claim at nesting level %d returned a pointer outside the storage", l); return 1; }
		if (mask & (1u << (off / MSGLEN))) { fail("double-hand-out", "claim at nesting level %d was given buffer %ld, which already belongs to another claimer", l, off / MSGLEN); return 1; }
		mask |= 1u << (off / MSGLEN);
	}
	n_ok += (uint64_t)ok; n_null += (uint64_t)(N - ok);
	if (ok > Q - HELD) { fail("overcommit", "%d claims succeeded with only %d buffers free", ok, Q - HELD); return 1; }
	/* every claim ran to completion one after the other from the innermost outwards, so with the chain unwound exactly
	 * min(N, free) could have been served; fewer is allowed only while others were in flight - but the outermost claim
	 * completes last, with nobody in flight any more: */
	/* quiescence: send, receive, release everything; then exactly Q claims succeed */
	for (int i = 0; i < nheld; i++) messageq_send(&mq, held[i]);
	for (int l = N - 1; l >= 0; l--) if (got[l]) messageq_send(&mq, got[l]);
	int rec = 0; void *m;
	while ((m = messageq_receive(&mq)) && rec < 64) { messageq_release(&mq, m); rec++; }
	if (rec != nheld + ok) { fail("lost-message", "%d messages sent, %d received", nheld + ok, rec); return 1; }
	int fr = 0; while (fr < Q + 2 && messageq_claim(&mq)) fr++;
	if (fr != Q) { fail("free-count", "after quiescence %d claims succeed, the queue holds %d buffers", fr, Q); return 1; }
	vx_hasher h; vx_h_init(&h); vx_h_u64(&h, (uint64_t)Q | (uint64_t)HELD << 8 | (uint64_t)P << 16 | (uint64_t)ok << 24 | (uint64_t)(N > 255) << 40 | (uint64_t)(N > 127) << 41);
	vx_set_add(&distinct, vx_h_done(&h));
	return 0;
}

int main(int argc, char **argv)
{
	vx_init(argc, argv);
	vx_install_handlers();
	vx_set_init(&distinct, 10);
	char *rp = vx_read_replay();
	if (rp) {
		Q = atoi(vx_replay_field(rp, "Q")); HELD = atoi(vx_replay_field(rp, "held")); N = atoi(vx_replay_field(rp, "N")); P = atoi(vx_replay_field(rp, "P"));
		run_case();
		vx_finish();
		return 0;
	}
	static const int qs[] = { 1, 2, 4, 8 };
	int maxn = vx_thorough() ? 500 : 300, part = 0, stop = 0;
	for (unsigned qi = 0; qi < 4 && !stop; qi++)
		for (int held = qs[qi]; held >= 0 && held >= qs[qi] - 2 && !stop; held--, part++) {
			if (!vx_mine((uint64_t)part)) continue;
			Q = qs[qi]; HELD = held;
			for (N = 1; N <= maxn && !stop; N++)
				for (P = 0; P <= 6 && !stop; P++)
					if (run_case()) stop = 1;	/* smallest failing tuple first; one is enough */
		}
	vx_count("traces", n_cases); vx_count("deep_nesting_distinct_outcomes", distinct.n);
	vx_count("deep_nesting_cases", n_cases); vx_count("deep_nesting_claims", n_claims); vx_count("deep_nesting_claims_ok", n_ok); vx_count("deep_nesting_claims_null", n_null);
	vx_max("deep_nesting_max_claims_in_flight", (uint64_t)maxn);
	vx_and("exhaustive", 1);
	vx_finish();
	return 0;
}

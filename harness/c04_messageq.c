/*
 * C04 - message queue: many concurrent senders, one receiver, every interleaving.
 * Harness/oracle TU (not instrumented); scenario bodies and messageq.c are in
 * c04_scn.c (-fsanitize=thread), run under engine/vsched.c. With -DC07 the same
 * scenarios run with vector clocks in the state hash and races are violations.
 */
#include "vx.h"
#include "vsched.c"
#include "c04.h"

c04_cfg C4;
messageq_t c4_mq;
uint8_t c4_arena[64];

enum { FREE, CLAIMED, SENT, HELD };
#define SETUP_SENDER 7
static struct {
	uint8_t st[8]; int8_t owner[8]; uint8_t pay[8][C4_MSGLEN];
	uint8_t before[8];		/* slots whose claim had returned before this slot's claim was called: must be received first */
	uint8_t recv_next, rel_next;
	uint8_t in_claim[8]; int8_t min_avail[8]; uint8_t pred[8];
	uint8_t head_sent_at_recv_begin;
} G;
static uint64_t n_claim_ok, n_claim_null, n_recv_ok, n_recv_null, n_release;
static uint64_t n_recv_null_with_message_sent, n_recv_not_in_slot_order;

static int owned(void) { int n = 0; for (int i = 0; i < C4.Q; i++) n += G.st[i] != FREE; return n; }
static void update_avail(void)
{
	int inflight = 0; for (int s = 0; s < 8; s++) inflight += G.in_claim[s];
	for (int s = 0; s < 8; s++) if (G.in_claim[s]) {
		int a = C4.Q - owned() - (inflight - 1);
		if (a < G.min_avail[s]) G.min_avail[s] = (int8_t)a;
	}
}
static int slot_of(void *p)
{
	long off = (uint8_t *)p - C4_STORE;
	if (off < 0 || off >= C4.Q * C4_MSGLEN || off % C4_MSGLEN) return -1;
	return (int)(off / C4_MSGLEN);
}
void orc_claim_begin(int s)
{
	G.in_claim[s] = 1; G.min_avail[s] = 100; G.pred[s] = 0;
	for (int i = 0; i < C4.Q; i++) if (G.st[i] == CLAIMED || G.st[i] == SENT) G.pred[s] |= (uint8_t)(1 << i);
	update_avail();
}
void orc_claim_end(int s, void *p)
{
	update_avail();
	G.in_claim[s] = 0;
	if (!p) {
		n_claim_null++;
		vs_trace("sender %d: claim -> NULL", s);
		if (G.min_avail[s] > 0)
			vs_fail("claim-fails-with-free-buffer", "claim by sender %d failed although at every instant of the call at least %d buffer(s) were free even counting claims in progress", s, G.min_avail[s]);
		return;
	}
	n_claim_ok++;
	int k = slot_of(p);
	vs_trace("sender %d: claim -> slot %d", s, k);
	if (k < 0) vs_fail("claim-pointer", "claim returned a pointer that is not a message slot inside the caller's storage (offset %ld)", (long)((uint8_t *)p - C4_STORE));
	if (G.st[k] != FREE) vs_fail("double-hand-out", "claim by sender %d returned slot %d which is still %s (owner: sender %d)", s, k,
				      G.st[k] == CLAIMED ? "claimed and unsent" : G.st[k] == SENT ? "sent and not yet received" : "held by the receiver", G.owner[k]);
	G.st[k] = CLAIMED; G.owner[k] = (int8_t)s; G.before[k] = G.pred[s];
	update_avail();
}
void orc_send_begin(int s, void *p)
{
	int k = slot_of(p);
	if (k < 0 || G.st[k] != CLAIMED || G.owner[k] != s) { fprintf(stderr, "c04 harness: send of a buffer not claimed by this sender\n"); _exit(6); }
	memcpy(G.pay[k], p, C4_MSGLEN);
}
void orc_send_end(int s, void *p) { int k = slot_of(p); G.st[k] = SENT; vs_trace("sender %d: sent slot %d (payload %02x %02x)", s, k, G.pay[k][0], G.pay[k][1]); }
void orc_recv_begin(void) { G.head_sent_at_recv_begin = (G.st[G.recv_next] == SENT); }
void orc_recv_end(void *p)
{
	if (!p) {
		n_recv_null++;
		vs_trace("receiver: receive -> NULL");
		/* not judged: the statement promises that every sent message is received exactly once, not that a particular
		 * receive call finds it (a message that never arrives shows as lost-message / a receiver that waits for ever) */
		if (G.head_sent_at_recv_begin) n_recv_null_with_message_sent++;
		return;
	}
	n_recv_ok++;
	int k = slot_of(p);
	vs_trace("receiver: receive -> slot %d", k);
	if (k < 0) vs_fail("receive-pointer", "receive returned a pointer that is not a message slot");
	if (G.st[k] != SENT) vs_fail(G.st[k] == HELD ? "received-twice" : "received-unsent", "receive returned slot %d which is %s", k,
				      G.st[k] == FREE ? "free (never sent, or already released: a duplicate)" : G.st[k] == CLAIMED ? "claimed but not sent yet" : "already held by the receiver");
	/* order is judged by claims (below), not by slot numbers: which slot a claim is given is the implementation's business */
	if (k != G.recv_next) n_recv_not_in_slot_order++;
	uint8_t others = 0; for (int i = 0; i < C4.Q; i++) if (i != k && (G.st[i] == CLAIMED || G.st[i] == SENT)) others |= (uint8_t)(1 << i);
	if (G.before[k] & others) vs_fail("order", "slot %d was received before a message whose claim had completed before this one's claim was even called", k);
	if (memcmp(p, G.pay[k], C4_MSGLEN)) vs_fail("payload", "message in slot %d reads %02x %02x, sender %d wrote %02x %02x before sending it", k, ((uint8_t *)p)[0], ((uint8_t *)p)[1], G.owner[k], G.pay[k][0], G.pay[k][1]);
	G.st[k] = HELD; G.recv_next = (uint8_t)((G.recv_next + 1) % C4.Q);
	for (int i = 0; i < 8; i++) G.before[i] &= (uint8_t)~(1 << k);
	for (int i = 0; i < 8; i++) G.pred[i] &= (uint8_t)~(1 << k);	/* also for claims still in progress */
}
void orc_release_begin(void *p)
{
	int k = slot_of(p);
	if (k < 0 || G.st[k] != HELD || k != G.rel_next) { fprintf(stderr, "c04 harness: release out of order\n"); _exit(6); }
}
void orc_release_end(void *p)
{
	int k = slot_of(p);
	n_release++;
	G.st[k] = FREE; G.rel_next = (uint8_t)((G.rel_next + 1) % C4.Q);
	vs_trace("receiver: released slot %d", k);
	update_avail();
}

static void check_arena(void)
{
	for (int i = 0; i < 64; i++) {
		if (i >= 16 && i < 16 + C4.Q * C4_MSGLEN) continue;
		if (c4_arena[i] != (uint8_t)(0xC0 + i)) vs_fail("out-of-bounds", "byte at offset %d relative to the queue storage was modified", i - 16);
	}
}
static void seq_send(int tag)
{
	orc_claim_begin(SETUP_SENDER);
	uint8_t *m = messageq_claim(&c4_mq);
	orc_claim_end(SETUP_SENDER, m);
	if (!m) vs_fail("setup", "sequential claim refused while building the start state");
	m[0] = 0xEE; m[1] = (uint8_t)tag;
	orc_send_begin(SETUP_SENDER, m); messageq_send(&c4_mq, m); orc_send_end(SETUP_SENDER, m);
}
static int seq_receive(void)
{
	orc_recv_begin();
	uint8_t *m = messageq_receive(&c4_mq);
	orc_recv_end(m);
	if (!m) return 0;
	orc_release_begin(m); messageq_release(&c4_mq, m); orc_release_end(m);
	return 1;
}
static void scn_init(void)
{
	memset(&G, 0, sizeof(G));
	for (int i = 0; i < 64; i++) c4_arena[i] = (uint8_t)(0xC0 + i);
	memset(C4_STORE, 0, (size_t)(C4.Q * C4_MSGLEN));
	messageq_init(&c4_mq, C4_STORE, (size_t)(C4.Q * C4_MSGLEN), C4_MSGLEN);
	vs_region(&c4_mq, sizeof(c4_mq), VS_SHARED, "mq");
	vs_region(c4_arena, sizeof(c4_arena), VS_SHARED, "store-16");
	vs_region(&G, sizeof(G), VS_GHOST, "ghost");
	for (int i = 0; i < C4.adv; i++) { seq_send(i); if (!seq_receive()) vs_fail("setup", "sequential receive failed while building the start state"); }
	for (int i = 0; i < C4.prefill; i++) seq_send(0x40 + i);
}
static void scn_end(void)
{
	/* quiescence: every sent message still comes out, in order; then exactly Q claims succeed */
	for (int guard = 0; guard < 16; guard++) {
		int outstanding = 0; for (int i = 0; i < C4.Q; i++) outstanding += (G.st[i] == SENT);
		if (!outstanding) break;
		if (!seq_receive()) vs_fail("lost-message", "after quiescence a sent message (slot %d) is never received", G.recv_next);
	}
	if (owned()) { fprintf(stderr, "c04 harness: buffers still owned at quiescence\n"); _exit(6); }
	if (seq_receive()) vs_fail("extra-message", "after every sent message was received, receive still returns a message");
	int got = 0;
	for (int i = 0; i < C4.Q + 2; i++) {
		orc_claim_begin(SETUP_SENDER);
		void *p = messageq_claim(&c4_mq);
		if (!p) { G.in_claim[SETUP_SENDER] = 0; break; }
		orc_claim_end(SETUP_SENDER, p);
		got++;
	}
	if (got != C4.Q) vs_fail("free-count", "after quiescence with nothing held %d further claims succeed, the queue holds %d buffers", got, C4.Q);
	check_arena();
}

static vs_scenario S;
static char sname[128];
static void build(const c04_cfg *c)
{
	C4 = *c;
	memset(&S, 0, sizeof(S));
	snprintf(sname, sizeof(sname), "topo%d-S%d-Q%d-M%d-retry%d-R%d-adv%d-pre%d-nest%d-b%d", c->topo, c->S, c->Q, c->M, c->retry, c->R, c->adv, c->prefill, c->nest, c->bound);
	S.name = sname; S.init = scn_init; S.at_end = scn_end; S.horizon = 6000; S.max_nesting = c->nest;
	if (c->topo == 0 || c->topo == 3) {
		for (int s = 0; s < c->S; s++) { S.thread_fn[s] = c4_sender; S.thread_arg[s] = (void *)(intptr_t)s; }
		S.nthreads = c->S;
		if (c->topo == 0) S.thread_fn[S.nthreads++] = c4_receiver;
	} else if (c->topo == 1) {
		S.nthreads = 1; S.thread_fn[0] = c4_receiver; S.nhandlers = c->S * c->M;
		for (int k = 0; k < S.nhandlers; k++) { S.handler_fn[k] = c4_irq_sender; S.handler_arg[k] = (void *)(intptr_t)k; }
	} else {
		S.nthreads = 1; S.thread_fn[0] = c4_sender; S.thread_arg[0] = (void *)(intptr_t)0; S.nhandlers = (c->S - 1) * c->M;
		for (int k = 0; k < S.nhandlers; k++) { S.handler_fn[k] = c4_irq_sender; S.handler_arg[k] = (void *)(intptr_t)k; }
	}
}

static c04_cfg cfgs[4096]; static int ncfg;
static void add(c04_cfg c)
{
	if (c.prefill > c.Q) return;
	/* the start states reached through 254/255 earlier claims cost ~1000 API calls per execution: small scenarios only */
	if (c.adv >= 254 && !((c.topo == 0 && c.S <= 2 && c.M == 1) || (c.topo == 3 && c.S == 2 && c.M == 1) || (c.topo == 1 && c.S == 2) || (c.topo == 2 && c.S == 2 && c.M == 1))) return;
	cfgs[ncfg++] = c;
}
static void enumerate(void)
{
	int th = vx_thorough();
	for (int Q = 1; Q <= 3; Q++) {
		/* (adv, prefill): fresh; cursor at Q-1; full; one slot free; and 254/255 earlier claims, so that an 8-bit
		 * cursor or ticket wraps inside the explored window */
		int starts[6][2] = { {0, 0}, {Q - 1, 0}, {0, Q}, {1, Q - 1}, {254, 0}, {255, Q - 1} };
		for (int si = 0; si < 6; si++) {
			int adv = starts[si][0], pre = starts[si][1];
			if (si && Q == 1 && si != 2) continue;
			if (si >= 4 && Q != 3) continue;
			/* free-running threads, all interleavings */
			for (int M = 1; M <= 2; M++) {
				add((c04_cfg){ 1, Q, M, 1, 0, adv, pre, 0, 0, -1 });
				add((c04_cfg){ 1, Q, M, 0, M + pre, adv, pre, 0, 0, -1 });
				add((c04_cfg){ 2, Q, M, 0, 2 * M + pre, adv, pre, 0, 0, M == 2 ? (th ? 4 : 3) : -1 });
				/* quick tier: the longest executions (retrying senders on a pre-filled queue) are preemption-bounded */
				add((c04_cfg){ 2, Q, M, 1, 0, adv, pre, 0, 0, M == 2 ? (th ? 4 : 3) : (pre >= 2 && !th) ? 3 : -1 });
				add((c04_cfg){ 2, Q, M, 0, 0, adv, pre, 3, 0, -1 });			/* senders only */
			}
			add((c04_cfg){ 3, Q, 1, 0, 3 + pre, adv, pre, 0, 0, th ? 3 : 2 });
			add((c04_cfg){ 3, Q, 1, 1, 0, adv, pre, 0, 0, th ? 3 : 2 });
			add((c04_cfg){ 3, Q, 1, 0, 0, adv, pre, 3, 0, th ? 4 : 3 });
			/* receiver in the main context, senders as nested interrupt handlers */
			for (int H = 1; H <= (th ? 4 : 3); H++) for (int nest = 1; nest <= 3 && nest <= H; nest++)
				add((c04_cfg){ H, Q, 1, 0, H + pre, adv, pre, 1, nest, -1 });
			/* a sender in the main context interrupted by sender handlers; the queue is drained at quiescence */
			for (int H = 1; H <= 3; H++) for (int nest = 1; nest <= 2 && nest <= H; nest++)
				add((c04_cfg){ 1 + H, Q, 1, 0, 0, adv, pre, 2, nest, -1 });
			add((c04_cfg){ 3, Q, 2, 0, 0, adv, pre, 2, 2, -1 });
		}
	}
}

int main(int argc, char **argv)
{
	vx_init(argc, argv);
	vx_install_handlers();
	enumerate();
	vs_options O = { .bound = -1, .iterative = 1, .hash_vc = 0, .race_detect = 2, .spurious_cas = 0 };
#ifdef C07
	O.hash_vc = 1; O.race_detect = 1;
#endif
	if (vx_thorough()) O.spurious_cas = 1;
	char *rp = vx_read_replay();
	if (rp) {
		const char *sn = vx_replay_field(rp, "scenario");
		c04_cfg c;
		if (sn && sscanf(sn, "topo%d-S%d-Q%d-M%d-retry%d-R%d-adv%d-pre%d-nest%d-b%d", &c.topo, &c.S, &c.Q, &c.M, &c.retry, &c.R, &c.adv, &c.prefill, &c.nest, &c.bound) == 10) {
			build(&c);
			const char *fg = vx_replay_field(rp, "fine_grained");
			if (fg && fg[0] == '1') { O.fine_grained = 1; O.race_detect = 0; }
			const char *sp = vx_replay_field(rp, "spurious_cas");
			if (sp) O.spurious_cas = sp[0] == '1';
			const char *ch = strstr(rp, "choices=");
			vs_replay(&S, &O, ch ? ch + 8 : "");
		}
		vx_finish();
		return 0;
	}
	vs_stats st;
	for (int i = 0; i < ncfg; i++) {
		if (!vx_mine((uint64_t)i)) continue;
		if (vx_deadline_passed()) { vx_and("exhaustive", 0); vx_count("scenarios_skipped_deadline", 1); continue; }
		build(&cfgs[i]);
		O.bound = cfgs[i].bound;
		double t_scn = vx_now();
		vs_explore(&S, &O, &st);
		if (st.racy) {
			vs_options F = O; F.fine_grained = 1; F.race_detect = 0;
			vx_note("data race in scenario %s (%s): explored again at shared-access granularity", S.name, st.race_msg);
			vx_count("scenarios_rerun_fine_grained", 1);
			vs_explore(&S, &F, &st);
		}
		if (vx_now() - t_scn > 4.0) vx_note("slow scenario %s: %.1f s, %llu states", S.name, vx_now() - t_scn, (unsigned long long)st.states);
		vx_count("scenarios", 1);
		if (cfgs[i].bound < 0) vx_count("scenarios_all_interleavings", 1); else vx_count("scenarios_deviation_bounded", 1);
		vx_count("states", st.states); vx_count("transitions", st.steps + st.interrupts_injected); vx_count("traces", st.executions);
		vx_count("executions", st.executions); vx_count("executions_completed", st.completed); vx_count("executions_pruned_at_visited_state", st.pruned);
		vx_count("atomic_operations_executed", st.atomic_ops); vx_count("plain_accesses_checked", st.plain_accesses);
		vx_count("interrupts_injected", st.interrupts_injected); vx_count("preemptions", st.preemptions); vx_count("spin_blocks", st.spin_blocks);
		vx_max("max_choice_points_in_one_execution", st.max_depth);
		vx_and("exhaustive", cfgs[i].bound < 0 ? st.bound_completed == 1000000 : st.bound_completed == cfgs[i].bound);
		if (st.capped) vx_note("scenario %s not finished before the deadline (bound completed: %d)", S.name, st.bound_completed);
		if (i % 41 == 0) vx_sample("%s: %llu executions (%llu completed, %llu pruned at a visited state), %llu states, %llu atomic ops, %llu interrupts injected, %llu preemptions, bound completed %d",
			S.name, (unsigned long long)st.executions, (unsigned long long)st.completed, (unsigned long long)st.pruned, (unsigned long long)st.states,
			(unsigned long long)st.atomic_ops, (unsigned long long)st.interrupts_injected, (unsigned long long)st.preemptions, st.bound_completed);
		if (vx_too_many_violations()) break;
	}
	vx_count("claim_ok", n_claim_ok); vx_count("claim_null", n_claim_null); vx_count("receive_ok", n_recv_ok); vx_count("receive_null", n_recv_null); vx_count("release", n_release);
	vx_count("receive_null_although_a_message_was_sent(not judged)", n_recv_null_with_message_sent); vx_count("receive_not_in_slot_order(not judged)", n_recv_not_in_slot_order);
	const vs_optab_entry *tab; int nt = vs_optab(&tab);
	for (int i = 0; i < nt; i++) { char nm[80]; snprintf(nm, sizeof(nm), "atomic: %.60s", tab[i].what); vx_count(nm, tab[i].n); }
	vx_finish();
	return 0;
}

/* C04 scenario bodies + the real messageq.c, compiled with -fsanitize=thread and run under engine/vsched.c */
#include "messageq.c"
#include "vsched.h"
#include "c04.h"

static void send_one(int s, int j, int retry)
{
	uint8_t *m;
	for (;;) {
		orc_claim_begin(s);
		m = messageq_claim(&c4_mq);
		orc_claim_end(s, m);
		if (m || !retry) break;		/* a refused claim changes nothing: the retry loop is a visible spin */
	}
	if (!m) { vs_note((uint64_t)(j * 2)); return; }
	/* the claimed buffer is ours: plain stores, published by messageq_send */
	m[0] = (uint8_t)(s + 1); m[1] = (uint8_t)(j + 1);
	orc_send_begin(s, m);
	messageq_send(&c4_mq, m);
	orc_send_end(s, m);
	vs_note((uint64_t)(j * 2 + 1));
}
void c4_sender(void *arg)
{
	int s = (int)(intptr_t)arg;
	for (int j = 0; j < C4.M; j++) send_one(s, j, C4.retry);
	if (s == 0 && C4.topo == 2) vs_drain_handlers();
}
/* every handler invocation is a sender of its own with one message (sender 0 is the main context in topology 2) */
void c4_irq_sender(void *arg)
{
	int k = (int)(intptr_t)arg;
	int s = (C4.topo == 2 ? 1 : 0) + k;
	send_one(s, 0, 0);
}
void c4_receiver(void *arg)
{
	(void)arg;
	if (C4.retry) {
		for (int got = 0; got < C4.S * C4.M + C4.prefill; ) {
			orc_recv_begin();
			uint8_t *m = messageq_receive(&c4_mq);
			orc_recv_end(m);
			if (!m) continue;
			volatile uint8_t a = m[0], b = m[1]; (void)a; (void)b;	/* the oracle re-reads them; these are the receiver's plain loads */
			orc_release_begin(m);
			messageq_release(&c4_mq, m);
			orc_release_end(m);
			vs_note((uint64_t)(++got));
		}
	} else {
		for (int i = 0; i < C4.R; i++) {
			orc_recv_begin();
			uint8_t *m = messageq_receive(&c4_mq);
			orc_recv_end(m);
			if (m) {
				volatile uint8_t a = m[0], b = m[1]; (void)a; (void)b;
				orc_release_begin(m);
				messageq_release(&c4_mq, m);
				orc_release_end(m);
			}
			vs_note((uint64_t)(i * 2 + (m != 0)));
		}
	}
	if (C4.topo == 1) vs_drain_handlers();
}

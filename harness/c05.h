/* shared between the instrumented scenario TU (c05_scn.c) and the harness/oracle TU (c05_ringbuf.c) */
#ifndef C05_H_
#define C05_H_
#include <stdbool.h>
#include <stdint.h>
#include <librfn/ringbuf.h>

enum { P_RETRY, P_GIVEUP, P_PUTCHAR };
enum { C_UNTIL, C_FIXED };
typedef struct {
	int L, k, n;		/* buffer length, start index of both cursors, bytes the producer sends */
	int pmode, cmode, m;	/* m: get attempts of a C_FIXED consumer */
	int fill;		/* unread bytes already in the ring when the scenario starts (put sequentially after positioning the cursors) */
	int topo;		/* 0 two threads; 1 consumer main + producer interrupts; 2 producer main + consumer interrupts */
} c05_cfg;
extern c05_cfg C5;
extern ringbuf_t c5_rb;
#define C5_ARENA_MAX (16 + 65600 + 48)	/* room for rings longer than 65536 bytes (16-bit index widths) */
extern uint8_t c5_arena[C5_ARENA_MAX];
#define C5_STORE (c5_arena + 16)

uint8_t c5_value(int i);
void orc_put_begin(uint8_t v); void orc_put_end(int ok, uint8_t v);
void orc_get_begin(void); void orc_get_end(int r);
void orc_empty_begin(void); void orc_empty_end(bool e);

void c5_producer(void *arg); void c5_consumer(void *arg);
void c5_irq_put(void *arg); void c5_irq_get(void *arg);
#endif

/*
 * C05 - ring buffer: one producer, one consumer, every interleaving.
 * Harness/oracle TU (not instrumented). The scenario bodies and ringbuf.c are in
 * c05_scn.c, compiled with -fsanitize=thread and run under engine/vsched.c.
 * With -DC07 the same scenarios are explored with vector clocks in the state
 * hash and data races reported (property C07).
 */
#include "vx.h"
#include "vsched.c"
#include "c05.h"

c05_cfg C5;
ringbuf_t c5_rb;
uint8_t c5_arena[C5_ARENA_MAX];
static int arena_len(void) { return 16 + C5.L + 48; }

/* ghost state (hashed): the bytes successfully put and not yet got, and per-call entry snapshots */
static struct {
	uint8_t fifo[16]; uint8_t head, tail;	/* scenario bytes: tail - head of them are unread */
	uint32_t pre_left, pre_next;		/* bytes put by the set-up that are still unread, and the index of the oldest of them */
	int32_t put_entry_occ, get_entry_occ, empty_entry_occ;
	/* a call takes effect somewhere between its begin and its end; the other side may see the effect before the call has
	 * returned (wherever the code has a scheduling point after its publishing store) */
	uint8_t put_inprog, put_v, put_early;	/* a put is in progress / its byte / the consumer has already taken that byte */
	uint8_t get_inprog, get_owes;		/* a get is in progress / the producer has already reused the slot it is freeing */
} G;
static uint64_t n_put_ok, n_put_fail, n_get_ok, n_get_fail, n_empty_true, n_empty_false;

static const uint8_t valset[5] = { 0xff, 0x00, 0x80, 0x7f, 0x01 };
uint8_t c5_value(int i) { return valset[i % 5]; }
static int occ(void) { return (int)G.pre_left + (uint8_t)(G.tail - G.head); }
static uint8_t pre_value(uint32_t j) { return (uint8_t)(0x55 + j * 3); }

void orc_put_begin(uint8_t v) { G.put_entry_occ = occ(); G.put_inprog = 1; G.put_v = v; G.put_early = 0; }
void orc_put_end(int ok, uint8_t v)
{
	G.put_inprog = 0;
	if (ok) {
		n_put_ok++;
		vs_trace("put(0x%02x) succeeded", v);
		if (G.put_early) { G.put_early = 0; return; }	/* the consumer took this byte while the call was still returning */
		if (occ() >= C5.L - 1) {
			/* a get that is still in progress may already have freed its slot: then that get has to deliver a byte */
			if (G.get_inprog && !G.get_owes && occ() - 1 < C5.L - 1) G.get_owes = 1;
			else vs_fail("overfill", "put succeeded although %d unread bytes were in a ring of length %d: an unread byte is overwritten or the ring appears empty", occ(), C5.L);
		}
		G.fifo[G.tail++ & 15] = v;
	} else {
		n_put_fail++;
		vs_trace("put(0x%02x) failed", v);
		if (G.put_early) vs_fail("get-from-empty", "the consumer received 0x%02x, the byte of a put that then FAILED", v);
		/* only gets can run during a put (single producer): the occupancy was highest at entry */
		if (G.put_entry_occ < C5.L - 1) vs_fail("put-fails-when-not-full", "put failed although at most %d (< buf_len-1 = %d) unread bytes were in the buffer at any instant during the call", G.put_entry_occ, C5.L - 1);
	}
}
void orc_get_begin(void) { G.get_entry_occ = occ(); G.get_inprog = 1; G.get_owes = 0; }
void orc_get_end(int r)
{
	G.get_inprog = 0;
	if (r < 0) {
		n_get_fail++;
		vs_trace("get -> %d", r);
		if (r != -1) vs_fail("get-value", "get returned %d", r);
		if (G.get_owes) vs_fail("overfill", "a put succeeded into a full ring while this get was in progress, but the get then returned -1: no slot was freed");
		if (G.get_entry_occ > 0) vs_fail("get-fails-when-not-empty", "get returned -1 although the buffer held at least %d unread byte(s) during the whole call", G.get_entry_occ);
	} else {
		n_get_ok++;
		vs_trace("get -> 0x%02x", r);
		G.get_owes = 0;
		if (occ() == 0) {
			/* the byte of a put that has published it but not yet returned */
			if (G.put_inprog && !G.put_early) {
				if (r != G.put_v) vs_fail("get-value", "get returned %d (0x%x), the only byte it can have seen is 0x%02x of the put in progress", r, r, G.put_v);
				G.put_early = 1;
				return;
			}
			vs_fail("get-from-empty", "get returned 0x%x but every byte put so far was already delivered (duplicate or invented byte)", r);
		}
		uint8_t exp = G.pre_left ? pre_value(G.pre_next) : G.fifo[G.head & 15];
		if (r != exp) vs_fail("get-value", "get returned %d (0x%x), expected the next byte in put order 0x%02x as an unsigned value", r, r, exp);
		if (G.pre_left) { G.pre_left--; G.pre_next++; } else G.head++;
	}
}
void orc_empty_begin(void) { G.empty_entry_occ = occ(); }
void orc_empty_end(bool e)
{
	vs_trace("empty -> %d", e);
	if (e) { n_empty_true++; if (G.empty_entry_occ > 0) vs_fail("empty-when-not-empty", "ringbuf_empty returned true although the buffer held %d unread byte(s) during the whole call", G.empty_entry_occ); }
	else { n_empty_false++; if (occ() == 0 && !(G.put_inprog && !G.put_early)) vs_fail("not-empty-when-empty", "ringbuf_empty returned false although the buffer was empty during the whole call"); }
}

static void check_arena(void)
{
	for (int i = 0; i < arena_len(); i++) {
		if (i >= 16 && i < 16 + C5.L) continue;
		if (c5_arena[i] != (uint8_t)(0xC0 + i)) vs_fail("out-of-bounds", "byte at offset %d relative to the caller's %d-byte storage was modified", i - 16, C5.L);
	}
}
static void scn_init(void)
{
	memset(&G, 0, sizeof(G));
	for (int i = 0; i < arena_len(); i++) c5_arena[i] = (uint8_t)(0xC0 + i);
	/* the descriptor is built both ways the API offers: ringbuf_init over a descriptor full of rubbish, and (every other
	 * scenario) the static initialiser */
	if (C5.k & 1) { memset(&c5_rb, 0xa5, sizeof(c5_rb)); ringbuf_init(&c5_rb, C5_STORE, (size_t)C5.L); }
	else { ringbuf_t tmpl = RINGBUF_VAR_INIT(C5_STORE, (size_t)C5.L); memcpy(&c5_rb, &tmpl, sizeof(c5_rb)); }
	vs_region(&c5_rb, sizeof(c5_rb), VS_SHARED, "rb");
	vs_region(c5_arena, (size_t)arena_len(), VS_SHARED, "store-16");
	vs_region(&G, sizeof(G), VS_GHOST, "ghost");
	/* move both cursors to index k with real traffic */
	for (int i = 0; i < C5.k; i++) {
		if (!ringbuf_put(&c5_rb, (uint8_t)(0x30 + i))) vs_fail("setup", "sequential put refused on an empty ring (after %d put/get pairs)", i);
		int r = ringbuf_get(&c5_rb);
		if (r != (uint8_t)(0x30 + i)) vs_fail("setup", "sequential put/get pair %d returned %d, expected %d", i, r, (uint8_t)(0x30 + i));
	}
	/* ... and leave `fill` unread bytes in it */
	for (int j = 0; j < C5.fill; j++)
		if (!ringbuf_put(&c5_rb, pre_value((uint32_t)j))) vs_fail("setup", "sequential put number %d refused although only %d of the %d bytes a ring of length %d holds were unread", j, j, C5.L - 1, C5.L);
	G.pre_left = (uint32_t)C5.fill; G.pre_next = 0;
}
static void scn_end(void)
{
	/* quiescence: everything still in the ring comes out in order, then the ring is empty */
	while (occ()) {
		int r = ringbuf_get(&c5_rb);
		uint8_t exp = G.pre_left ? pre_value(G.pre_next) : G.fifo[G.head & 15];
		if (r != exp) vs_fail("lost-or-corrupt", "after quiescence get returned %d, expected the unread byte 0x%02x", r, exp);
		if (G.pre_left) { G.pre_left--; G.pre_next++; } else G.head++;
	}
	if (!ringbuf_empty(&c5_rb) || ringbuf_get(&c5_rb) != -1) vs_fail("extra-byte", "after every put byte was delivered the ring is still not empty");
	check_arena();
}

static vs_scenario S;
static char sname[96];
static void build(const c05_cfg *c)
{
	C5 = *c;
	memset(&S, 0, sizeof(S));
	snprintf(sname, sizeof(sname), "topo%d-L%d-k%d-n%d-p%d-c%d-m%d-f%d", c->topo, c->L, c->k, c->n, c->pmode, c->cmode, c->m, c->fill);
	S.name = sname; S.init = scn_init; S.at_end = scn_end; S.horizon = 4000; S.max_nesting = 1;
	if (c->topo == 0) {
		S.nthreads = 2; S.thread_fn[0] = c5_producer; S.thread_fn[1] = c5_consumer;
	} else if (c->topo == 1) {
		S.nthreads = 1; S.thread_fn[0] = c5_consumer; S.nhandlers = c->n;
		for (int i = 0; i < c->n; i++) { S.handler_fn[i] = c5_irq_put; S.handler_arg[i] = (void *)(intptr_t)i; }
		/* ringbuf_putchar from an interrupt handler is documented not to work: a full ring deadlocks */
		if (c->pmode == P_PUTCHAR) S.allow_deadlock = 1;
	} else {
		S.nthreads = 1; S.thread_fn[0] = c5_producer; S.nhandlers = c->m;
		for (int i = 0; i < c->m; i++) S.handler_fn[i] = c5_irq_get;
		/* a producer that waits (retry/putchar) for more gets than there are interrupts to come stops for ever */
		if (c->pmode != P_GIVEUP) S.allow_deadlock = 1;
	}
}

static c05_cfg cfgs[4096]; static int ncfg;
static void enumerate(void)
{
	int maxL = vx_thorough() ? 6 : 4, maxn = vx_thorough() ? 5 : 4;
	/* rings longer than 65536 bytes with the indices about to pass 65535 ("every buffer length": an index type narrower than
	 * the length would wrap here); the start index is reached by that many real put/get pairs */
	static const int bigL[] = { 65537, 65540, 65536 };
	for (unsigned b = 0; b < (vx_thorough() ? 3u : 2u); b++)
		for (int k = 65534; k <= 65536 && k < bigL[b]; k++) {
			int L = bigL[b];
			cfgs[ncfg++] = (c05_cfg){ L, k, 2, P_GIVEUP, C_FIXED, 2, 0, 0 };
			cfgs[ncfg++] = (c05_cfg){ L, k, 2, P_RETRY, C_UNTIL, 0, 0, 0 };
			/* nearly full and full: the put that must fail, and the one that must not */
			cfgs[ncfg++] = (c05_cfg){ L, k, 2, P_GIVEUP, C_FIXED, 2, L - 2, 0 };
			if (k == 65535) cfgs[ncfg++] = (c05_cfg){ L, k, 2, P_GIVEUP, C_FIXED, 2, L - 1, 0 };
			if (vx_thorough()) { cfgs[ncfg++] = (c05_cfg){ L, k, 3, P_GIVEUP, C_FIXED, 3, 0, 1 }; cfgs[ncfg++] = (c05_cfg){ L, k, 3, P_GIVEUP, C_FIXED, 3, 0, 2 }; }
		}
	for (int L = 2; L <= maxL; L++) for (int k = 0; k < L; k++) for (int n = 1; n <= maxn; n++) {
		/* two free-running threads */
		cfgs[ncfg++] = (c05_cfg){ L, k, n, P_RETRY, C_UNTIL, 0, 0, 0 };
		cfgs[ncfg++] = (c05_cfg){ L, k, n, P_PUTCHAR, C_UNTIL, 0, 0, 0 };
		cfgs[ncfg++] = (c05_cfg){ L, k, n, P_GIVEUP, C_FIXED, n, 0, 0 };
		if (n > 1) cfgs[ncfg++] = (c05_cfg){ L, k, n, P_GIVEUP, C_FIXED, n - 1, 0, 0 };
		/* consumer in the main context, producer in interrupt handlers */
		cfgs[ncfg++] = (c05_cfg){ L, k, n, P_GIVEUP, C_FIXED, n, 0, 1 };
		cfgs[ncfg++] = (c05_cfg){ L, k, n, P_GIVEUP, C_FIXED, n + 1, 0, 1 };
		if (n <= 3) cfgs[ncfg++] = (c05_cfg){ L, k, n, P_PUTCHAR, C_FIXED, n, 0, 1 };
		/* producer in the main context, consumer in interrupt handlers */
		cfgs[ncfg++] = (c05_cfg){ L, k, n, P_GIVEUP, C_FIXED, n, 0, 2 };
		cfgs[ncfg++] = (c05_cfg){ L, k, n, P_PUTCHAR, C_FIXED, n, 0, 2 };
		cfgs[ncfg++] = (c05_cfg){ L, k, n, P_RETRY, C_FIXED, n > 1 ? n - 1 : 1, 0, 2 };
	}
}

int main(int argc, char **argv)
{
	vx_init(argc, argv);
	vx_install_handlers();
	enumerate();
	/* C05: a data race is not itself a violation of C05 (it is one of C07); it only means that switching at
	 * atomic operations is too coarse, so a racy scenario is explored again with every shared access a scheduling point */
	vs_options O = { .bound = -1, .iterative = 0, .hash_vc = 0, .race_detect = 2, .spurious_cas = 0 };
#ifdef C07
	O.hash_vc = 1; O.race_detect = 1;
#endif
	char *rp = vx_read_replay();
	if (rp) {
		const char *sn = vx_replay_field(rp, "scenario");
		c05_cfg c;
		if (sn && sscanf(sn, "topo%d-L%d-k%d-n%d-p%d-c%d-m%d-f%d", &c.topo, &c.L, &c.k, &c.n, &c.pmode, &c.cmode, &c.m, &c.fill) == 8) {
			build(&c);
			const char *fg = vx_replay_field(rp, "fine_grained");
			if (fg && fg[0] == '1') { O.fine_grained = 1; O.race_detect = 0; }
			const char *ch = strstr(rp, "choices=");
			vs_replay(&S, &O, ch ? ch + 8 : "");
		}
		vx_finish();
		return 0;
	}
	vs_stats st; uint64_t done = 0;
	for (int i = 0; i < ncfg; i++) {
		if (!vx_mine((uint64_t)i)) continue;
		if (vx_deadline_passed()) { vx_and("exhaustive", 0); vx_count("scenarios_skipped_deadline", 1); continue; }
		build(&cfgs[i]);
		double t_scn = vx_now();
		vs_explore(&S, &O, &st);
		if (st.racy) {
			vs_options F = O; F.fine_grained = 1; F.race_detect = 0;
			vx_note("data race in scenario %s (%s): explored again at shared-access granularity", S.name, st.race_msg);
			vx_count("scenarios_rerun_fine_grained", 1);
			vs_explore(&S, &F, &st);
		}
		done++;
		if (vx_now() - t_scn > 4.0) vx_note("slow scenario %s: %.1f s, %llu states", S.name, vx_now() - t_scn, (unsigned long long)st.states);
		vx_count("scenarios", 1);
		vx_count("states", st.states); vx_count("transitions", st.steps + st.interrupts_injected); vx_count("traces", st.executions);
		vx_count("executions", st.executions); vx_count("executions_completed", st.completed); vx_count("executions_pruned_at_visited_state", st.pruned);
		vx_count("executions_ending_in_allowed_deadlock", st.deadlocks);
		vx_count("atomic_operations_executed", st.atomic_ops); vx_count("plain_accesses_checked", st.plain_accesses);
		vx_count("interrupts_injected", st.interrupts_injected); vx_count("preemptions", st.preemptions); vx_count("spin_blocks", st.spin_blocks);
		vx_max("max_choice_points_in_one_execution", st.max_depth);
		vx_and("exhaustive", st.bound_completed == 1000000);
		if (st.capped) vx_note("scenario %s not finished before the deadline", S.name);
		if (i % 37 == 0) vx_sample("%s: %llu executions (%llu completed, %llu pruned at a visited state), %llu states, %llu atomic ops, %llu interrupts injected, %llu preemptions",
			S.name, (unsigned long long)st.executions, (unsigned long long)st.completed, (unsigned long long)st.pruned, (unsigned long long)st.states,
			(unsigned long long)st.atomic_ops, (unsigned long long)st.interrupts_injected, (unsigned long long)st.preemptions);
		if (vx_too_many_violations()) break;
	}
	vx_count("put_ok", n_put_ok); vx_count("put_failed", n_put_fail); vx_count("get_ok", n_get_ok); vx_count("get_minus_one", n_get_fail);
	vx_count("empty_true", n_empty_true); vx_count("empty_false", n_empty_false);
	const vs_optab_entry *tab; int nt = vs_optab(&tab);
	for (int i = 0; i < nt; i++) { char nm[80]; snprintf(nm, sizeof(nm), "atomic: %.60s", tab[i].what); vx_count(nm, tab[i].n); }
	vx_finish();
	return 0;
}

/* C05 scenario bodies + the real ringbuf.c, compiled with -fsanitize=thread so
 * that every atomic and every plain access is seen by engine/vsched.c. */
#include "ringbuf.c"
#include "vsched.h"
#include "c05.h"

void c5_producer(void *arg)
{
	(void)arg;
	for (int i = 0; i < C5.n; i++) {
		uint8_t v = c5_value(i);
		if (C5.pmode == P_PUTCHAR) {
			orc_put_begin(v); ringbuf_putchar(&c5_rb, (char)v); orc_put_end(1, v);
			vs_note((uint64_t)i);
		} else if (C5.pmode == P_RETRY) {
			for (;;) {
				orc_put_begin(v); bool ok = ringbuf_put(&c5_rb, v); orc_put_end(ok, v);
				if (ok) break;		/* a failed attempt changes nothing: the retry is a visible spin */
			}
			vs_note((uint64_t)i);
		} else {
			orc_put_begin(v); bool ok = ringbuf_put(&c5_rb, v); orc_put_end(ok, v);
			vs_note((uint64_t)(i * 2 + ok));
		}
	}
	if (C5.topo == 2) vs_drain_handlers();
}

void c5_consumer(void *arg)
{
	(void)arg;
	if (C5.cmode == C_UNTIL) {
		for (int got = 0; got < C5.n; ) {
			orc_get_begin(); int r = ringbuf_get(&c5_rb); orc_get_end(r);
			if (r >= 0) vs_note((uint64_t)(++got));
		}
	} else {
		for (int i = 0; i < C5.m; i++) {
			orc_empty_begin(); bool e = ringbuf_empty(&c5_rb); orc_empty_end(e);
			vs_note((uint64_t)(i * 4 + e));
			orc_get_begin(); int r = ringbuf_get(&c5_rb); orc_get_end(r);
			vs_note((uint64_t)(i * 1024 + r + 1));
		}
	}
	if (C5.topo == 1) vs_drain_handlers();
}

/* interrupt handlers: one attempt each, run to completion */
void c5_irq_put(void *arg)
{
	int i = (int)(intptr_t)arg;
	uint8_t v = c5_value(i);
	if (C5.pmode == P_PUTCHAR) { orc_put_begin(v); ringbuf_putchar(&c5_rb, (char)v); orc_put_end(1, v); }
	else { orc_put_begin(v); bool ok = ringbuf_put(&c5_rb, v); orc_put_end(ok, v); }
}
void c5_irq_get(void *arg)
{
	(void)arg;
	orc_empty_begin(); bool e = ringbuf_empty(&c5_rb); orc_empty_end(e);
	orc_get_begin(); int r = ringbuf_get(&c5_rb); orc_get_end(r);
}

/*
 * C05, sequential family - the parts of the statement that need no interleaving: "every buffer length >= 2, every
 * starting position of the read/write indices including wrap-around, every byte value", the two ways of building a
 * descriptor, ringbuf_putchar as well as ringbuf_put, and "no access ever falls outside the caller's buf_len bytes"
 * for READS too. It is cheap, so it runs on every build variant (a wrap written for one optimisation level only shows
 * there) and once more under AddressSanitizer with the storage in an exactly-sized heap block.
 *
 * ringbuf.c is linked as an object of its own (lib=['ringbuf.c']); only <librfn/ringbuf.h> is included here.
 *
 * Family: buffer length L x start index k (reached by k real put/get pairs) x fill f (bytes left unread by the set-up)
 *         x how the descriptor was built (ringbuf_init over rubbish / RINGBUF_VAR_INIT) x which call stores (put /
 *         putchar / alternating); each case then fills the ring to the brim, drains it, and does it once more, every
 *         call compared with a plain array FIFO. Byte values run through 0..255 (x3 phases) across each case.
 */
#include "vx.h"
#include <librfn/ringbuf.h>

#ifdef C05_ASAN
const char *__asan_default_options(void) { return "halt_on_error=0:detect_leaks=0:print_summary=0:handle_segv=0:handle_sigbus=0:handle_sigfpe=0:handle_abort=0:detect_stack_use_after_return=0"; }
extern const char *__asan_get_report_description(void);
static volatile int asan_errors; static char asan_kind[64];
void __asan_on_error(void) { if (!asan_errors++) snprintf(asan_kind, sizeof(asan_kind), "%s", __asan_get_report_description()); }
#else
static volatile int asan_errors; static char asan_kind[4];
#endif

static ringbuf_t rb;
static uint8_t *store;			/* the caller's L bytes (exactly sized heap block under ASan, guard-paged otherwise) */
static uint8_t *fifo; static uint64_t fh, ft;	/* model: bytes fifo[fh..ft) are unread */
static int L, F, HOW, WHO; static long long K;
static uint64_t n_cases, n_calls, n_put_ok, n_put_full, n_get_ok, n_get_empty, n_putchar;
static uint32_t seen_val[8];
static unsigned valctr;

__attribute__((format(printf, 2, 3)))
static int fail(const char *clause, const char *fmt, ...)
{
	va_list ap; va_start(ap, fmt); char *m = vx_vfmt(fmt, ap); va_end(ap);
	char sig[160], rp[160];
	snprintf(sig, sizeof(sig), "sequential|%s|%s|%s", clause, HOW ? "RINGBUF_VAR_INIT" : "ringbuf_init", WHO == 0 ? "put" : WHO == 1 ? "putchar" : "put/putchar");
	snprintf(rp, sizeof(rp), "seq=1\nL=%d\nk=%lld\nf=%d\nhow=%d\nwho=%d\n", L, K, F, HOW, WHO);
	vx_violation(sig, rp, "%s: %s -- ring of length %d, %lld put/get pairs before the start, %d byte(s) unread at the start, descriptor built with %s", clause, m, L, K, F, HOW ? "RINGBUF_VAR_INIT" : "ringbuf_init");
	free(m);
	return 1;
}
static uint8_t next_val(void) { uint8_t v = (uint8_t)(valctr * 7 + valctr / 256); valctr++; seen_val[v >> 5] |= 1u << (v & 31); return v; }
/* one store through the chosen entry point; returns 1 stored, 0 refused; putchar never refuses (only called with room) */
static int do_put(uint8_t v, int i)
{
	int use_putchar = WHO == 1 || (WHO == 2 && (i & 1));
	n_calls++;
	if (use_putchar) {
		if ((int)(ft - fh) >= L - 1) return ringbuf_put(&rb, v);	/* putchar would wait for ever on a full ring */
		n_putchar++; ringbuf_putchar(&rb, (char)v); return 1;
	}
	return ringbuf_put(&rb, v);
}
static int expect_get(const char *when)
{
	int r = ringbuf_get(&rb); n_calls++;
	if (ft == fh) { if (r != -1) return fail("get-from-empty", "%s: get returned %d from an empty ring", when, r); n_get_empty++; return 0; }
	if (r != fifo[fh % 70000]) return fail("get-value", "%s: get returned %d (0x%x), the oldest unread byte is 0x%02x (an unsigned value 0..255)", when, r, r, fifo[fh % 70000]);
	fh++; n_get_ok++;
	return 0;
}
static int expect_empty(const char *when)
{
	bool e = ringbuf_empty(&rb); n_calls++;
	if (e != (ft == fh)) return fail("empty", "%s: ringbuf_empty returned %d with %llu unread byte(s)", when, e, (unsigned long long)(ft - fh));
	return 0;
}
static int fill_to_brim(const char *when)
{
	for (int i = 0; ; i++) {
		uint8_t v = next_val();
		int full = (int)(ft - fh) >= L - 1, ok = do_put(v, i);
		if (ok && full) return fail("overfill", "%s: a put succeeded with %d unread bytes in a ring of length %d", when, L - 1, L);
		if (!ok && !full) return fail("put-fails-when-not-full", "%s: a put failed with only %llu unread bytes in a ring of length %d", when, (unsigned long long)(ft - fh), L);
		if (!ok) { n_put_full++; break; }
		fifo[ft++ % 70000] = v; n_put_ok++;
		if (i < 3 && expect_empty(when)) return 1;
	}
	return 0;
}
static int drain(const char *when)
{
	while (ft != fh) if (expect_get(when)) return 1;
	return expect_get(when) || expect_empty(when);
}

static int run_case(void)
{
	n_cases++;
	vx_lib_reset();
	fh = ft = 0; asan_errors = 0;
#ifdef C05_ASAN
	free(store); store = malloc((size_t)L); if (!store) _exit(3);
#else
	static uint8_t *area; if (!area) area = vx_guard_alloc(70000, 1);
	store = area + 70000 - L;		/* the last byte lies against a PROT_NONE page */
#endif
	memset(store, 0x5a, (size_t)L);
	if (!(VX_TRY)) { VX_END; return fail("fault", "%s", vx_fault_msg); }
	if (HOW) { ringbuf_t t = RINGBUF_VAR_INIT(store, (size_t)L); memcpy(&rb, &t, sizeof(rb)); }
	else { memset(&rb, 0xa5, sizeof(rb)); ringbuf_init(&rb, store, (size_t)L); }
	int bad = 0;
	for (long long i = 0; i < K && !bad; i++) {	/* move both indices to k with real traffic */
		uint8_t v = next_val();
		if ((i & 0xfffff) == 0) vx_opseq++;		/* a long set-up is progress, not a hang */
		if (!do_put(v, (int)(i & 1))) bad = fail("put-fails-when-not-full", "set-up: put refused on an empty ring after %lld put/get pairs", i);
		else { fifo[ft++ % 70000] = v; bad = expect_get("set-up"); }
	}
	for (int i = 0; i < F && !bad; i++) {
		uint8_t v = next_val();
		if (!do_put(v, i)) bad = fail("put-fails-when-not-full", "set-up: put %d refused with %d of %d bytes unread", i, i, L - 1);
		else fifo[ft++ % 70000] = v;
	}
	bad = bad || expect_empty("after the set-up") || fill_to_brim("first fill") || drain("first drain") || fill_to_brim("second fill") || drain("second drain");
	VX_END;
	if (!bad && asan_errors) { char w[96]; snprintf(w, sizeof(w), "AddressSanitizer: %s", asan_kind); bad = fail("outside-the-buffer", "%s while the ring was used", w); }
	return bad;
}

int main(int argc, char **argv)
{
	vx_init(argc, argv);
	vx_install_handlers();
	vx_watchdog(4.0);
	fifo = malloc(70000);
	char *rp = vx_read_replay();
	if (rp) {
		L = atoi(vx_replay_field(rp, "L")); K = atoll(vx_replay_field(rp, "k")); F = atoi(vx_replay_field(rp, "f")); HOW = atoi(vx_replay_field(rp, "how")); WHO = atoi(vx_replay_field(rp, "who"));
		if (L < 2 || L > 66000 || K < 0 || F < 0 || F >= L) { fprintf(stderr, "c05_seq: malformed replay file\n"); return 3; }
		run_case();
		vx_finish();
		return 0;
	}
	static const int lens[] = { 2, 3, 4, 5, 6, 7, 8, 9, 15, 16, 17, 31, 32, 33, 127, 128, 129, 255, 256, 257, 65535, 65536, 65537 };
	uint64_t unit = 0; int stop = 0, complete = 1;
	for (unsigned li = 0; li < sizeof(lens) / sizeof(lens[0]) && !stop; li++) {
		L = lens[li];
		long long ks[80]; int nk = 0, fs[16], nf = 0;
		if (L <= 33) for (int k = 0; k < L; k++) ks[nk++] = k;
		else { const int c[] = { 0, 1, L / 2, L - 2, L - 1 }; for (int i = 0; i < 5; i++) ks[nk++] = c[i]; }
		/* the indices have made whole trips round the ring before: a free-running counter cut to 8 / 16 bits shows */
		if (L <= 9) { const int c[] = { 254, 255, 256, 257, 65534, 65535, 65536, 65537 }; for (int i = 0; i < 8; i++) ks[nk++] = c[i]; }
		/* thorough, primary build: 2^32 put/get pairs before the start (lengths that do not divide 2^32) */
#ifndef C05_ASAN
		int huge0 = nk;
		if (vx_thorough() && (L == 3 || L == 6) && !getenv("C05_NO_HUGE")) { ks[nk++] = 4294967294LL; ks[nk++] = 4294967295LL; }
#else
		int huge0 = nk;
#endif
		{ const int c[] = { 0, 1, 2, L / 2, L - 2, L - 1 }; for (int i = 0; i < 6; i++) { int dup = 0; if (c[i] < 0 || c[i] >= L) continue; for (int j = 0; j < nf; j++) if (fs[j] == c[i]) dup = 1; if (!dup) fs[nf++] = c[i]; } }
		for (int ki = 0; ki < nk && !stop; ki++, unit++) {
			if (!vx_mine(unit)) continue;
			for (int fi = 0; fi < nf && !stop; fi++)
				for (HOW = 0; HOW < 2 && !stop; HOW++)
					for (WHO = 0; WHO < 3 && !stop; WHO++) {
						if (ki >= huge0 && (fi || HOW || WHO)) continue;	/* one case per huge set-up */
						K = ks[ki]; F = fs[fi];
						if (run_case()) stop = 1;
						if (vx_deadline_passed()) { stop = 1; complete = 0; }
					}
		}
	}
	int nv = 0; for (int i = 0; i < 8; i++) nv += __builtin_popcount(seen_val[i]);
	vx_count("traces", n_cases); vx_count("sequential_cases", n_cases); vx_count("sequential_calls", n_calls);
	vx_count("sequential_put_ok", n_put_ok); vx_count("sequential_put_refused_when_full", n_put_full); vx_count("sequential_putchar", n_putchar);
	vx_count("sequential_get_ok", n_get_ok); vx_count("sequential_get_from_empty", n_get_empty);
	vx_max("sequential_distinct_byte_values_in_one_worker", (uint64_t)nv);
	vx_and("exhaustive", complete);
	if (n_cases) vx_sample("sequential family: %llu cases, %llu calls; e.g. L=%d k=%lld f=%d %s, stores through %s", (unsigned long long)n_cases, (unsigned long long)n_calls, L, K, F,
			       HOW ? "RINGBUF_VAR_INIT" : "ringbuf_init", WHO == 0 ? "put" : WHO == 1 ? "putchar" : "put and putchar alternately");
	vx_finish();
	return 0;
}

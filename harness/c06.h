/* shared between the instrumented scenario TU (c06_scn.c: fibre.c, list.c, messageq.c, util.c + fibres and
 * handlers) and the harness/oracle TU (c06_fibre.c) */
#ifndef C06_H_
#define C06_H_
#include <stdbool.h>
#include <stdint.h>

enum { F_H, F_Y, F_Z, NFIB };				/* event handler, yielder, sleeper */
enum { HK_RA_H, HK_RA_Y, HK_RA_Z, HK_EV1, HK_EV2, HK_KINDS };	/* interrupt-side actions */
enum { MA_NONE, MA_RUN_Y, MA_KILL_Z, MA_RA_H, MA_KILL_H, MA_RUN_Z, MA_KILL_Y, MA_KINDS };	/* main-context call before a pass */

typedef struct {
	int passes;			/* scripted passes before the settle phase */
	int start_mask;			/* bit f: fibre f is made runnable with fibre_run before pass 0 */
	int ny;				/* how often the yielder yields before it waits */
	int zdelta;			/* the sleeper sleeps until t0 + zdelta (0: it just waits) */
	int main_act[6];		/* MA_* executed before pass i */
	int nh; int hk[4];		/* interrupt-side actions, in firing order */
	int nest;			/* nesting limit (interrupt mode) */
	int threads;			/* 1: the interrupt-side actions are free-running threads instead */
	int bound;			/* deviation bound (-1: none) */
	int evq_depth;			/* depth of the handler fibre's event queue */
	int prefill_aq;			/* atomic run requests for the yielder issued (and not drained) before the scenario starts */
	int zkick;			/* the sleeper makes the yielder runnable (fibre_run) before it calls fibre_timeout */
	int evq_adv;			/* the event queue has been through this many real claim/send/receive/release cycles before the scenario starts */
	int fine;			/* interrupts are also placed before every plain access of the main context to shared memory */
} c06_cfg;
extern c06_cfg C6;
#define C6_T0 1000u

/* oracle entry points (c06_fibre.c) */
void orc_dispatch(int f, int entered_at_start);	/* first thing a fibre body does on every dispatch */
void orc_body_return(int f, int code);
void orc_event(int f, int slot, uint8_t a, uint8_t b);	/* handler fibre saw an event */
void orc_timeout_result(int f, uint32_t due, bool r);
void orc_pass_begin(int i, uint32_t t);
void orc_pass_end(int i, uint32_t t, uint32_t wake, int self);
void orc_main_call(int act, int begin, int result);
void orc_ra_begin(int f, int who);
void orc_ra(int f, bool ok, int who);				/* interrupt side: fibre_run_atomic returned */
void orc_ev_claim_begin(int who);
void orc_ev_claimed(uint8_t v, int slot, int who);		/* interrupt side: claim returned (slot < 0: refused) */
void orc_ev_send_begin(int slot);
void orc_ev_sent(int slot, bool ok);			/* interrupt side: fibre_eventq_send returned */
void orc_queue_problem(const char *what);
int orc_events_all_free(void);	/* no event sits in the event queue (sent or claimed) as far as the ghost knows */
void c6_check_quiescent_queues(int evq_too);
int c6_kernel_sched_field(size_t off);
int orc_undecided(void);		/* a request that may or may not still be queued (raced with a drain or a kill) */
int orc_more_settle(void);
int orc_events_all_free(void);	/* no event sits in the event queue (sent or claimed) as far as the ghost knows */				/* 1 while the ghost state says something is still runnable */
void orc_threads_done_wait_begin(void);

/* scenario side (c06_scn.c) */
void c6_reset(void);
void c6_register_regions(void);
void c6_main(void *arg);
void c6_irq(void *arg);
void c6_thread_irq(void *arg);
#endif

/*
 * C06 (-DPROP=6) and the schedule part of C03 (-DPROP=3): interrupt-context
 * wake-ups and fibre events against a ghost model, for every placement of the
 * interrupt-side calls. Harness/oracle TU (not instrumented); the real fibre.c,
 * list.c, messageq.c, util.c and the scenario live in c06_scn.c
 * (-fsanitize=thread), run under engine/vsched.c. With -DC07 the scenarios are
 * explored with vector clocks in the state hash and races are violations.
 */
#include "vx.h"
#include "vsched.c"
#include "c06.h"

#ifndef PROP
#define PROP 6
#endif
#define OWN6 1
#define OWN3 2
#define OWN1 4			/* clauses of C01/C02 (sequential exactness): only counted here */
#if PROP == 3
#define MY_OWN OWN3
#else
#define MY_OWN OWN6
#endif

c06_cfg C6;

#define R_RUN 1
#define R_YIELD 2
static struct {
	uint8_t reason[NFIB];
	uint8_t ra[NFIB];		/* accepted fibre_run_atomic requests not yet followed by the start of a dispatch */
	uint8_t may[NFIB];		/* permission without obligation (request raced with a fibre_kill) */
	uint8_t sticky[NFIB];		/* free threads: a request may sit behind an unfinished claim for any length of time, so
					 * once one was accepted a later dispatch can never be called spurious */
	uint8_t sleeping; uint32_t due;
	uint8_t in_pass; int8_t dispatched; uint32_t pass_t;
	uint8_t ev[4], evst[4], evmust[4]; uint8_t evnext;	/* per slot of the event queue: value, state, send returned true */
	int8_t call_f; uint8_t ra_at_call_begin[NFIB];
	uint8_t settle_over;
	/* C03: a request must be reflected in the returned time if it was accepted before the scheduler's last
	 * own write to its state in that pass (the final look at the atomic queue has to come after the scheduler
	 * has finished changing its queues); later ones may or may not be seen */
	uint16_t ra_seq, last_write_seq, pass_seq; uint16_t ra_first_seq[NFIB];
	uint8_t ra_inpass[NFIB];	/* requests accepted since the current pass began */
	uint8_t ev_killed[4];		/* the handler fibre was killed while the send of this slot was in progress */
	uint8_t racall_f[8], disp_during[8];	/* per interrupt-side actor: the fibre (+1) its fibre_run_atomic call in progress names / that fibre
					 * began a dispatch while the call was in progress (the request may already be consumed) */
	uint8_t ra_ev;			/* how many of the pending requests for H were posted by fibre_eventq_send rather than by a caller */
	uint16_t evseq, ev_cseq[4], ev_sseq[4], ev_begin[8];	/* when each slot was claimed / its send returned, on one counter */
} G;
static void on_plain_write(int ctx, const char *region, size_t off)
{
	/* only writes to what decides runnability count: a field a later version adds for book-keeping (and writes after its
	 * final check) says nothing about where that check is */
	if (ctx == 0 && G.in_pass && !strcmp(region, "kernel") && c6_kernel_sched_field(off)) G.last_write_seq = G.ra_seq;
}
static void clamp_ra_ev(void) { if (G.ra_ev > G.ra[F_H]) G.ra_ev = G.ra[F_H]; }
static uint64_t n_ra_ok, n_ra_refused, n_ev_ok, n_ev_refused_claim, n_ev_send_false, n_dispatch, n_events_seen, n_wake_checked, n_wake_lenient, foreign;
static const char *fname[] = { "H(event handler)", "Y(yielder)", "Z(sleeper)" };

__attribute__((format(printf, 3, 4)))
static void report(int owner, const char *clause, const char *fmt, ...)
{
	va_list ap; va_start(ap, fmt); char *m = vx_vfmt(fmt, ap); va_end(ap);
	if (owner & MY_OWN) vs_fail(clause, "%s", m);
	foreign++;
	vs_trace("(clause %s belongs to another property's check: %s)", clause, m);
	free(m);
}

static int timer_due(void) { return G.sleeping && (int32_t)(G.due - G.pass_t) <= 0; }
static void convert_pending_requests(void)
{
	/* every request accepted so far has been moved to the run queue by the drain that precedes this point */
	for (int f = 0; f < NFIB; f++) if (G.ra[f]) { G.ra[f] = 0; G.reason[f] |= R_RUN; }
}
void orc_dispatch(int f, int entered)
{
	(void)entered;
	n_dispatch++;
	vs_trace("dispatch of %s begins", fname[f]);
	if (!G.in_pass) report(OWN1, "dispatch-outside-pass", "body of %s runs outside fibre_scheduler_next", fname[f]);
	if (G.dispatched >= 0) report(OWN1, "multi-dispatch", "two fibre bodies (%s and %s) run in one scheduling pass", fname[G.dispatched], fname[f]);
	G.dispatched = (int8_t)f;
	for (int a = 0; a < 8; a++) if (G.racall_f[a] == f + 1) G.disp_during[a] = 1;
	/* A request for this very fibre that was accepted during this pass may have come before or after the drain that
	 * precedes the dispatch (wherever the code has a point at which an interrupt can land): it is either consumed by
	 * this dispatch or still queued - both are fine. Requests accepted before the pass began have been drained. */
	int amb = G.ra[f] && (C6.fine || G.ra_inpass[f]);
	if (!C6.threads && !C6.fine) convert_pending_requests();
	int has = (G.reason[f] & (R_RUN | R_YIELD)) || G.ra[f] || G.may[f] || G.sticky[f] || (f == F_Z && timer_due());
	/* C06's statement obliges a dispatch after an accepted request; it does not forbid an extra one (that is C01's clause,
	 * over sequential histories) */
	if (!has) report(OWN1, "spurious-dispatch", "%s is dispatched although nothing made it runnable since its last dispatch", fname[f]);
	G.reason[f] = 0; G.may[f] = 0;
	if (C6.threads && G.ra[f]) { G.ra[f] = 0; }
	if (amb) { G.ra[f] = 0; G.may[f] = 1; }	/* free threads: the request may or may not have been drained yet */
	if (f == F_Z) G.sleeping = 0;			/* made runnable: the pending timeout is cancelled */
}
void orc_body_return(int f, int code)
{
	vs_trace("%s returns %s", fname[f], code == 0 ? "yielded" : code == 1 ? "waiting" : code == 2 ? "exited" : "failed");
	if (code == 0) G.reason[f] |= R_YIELD;
}
void orc_timeout_result(int f, uint32_t due, bool r)
{
	bool exp = (int32_t)(due - G.pass_t) <= 0;
	if (r != exp) report(OWN1, "timeout-result", "fibre_timeout returned %d, expected %d", r, exp);
	if (!r && !(G.reason[f] & R_RUN)) { G.sleeping = 1; G.due = due; }
}
enum { EV_FREE, EV_CLAIMED, EV_SENDING, EV_SENT };
void orc_event(int f, int slot, uint8_t a, uint8_t b)
{
	(void)f;
	n_events_seen++;
	vs_trace("handler fibre receives event %02x %02x from slot %d", a, b, slot);
	if (slot < 0 || slot >= C6.evq_depth) report(OWN6, "event-pointer", "the handler fibre received a pointer outside the event queue");
	if (G.evst[slot] == EV_FREE) report(OWN6, "event-duplicate", "the handler fibre received slot %d (%02x %02x) which holds no undelivered event: a duplicate or an invented event", slot, a, b);
	if (G.evst[slot] == EV_CLAIMED) report(OWN6, "event-unsent", "the handler fibre received slot %d before its owner sent it", slot);
	/* order: judged where it is beyond doubt - another event whose send had RETURNED before this one was even claimed must
	 * have been received first (for sends that overlap, claim order and completion order differ and the statement's "send
	 * order" does not say which it means) */
	for (int u = 0; u < C6.evq_depth && u < 4; u++)
		if (u != slot && G.evst[u] == EV_SENT && G.evst[slot] == EV_SENT && (int16_t)(G.ev_sseq[u] - G.ev_cseq[slot]) < 0)
			report(OWN6, "event-order", "the handler fibre received slot %d before slot %d, whose send had returned before slot %d was even claimed", slot, u, slot);
	uint8_t v = G.ev[slot];
	if (a != v || b != (uint8_t)~v) report(OWN6, "event-content", "the handler fibre received %02x %02x in slot %d, the sender wrote %02x %02x", a, b, slot, v, (uint8_t)~v);
	G.evst[slot] = EV_FREE; G.evmust[slot] = 0; G.evnext = (uint8_t)((G.evnext + 1) % C6.evq_depth);
}
void orc_pass_begin(int i, uint32_t t) { (void)i; G.in_pass = 1; G.dispatched = -1; G.pass_t = t; G.last_write_seq = G.ra_seq; G.pass_seq = G.ra_seq; memset(G.ra_inpass, 0, sizeof(G.ra_inpass)); vs_trace("pass %d: fibre_scheduler_next(%u)", i, t); }
void orc_pass_end(int i, uint32_t t, uint32_t wake, int self)
{
	(void)i;
	G.in_pass = 0;
	vs_trace("pass returns %u (t%+d), fibre_self=%d", wake, (int32_t)(wake - t), self);
	if (self != G.dispatched) report(OWN1, "self", "fibre_self() names %d after a pass that dispatched %d", self, G.dispatched);
	/* C03: the wake-up time */
	int runnable = 0, lenient = 0;
	for (int f = 0; f < NFIB; f++) {
		if (G.reason[f] & (R_RUN | R_YIELD)) runnable = 1;
		if (G.ra[f]) { if ((int16_t)(G.ra_first_seq[f] - G.last_write_seq) <= 0) runnable = 1; else lenient = 1; }
		if (G.may[f]) lenient = 1;
	}
	if (timer_due()) runnable = 1;	/* the sleeper's timeout expired in this pass: it sits in the run queue */
	uint32_t exp = runnable ? t : G.sleeping ? G.due : t + 0x7fffffffu;
	if (C6.threads) return;
	n_wake_checked++;
	if (wake != exp) {
		if ((lenient || C6.threads) && wake == t) { n_wake_lenient++; return; }
		report(OWN3, "wakeup", "fibre_scheduler_next(%u) returned t%+d but %s, so the main loop %s", t, (int32_t)(wake - t),
		       runnable ? "a fibre is runnable on return (run request / accepted interrupt-context request / yield)" :
		       G.sleeping ? "the earliest pending due time is elsewhere" : "nothing is pending",
		       (int32_t)(wake - exp) > 0 ? "would oversleep" : "is told a wrong time");
	}
}
void orc_main_call(int act, int begin, int result)
{
	int f = act == MA_RUN_Y || act == MA_KILL_Y ? F_Y : act == MA_RUN_Z || act == MA_KILL_Z ? F_Z : F_H;
	if (begin) { memcpy(G.ra_at_call_begin, G.ra, sizeof(G.ra)); vs_trace("main context: %s(%s)", act == MA_RA_H ? "fibre_run_atomic" : (act == MA_KILL_H || act == MA_KILL_Y || act == MA_KILL_Z) ? "fibre_kill" : "fibre_run", fname[f]); return; }
	switch (act) {
	case -1: case MA_RUN_Y: case MA_RUN_Z:
		/* fibre_run drains first: requests accepted before the call began are in the run queue now */
		if (!C6.threads) for (int g = 0; g < NFIB; g++) if (G.ra_at_call_begin[g] && G.ra[g]) { uint8_t d = G.ra_at_call_begin[g] < G.ra[g] ? G.ra_at_call_begin[g] : G.ra[g]; G.ra[g] -= d; G.reason[g] |= R_RUN; }
		G.reason[f] |= R_RUN; if (f == F_Z) G.sleeping = 0;
		break;
	case MA_KILL_H: case MA_KILL_Y: case MA_KILL_Z:
		if (!C6.threads) for (int g = 0; g < NFIB; g++) if (G.ra_at_call_begin[g] && G.ra[g]) { uint8_t d = G.ra_at_call_begin[g] < G.ra[g] ? G.ra_at_call_begin[g] : G.ra[g]; G.ra[g] -= d; G.reason[g] |= R_RUN; }
		/* a fibre_run_atomic(f) call that is still in progress may already have posted its request: the kill may withdraw it */
		for (int a = 0; a < 8; a++) if (G.racall_f[a] == f + 1) G.disp_during[a] = 1;
		/* withdrawn: what was pending when the call was made; a request that raced with the call may or may not survive */
		G.reason[f] &= (uint8_t)~R_RUN;
		if (G.ra[f]) { G.may[f] = 1; G.ra[f] = 0; }
		/* free threads: a request accepted earlier may still sit behind an unfinished claim and survive the kill */
		if (C6.threads && G.ra_at_call_begin[f]) G.may[f] = 1;
		if (f == F_Z) G.sleeping = 0;
		/* killing the handler fibre withdraws the wake-ups of the events sent so far: they stay queued (still
		 * checked for order and content if the fibre runs again) but nothing obliges a dispatch any more */
		if (f == F_H) for (int i = 0; i < 4; i++) { G.evmust[i] = 0; if (G.evst[i] == EV_SENDING) G.ev_killed[i] = 1; }
		(void)result;
		break;
	case MA_RA_H:
		clamp_ra_ev();
		if (result) { G.ra_seq++; if (!G.ra[F_H]) G.ra_first_seq[F_H] = G.ra_seq; G.ra[F_H]++; n_ra_ok++; } else n_ra_refused++;
		break;
	}
}
void orc_ra_begin(int f, int who) { G.racall_f[who & 7] = (uint8_t)(f + 1); G.disp_during[who & 7] = 0; }
void orc_ra(int f, bool ok, int who)
{
	clamp_ra_ev();
	vs_trace("interrupt side: fibre_run_atomic(%s) -> %d", fname[f], ok);
	int during = G.disp_during[who & 7];
	G.racall_f[who & 7] = 0; G.disp_during[who & 7] = 0;
	/* the fibre began a dispatch between the call and its return (free threads, or any code with a scheduling point after
	 * the request is posted): that dispatch may be the one the request caused - permission, no further obligation */
	if (ok && during) { n_ra_ok++; G.may[f] = 1; return; }
	if (ok) { n_ra_ok++; G.ra_seq++; if (!G.ra[f]) G.ra_first_seq[f] = G.ra_seq; if (G.ra[f] < 200) G.ra[f]++; if (G.in_pass) G.ra_inpass[f] = 1; if (C6.threads) G.sticky[f] = 1; } else n_ra_refused++;
}
void orc_ev_claim_begin(int who) { G.ev_begin[who & 7] = ++G.evseq; }	/* stamped BEFORE the call: the claim happened no earlier */
void orc_ev_claimed(uint8_t v, int slot, int who)
{
	vs_trace("interrupt side: event %02x: claim -> slot %d", v, slot);
	if (slot < 0) { n_ev_refused_claim++; return; }
	if (slot >= C6.evq_depth || G.evst[slot] != EV_FREE) report(OWN6, "event-claim", "fibre_eventq_claim handed out slot %d which still holds an undelivered event", slot);
	G.ev[slot] = v; G.evst[slot] = EV_CLAIMED; G.evmust[slot] = 0; G.ev_cseq[slot] = G.ev_begin[who & 7];
}
void orc_ev_send_begin(int slot) { G.evst[slot] = EV_SENDING; }
void orc_ev_sent(int slot, bool ok)
{
	vs_trace("interrupt side: fibre_eventq_send(slot %d) -> %d", slot, ok);
	clamp_ra_ev();
	/* the handler fibre may already have consumed it (free threads) */
	if (G.evst[slot] == EV_SENDING) { G.evst[slot] = EV_SENT; G.evmust[slot] = ok && !G.ev_killed[slot]; G.ev_sseq[slot] = ++G.evseq; }
	G.ev_killed[slot] = 0;
	/* the wake-up a successful send posts is tracked like a request (C03 needs it for the returned time), but what the
	 * statement obliges is the delivery of the EVENT (evmust), not one dispatch per send: see scn_end */
	if (ok) { n_ev_ok++; G.ra_seq++; if (!G.ra[F_H]) G.ra_first_seq[F_H] = G.ra_seq; if (G.ra[F_H] < 200) { G.ra[F_H]++; G.ra_ev++; } if (G.in_pass) G.ra_inpass[F_H] = 1; if (C6.threads) G.sticky[F_H] = 1; } else n_ev_send_false++;
}
void orc_queue_problem(const char *what) { report(OWN6, "queue-corrupted", "%s", what); }
void orc_threads_done_wait_begin(void) { vs_trace("main loop waits for the interrupt-side threads"); }
int orc_undecided(void) { for (int f = 0; f < NFIB; f++) if (G.may[f] || G.sticky[f]) return 1; return 0; }
int orc_events_all_free(void) { for (int i = 0; i < 4; i++) if (G.evst[i] != EV_FREE) return 0; return 1; }
int orc_more_settle(void)
{
	clamp_ra_ev();
	for (int f = 0; f < NFIB; f++) if ((G.reason[f] & (R_RUN | R_YIELD)) || G.ra[f]) return 1;
	for (int i = 0; i < 4; i++) if (G.evst[i] == EV_SENT && G.evmust[i]) return 1;
	if (G.sleeping && (int32_t)(G.due - (G.pass_t + 1)) <= 0) return 1;
	return 0;
}

static void scn_init(void)
{
	memset(&G, 0, sizeof(G)); G.dispatched = -1;
	/* every static of the scenario unit - fibre.c's own and whatever a later version adds - starts each execution from the
	 * image the program started with (the unit is built with objs_lib: its writable sections are the vx_lib image) */
	vx_lib_reset();
	c6_reset();
	c6_register_regions();
	/* ... and is shared memory for the race detector and the state hash; the regions registered above by name come first in
	 * the lookup, this one catches what is not named */
	if (vx_lib_dsz()) vs_region(__start_vxlibdata, vx_lib_dsz(), VS_SHARED, "unit-statics(data)");
	if (vx_lib_bsz()) vs_region(__start_vxlibbss, vx_lib_bsz(), VS_SHARED, "unit-statics");
	vs_region(&G, sizeof(G), VS_GHOST, "ghost");
	for (int i = 0; i < C6.prefill_aq % 10; i++) G.ra[i == 0 && C6.prefill_aq >= 10 ? F_Z : F_Y]++;
	G.evnext = (uint8_t)(C6.evq_adv % C6.evq_depth);
	vs_plain_write_hook = on_plain_write;
}
static void scn_end(void)
{
	clamp_ra_ev();
	for (int f = 0; f < NFIB; f++) {
		if (G.ra[f] && !(f == F_H && G.ra_ev == G.ra[F_H])) report(OWN6, "lost-wakeup", "fibre_run_atomic(%s) returned true but %s was never dispatched afterwards although the main loop kept scheduling with no further stimulus", fname[f], fname[f]);
		if (G.reason[f] & (R_RUN | R_YIELD)) report(OWN6 | OWN1, "lost-run", "%s was made runnable but is never dispatched", fname[f]);
	}
	for (int i = 0; i < 4; i++) if (G.evst[i] == EV_SENT && G.evmust[i])
		report(OWN6, "event-lost", "event %02x (slot %d) was passed with a fibre_eventq_send that returned true but the handler fibre never received it", G.ev[i], i);
}

static vs_scenario S;
static char sname[200];
static void build(const c06_cfg *c)
{
	C6 = *c;
	memset(&S, 0, sizeof(S));
	int n = snprintf(sname, sizeof(sname), "p%d-s%d-y%d-z%d-m", c->passes, c->start_mask, c->ny, c->zdelta);
	for (int i = 0; i < c->passes; i++) n += snprintf(sname + n, sizeof(sname) - (size_t)n, "%d", c->main_act[i]);
	n += snprintf(sname + n, sizeof(sname) - (size_t)n, "-h");
	for (int i = 0; i < c->nh; i++) n += snprintf(sname + n, sizeof(sname) - (size_t)n, "%d", c->hk[i]);
	n += snprintf(sname + n, sizeof(sname) - (size_t)n, "-n%d-t%d-b%d-q%d-a%d-f%d-k%d", c->nest, c->threads, c->bound, c->evq_depth, c->prefill_aq, c->fine, c->zkick);
	if (c->evq_adv) snprintf(sname + n, sizeof(sname) - (size_t)n, "-e%d", c->evq_adv);
	S.name = sname; S.init = scn_init; S.at_end = scn_end; S.horizon = 20000; S.max_nesting = c->nest;
	S.nthreads = 1; S.thread_fn[0] = c6_main;
	if (c->threads) { for (int i = 0; i < c->nh; i++) { S.thread_fn[S.nthreads] = c6_thread_irq; S.thread_arg[S.nthreads++] = (void *)(intptr_t)i; } }
	else { S.nhandlers = c->nh; for (int i = 0; i < c->nh; i++) { S.handler_fn[i] = c6_irq; S.handler_arg[i] = (void *)(intptr_t)i; } }
}
static int parse(const char *sn, c06_cfg *c)
{
	char m[16], h[16];
	memset(c, 0, sizeof(*c));
	if (sscanf(sn, "p%d-s%d-y%d-z%d-m%15[0-9]-h%15[0-9]-n%d-t%d-b%d-q%d-a%d-f%d-k%d", &c->passes, &c->start_mask, &c->ny, &c->zdelta, m, h, &c->nest, &c->threads, &c->bound, &c->evq_depth, &c->prefill_aq, &c->fine, &c->zkick) != 13) {
		/* no handlers: the %[ conversion for h fails */
		if (sscanf(sn, "p%d-s%d-y%d-z%d-m%15[0-9]-h-n%d-t%d-b%d-q%d-a%d-f%d-k%d", &c->passes, &c->start_mask, &c->ny, &c->zdelta, m, &c->nest, &c->threads, &c->bound, &c->evq_depth, &c->prefill_aq, &c->fine, &c->zkick) != 12) return 0;
		h[0] = 0;
	}
	{ const char *e = strstr(sn, "-e"); if (e) c->evq_adv = atoi(e + 2); }
	for (int i = 0; m[i]; i++) c->main_act[i] = m[i] - '0';
	c->nh = (int)strlen(h); for (int i = 0; h[i]; i++) c->hk[i] = h[i] - '0';
	return 1;
}

static c06_cfg cfgs[20000]; static int ncfg;
static void enumerate(void)
{
	int th = vx_thorough();
	/* base situations: (passes, start mask, yields, sleeper delta, main-context calls) */
	static const struct { int passes, start, ny, zd, ma[6]; } base[] = {
		{ 3, 7, 1, 2, { 0, 0, 0 } },			/* everything started; sleeper wakes at pass 2 */
		{ 3, 2, 2, 0, { 0, 0, 0 } },			/* a lone yielder: the single-yielder fast path */
		{ 3, 0, 0, 0, { 0, 0, 0 } },			/* idle scheduler: every pass takes the empty path */
		{ 3, 6, 1, 3, { 0, MA_KILL_Z, 0 } },		/* sleeper killed from the main context */
		{ 3, 5, 0, 1, { MA_RUN_Y, 0, MA_KILL_H } },	/* handler fibre killed, yielder started late */
		{ 4, 4, 0, 2, { MA_RA_H, 0, MA_RUN_Z, 0 } },	/* main-context run_atomic, sleeper woken early by fibre_run */
		{ 3, 3, 1, 0, { 0, MA_KILL_Y, MA_RUN_Y } },
	};
	int nbase = (int)(sizeof(base) / sizeof(base[0]));
	for (int b = 0; b < nbase; b++) {
		c06_cfg c; memset(&c, 0, sizeof(c));
		c.passes = base[b].passes; c.start_mask = base[b].start; c.ny = base[b].ny; c.zdelta = base[b].zd;
		memcpy(c.main_act, base[b].ma, sizeof(c.main_act)); c.evq_depth = 2; c.bound = -1;
		/* interrupt mode: every sequence of K interrupt-side actions, every placement, nesting up to 2 */
		int K = th ? 3 : 2;
		for (int k = 1; k <= K; k++) {
			int total = 1; for (int i = 0; i < k; i++) total *= HK_KINDS;
			for (int code = 0; code < total; code++) {
				int x = code, ok = 1; c.nh = k;
				for (int i = 0; i < k; i++) { c.hk[i] = x % HK_KINDS; x /= HK_KINDS; }
				if (k == 3 && !(b == 0 || b == 1 || b == 3)) ok = 0;	/* three interrupts: the three richest situations */
				if (!ok) continue;
				for (int nest = 1; nest <= (k > 1 ? 2 : 1); nest++) {
					c.nest = nest; c.threads = 0; c.bound = (k == 3) ? 3 : -1; c.evq_depth = 2; c.prefill_aq = 0;
					cfgs[ncfg++] = c;
				}
				/* free-running threads instead of interrupts, preemption-bounded */
				/* (not for C03: its quantifier speaks of interrupt handlers; with free threads a request can be
				 * complete yet invisible behind an unfinished earlier claim) */
				if (PROP != 3 && k <= 2 && (b == 0 || b == 1 || b == 3 || b == 5)) {
					c.nest = 0; c.threads = 1; c.bound = th ? 3 : 2; cfgs[ncfg++] = c;
				}
			}
		}
		/* interrupts placed before every shared-memory access of the main context, not only before its atomic
		 * operations: a request that arrives after the scheduler's last look at the atomic queue but before it has
		 * finished changing its own state must still be reflected in the returned time (C03), and must not be lost (C06) */
		for (int k1 = 0; k1 < HK_KINDS; k1++) {
			c.nh = 1; c.hk[0] = k1; c.nest = 1; c.threads = 0; c.bound = -1; c.evq_depth = 2; c.prefill_aq = 0; c.fine = 1;
			cfgs[ncfg++] = c;
			if (th) for (int k2 = 0; k2 < HK_KINDS; k2++) { c.nh = 2; c.hk[1] = k2; c.bound = 2; cfgs[ncfg++] = c; }
		}
		c.fine = 0;
		/* the sleeper kicks the yielder before it sleeps: a request for the sleeper itself that arrives during its own dispatch
		 * is drained by that call, so the fibre is back on the run queue when it asks for its timeout */
		if (b == 0 || b == 3)
			for (int k1 = 0; k1 < HK_KINDS; k1++) for (int k2 = -1; k2 < HK_KINDS; k2++) {
				c.nh = k2 < 0 ? 1 : 2; c.hk[0] = k1; c.hk[1] = k2 < 0 ? 0 : k2; c.nest = 2; c.threads = 0; c.bound = -1; c.evq_depth = 2; c.prefill_aq = 0; c.fine = 0; c.zkick = 1;
				cfgs[ncfg++] = c;
			}
		c.zkick = 0;
		/* event queue of depth 1 (claims get refused) and a nearly full atomic run queue (requests get refused) */
		c.nh = 2; c.nest = 2; c.threads = 0; c.bound = -1;
		c.hk[0] = HK_EV1; c.hk[1] = HK_EV2; c.evq_depth = 1; c.prefill_aq = 0; cfgs[ncfg++] = c;
		c.hk[0] = HK_RA_H; c.hk[1] = HK_EV1; c.evq_depth = 2; c.prefill_aq = 7; cfgs[ncfg++] = c;
		c.hk[0] = HK_RA_Z; c.hk[1] = HK_RA_Y; c.evq_depth = 2; c.prefill_aq = 6; cfgs[ncfg++] = c;
		/* a refusal aimed at a fibre that has nothing else pending: whoever is told "true" must be served */
		c.hk[0] = HK_RA_Y; c.hk[1] = HK_EV1; c.prefill_aq = 7; cfgs[ncfg++] = c;
		c.hk[0] = HK_RA_Y; c.hk[1] = HK_RA_Z; c.prefill_aq = 7; cfgs[ncfg++] = c;
		/* the oldest queued request is the only one its fibre has, the queue is full when the drain reaches it */
		c.hk[0] = HK_RA_H; c.hk[1] = HK_RA_H; c.prefill_aq = 17; cfgs[ncfg++] = c;
		c.hk[0] = HK_RA_H; c.hk[1] = HK_EV1; c.prefill_aq = 17; cfgs[ncfg++] = c;
		c.hk[0] = HK_RA_Y; c.hk[1] = HK_RA_H; c.prefill_aq = 17; cfgs[ncfg++] = c;
		/* two free-running interrupt-side threads that are both refused (full atomic run queue / event queue of depth 1) */
		{ c06_cfg t = c; t.nest = 0; t.threads = 1; t.bound = 2; t.nh = 2;
		  t.hk[0] = HK_RA_Z; t.hk[1] = HK_RA_Y; t.prefill_aq = 8; t.evq_depth = 2; cfgs[ncfg++] = t;
		  t.hk[0] = HK_EV1; t.hk[1] = HK_EV2; t.prefill_aq = 8; cfgs[ncfg++] = t;
		  t.hk[0] = HK_EV1; t.hk[1] = HK_EV2; t.prefill_aq = 0; t.evq_depth = 1; cfgs[ncfg++] = t; }
		/* an event queue three deep (a depth that does not divide 256) whose cursors have been round 254 / 255 / 256 times
		 * before two events arrive: a cursor kept as a free-running 8-bit count shows here (seeded/C06-r5) */
		for (int adv = 254; adv <= 256; adv++) {
			c06_cfg t = c; t.nh = 2; t.nest = 2; t.threads = 0; t.bound = -1; t.prefill_aq = 0; t.evq_depth = 3; t.evq_adv = adv;
			t.hk[0] = HK_EV1; t.hk[1] = HK_EV2; cfgs[ncfg++] = t;
		}
		c.nh = 1; c.nest = 1;
		c.hk[0] = HK_EV1; c.prefill_aq = 8; cfgs[ncfg++] = c;
		c.hk[0] = HK_RA_Z; c.prefill_aq = 8; cfgs[ncfg++] = c;
		c.hk[0] = HK_RA_H; c.prefill_aq = 8; cfgs[ncfg++] = c;
	}
}

int main(int argc, char **argv)
{
	vx_init(argc, argv);
	vx_install_handlers();
	enumerate();
	vs_options O = { .bound = -1, .iterative = 1, .hash_vc = 0, .race_detect = 2, .spurious_cas = 0 };
#ifdef C07
	O.hash_vc = 1; O.race_detect = 1;
#endif
	char *rp = vx_read_replay();
	if (rp) {
		const char *sn = vx_replay_field(rp, "scenario");
		c06_cfg c;
		if (sn && parse(sn, &c)) {
			build(&c);
			O.bound = c.bound;
			if (c.fine) { O.fine_grained = 1; O.race_detect = 0; }
			const char *fg = vx_replay_field(rp, "fine_grained");
			if (fg && fg[0] == '1') { O.fine_grained = 1; O.race_detect = 0; }
			const char *ch = strstr(rp, "choices=");
			vs_replay(&S, &O, ch ? ch + 8 : "");
		} else fprintf(stderr, "c06: cannot parse scenario name\n");
		vx_finish();
		return 0;
	}
	vs_stats st;
	for (int i = 0; i < ncfg; i++) {
		if (!vx_mine((uint64_t)i)) continue;
		if (vx_deadline_passed()) { vx_and("exhaustive", 0); vx_count("scenarios_skipped_deadline", 1); continue; }
		build(&cfgs[i]);
		if (getenv("C06_ONLY") && !strstr(S.name, getenv("C06_ONLY"))) continue;	/* debugging aid */
		O.bound = cfgs[i].bound;
		vs_options Osave = O;
		if (cfgs[i].fine) { O.fine_grained = 1; O.race_detect = 0; }
		double t_scn = vx_now();
		vs_explore(&S, &O, &st);
		if (st.racy) {
			vs_options F = O; F.fine_grained = 1; F.race_detect = 0;
			vx_note("data race in scenario %s (%s): explored again at shared-access granularity", S.name, st.race_msg);
			vx_count("scenarios_rerun_fine_grained", 1);
			vs_explore(&S, &F, &st);
		}
		if (vx_now() - t_scn > 4.0) vx_note("slow scenario %s: %.1f s, %llu states", S.name, vx_now() - t_scn, (unsigned long long)st.states);
		O = Osave;
		vx_count("scenarios", 1);
		if (cfgs[i].fine) vx_count("scenarios_fine_grained_placement", 1);
		if (cfgs[i].threads) vx_count("scenarios_free_threads", 1); else vx_count("scenarios_nested_interrupts", 1);
		vx_count("states", st.states); vx_count("transitions", st.steps + st.interrupts_injected + st.atomic_ops); vx_count("traces", st.executions);
		vx_count("executions", st.executions); vx_count("executions_completed", st.completed); vx_count("executions_pruned_at_visited_state", st.pruned);
		vx_count("atomic_operations_executed", st.atomic_ops); vx_count("plain_accesses_checked", st.plain_accesses);
		vx_count("interrupts_injected", st.interrupts_injected); vx_count("placement_points_at_plain_accesses", st.fine_points); vx_count("preemptions", st.preemptions); vx_count("spin_blocks", st.spin_blocks);
		vx_max("max_choice_points_in_one_execution", st.max_depth);
		vx_and("exhaustive", cfgs[i].bound < 0 ? st.bound_completed == 1000000 : st.bound_completed == cfgs[i].bound);
		if (st.capped) vx_note("scenario %s not finished before the deadline (bound completed: %d)", S.name, st.bound_completed);
		if (i % 53 == 0) vx_sample("%s: %llu executions (%llu completed, %llu pruned at a visited state), %llu states, %llu interrupts injected, %llu preemptions, bound completed %d",
			S.name, (unsigned long long)st.executions, (unsigned long long)st.completed, (unsigned long long)st.pruned, (unsigned long long)st.states,
			(unsigned long long)st.interrupts_injected, (unsigned long long)st.preemptions, st.bound_completed);
		if (vx_too_many_violations()) break;
	}
	vx_count("run_atomic_accepted", n_ra_ok); vx_count("run_atomic_refused", n_ra_refused); vx_count("events_sent_true", n_ev_ok);
	vx_count("event_claims_refused", n_ev_refused_claim); vx_count("event_sends_false", n_ev_send_false); vx_count("dispatches", n_dispatch);
	vx_count("events_received_by_handler_fibre", n_events_seen); vx_count("wakeup_values_checked", n_wake_checked); vx_count("wakeup_values_lenient", n_wake_lenient);
	vx_count("foreign_divergences", foreign);
	const vs_optab_entry *tab; int nt = vs_optab(&tab);
	for (int i = 0; i < nt; i++) { char nm[80]; snprintf(nm, sizeof(nm), "atomic: %.60s", tab[i].what); vx_count(nm, tab[i].n); }
	vx_finish();
	return 0;
}

/* C06 / C03(schedules) scenario: the real fibre.c + list.c + messageq.c + util.c and the fibres, main loop and
 * interrupt-side actions, compiled with -fsanitize=thread and run under engine/vsched.c */
#include "list.c"
#include "messageq.c"
#include "fibre.c"
#include "util.c"
#include <stddef.h>
#include "vsched.h"
#include "c06.h"

uint32_t time_now(void) { return 0; }

/* This file shares a translation unit with the library sources above (it needs fibre.c's statics). Its own
 * file-scope identifiers are renamed so that a helper or static the library may grow (body, setup, probe, ...) can
 * never collide with them. */
#define body_h c6s_body_h
#define body_y c6s_body_y
#define body_z c6s_body_z
#define check_queues c6s_check_queues
#define evq c6s_evq
#define evq_store c6s_evq_store
#define fib c6s_fib
#define fy c6s_fy
#define fz c6s_fz
#define irq_action c6s_irq_action
#define main_call c6s_main_call
#define one_pass c6s_one_pass
#define P c6s_P

static int body_h(fibre_t *f); static int body_y(fibre_t *f); static int body_z(fibre_t *f);
static uint8_t evq_store[8];
static fibre_eventq_t evq;
static fibre_t fy, fz;
static struct { int ycount; uint32_t now; atomic_uint threads_done; } P;	/* scenario-private progress (registered as ghost) */

static fibre_t *fib(int f) { return f == F_H ? &evq.fibre : f == F_Y ? &fy : &fz; }

static int body_h(fibre_t *f)
{
	int entered = 0;
	PT_BEGIN_FIBRE(f);
	entered = 1;
	for (;;) {
		orc_dispatch(F_H, entered); entered = 0;
		uint8_t *e;
		while (NULL != (e = fibre_eventq_receive(&evq))) {
			orc_event(F_H, (int)(e - evq_store) / 2, e[0], e[1]);
			fibre_eventq_release(&evq, e);
		}
		orc_body_return(F_H, PT_WAITING);
		PT_WAIT();
	}
	PT_END();
}
static int body_y(fibre_t *f)
{
	int entered = 0;
	PT_BEGIN_FIBRE(f);
	entered = 1;
	for (;;) {
		orc_dispatch(F_Y, entered); entered = 0;
		if (P.ycount < C6.ny) { P.ycount++; orc_body_return(F_Y, PT_YIELDED); PT_YIELD(); }
		else { orc_body_return(F_Y, PT_WAITING); PT_WAIT(); }
	}
	PT_END();
}
static int body_z(fibre_t *f)
{
	int entered = 0;
	PT_BEGIN_FIBRE(f);
	entered = 1;
	for (;;) {
		orc_dispatch(F_Z, entered); entered = 0;
		if (C6.zkick) {
			/* "kick a worker, then sleep": a main-context call from inside the running fibre drains the atomic queue */
			orc_main_call(MA_RUN_Y, 1, 0);
			fibre_run(&fy);
			orc_main_call(MA_RUN_Y, 0, 0);
		}
		if (C6.zdelta) {
			bool r = fibre_timeout(C6_T0 + (uint32_t)C6.zdelta);
			orc_timeout_result(F_Z, C6_T0 + (uint32_t)C6.zdelta, r);
		}
		orc_body_return(F_Z, PT_WAITING);
		PT_WAIT();
	}
	PT_END();
}

void c6_reset(void)
{
	/* the scheduler starts from the state its own static initialisers give it (captured before anything ran), not
	 * from a re-initialisation with parameters the harness thinks are the same */
	static typeof(kernel) kernel0; static typeof(atomic_runq_buf) buf0; static int have0;
	if (!have0) { memcpy(&kernel0, &kernel, sizeof(kernel)); memcpy(buf0, atomic_runq_buf, sizeof(buf0)); have0 = 1; }
	memcpy(&kernel, &kernel0, sizeof(kernel)); memcpy(atomic_runq_buf, buf0, sizeof(buf0));
	memset(evq_store, 0, sizeof(evq_store));
	fibre_eventq_init(&evq, body_h, evq_store, (size_t)(2 * C6.evq_depth), 2);
	/* an event queue that is not new: its cursors have been round the ring evq_adv times slot by slot (the cycles go through
	 * the message queue the event queue is built on, so no fibre is woken and the scheduler's start state is unchanged) */
	for (int i = 0; i < C6.evq_adv; i++) {
		uint8_t *e = messageq_claim(&evq.eventq);
		if (!e) { orc_queue_problem("set-up: the idle event queue refused a claim"); break; }
		e[0] = e[1] = 0; messageq_send(&evq.eventq, e);
		if (messageq_receive(&evq.eventq) != (void *)e) { orc_queue_problem("set-up: the event queue did not return the event just sent"); break; }
		messageq_release(&evq.eventq, e);
	}
	fibre_init(&fy, body_y); fibre_init(&fz, body_z);
	memset(&P, 0, sizeof(P));
	/* prefill_aq = n: n requests for Y; 10 + n: the first of the n is for Z (the only request that fibre has) */
	for (int i = 0; i < C6.prefill_aq % 10; i++) fibre_run_atomic(i == 0 && C6.prefill_aq >= 10 ? &fz : &fy);
}
/* is byte `off` of `kernel` part of what decides runnability (the queues and the current fibre) - as opposed to a field a
 * later version may add for book-keeping? */
int c6_kernel_sched_field(size_t off)
{
#define IN(f) (off >= offsetof(typeof(kernel), f) && off < offsetof(typeof(kernel), f) + sizeof(kernel.f))
	return IN(current) || IN(state) || IN(runq) || IN(timerq) || IN(atomic_runq);
#undef IN
}
void c6_register_regions(void)
{
	vs_region(&kernel, sizeof(kernel), VS_SHARED, "kernel");
	vs_region(atomic_runq_buf, sizeof(atomic_runq_buf), VS_SHARED, "atomic_runq_buf");
	vs_region(&evq, sizeof(evq), VS_SHARED, "evq");
	vs_region(evq_store, sizeof(evq_store), VS_SHARED, "evq_store");
	vs_region(&fy, sizeof(fy), VS_SHARED, "fy");
	vs_region(&fz, sizeof(fz), VS_SHARED, "fz");
	vs_region(&P, sizeof(P), VS_GHOST, "progress");
}

/* the scheduler's own queues, read through their own structures */
static void check_queues(void)
{
	int seen[NFIB] = { 0 };
	for (int q = 0; q < 2; q++) {
		list_t *l = q ? &kernel.timerq : &kernel.runq;
		list_node_t *n = l->head, *last = NULL; int k = 0;
		for (; n && k <= NFIB; n = n->next, k++) {
			int f = n == &evq.fibre.link ? F_H : n == &fy.link ? F_Y : n == &fz.link ? F_Z : -1;
			if (f < 0) { orc_queue_problem(q ? "timer queue holds a node that is no fibre" : "run queue holds a node that is no fibre"); return; }
			if (seen[f]++) { orc_queue_problem("a fibre is linked twice into the scheduler's queues"); return; }
			last = n;
		}
		if (n) { orc_queue_problem(q ? "timer queue is cyclic" : "run queue is cyclic"); return; }
		if (l->head && l->tail != last) { orc_queue_problem(q ? "timer queue tail pointer is wrong" : "run queue tail pointer is wrong"); return; }
	}
	for (int f = 0; f < NFIB; f++) if (!seen[f] && fib(f)->link.next) { orc_queue_problem("a fibre outside the queues has a dangling link"); return; }
}
/* with nothing in flight and nothing pending, every slot of the scheduler's atomic run queue and of the event queue
 * is free again: claims that succeed as many times as the queue is deep, then fail (the public behaviour, not the
 * private counters) */
void c6_check_quiescent_queues(int evq_too)
{
	messageq_t *qs[2] = { &kernel.atomic_runq, &evq.eventq };
	for (int q = 0; q < (evq_too ? 2 : 1); q++) {
		void *got[40]; int n = 0, depth = q ? C6.evq_depth : (int)lengthof(atomic_runq_buf);
		while (n < 40) { void *m = messageq_claim(qs[q]); if (!m) break; got[n++] = m; }
		if (n != depth) { orc_queue_problem(q ? "at quiescence the event queue does not offer all of its buffers again (slots leaked or invented)" :
						    "at quiescence the atomic run queue does not offer all of its slots again (slots leaked or invented)"); return; }
		(void)got;
	}
}

static void one_pass(int i)
{
	uint32_t t = C6_T0 + (uint32_t)i;
	P.now = t;
	orc_pass_begin(i, t);
	uint32_t w = fibre_scheduler_next(t);
	fibre_t *s = fibre_self();
	orc_pass_end(i, t, w, s == NULL ? -1 : s == &evq.fibre ? F_H : s == &fy ? F_Y : s == &fz ? F_Z : -2);
	check_queues();
	vs_note((uint64_t)i);
}
static void main_call(int act)
{
	int r = 0;
	if (act == MA_NONE) return;
	orc_main_call(act, 1, 0);
	switch (act) {
	case MA_RUN_Y: fibre_run(&fy); break;
	case MA_RUN_Z: fibre_run(&fz); break;
	case MA_KILL_Z: r = fibre_kill(&fz); break;
	case MA_KILL_Y: r = fibre_kill(&fy); break;
	case MA_KILL_H: r = fibre_kill(&evq.fibre); break;
	case MA_RA_H: r = fibre_run_atomic(&evq.fibre); break;
	}
	orc_main_call(act, 0, r);
	check_queues();
}
void c6_main(void *arg)
{
	(void)arg;
	for (int f = 0; f < NFIB; f++) if (C6.start_mask & (1 << f)) {
		orc_main_call(f == F_H ? -1 : f == F_Y ? MA_RUN_Y : MA_RUN_Z, 1, 0);
		fibre_run(fib(f));
		orc_main_call(f == F_H ? -1 : f == F_Y ? MA_RUN_Y : MA_RUN_Z, 0, 0);
	}
	int i;
	for (i = 0; i < C6.passes; i++) { main_call(C6.main_act[i]); vs_point(); one_pass(i); }
	/* interrupts that have not arrived by now arrive here; free-running interrupt-side threads are awaited */
	if (!C6.threads) vs_drain_handlers();
	else {
		orc_threads_done_wait_begin();
		while ((int)atomic_load(&P.threads_done) < C6.nh)
			;
	}
	/* settle: no further stimulus; keep scheduling while anything is runnable (bounded) */
	for (int k = 0; k < 12 && orc_more_settle(); k++, i++) one_pass(i);
	/* a request whose fate the ghost could not decide (it raced with a drain or a kill) may still be queued: two more
	 * passes flush whatever is left, then every slot must be free again */
	if (!orc_more_settle() && orc_undecided()) { one_pass(i++); one_pass(i++); }
	/* an implementation may take several passes to work through its atomic run queue: keep scheduling while it holds anything */
	for (int k = 0; k < 10 && !orc_more_settle() && !messageq_empty(&kernel.atomic_runq); k++) one_pass(i++);
	if (!orc_more_settle()) c6_check_quiescent_queues(orc_events_all_free());
}

static void irq_action(int kind, int who)
{
	switch (kind) {
	case HK_RA_H: case HK_RA_Y: case HK_RA_Z: {
		int f = kind == HK_RA_H ? F_H : kind == HK_RA_Y ? F_Y : F_Z;
		orc_ra_begin(f, who);
		bool ok = fibre_run_atomic(fib(f));
		orc_ra(f, ok, who);
		break; }
	default: {
		uint8_t v = kind == HK_EV1 ? 0x11 : 0x22;
		orc_ev_claim_begin(who);
		uint8_t *e = fibre_eventq_claim(&evq);
		orc_ev_claimed(v, e ? (int)(e - evq_store) / 2 : -1, who);
		if (!e) break;
		e[0] = v; e[1] = (uint8_t)~v;
		orc_ev_send_begin((int)(e - evq_store) / 2);
		bool ok = fibre_eventq_send(&evq, e);
		orc_ev_sent((int)(e - evq_store) / 2, ok);
		break; }
	}
}
void c6_irq(void *arg) { irq_action(C6.hk[(int)(intptr_t)arg], (int)(intptr_t)arg); }
void c6_thread_irq(void *arg) { irq_action(C6.hk[(int)(intptr_t)arg], (int)(intptr_t)arg); atomic_fetch_add(&P.threads_done, 1); }

/*
 * C07 cross-check (thorough tier only, NOT a deciding step): the C04 and C05
 * scenario bodies run as real pthreads, free-running, under the real
 * ThreadSanitizer runtime for a couple of seconds. This samples schedules; it
 * exists to cross-check the vector-clock detector of engine/vsched.c against an
 * independent implementation. Its result goes into the evidence as counters and
 * notes; a report here on a tree where the exhaustive part is silent would mean
 * the machinery has a hole and is flagged as a note for investigation.
 *
 * Everything in this binary is compiled with -fsanitize=thread and linked with
 * the real libtsan (so vsched.c is not part of it).
 */
#include "vx.h"
#include <pthread.h>
#include "messageq.c"
#include "ringbuf.c"

static volatile int tsan_reports;
void __tsan_on_report(void *rep) { (void)rep; tsan_reports++; }
const char *__tsan_default_options(void) { return "exitcode=0:halt_on_error=0:report_signal_unsafe=0"; }

/* ---- ring buffer: one producer, one consumer */
static ringbuf_t rb; static uint8_t rbstore[8];
static int rb_n;
static void *rb_prod(void *a) { (void)a; for (int i = 0; i < rb_n; i++) while (!ringbuf_put(&rb, (uint8_t)i)) ; return NULL; }
static void *rb_cons(void *a) { (void)a; for (int i = 0; i < rb_n; ) { int r = ringbuf_get(&rb); if (r >= 0) { if (r != (uint8_t)i) tsan_reports += 1000; i++; } } return NULL; }

/* ---- message queue: S senders, one receiver */
static messageq_t mq; static uint8_t mqstore[16];
static int mq_m;
static void *mq_send(void *a)
{
	int s = (int)(intptr_t)a;
	for (int j = 0; j < mq_m; j++) { uint8_t *m; while (!(m = messageq_claim(&mq))) ; m[0] = (uint8_t)s; m[1] = (uint8_t)j; messageq_send(&mq, m); }
	return NULL;
}
static int mq_total;
static void *mq_recv(void *a)
{
	(void)a;
	for (int got = 0; got < mq_total; ) { uint8_t *m = messageq_receive(&mq); if (!m) continue; volatile uint8_t x = m[0], y = m[1]; (void)x; (void)y; messageq_release(&mq, m); got++; }
	return NULL;
}

int main(int argc, char **argv)
{
	vx_init(argc, argv);
	uint64_t rounds = 0;
	double budget = vx_args.worker == 0 ? 4.0 : 0.0;	/* one worker does it; it is a sample, not a partition of anything */
	while (vx_elapsed() < budget) {
		pthread_t t[4];
		int L = 2 + (int)(rounds % 4);
		ringbuf_init(&rb, rbstore, (size_t)L); rb_n = 200;
		pthread_create(&t[0], NULL, rb_prod, NULL); pthread_create(&t[1], NULL, rb_cons, NULL);
		pthread_join(t[0], NULL); pthread_join(t[1], NULL);
		int Q = 1 + (int)(rounds % 3), S = 2 + (int)(rounds % 2);
		messageq_init(&mq, mqstore, (size_t)(2 * Q), 2); mq_m = 100; mq_total = S * mq_m;
		for (int s = 0; s < S; s++) pthread_create(&t[s], NULL, mq_send, (void *)(intptr_t)s);
		pthread_create(&t[S], NULL, mq_recv, NULL);
		for (int s = 0; s <= S; s++) pthread_join(t[s], NULL);
		rounds++;
	}
	vx_count("tsan_free_running_rounds", rounds);
	vx_count("tsan_free_running_reports", (uint64_t)tsan_reports);
	if (tsan_reports) vx_note("CROSS-CHECK: the real ThreadSanitizer runtime reported %d race(s)/value error(s) in free-running threads (sampling, not deciding) - compare with the exhaustive part", tsan_reports);
	vx_and("exhaustive", 1);
	vx_finish();
	return 0;
}

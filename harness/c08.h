/* C08: types shared by the generated protothread programs and the harness */
#ifndef C08_H_
#define C08_H_
#include <stdint.h>
#include <librfn/protothreads.h>

typedef struct env {
	int v[8];		/* persistent loop variables: 0..3 top-level program, 4..7 children */
	pt_t cpt[3];		/* protothread state of the child spawned at each spawn depth */
	/* effects emitted by the invocation in progress */
	int16_t eff[64]; int neff;
	/* environment answers: a shared script, consumed in order */
	const uint8_t *ans; int nans, pos;
} env_t;

typedef struct { uint8_t op; int16_t a, b; } ins_t;
typedef struct { pt_state_t (*fn)(pt_t *, env_t *); const ins_t *code; const char *text; } prog_t;

static inline void E_emit(env_t *E, int k) { if (E->neff < 64) E->eff[E->neff] = (int16_t)k; E->neff++; }
static inline int E_env(env_t *E, int id) { (void)id; int r = E->pos < E->nans ? E->ans[E->pos] : 1; E->pos++; return r; }
/* the same answer as a double in (0,1): true in C, but zero once converted to an integer type */
static inline double E_envd(env_t *E, int id) { return E_env(E, id) ? 0.5 : 0.0; }
#endif

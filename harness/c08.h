/* C08: types shared by the generated protothread programs and the harness */
#ifndef C08_H_
#define C08_H_
#include <stdint.h>
#include <librfn/protothreads.h>

typedef struct env {
	int v[8];		/* persistent loop variables: 0..3 top-level program, 4..7 children */
	pt_t cpt[3];		/* protothread state of the child spawned at each spawn depth */
	/* effects emitted by the invocation in progress */
	int16_t eff[64]; int neff;
	/* environment answers: a shared script, consumed in order */
	const uint8_t *ans; int nans, pos;
	int tmp;		/* scratch for conditions of the form (tmp = f()) != k */
} env_t;

struct fibre;
typedef struct { uint8_t op; int16_t a, b; } ins_t;
/* fn: a protothread over a pt_t; ffn: a fibre entry point (opened with PT_BEGIN_FIBRE; its environment is c08_fenv);
 * maxline: the highest source line on which the body has a macro that stores __LINE__; fam: index into the family names */
typedef struct {
	pt_state_t (*fn)(pt_t *, env_t *); int (*ffn)(struct fibre *);
	const ins_t *code; const char *text; uint32_t maxline; uint8_t fam;
} prog_t;
extern env_t *c08_fenv;

static inline void E_emit(env_t *E, int k) { if (E->neff < 64) E->eff[E->neff] = (int16_t)k; E->neff++; }
static inline int E_env(env_t *E, int id) { (void)id; int r = E->pos < E->nans ? E->ans[E->pos] : 1; E->pos++; return r; }
/* the same answer as a double in (0,1): true in C, but zero once converted to an integer type */
static inline double E_envd(env_t *E, int id) { return E_env(E, id) ? 0.5 : 0.0; }
/* the same answer negated, as one of two given ints, as 64-bit values, as a pointer */
static inline int E_envn(env_t *E, int id) { return !E_env(E, id); }
static inline int E_envk(env_t *E, int id, int t, int f) { return E_env(E, id) ? t : f; }
static inline long long E_envll(env_t *E, int id, long long t) { return E_env(E, id) ? t : 0; }
static inline unsigned long long E_envull(env_t *E, int id, unsigned long long t) { return E_env(E, id) ? t : 0; }
static inline void *E_envp(env_t *E, int id) { return E_env(E, id) ? (void *)E : (void *)0; }
/* constants the compiler cannot see through, and an operand for comma expressions; none of them consumes an answer */
static inline int E_one(env_t *E) { return E->nans >= 0; }
static inline int E_zero(env_t *E) { return E->nans < 0; }
static inline void E_nop(env_t *E) { E->tmp = 0; }
#endif

"""Generator for C08: enumerates every protothread body up to a size bound and emits each one twice -
as C source using the real PT_* macros of <librfn/protothreads.h> (one blocking macro per line, none in a
nested switch), and as a flat instruction table for the reference interpreter in c08_protothreads.c.

Statements ("atoms"):  Y yield, W wait, U wait_until(env), X exit, F fail, XO exit_on(env), FO fail_on(env),
SP/SC/CA/SO(child): PT_SPAWN / PT_SPAWN_AND_CHECK / PT_CALL / PT_SPAWN followed by an effect that reports
PT_CHILD_OK().  Compound: IF(env){...}else{...}, FOR(v=0;v<2;v++){...} with a persistent loop variable; and the unbraced forms
IFU "if (env) STMT; [else STMT;]" and FORU "for (...) STMT;" whose body is one PT_* statement without braces.
After every statement an effect with a unique number is emitted, so the sequence of side effects identifies
the path taken.

Two program sets are written:
 * the MAIN set (c08_progs_<n>.c, c08_shards.h): every body up to the size bound over the full alphabet, each function
   restarting at "#line 1";
 * the SMALL set (c08_small_<n>.c, c08_small.h), which is cheap enough to be compiled once per build configuration and
   holds the families that vary HOW the macros are invoked rather than what the program does:
     b2      every body with at most 2 nodes over the full alphabet
     shape   every condition-taking macro (PT_WAIT_UNTIL, PT_EXIT_ON, PT_FAIL_ON) with every condition form of COND_FORMS
             (operators of each precedence class, value classes of each width) and every spawning macro with every
             thread / child argument form of THREAD_FORMS, each in the contexts of CONTEXTS
     ident   user locals with common names (IDENT_NAMES) used inside conditions and thread expressions
     lines   bodies with at most 2 nodes over LINE_ATOMS placed so that the first statement sits on each line of
             LINE_PLACEMENTS (both sides of 2^7, 2^8, 2^15, 2^16, and 100000)
     fibre   bodies with at most 2 nodes over LINE_ATOMS opened with PT_BEGIN_FIBRE on a fibre_t
   every file of the small set is an optional compile unit (a stand-in with an empty table is written next to it).
"""
import itertools, os

# ---- fixed pool of children (children of children give spawn depth 2)
CHILDREN = [
    ['Y'],                      # c0 yields once, exits
    ['U'],                      # c1 waits until the environment says so
    ['FO', 'Y'],                # c2 may fail, else yields
    ['XO', 'W', 'F'],           # c3 may exit at once, else waits and then fails
    [('SC', 2), 'Y'],           # c4 spawns c2 and checks it (relays a failure), then yields
    [('SO', 3), ('FOR', ['Y'])],  # c5 spawns c3 reporting PT_CHILD_OK, then a loop with a yield
    ['EV', 'Y', 'EV', 'FO'],    # c6 takes an int argument and reports it (200 + v) before and after a yield, then may fail
]
CV = 6                          # the child with a value argument; not part of the main alphabet
NCHILD_MAIN = 6
IDENT_VALUE = 37
# XOd / FOd: the condition is a double (0.5 when the environment says true): any scalar is a legal condition
SIMPLE = ['Y', 'W', 'U', 'X', 'F', 'XO', 'FO', 'XOd', 'FOd']
SPAWNS = ['SP', 'SC', 'CA', 'SO']
CONDMAC = {'U': ('PT_WAIT_UNTIL', 'WAIT_UNTIL'), 'XO': ('PT_EXIT_ON', 'EXIT_ON'), 'FO': ('PT_FAIL_ON', 'FAIL_ON')}
SPAWNMAC = {'SP': 'PT_SPAWN', 'SO': 'PT_SPAWN', 'SC': 'PT_SPAWN_AND_CHECK', 'CA': 'PT_CALL'}

# ---- condition forms: each is true exactly when the environment answers "true" and consumes exactly one answer.
# Operator forms: one per precedence class, with operand values chosen so that binding a prefix / suffix of the macro
# (!, == k, != 0, && y, a cast) to the first operand instead of the whole argument changes the truth value.
# Value forms: the true value is one that a narrowing conversion, "== 1" or "& 1" would turn into false.
COND_FORMS = [
    ('i',     'E_env(E, %d)'),                                   # int 0 / 1 (the form of the main set)
    ('ne',    '(E->tmp = E_envk(E, %d, 7, -1)) != -1'),          # equality operator, operands other than 0 / 1 (console.c style)
    ('eq1',   'E_env(E, %d) == 1'),
    ('ne0',   'E_env(E, %d) != 0'),
    ('gt',    'E_envk(E, %d, 5, -5) > 0'),                       # relational
    ('add',   'E_envk(E, %d, 1, -1) + 1'),                       # additive
    ('band',  'E_envk(E, %d, 2, 0) & 2'),                        # bitwise and (binds less tightly than == and !=)
    ('land',  'E_one(E) && E_env(E, %d)'),                       # logical and
    ('lor',   'E_zero(E) || E_env(E, %d)'),                      # logical or
    ('tern',  'E_envn(E, %d) ? 0 : 1'),                          # conditional
    ('tern1', 'E_env(E, %d) ? 1 : 0'),
    ('comma', '(E_nop(E), E_env(E, %d))'),                       # comma (a bare comma would be two macro arguments)
    ('not',   '!E_envn(E, %d)'),                                 # unary
    ('d',     'E_envd(E, %d)'),                                  # double 0.5: zero once converted to an integer type
    ('i2',    'E_envk(E, %d, 2, 0)'),                            # int >= 2 (bit 0 clear)
    ('i256',  'E_envk(E, %d, 256, 0)'),                          # low 8 bits zero
    ('i64k',  'E_envk(E, %d, 65536, 0)'),                        # low 16 bits zero
    ('neg',   'E_envk(E, %d, -1, 0)'),                           # negative
    ('min',   'E_envk(E, %d, -2147483647 - 1, 0)'),              # only the sign bit
    ('ll',    'E_envll(E, %d, 1LL << 32)'),                      # 64 bit, low 32 bits zero
    ('ull',   'E_envull(E, %d, 1ULL << 63)'),                    # 64 bit, only the top bit
    ('ptr',   'E_envp(E, %d)'),                                  # a pointer
]
CF = dict(COND_FORMS)
IDENT_COND = 'E_env(E, %%d) * %s == %d'        # true iff the answer is true AND the user's local still has its value

# ---- forms of the (child, thread) arguments of the spawning macros; %(pt)s = the child's pt_t, %(call)s = the plain call
THREAD_FORMS = [
    ('tern',  '%(pt)s', 'E_one(E) ? %(call)s : (pt_state_t)PT_FAILED'),
    ('ternr', '%(pt)s', 'E_zero(E) ? (pt_state_t)PT_FAILED : %(call)s'),
    ('comma', '%(pt)s', '(E_nop(E), %(call)s)'),
    ('bor',   '%(pt)s', '%(call)s | 0'),                         # binds less tightly than the macros' "< PT_EXITED"
    ('int',   '%(pt)s', '%(icall)s'),                            # a thread function that returns int (as fibres do)
    ('ptadd', 'E->cpt + %(d)d', '%(call)s'),                     # child argument that is not a primary / unary expression
]
TF = dict((n, (p, t)) for n, p, t in THREAD_FORMS)
SHAPE_CHILDREN = [1, 3]
IDENT_NAMES = ['state', 'res', 'r', 'rc', 'ret', 'result', 'status', 'i', 'n', 's', 'p', 'c', 'x', 'child', 'thread',
               'pt_state', 'pt_res', 'spawn_res', 'tmp', 'line',
               # names a macro author would pick for a condition temporary (seeded/C08-r5: "bool done = (c);")
               'done', 'cond', 'condition', 'ok', 'ready', 'flag', 'b', 'v', 'val', 'value', 't', 'test', 'expired',
               'finished', 'pt_cond', 'pt_done', 'pt_c', 'pt_ok', '_c', '_cond', '_done', '_r', '_res', '_ret']
LINE_ATOMS = ['Y', 'W', 'U', 'FO', ('SP', 1), ('SC', 2), ('CA', 3), ('SO', 5)]
LINE_PLACEMENTS = [127, 128, 255, 256, 32767, 32768, 65535, 65536, 100000]
LINE_REQUIRED = 65535          # what the documented 16-bit pt_t holds; files by this, the harness decides from the real pt_t


REDUCED = None   # when set: the atom list used instead of the full one (larger bodies over a smaller alphabet)


def atoms(depth_children):
    if REDUCED is not None:
        return list(REDUCED)
    a = list(SIMPLE)
    for k in SPAWNS:
        for c in range(NCHILD_MAIN):
            a.append((k, c))
    return a


def is_so(a):
    return isinstance(a, tuple) and (a[0] == 'SO' or (a[0] == 'SPX' and a[1] == 'SO'))


def unbraced_atoms():
    """atoms that are ONE statement in C and may therefore be the unbraced body of an if / else / for
    (SO is this generator's own two-statement composite and is left out)"""
    return [a for a in atoms(0) if not is_so(a)]


def size(item):
    if isinstance(item, tuple) and item[0] == 'IFU':
        return 2 + (1 if item[2] is not None else 0)
    if isinstance(item, tuple) and item[0] == 'FORU':
        return 2
    if isinstance(item, tuple) and item[0] == 'IF':
        return 1 + sum(size(x) for x in item[1]) + sum(size(x) for x in item[2])
    if isinstance(item, tuple) and item[0] == 'FOR':
        return 1 + sum(size(x) for x in item[1])
    return 1


def bodies(n, nest, allow_empty=False):
    """all statement lists with exactly n nodes, compound nesting <= nest"""
    if n == 0:
        yield []
        return
    for first_size in range(1, n + 1):
        for first in items(first_size, nest):
            for rest in bodies(n - first_size, nest):
                yield [first] + rest


def items(n, nest):
    if n == 1:
        for a in atoms(0):
            yield a
        return
    if nest <= 0:
        return
    # unbraced forms: "if (c) STMT;", "if (c) STMT; else STMT;", "for (...) STMT;" - a PT_* macro is documented as a statement
    if n == 2:
        for a in unbraced_atoms():
            yield ('IFU', a, None)
            yield ('FORU', a)
    if n == 3:
        for a in unbraced_atoms():
            for b in unbraced_atoms():
                yield ('IFU', a, b)
    # IF with then/else bodies (else may be empty), FOR with a non-empty body
    inner = n - 1
    for nt in range(0, inner + 1):
        for t in bodies(nt, nest - 1):
            for e in bodies(inner - nt, nest - 1):
                if nt == 0 and inner - nt == 0:
                    continue
                yield ('IF', t, e)
    for b in bodies(inner, nest - 1):
        if b:
            yield ('FOR', b)


class Emitter:
    def __init__(self):
        self.c = []        # C lines
        self.code = []     # VM instructions (op, a, b)
        self.eff = 0
        self.envid = 0
        self.blocking = []  # indices into self.c of the lines that hold a macro which stores __LINE__
        self.ident = None   # name of the user's local (ident family)
        self.E = 'E'

    def effect(self, ind):
        self.eff += 1
        self.c.append('%sE_emit(E, %d);' % (ind, self.eff))
        self.code.append(('EMIT', self.eff, 0))

    def env(self):
        self.envid += 1
        return self.envid

    def blk(self, text):
        self.blocking.append(len(self.c))
        self.c.append(text)

    def cond(self, mac, form, ind):
        """one condition-taking macro with the given argument form"""
        e = self.env()
        if form == 'idv':
            expr = (IDENT_COND % (self.ident, IDENT_VALUE)) % e
        else:
            expr = CF[form] % e
        line = ind + '%s(%s);' % (CONDMAC[mac][0], expr)
        if mac == 'U':
            self.blk(line)
        else:
            self.c.append(line)
        self.code.append((CONDMAC[mac][1], e, 0))

    def spawn(self, k, c, tform, ind, cdepth):
        C, V = self.c, self.code
        pt = '&E->cpt[%d]' % cdepth
        if c == CV:
            call = 'child%d(%s, E, %s)' % (c, pt, self.ident if self.ident else str(IDENT_VALUE))
        else:
            call = 'child%d(%s, E)' % (c, pt)
        d = dict(pt=pt, call=call, icall='i' + call, d=cdepth)
        if tform is None:
            ptx, tx = pt, call
        else:
            ptx, tx = TF[tform][0] % d, TF[tform][1] % d
        line = ind + '%s(%s, %s);' % (SPAWNMAC[k], ptx, tx)
        if k == 'CA':
            C.append(line)
            V.append(('CALL', c, cdepth))
            return
        self.blk(line)
        V.append(('SPAWN_INIT', c, cdepth)); V.append(('RUN', c, cdepth))
        if k == 'SO':
            # PT_CHILD_OK() may be any true value: only its truth is reported
            C.append(ind + 'E_emit(E, PT_CHILD_OK() ? 101 : 100);'); V.append(('EMIT_OK', 0, 0))
        elif k == 'SC':
            V.append(('CHECK', 0, 0))

    def stmt(self, s, ind, loopdepth, cdepth):
        C, V = self.c, self.code
        if s == 'Y':
            self.blk(ind + 'PT_YIELD();'); V.append(('YIELD', 0, 0))
        elif s == 'W':
            self.blk(ind + 'PT_WAIT();'); V.append(('WAIT', 0, 0))
        elif s == 'X':
            C.append(ind + 'PT_EXIT();'); V.append(('EXIT', 0, 0))
        elif s == 'F':
            C.append(ind + 'PT_FAIL();'); V.append(('FAIL', 0, 0))
        elif s in ('U', 'XO', 'FO'):
            self.cond(s, 'i', ind)
        elif s in ('XOd', 'FOd'):
            self.cond(s[:2], 'd', ind)
        elif s == 'EV':
            self.eff += 1
            C.append(ind + 'E_emit(E, 200 + v);'); V.append(('EMIT', 200 + IDENT_VALUE, 0))
        elif s[0] == 'COND':
            self.cond(s[1], s[2], ind)
        elif s[0] in SPAWNS:
            self.spawn(s[0], s[1], None, ind, cdepth)
        elif s[0] == 'SPX':
            self.spawn(s[1], s[2], s[3], ind, cdepth)
        elif s[0] == 'IFU':
            e = self.env()
            C.append(ind + 'if (E_env(E, %d))' % e)
            jz = len(V); V.append(['JZ', e, None])
            self.stmt(s[1], ind + '\t', loopdepth, cdepth)
            if s[2] is not None:
                C.append(ind + 'else')
                jmp = len(V); V.append(['JMP', None, 0])
                V[jz][2] = len(V)
                self.stmt(s[2], ind + '\t', loopdepth, cdepth)
                V[jmp][1] = len(V)
            else:
                V[jz][2] = len(V)
        elif s[0] == 'FORU':
            d = loopdepth
            C.append(ind + 'for (E->v[%d] = 0; E->v[%d] < 2; E->v[%d]++)' % (d, d, d))
            V.append(('SETV', d, 0))
            top = len(V); V.append(['JGE2', d, None])
            self.stmt(s[1], ind + '\t', loopdepth + 1, cdepth)
            V.append(('INCV', d, 0)); V.append(('JMP', top, 0))
            V[top][2] = len(V)
        elif s[0] == 'IF':
            e = self.env()
            C.append(ind + 'if (E_env(E, %d)) {' % e)
            jz = len(V); V.append(['JZ', e, None])
            for x in s[1]:
                self.stmt(x, ind + '\t', loopdepth, cdepth); self.effect(ind + '\t')
            C.append(ind + '} else {')
            jmp = len(V); V.append(['JMP', None, 0])
            V[jz][2] = len(V)
            for x in s[2]:
                self.stmt(x, ind + '\t', loopdepth, cdepth); self.effect(ind + '\t')
            C.append(ind + '}')
            V[jmp][1] = len(V)
        elif s[0] == 'FOR':
            d = loopdepth
            C.append(ind + 'for (E->v[%d] = 0; E->v[%d] < 2; E->v[%d]++) {' % (d, d, d))
            V.append(('SETV', d, 0))
            top = len(V); V.append(['JGE2', d, None])
            for x in s[1]:
                self.stmt(x, ind + '\t', loopdepth + 1, cdepth); self.effect(ind + '\t')
            V.append(('INCV', d, 0)); V.append(('JMP', top, 0))
            V[top][2] = len(V)
            C.append(ind + '}')
        else:
            raise ValueError(s)


def emit_function(name, body, cdepth, static=True, loopbase=0, first_line=None, ident=None, fibre=False, valarg=False):
    """first_line: source line the first statement of the body is placed on (default: the function starts at line 1);
    returns the emitter; em.maxline = highest source line holding a macro that stores __LINE__ (0: none)"""
    em = Emitter()
    em.ident = ident
    em.c.append(None)       # the #line directive, filled in below
    if fibre:
        em.c.append('%sint %s(fibre_t *f)' % ('static ' if static else '', name))
        em.c.append('{')
        em.c.append('\tenv_t *E = c08_fenv;')
        em.c.append('\tPT_BEGIN_FIBRE(f);')
    else:
        em.c.append('%spt_state_t %s(pt_t *pt, env_t *E%s)' % ('static ' if static else '', name, ', int v' if valarg else ''))
        em.c.append('{')
        if ident:
            em.c.append('\tint %s = %d;' % (ident, IDENT_VALUE))
        em.c.append('\tPT_BEGIN(pt);')
    em.effect('\t')
    before = len(em.c) - 1          # lines of the function that precede the first statement
    for s in body:
        em.stmt(s, '\t', loopbase, cdepth)
        em.effect('\t')
    em.c.append('\tPT_END();')
    em.c.append('}')
    em.code.append(('END', 0, 0))
    start = 1 if first_line is None else first_line - before
    em.c[0] = '#line %d "%s"' % (start, name)
    em.maxline = max([start + (i - 1) for i in em.blocking] or [0])
    return em


OPS = ['EMIT', 'YIELD', 'WAIT', 'WAIT_UNTIL', 'EXIT', 'FAIL', 'EXIT_ON', 'FAIL_ON', 'SPAWN_INIT', 'RUN', 'CHECK', 'EMIT_OK',
       'CALL', 'JZ', 'JMP', 'SETV', 'JGE2', 'INCV', 'END']


def describe(body):
    out = []
    for s in body:
        if isinstance(s, str):
            out.append(s)
        elif s[0] in SPAWNS:
            out.append('%s(c%d)' % s)
        elif s[0] == 'COND':
            out.append('%s:%s' % (s[1], s[2]))
        elif s[0] == 'SPX':
            out.append('%s(c%d):%s' % (s[1], s[2], s[3]))
        elif s[0] == 'IFU':
            out.append('IFU(%s%s)' % (describe([s[1]]), '' if s[2] is None else '|' + describe([s[2]])))
        elif s[0] == 'FORU':
            out.append('FORU(%s)' % describe([s[1]]))
        elif s[0] == 'IF':
            out.append('IF{%s}{%s}' % (describe(s[1]), describe(s[2])))
        else:
            out.append('FOR{%s}' % describe(s[1]))
    return ';'.join(out)


def has_else_unbraced(body):
    for s in body:
        if isinstance(s, tuple):
            if s[0] == 'IFU' and s[2] is not None:
                return True
            if s[0] == 'IF' and (has_else_unbraced(s[1]) or has_else_unbraced(s[2])):
                return True
            if s[0] == 'FOR' and has_else_unbraced(s[1]):
                return True
    return False


ELSE_SHARDS = 2
FAMILIES = ['main', 'b2', 'shape', 'ident', 'lines', 'fibre']


def write_children(bdir):
    # the children as C (their own children use cpt[1], cpt[2]) ...
    with open(os.path.join(bdir, 'c08_children.h'), 'w') as f:
        f.write('/* generated by c08_gen.py */\n')
        for i, body in enumerate(CHILDREN):
            em = emit_function('child%d' % i, body, 1, loopbase=4, valarg=(i == CV))   # children keep their loop variables in v[4..]
            f.write('\n'.join(em.c) + '\n')
            # the same thread behind a function that returns int, the way fibre entry points do
            f.write('#line 1 "ichild%d"\nstatic int ichild%d(pt_t *pt, env_t *E%s) { return (int)child%d(pt, E%s); }\n' %
                    (i, i, ', int v' if i == CV else '', i, ', v' if i == CV else ''))
        f.write('#line 1 "c08_children_end"\n')
    # ... and as tables for the interpreter (included by the harness itself: no dependence on any optional unit)
    with open(os.path.join(bdir, 'c08_childcode.h'), 'w') as f:
        f.write('/* generated by c08_gen.py */\n')
        for i, body in enumerate(CHILDREN):
            em = emit_function('child%d' % i, body, 1, loopbase=4, valarg=(i == CV))
            f.write('static const ins_t childcode%d[] = {%s};\n' % (i, ', '.join('{%d,%d,%d}' % (OPS.index(o[0]), o[1], o[2]) for o in em.code)))
        f.write('static const ins_t *const c08_childcode[] = {%s};\n' % ', '.join('childcode%d' % i for i in range(len(CHILDREN))))
        f.write('static const char *const c08_childtext[] = {%s};\n' % ', '.join('"c%d=%s"' % (i, describe(b)) for i, b in enumerate(CHILDREN)))


def write_unit(bdir, fname, symbol, progs, base, prefix, extra_include=''):
    """progs: list of dict(body=, fam=, text=, first_line=, ident=, fibre=); returns the list of (index, maxline)"""
    with open(os.path.join(bdir, fname), 'w') as f:
        f.write('/* generated by c08_gen.py: programs %d.. */\n#include "c08.h"\n%s#include "c08_children.h"\n' % (base, extra_include))
        rows = []
        for i, p in enumerate(progs):
            idx = base + i
            fib = p.get('fibre', False)
            em = emit_function('%s%d' % (prefix, idx), p['body'], 0, first_line=p.get('first_line'), ident=p.get('ident'), fibre=fib)
            f.write('\n'.join(em.c) + '\n')
            f.write('#line 1 "c08_tab"\n')
            f.write('static const ins_t %scode%d[] = {%s};\n' % (prefix, idx, ', '.join('{%d,%d,%d}' % (OPS.index(o[0]), o[1], o[2]) for o in em.code)))
            rows.append((idx, p, em.maxline, fib))
        f.write('const prog_t %s[] = {\n' % symbol)
        for idx, p, ml, fib in rows:
            fn = '%s%d' % (prefix, idx)
            f.write(' {%s, %s, %scode%d, "%s", %d, %d},\n' % ('0' if fib else fn, fn if fib else '0', prefix, idx, p['text'], ml, FAMILIES.index(p['fam'])))
        f.write(' {0, 0, 0, 0, 0, 0}\n};\n')
    with open(os.path.join(bdir, fname[:-2] + '_empty.c'), 'w') as f:
        f.write('/* stand-in for %s */\n#include "c08.h"\nconst prog_t %s[] = { {0, 0, 0, 0, 0, 0} };\n' % (fname, symbol))
    return [(r[0], r[2]) for r in rows]


def write_table(bdir, fname, symbols, nprogs):
    with open(os.path.join(bdir, fname), 'w') as f:
        for s in symbols:
            f.write('extern const prog_t %s[];\n' % s)
        f.write('static const prog_t *const c08_shards[] = {%s};\n' % ', '.join(symbols))
        f.write('#define C08_NSHARDS %d\n#define C08_NPROGS %d\n' % (len(symbols), nprogs))


def generate(bdir, max_nodes, nest, shards, extra_nodes=0):
    """shards 0..shards-1: the programs; shards..shards+ELSE_SHARDS-1: the programs that contain "if (c) STMT; else STMT;"
    (kept apart because they stop compiling when a macro stops being a single statement; each of these shards comes
    with an empty stand-in c08_progs_<n>_empty.c that the driver compiles instead in that case)"""
    global REDUCED
    progs = []
    for n in range(0, max_nodes + 1):
        for b in bodies(n, nest):
            progs.append(b)
    # larger bodies over a reduced alphabet (one representative of each kind of statement)
    if extra_nodes:
        REDUCED = ['Y', 'U', 'FO', 'XOd', ('SP', 1), ('SC', 2), ('CA', 3), ('SO', 5)]
        for n in range(max_nodes + 1, extra_nodes + 1):
            for b in bodies(n, nest):
                progs.append(b)
        REDUCED = None
    write_children(bdir)
    main = [b for b in progs if not has_else_unbraced(b)]
    other = [b for b in progs if has_else_unbraced(b)]
    per = (len(main) + shards - 1) // shards
    per2 = (len(other) + ELSE_SHARDS - 1) // ELSE_SHARDS
    chunks = [(s * per, main[s * per:(s + 1) * per]) for s in range(shards)]
    chunks += [(len(main) + s * per2, other[s * per2:(s + 1) * per2]) for s in range(ELSE_SHARDS)]
    progs = main + other
    for s, (base, chunk) in enumerate(chunks):
        write_unit(bdir, 'c08_progs_%d.c' % s, 'c08_shard_%d' % s, [dict(body=b, fam='main', text=describe(b)) for b in chunk], base, 'prog')
    write_table(bdir, 'c08_shards.h', ['c08_shard_%d' % s for s in range(shards + ELSE_SHARDS)], len(progs))
    return len(progs)


# ---------------------------------------------------------------------------------------------- the small set

def contexts(a, with_else):
    """the contexts a new atom is placed in"""
    if with_else:
        if not is_so(a):
            yield [('IFU', a, 'Y')]
            yield [('IFU', 'Y', a)]
        return
    yield [a]
    yield ['Y', a]
    yield [a, 'Y']
    yield [('FOR', [a])]
    if not is_so(a):
        yield [('IFU', a, None)]
        yield [('FORU', a)]


def shape_atoms():
    out = []
    for m in ('U', 'XO', 'FO'):
        for name, _ in COND_FORMS:
            if name == 'i' or (name == 'd' and m != 'U'):
                continue        # already atoms of the main alphabet (U, XO, FO, XOd, FOd)
            out.append(('COND', m, name))
    for k in SPAWNS:
        for c in SHAPE_CHILDREN:
            for name, _, _ in THREAD_FORMS:
                out.append(('SPX', k, c, name))
    return out


def ident_atoms():
    return [('COND', 'U', 'idv'), ('COND', 'XO', 'idv'), ('COND', 'FO', 'idv')] + [(k, CV) for k in SPAWNS]


def small_bodies(alphabet, n_max):
    global REDUCED
    REDUCED = list(alphabet)
    out = []
    for n in range(1, n_max + 1):
        out += [b for b in bodies(n, 1)]
    REDUCED = None
    return out


def generate_small(bdir):
    """returns (number of programs, list of unit file names, dict family -> count)"""
    write_children(bdir)
    units = []      # (file, symbol, programs, extra include, family tag)
    # b2: every body with at most 2 nodes over the full alphabet (nothing with an unbraced else fits into 2 nodes)
    b2 = [[]] + small_bodies(atoms(0), 2)
    b2 = [dict(body=b, fam='b2', text=describe(b)) for b in b2]
    half = (len(b2) + 1) // 2
    units += [('b2', b2[:half], ''), ('b2', b2[half:], '')]
    # shape: argument forms
    sh = [dict(body=b, fam='shape', text=describe(b)) for a in shape_atoms() for b in contexts(a, False)]
    half = (len(sh) + 1) // 2
    units += [('shape', sh[:half], ''), ('shape', sh[half:], '')]
    she = [dict(body=b, fam='shape', text=describe(b)) for a in shape_atoms() for b in contexts(a, True)]
    units += [('shape_else', she, '')]
    # ident: user locals with common names
    idp = []
    for nm in IDENT_NAMES:
        for a in ident_atoms():
            for b in ([a], ['Y', a], [a, 'Y']):
                idp.append(dict(body=b, fam='ident', ident=nm, text='int %s; %s' % (nm, describe(b))))
    units += [('ident', idp, '')]
    # lines: placements of the first statement; filed by whether every stored line fits the documented 16-bit pt_t
    lb = [b for b in small_bodies(LINE_ATOMS, 2)]
    lo, hi = [], []
    for L in LINE_PLACEMENTS:
        for b in lb:
            p = dict(body=b, fam='lines', first_line=L, text='@%d %s' % (L, describe(b)))
            em = emit_function('x', b, 0, first_line=L)
            (lo if em.maxline <= LINE_REQUIRED else hi).append(p)
    half = (len(lo) + 1) // 2
    units += [('lines', lo[:half], ''), ('lines', lo[half:], ''), ('lines_beyond', hi, '')]
    # fibre: PT_BEGIN_FIBRE
    fb = [dict(body=b, fam='fibre', fibre=True, text='fibre %s' % describe(b)) for b in [[]] + lb]
    units += [('fibre', fb, '#include <librfn/fibre.h>\n')]
    base, files, fams, diag_files = 0, [], {}, []
    for k, (tag, progs, inc) in enumerate(units):
        fname = 'c08_small_%d.c' % k
        write_unit(bdir, fname, 'c08_small_%d' % k, progs, base, 'sp', inc)
        files.append((fname, tag, len(progs)))
        if tag != 'lines_beyond':
            diag_files.append(fname)
        for p in progs:
            fams[p['fam']] = fams.get(p['fam'], 0) + 1
        base += len(progs)
    write_table(bdir, 'c08_small.h', ['c08_small_%d' % k for k in range(len(units))], base)
    return base, files, fams, diag_files


if __name__ == '__main__':
    import sys
    print(generate(sys.argv[1], int(sys.argv[2]), int(sys.argv[3]), int(sys.argv[4])))
    print(generate_small(sys.argv[1])[:3])

"""Generator for C08: enumerates every protothread body up to a size bound and emits each one twice -
as C source using the real PT_* macros of <librfn/protothreads.h> (one blocking macro per line, none in a
nested switch), and as a flat instruction table for the reference interpreter in c08_protothreads.c.

Statements ("atoms"):  Y yield, W wait, U wait_until(env), X exit, F fail, XO exit_on(env), FO fail_on(env),
SP/SC/CA/SO(child): PT_SPAWN / PT_SPAWN_AND_CHECK / PT_CALL / PT_SPAWN followed by an effect that reports
PT_CHILD_OK().  Compound: IF(env){...}else{...}, FOR(v=0;v<2;v++){...} with a persistent loop variable; and the unbraced forms
IFU "if (env) STMT; [else STMT;]" and FORU "for (...) STMT;" whose body is one PT_* statement without braces.
After every statement an effect with a unique number is emitted, so the sequence of side effects identifies
the path taken.
"""
import itertools, os

# ---- fixed pool of children (children of children give spawn depth 2)
CHILDREN = [
    ['Y'],                      # c0 yields once, exits
    ['U'],                      # c1 waits until the environment says so
    ['FO', 'Y'],                # c2 may fail, else yields
    ['XO', 'W', 'F'],           # c3 may exit at once, else waits and then fails
    [('SC', 2), 'Y'],           # c4 spawns c2 and checks it (relays a failure), then yields
    [('SO', 3), ('FOR', ['Y'])],  # c5 spawns c3 reporting PT_CHILD_OK, then a loop with a yield
]
# XOd / FOd: the condition is a double (0.5 when the environment says true): any scalar is a legal condition
SIMPLE = ['Y', 'W', 'U', 'X', 'F', 'XO', 'FO', 'XOd', 'FOd']
SPAWNS = ['SP', 'SC', 'CA', 'SO']


REDUCED = None   # when set: the atom list used instead of the full one (larger bodies over a smaller alphabet)


def atoms(depth_children):
    if REDUCED is not None:
        return list(REDUCED)
    a = list(SIMPLE)
    for k in SPAWNS:
        for c in range(len(CHILDREN)):
            a.append((k, c))
    return a


def unbraced_atoms():
    """atoms that are ONE statement in C and may therefore be the unbraced body of an if / else / for
    (SO is this generator's own two-statement composite and is left out)"""
    return [a for a in atoms(0) if not (isinstance(a, tuple) and a[0] == 'SO')]


def size(item):
    if isinstance(item, tuple) and item[0] == 'IFU':
        return 2 + (1 if item[2] is not None else 0)
    if isinstance(item, tuple) and item[0] == 'FORU':
        return 2
    if isinstance(item, tuple) and item[0] == 'IF':
        return 1 + sum(size(x) for x in item[1]) + sum(size(x) for x in item[2])
    if isinstance(item, tuple) and item[0] == 'FOR':
        return 1 + sum(size(x) for x in item[1])
    return 1


def bodies(n, nest, allow_empty=False):
    """all statement lists with exactly n nodes, compound nesting <= nest"""
    if n == 0:
        yield []
        return
    for first_size in range(1, n + 1):
        for first in items(first_size, nest):
            for rest in bodies(n - first_size, nest):
                yield [first] + rest


def items(n, nest):
    if n == 1:
        for a in atoms(0):
            yield a
        return
    if nest <= 0:
        return
    # unbraced forms: "if (c) STMT;", "if (c) STMT; else STMT;", "for (...) STMT;" - a PT_* macro is documented as a statement
    if n == 2:
        for a in unbraced_atoms():
            yield ('IFU', a, None)
            yield ('FORU', a)
    if n == 3:
        for a in unbraced_atoms():
            for b in unbraced_atoms():
                yield ('IFU', a, b)
    # IF with then/else bodies (else may be empty), FOR with a non-empty body
    inner = n - 1
    for nt in range(0, inner + 1):
        for t in bodies(nt, nest - 1):
            for e in bodies(inner - nt, nest - 1):
                if nt == 0 and inner - nt == 0:
                    continue
                yield ('IF', t, e)
    for b in bodies(inner, nest - 1):
        if b:
            yield ('FOR', b)


class Emitter:
    def __init__(self):
        self.c = []        # C lines
        self.code = []     # VM instructions (op, a, b)
        self.eff = 0
        self.envid = 0

    def effect(self, ind):
        self.eff += 1
        self.c.append('%sE_emit(E, %d);' % (ind, self.eff))
        self.code.append(('EMIT', self.eff, 0))

    def env(self):
        self.envid += 1
        return self.envid

    def stmt(self, s, ind, loopdepth, cdepth):
        C, V = self.c, self.code
        if s == 'Y':
            C.append(ind + 'PT_YIELD();'); V.append(('YIELD', 0, 0))
        elif s == 'W':
            C.append(ind + 'PT_WAIT();'); V.append(('WAIT', 0, 0))
        elif s == 'U':
            e = self.env(); C.append(ind + 'PT_WAIT_UNTIL(E_env(E, %d));' % e); V.append(('WAIT_UNTIL', e, 0))
        elif s == 'X':
            C.append(ind + 'PT_EXIT();'); V.append(('EXIT', 0, 0))
        elif s == 'F':
            C.append(ind + 'PT_FAIL();'); V.append(('FAIL', 0, 0))
        elif s == 'XO':
            e = self.env(); C.append(ind + 'PT_EXIT_ON(E_env(E, %d));' % e); V.append(('EXIT_ON', e, 0))
        elif s == 'FO':
            e = self.env(); C.append(ind + 'PT_FAIL_ON(E_env(E, %d));' % e); V.append(('FAIL_ON', e, 0))
        elif s == 'XOd':
            e = self.env(); C.append(ind + 'PT_EXIT_ON(E_envd(E, %d));' % e); V.append(('EXIT_ON', e, 0))
        elif s == 'FOd':
            e = self.env(); C.append(ind + 'PT_FAIL_ON(E_envd(E, %d));' % e); V.append(('FAIL_ON', e, 0))
        elif isinstance(s, tuple) and s[0] in SPAWNS:
            k, c = s
            call = 'child%d(&E->cpt[%d], E)' % (c, cdepth)
            if k == 'SP' or k == 'SO':
                C.append(ind + 'PT_SPAWN(&E->cpt[%d], %s);' % (cdepth, call))
                V.append(('SPAWN_INIT', c, cdepth)); V.append(('RUN', c, cdepth))
                if k == 'SO':
                    C.append(ind + 'E_emit(E, 100 + PT_CHILD_OK());'); V.append(('EMIT_OK', 0, 0))
            elif k == 'SC':
                C.append(ind + 'PT_SPAWN_AND_CHECK(&E->cpt[%d], %s);' % (cdepth, call))
                V.append(('SPAWN_INIT', c, cdepth)); V.append(('RUN', c, cdepth)); V.append(('CHECK', 0, 0))
            else:
                C.append(ind + 'PT_CALL(&E->cpt[%d], %s);' % (cdepth, call))
                V.append(('CALL', c, cdepth))
        elif s[0] == 'IFU':
            e = self.env()
            C.append(ind + 'if (E_env(E, %d))' % e)
            jz = len(V); V.append(['JZ', e, None])
            self.stmt(s[1], ind + '\t', loopdepth, cdepth)
            if s[2] is not None:
                C.append(ind + 'else')
                jmp = len(V); V.append(['JMP', None, 0])
                V[jz][2] = len(V)
                self.stmt(s[2], ind + '\t', loopdepth, cdepth)
                V[jmp][1] = len(V)
            else:
                V[jz][2] = len(V)
        elif s[0] == 'FORU':
            d = loopdepth
            C.append(ind + 'for (E->v[%d] = 0; E->v[%d] < 2; E->v[%d]++)' % (d, d, d))
            V.append(('SETV', d, 0))
            top = len(V); V.append(['JGE2', d, None])
            self.stmt(s[1], ind + '\t', loopdepth + 1, cdepth)
            V.append(('INCV', d, 0)); V.append(('JMP', top, 0))
            V[top][2] = len(V)
        elif s[0] == 'IF':
            e = self.env()
            C.append(ind + 'if (E_env(E, %d)) {' % e)
            jz = len(V); V.append(['JZ', e, None])
            for x in s[1]:
                self.stmt(x, ind + '\t', loopdepth, cdepth); self.effect(ind + '\t')
            C.append(ind + '} else {')
            jmp = len(V); V.append(['JMP', None, 0])
            V[jz][2] = len(V)
            for x in s[2]:
                self.stmt(x, ind + '\t', loopdepth, cdepth); self.effect(ind + '\t')
            C.append(ind + '}')
            V[jmp][1] = len(V)
        elif s[0] == 'FOR':
            d = loopdepth
            C.append(ind + 'for (E->v[%d] = 0; E->v[%d] < 2; E->v[%d]++) {' % (d, d, d))
            V.append(('SETV', d, 0))
            top = len(V); V.append(['JGE2', d, None])
            for x in s[1]:
                self.stmt(x, ind + '\t', loopdepth + 1, cdepth); self.effect(ind + '\t')
            V.append(('INCV', d, 0)); V.append(('JMP', top, 0))
            V[top][2] = len(V)
            C.append(ind + '}')
        else:
            raise ValueError(s)


def emit_function(name, body, cdepth, static=True, loopbase=0):
    em = Emitter()
    em.c.append('#line 1 "%s"' % name)
    em.c.append('%spt_state_t %s(pt_t *pt, env_t *E)' % ('static ' if static else '', name))
    em.c.append('{')
    em.c.append('\tPT_BEGIN(pt);')
    em.effect('\t')
    for s in body:
        em.stmt(s, '\t', loopbase, cdepth)
        em.effect('\t')
    em.c.append('\tPT_END();')
    em.c.append('}')
    em.code.append(('END', 0, 0))
    return em


OPS = ['EMIT', 'YIELD', 'WAIT', 'WAIT_UNTIL', 'EXIT', 'FAIL', 'EXIT_ON', 'FAIL_ON', 'SPAWN_INIT', 'RUN', 'CHECK', 'EMIT_OK',
       'CALL', 'JZ', 'JMP', 'SETV', 'JGE2', 'INCV', 'END']


def describe(body):
    out = []
    for s in body:
        if isinstance(s, str):
            out.append(s)
        elif s[0] in SPAWNS:
            out.append('%s(c%d)' % s)
        elif s[0] == 'IFU':
            out.append('IFU(%s%s)' % (describe([s[1]]), '' if s[2] is None else '|' + describe([s[2]])))
        elif s[0] == 'FORU':
            out.append('FORU(%s)' % describe([s[1]]))
        elif s[0] == 'IF':
            out.append('IF{%s}{%s}' % (describe(s[1]), describe(s[2])))
        else:
            out.append('FOR{%s}' % describe(s[1]))
    return ';'.join(out)


def child_depth(c):
    """children that spawn use the next cpt slot"""
    return 1


def has_else_unbraced(body):
    for s in body:
        if isinstance(s, tuple):
            if s[0] == 'IFU' and s[2] is not None:
                return True
            if s[0] == 'IF' and (has_else_unbraced(s[1]) or has_else_unbraced(s[2])):
                return True
            if s[0] == 'FOR' and has_else_unbraced(s[1]):
                return True
    return False


ELSE_SHARDS = 2


def generate(bdir, max_nodes, nest, shards, extra_nodes=0):
    """shards 0..shards-1: the programs; shards..shards+ELSE_SHARDS-1: the programs that contain "if (c) STMT; else STMT;"
    (kept apart because they stop compiling when a macro stops being a single statement; each of these shards comes
    with an empty stand-in c08_progs_<n>_empty.c that the driver compiles instead in that case)"""
    global REDUCED
    progs = []
    for n in range(0, max_nodes + 1):
        for b in bodies(n, nest):
            progs.append(b)
    # larger bodies over a reduced alphabet (one representative of each kind of statement)
    if extra_nodes:
        REDUCED = ['Y', 'U', 'FO', 'XOd', ('SP', 1), ('SC', 2), ('CA', 3), ('SO', 5)]
        for n in range(max_nodes + 1, extra_nodes + 1):
            for b in bodies(n, nest):
                progs.append(b)
        REDUCED = None
    # header with the children (their own children use cpt[1], cpt[2])
    with open(os.path.join(bdir, 'c08_children.h'), 'w') as f:
        f.write('/* generated by c08_gen.py */\n')
        # emit in dependency order: c0..c3 first (no children), then c4, c5
        ctab = []
        for i, body in enumerate(CHILDREN):
            em = emit_function('child%d' % i, body, 1, loopbase=4)   # children keep their loop variables in v[4..]
            f.write('\n'.join(em.c) + '\n')
            f.write('#line 1 "c08_children_tab"\n')
            f.write('static const ins_t childcode%d[] = {%s};\n' % (i, ', '.join('{%d,%d,%d}' % (OPS.index(o[0]), o[1], o[2]) for o in em.code)))
        f.write('static const prog_t children[] = {%s};\n' % ', '.join('{child%d, childcode%d, "c%d=%s"}' % (i, i, i, describe(b)) for i, b in enumerate(CHILDREN)))
    main = [b for b in progs if not has_else_unbraced(b)]
    other = [b for b in progs if has_else_unbraced(b)]
    per = (len(main) + shards - 1) // shards
    per2 = (len(other) + ELSE_SHARDS - 1) // ELSE_SHARDS
    chunks = [(s * per, main[s * per:(s + 1) * per]) for s in range(shards)]
    chunks += [(len(main) + s * per2, other[s * per2:(s + 1) * per2]) for s in range(ELSE_SHARDS)]
    progs = main + other
    for s in range(shards, shards + ELSE_SHARDS):
        with open(os.path.join(bdir, 'c08_progs_%d_empty.c' % s), 'w') as f:
            f.write('/* stand-in for c08_progs_%d.c */\n#include "c08.h"\nconst prog_t c08_shard_%d[] = { {0, 0, 0} };\n'
                    'const prog_t *c08_shard_children_%d(void) { return 0; }\n' % (s, s, s))
    for s, (base, chunk) in enumerate(chunks):
        with open(os.path.join(bdir, 'c08_progs_%d.c' % s), 'w') as f:
            f.write('/* generated by c08_gen.py: programs %d.. */\n#include "c08.h"\n#include "c08_children.h"\n' % base)
            names = []
            for i, b in enumerate(chunk):
                idx = base + i
                em = emit_function('prog%d' % idx, b, 0)
                f.write('\n'.join(em.c) + '\n')
                f.write('#line 1 "c08_tab"\n')
                f.write('static const ins_t code%d[] = {%s};\n' % (idx, ', '.join('{%d,%d,%d}' % (OPS.index(o[0]), o[1], o[2]) for o in em.code)))
                names.append((idx, describe(b)))
            f.write('const prog_t c08_shard_%d[] = {\n' % s)
            for idx, d in names:
                f.write(' {prog%d, code%d, "%s"},\n' % (idx, idx, d))
            f.write(' {0, 0, 0}\n};\nconst prog_t *c08_shard_children_%d(void) { return children; }\n' % s)
    with open(os.path.join(bdir, 'c08_shards.h'), 'w') as f:
        for s in range(shards + ELSE_SHARDS):
            f.write('extern const prog_t c08_shard_%d[]; const prog_t *c08_shard_children_%d(void);\n' % (s, s))
        f.write('static const prog_t *const c08_shards[] = {%s};\n' % ', '.join('c08_shard_%d' % s for s in range(shards + ELSE_SHARDS)))
        f.write('#define C08_NSHARDS %d\n#define C08_NPROGS %d\n' % (shards + ELSE_SHARDS, len(progs)))
    return len(progs)


if __name__ == '__main__':
    import sys
    print(generate(sys.argv[1], int(sys.argv[2]), int(sys.argv[3]), int(sys.argv[4])))

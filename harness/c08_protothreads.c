/*
 * C08 - protothreads resume exactly where they blocked and relay child results.
 *
 * Bounded-exhaustive over PROGRAMS: c08_gen.py (run by the check at build time)
 * enumerates every protothread body up to a size bound and emits it (a) as C that
 * uses the real PT_* macros from the current protothreads.h and (b) as a flat
 * instruction table. For every program every sequence of environment answers
 * with a bounded number of departures from "true" is enumerated; the compiled
 * function is invoked until it exits and every invocation (return code, side
 * effects, answers consumed, loop variables) is compared with an interpreter of
 * the table that knows nothing of the macros.
 */
#include "vx.h"
#include "c08.h"
#include "c08_shards.h"

enum { EMIT, YIELD, WAIT, WAIT_UNTIL, EXIT, FAIL, EXIT_ON, FAIL_ON, SPAWN_INIT, RUN, CHECK, EMIT_OK, CALL, JZ, JMP, SETV, JGE2, INCV, END };

/* ---- the reference interpreter: one "protothread" = (code, pc) */
typedef struct vm { const ins_t *code; int pc; } vm_t;
static vm_t vmchild[3];
static const prog_t *children;

static int vm_invoke(vm_t *m, env_t *E)
{
	int spawn_res = PT_YIELDED;	/* PT_CHILD_OK() reflects the child run by this invocation only */
	for (int guard = 0; guard < 10000; guard++) {
		const ins_t *i = &m->code[m->pc];
		switch (i->op) {
		case EMIT: E_emit(E, i->a); m->pc++; break;
		case YIELD: m->pc++; return PT_YIELDED;
		case WAIT: m->pc++; return PT_WAITING;
		case WAIT_UNTIL: if (!E_env(E, i->a)) return PT_WAITING; m->pc++; break;	/* re-evaluated on every resumption */
		case EXIT: return PT_EXITED;
		case FAIL: return PT_FAILED;
		case EXIT_ON: if (E_env(E, i->a)) return PT_EXITED; m->pc++; break;
		case FAIL_ON: if (E_env(E, i->a)) return PT_FAILED; m->pc++; break;
		case SPAWN_INIT: vmchild[i->b].code = children[i->a].code; vmchild[i->b].pc = 0; m->pc++; break;
		case RUN: { int r = vm_invoke(&vmchild[i->b], E); if (r < PT_EXITED) return r; spawn_res = r; m->pc++; break; }
		case CHECK: if (spawn_res == PT_FAILED) return PT_FAILED; m->pc++; break;
		case EMIT_OK: E_emit(E, 100 + (spawn_res != PT_FAILED)); m->pc++; break;
		case CALL: { vmchild[i->b].code = children[i->a].code; vmchild[i->b].pc = 0; while (vm_invoke(&vmchild[i->b], E) < PT_EXITED) ; m->pc++; break; }
		case JZ: m->pc = E_env(E, i->a) ? m->pc + 1 : i->b; break;
		case JMP: m->pc = i->a; break;
		case SETV: E->v[i->a] = 0; m->pc++; break;
		case JGE2: m->pc = E->v[i->a] < 2 ? m->pc + 1 : i->b; break;
		case INCV: E->v[i->a]++; m->pc++; break;
		case END: return PT_EXITED;
		}
	}
	return -1;
}

/* ---- one program under one answer script */
#define MAXANS 40
#define HORIZON 48
static uint8_t ans[MAXANS];
static uint64_t n_runs, n_invocations, n_progs, n_second_runs, ret_count[4], n_blocked_in_child;
static vx_set distinct_traces;

static const prog_t *cur_prog; static int cur_index;
static void fail(const char *clause, int nans, const char *fmt, ...)
{
	va_list ap; va_start(ap, fmt); char *m = vx_vfmt(fmt, ap); va_end(ap);
	vx_sb sig = {0}, rep = {0}, as = {0};
	for (int i = 0; i < nans; i++) vx_sb_printf(&as, "%d", ans[i]);
	vx_sb_printf(&sig, "%s|%s|answers=%s", clause, cur_prog->text, as.s ? as.s : "");
	vx_sb_printf(&rep, "program=%d\ntext=%s\nanswers=%s\n", cur_index, cur_prog->text, as.s ? as.s : "");
	vx_violation(sig.s, rep.s, "%s: program [%s] with environment answers [%s]: %s", clause, cur_prog->text, as.s ? as.s : "", m);
	free(m); free(sig.s); free(rep.s); free(as.s);
}

/* returns the number of answers consumed (so the explorer knows which positions exist), -1 after a violation */
static int run_script(int nans)
{
	env_t R, M; pt_t pt; vm_t vm;
	memset(&R, 0, sizeof(R)); memset(&M, 0, sizeof(M));
	R.ans = M.ans = ans; R.nans = M.nans = nans;
	n_runs++;
	vx_hasher th; vx_h_init(&th); vx_h_u64(&th, (uint64_t)cur_index);	/* programs are partitioned among the workers: (program, trace) pairs are globally distinct */
	for (int round = 0; round < 2; round++) {
		/* round 1: re-invocation after exit, preceded by PT_INIT (the documented way to restart) */
		PT_INIT(&pt); vm.code = cur_prog->code; vm.pc = 0;
		int done = 0;
		for (int k = 0; k < HORIZON && !done; k++) {
			R.neff = M.neff = 0;
			int rr, mr;
			if (VX_TRY) { rr = cur_prog->fn(&pt, &R); VX_END; }
			else { VX_END; fail("fault", nans, "invocation %d of round %d: %s", k, round, vx_fault_msg); return -1; }
			mr = vm_invoke(&vm, &M);
			n_invocations++;
			if (rr >= 0 && rr < 4) ret_count[rr]++;
			vx_h_u64(&th, (uint64_t)rr); for (int e = 0; e < R.neff && e < 64; e++) vx_h_u64(&th, (uint64_t)R.eff[e]);
			if (rr != mr) { fail("return-code", nans, "invocation %d (round %d) returned %d, a sequential reading of the body gives %d (0 yielded, 1 waiting, 2 exited, 3 failed)", k, round, rr, mr); return -1; }
			if (R.neff != M.neff || memcmp(R.eff, M.eff, sizeof(R.eff[0]) * (size_t)(R.neff < 64 ? R.neff : 64))) {
				vx_sb a = {0}, b = {0};
				for (int e = 0; e < R.neff && e < 64; e++) vx_sb_printf(&a, "%d ", R.eff[e]);
				for (int e = 0; e < M.neff && e < 64; e++) vx_sb_printf(&b, "%d ", M.eff[e]);
				fail("side-effects", nans, "invocation %d (round %d) executed effects [%s], a sequential reading of the body cut at its blocking points executes [%s]", k, round, a.s ? a.s : "", b.s ? b.s : "");
				free(a.s); free(b.s); return -1;
			}
			if (R.pos != M.pos) { fail("condition-evaluations", nans, "after invocation %d (round %d) the body has evaluated %d conditions, expected %d (PT_WAIT_UNTIL re-evaluates on every resumption, others once)", k, round, R.pos, M.pos); return -1; }
			if (memcmp(R.v, M.v, sizeof(R.v))) { fail("loop-variable", nans, "persistent loop variables differ after invocation %d", k); return -1; }
			if (rr >= PT_EXITED) done = 1;
		}
		if (!done) { fail("no-exit", nans, "not exited after %d invocations although every later answer is 'true'", HORIZON); return -1; }
		if (round == 0) n_second_runs++;
	}
	vx_set_add(&distinct_traces, vx_h_done(&th));
	return R.pos;
}

/* deviation-bounded enumeration of answer scripts: default answer 1, a deviation flips one consumed position to 0 */
static uint64_t scripts_at_dev[8];
static int explore(int prefix, int devs, int maxdev)
{
	int used = run_script(prefix);
	if (used < 0) return -1;
	scripts_at_dev[devs]++;
	if (devs >= maxdev) return 0;
	if (used > MAXANS) used = MAXANS;
	for (int i = prefix; i < used; i++) {
		for (int j = prefix; j < i; j++) ans[j] = 1;
		ans[i] = 0;
		if (explore(i + 1, devs + 1, maxdev) < 0) return -1;
		ans[i] = 1;
	}
	return 0;
}

int main(int argc, char **argv)
{
	vx_init(argc, argv);
	vx_install_handlers();
	vx_watchdog(2.0);
	vx_set_init(&distinct_traces, 16);
	children = c08_shard_children_0();
	int maxdev = vx_thorough() ? 4 : 3;
	char *rp = vx_read_replay();
	if (rp) {
		const char *pi = vx_replay_field(rp, "program"); int want = pi ? atoi(pi) : -1, idx = 0;
		const char *as = vx_replay_field(rp, "answers");
		char abuf[64]; snprintf(abuf, sizeof(abuf), "%s", as ? as : "");
		for (int s = 0; s < C08_NSHARDS; s++) for (const prog_t *p = c08_shards[s]; p->fn; p++, idx++) if (idx == want) {
			cur_prog = p; cur_index = idx;
			int n = (int)strlen(abuf); for (int i = 0; i < n && i < MAXANS; i++) ans[i] = (uint8_t)(abuf[i] - '0');
			run_script(n);
		}
		vx_finish();
		return 0;
	}
	int idx = 0; uint64_t done = 0, skipped = 0;
	for (int s = 0; s < C08_NSHARDS; s++) for (const prog_t *p = c08_shards[s]; p->fn; p++, idx++) {
		if (!vx_mine((uint64_t)idx)) continue;
		if ((done & 63) == 0 && vx_deadline_passed()) { skipped++; continue; }
		if (skipped) { skipped++; continue; }
		cur_prog = p; cur_index = idx;
		memset(ans, 1, sizeof(ans));
		done++;
		if (explore(0, 0, maxdev) < 0 && vx_too_many_violations()) break;
		if (done % 997 == 1) vx_sample("program %d [%s]: explored with <=%d departures from the default answer", idx, p->text, maxdev);
	}
	n_progs = done;
	vx_count("programs", n_progs); vx_count("programs_skipped_deadline", skipped);
	vx_count("evaluations", n_runs); vx_count("distinct", distinct_traces.n);
	vx_count("invocations_compared", n_invocations); vx_count("restarts_after_exit_compared", n_second_runs);
	for (int d = 0; d <= maxdev; d++) { char nm[48]; snprintf(nm, sizeof(nm), "answer_scripts_with_%d_departures", d); vx_count(nm, scripts_at_dev[d]); }
	vx_count("returns_yielded", ret_count[0]); vx_count("returns_waiting", ret_count[1]); vx_count("returns_exited", ret_count[2]); vx_count("returns_failed", ret_count[3]);
	vx_and("exhaustive", skipped == 0);
	vx_max("max_departures", (uint64_t)maxdev);
	vx_finish();
	return 0;
}

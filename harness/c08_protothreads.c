/*
 * C08 - protothreads resume exactly where they blocked and relay child results.
 *
 * Bounded-exhaustive over PROGRAMS: c08_gen.py (run by the check at build time)
 * enumerates every protothread body up to a size bound and emits it (a) as C that
 * uses the real PT_* macros from the current protothreads.h and (b) as a flat
 * instruction table. For every program every sequence of environment answers
 * with a bounded number of departures from "true" is enumerated; the compiled
 * function is invoked until it exits and every invocation (return code, side
 * effects, answers consumed, loop variables) is compared with an interpreter of
 * the table that knows nothing of the macros.
 */
#include "vx.h"
#include "c08.h"
#ifdef C08_SMALL
/* the small program set (argument forms, user identifiers, line numbers, PT_BEGIN_FIBRE, bodies of <= 2 nodes): cheap
 * enough to be built once per build configuration. Its fibre family runs under the real scheduler (fibre.c linked as an
 * object of its own, reached through the public header only). */
#include <stdio_ext.h>
#include <librfn/fibre.h>
#include "c08_small.h"
#include "c08_diag.h"
#else
#include "c08_shards.h"
#endif
#include "c08_childcode.h"

env_t *c08_fenv;
static const char *const fam_name[] = { "main", "b2", "shape", "ident", "lines", "fibre" };
#define NFAM 6

enum { EMIT, YIELD, WAIT, WAIT_UNTIL, EXIT, FAIL, EXIT_ON, FAIL_ON, SPAWN_INIT, RUN, CHECK, EMIT_OK, CALL, JZ, JMP, SETV, JGE2, INCV, END };

/* ---- the reference interpreter: one "protothread" = (code, pc) */
typedef struct vm { const ins_t *code; int pc; } vm_t;
static vm_t vmchild[3];

static int vm_invoke(vm_t *m, env_t *E)
{
	int spawn_res = PT_YIELDED;	/* PT_CHILD_OK() reflects the child run by this invocation only */
	for (int guard = 0; guard < 10000; guard++) {
		const ins_t *i = &m->code[m->pc];
		switch (i->op) {
		case EMIT: E_emit(E, i->a); m->pc++; break;
		case YIELD: m->pc++; return PT_YIELDED;
		case WAIT: m->pc++; return PT_WAITING;
		case WAIT_UNTIL: if (!E_env(E, i->a)) return PT_WAITING; m->pc++; break;	/* re-evaluated on every resumption */
		case EXIT: return PT_EXITED;
		case FAIL: return PT_FAILED;
		case EXIT_ON: if (E_env(E, i->a)) return PT_EXITED; m->pc++; break;
		case FAIL_ON: if (E_env(E, i->a)) return PT_FAILED; m->pc++; break;
		case SPAWN_INIT: vmchild[i->b].code = c08_childcode[i->a]; vmchild[i->b].pc = 0; m->pc++; break;
		case RUN: { int r = vm_invoke(&vmchild[i->b], E); if (r < PT_EXITED) return r; spawn_res = r; m->pc++; break; }
		case CHECK: if (spawn_res == PT_FAILED) return PT_FAILED; m->pc++; break;
		case EMIT_OK: E_emit(E, 100 + (spawn_res != PT_FAILED)); m->pc++; break;
		case CALL: { vmchild[i->b].code = c08_childcode[i->a]; vmchild[i->b].pc = 0; while (vm_invoke(&vmchild[i->b], E) < PT_EXITED) ; m->pc++; break; }
		case JZ: m->pc = E_env(E, i->a) ? m->pc + 1 : i->b; break;
		case JMP: m->pc = i->a; break;
		case SETV: E->v[i->a] = 0; m->pc++; break;
		case JGE2: m->pc = E->v[i->a] < 2 ? m->pc + 1 : i->b; break;
		case INCV: E->v[i->a]++; m->pc++; break;
		case END: return PT_EXITED;
		}
	}
	return -1;
}

/* ---- one program under one answer script */
#define MAXANS 40
#define HORIZON 48
static uint8_t ans[MAXANS];
static uint64_t n_runs, n_invocations, n_progs, n_second_runs, ret_count[4], n_blocked_in_child;
static uint64_t fam_progs[NFAM], fam_runs[NFAM], fam_beyond[NFAM], n_fibre_dispatches;
static vx_set distinct_traces;

static const prog_t *cur_prog; static int cur_index;
static void fail(const char *clause, int nans, const char *fmt, ...)
{
	va_list ap; va_start(ap, fmt); char *m = vx_vfmt(fmt, ap); va_end(ap);
	vx_sb sig = {0}, rep = {0}, as = {0};
	for (int i = 0; i < nans; i++) vx_sb_printf(&as, "%d", ans[i]);
	vx_sb_printf(&sig, "%s|%s|answers=%s", clause, cur_prog->text, as.s ? as.s : "");
	vx_sb_printf(&rep, "program=%d\ntext=%s\nanswers=%s\n", cur_index, cur_prog->text, as.s ? as.s : "");
	vx_violation(sig.s, rep.s, "%s: program [%s] with environment answers [%s]: %s", clause, cur_prog->text, as.s ? as.s : "", m);
	free(m); free(sig.s); free(rep.s); free(as.s);
}

/* ---- scope of the line numbers: a blocking macro stores __LINE__ in a pt_t. Lines up to 65535 (what the documented
 * 16-bit pt_t holds) must work; higher ones are judged only when the library's pt_t can hold them. */
static uint64_t pt_max_line(void)
{
	pt_t m = (pt_t)-1;
	if (m > 0) return (uint64_t)m;						/* unsigned */
	return sizeof(pt_t) >= 8 ? INT64_MAX : (1ULL << (sizeof(pt_t) * 8 - 1)) - 1;	/* signed */
}
static int in_scope(const prog_t *p) { return p->maxline <= 65535 || p->maxline <= pt_max_line(); }

#ifdef C08_SMALL
/* ---- a fibre body is invoked by the real scheduler: fibre_run() when it is not queued (first run, after a wait, after
 * exit), then one fibre_scheduler_next(); the scheduler re-initialises an exited fibre itself */
static fibre_t c08_fib; static int c08_fib_ret, c08_fib_calls; static uint32_t c08_now;
static int c08_fib_entry(fibre_t *f) { c08_fib_calls++; return c08_fib_ret = cur_prog->ffn(f); }
uint32_t time_now(void) { return c08_now; }	/* platform hook referenced by util.c (ratelimit_check), never called here */
#endif

/* one invocation of the compiled program; -100: the scheduler did not dispatch the fibre exactly once */
static int last_dispatches;
static int invoke(pt_t *pt, env_t *R, int queue)
{
#ifdef C08_SMALL
	if (cur_prog->ffn) {
		c08_fenv = R;
		if (queue) fibre_run(&c08_fib);
		c08_fib_calls = 0;
		(void)fibre_scheduler_next(++c08_now);
		n_fibre_dispatches++;
		last_dispatches = c08_fib_calls;
		return c08_fib_calls == 1 ? c08_fib_ret : -100;
	}
#endif
	(void)queue;
	return cur_prog->fn(pt, R);
}

/* returns the number of answers consumed (so the explorer knows which positions exist), -1 after a violation */
static int run_script(int nans)
{
	env_t R, M; pt_t pt; vm_t vm;
	memset(&R, 0, sizeof(R)); memset(&M, 0, sizeof(M));
	R.ans = M.ans = ans; R.nans = M.nans = nans;
	n_runs++; fam_runs[cur_prog->fam]++;
	vx_lib_reset();		/* statics of the linked library (the scheduler of the fibre family) cannot leak between cases */
#ifdef C08_SMALL
	if (cur_prog->ffn) { fibre_init(&c08_fib, c08_fib_entry); c08_now = 0; }
#endif
	vx_hasher th; vx_h_init(&th); vx_h_u64(&th, (uint64_t)cur_index);	/* programs are partitioned among the workers: (program, trace) pairs are globally distinct */
	for (int round = 0; round < 2; round++) {
		/* round 1: re-invocation after exit, preceded by PT_INIT (the documented way to restart) */
		PT_INIT(&pt); vm.code = cur_prog->code; vm.pc = 0;
		int done = 0, queue = 1;
		for (int k = 0; k < HORIZON && !done; k++) {
			R.neff = M.neff = 0;
			int rr, mr;
			if (VX_TRY) { rr = invoke(&pt, &R, queue); VX_END; }
			else { VX_END; fail("fault", nans, "invocation %d of round %d: %s", k, round, vx_fault_msg); return -1; }
			if (rr == -100) { fail("fibre-dispatch", nans, "invocation %d of round %d: after fibre_run() (when not queued) one fibre_scheduler_next() called the fibre %d times", k, round, last_dispatches); return -1; }
			mr = vm_invoke(&vm, &M);
			n_invocations++;
			if (rr >= 0 && rr < 4) ret_count[rr]++;
			vx_h_u64(&th, (uint64_t)rr); for (int e = 0; e < R.neff && e < 64; e++) vx_h_u64(&th, (uint64_t)R.eff[e]);
			if (rr != mr) { fail("return-code", nans, "invocation %d (round %d) returned %d, a sequential reading of the body gives %d (0 yielded, 1 waiting, 2 exited, 3 failed)", k, round, rr, mr); return -1; }
			if (R.neff != M.neff || memcmp(R.eff, M.eff, sizeof(R.eff[0]) * (size_t)(R.neff < 64 ? R.neff : 64))) {
				vx_sb a = {0}, b = {0};
				for (int e = 0; e < R.neff && e < 64; e++) vx_sb_printf(&a, "%d ", R.eff[e]);
				for (int e = 0; e < M.neff && e < 64; e++) vx_sb_printf(&b, "%d ", M.eff[e]);
				fail("side-effects", nans, "invocation %d (round %d) executed effects [%s], a sequential reading of the body cut at its blocking points executes [%s]", k, round, a.s ? a.s : "", b.s ? b.s : "");
				free(a.s); free(b.s); return -1;
			}
			if (R.pos != M.pos) { fail("condition-evaluations", nans, "after invocation %d (round %d) the body has evaluated %d conditions, expected %d (PT_WAIT_UNTIL re-evaluates on every resumption, others once)", k, round, R.pos, M.pos); return -1; }
			if (memcmp(R.v, M.v, sizeof(R.v))) { fail("loop-variable", nans, "persistent loop variables differ after invocation %d", k); return -1; }
			if (rr >= PT_EXITED) done = 1;
			queue = rr != PT_YIELDED;	/* a yielded fibre stays scheduled; a waiting one has to be woken */
		}
		if (!done) { fail("no-exit", nans, "not exited after %d invocations although every later answer is 'true'", HORIZON); return -1; }
		if (round == 0) n_second_runs++;
	}
	/* b2 repeats programs of the main set under other build configurations: run and judged, but not counted as distinct again */
	if (cur_prog->fam != 1) vx_set_add(&distinct_traces, vx_h_done(&th));
	return R.pos;
}

/* deviation-bounded enumeration of answer scripts: default answer 1, a deviation flips one consumed position to 0 */
static uint64_t scripts_at_dev[8];
static int explore(int prefix, int devs, int maxdev)
{
	int used = run_script(prefix);
	if (used < 0) return -1;
	scripts_at_dev[devs]++;
	if (devs >= maxdev) return 0;
	if (used > MAXANS) used = MAXANS;
	for (int i = prefix; i < used; i++) {
		for (int j = prefix; j < i; j++) ans[j] = 1;
		ans[i] = 0;
		if (explore(i + 1, devs + 1, maxdev) < 0) return -1;
		ans[i] = 1;
	}
	return 0;
}

int main(int argc, char **argv)
{
	vx_init(argc, argv);
	vx_install_handlers();
	vx_watchdog(2.0);
	vx_set_init(&distinct_traces, 16);
#ifdef CONFIG_PT_UNWIND
	/* the unwind messages of PT_FAIL go to stdout: discard them; no stdio lock, so that a fault caught in the middle of
	 * one cannot leave the stream locked */
	if (!freopen("/dev/null", "w", stdout)) _exit(3);
#ifdef C08_SMALL
	__fsetlocking(stdout, FSETLOCKING_BYCALLER);
#endif
#endif
	int maxdev = vx_thorough() ? 4 : 3;
	char *rp = vx_read_replay();
	if (rp) {
		const char *pi = vx_replay_field(rp, "program"); int want = pi ? atoi(pi) : -1, idx = 0;
		const char *as = vx_replay_field(rp, "answers");
		char abuf[64]; snprintf(abuf, sizeof(abuf), "%s", as ? as : "");
		for (int s = 0; s < C08_NSHARDS; s++) for (const prog_t *p = c08_shards[s]; p->code; p++, idx++) if (idx == want && in_scope(p)) {
			cur_prog = p; cur_index = idx;
			int n = (int)strlen(abuf); for (int i = 0; i < n && i < MAXANS; i++) ans[i] = (uint8_t)(abuf[i] - '0');
			run_script(n);
		}
		vx_finish();
		return 0;
	}
	int idx = 0; uint64_t done = 0, skipped = 0, beyond = 0, highest = 0; int sampled[NFAM] = {0};
	for (int s = 0; s < C08_NSHARDS; s++) for (const prog_t *p = c08_shards[s]; p->code; p++, idx++) {
		if (!vx_mine((uint64_t)idx)) continue;
		if (!in_scope(p)) { beyond++; fam_beyond[p->fam]++; continue; }
		if ((done & 63) == 0 && vx_deadline_passed()) { skipped++; continue; }
		if (skipped) { skipped++; continue; }
		if (vx_hangs_seen >= 3) { skipped++; continue; }	/* every hang costs watchdog periods: a few are enough */
		cur_prog = p; cur_index = idx;
		memset(ans, 1, sizeof(ans));
		done++; fam_progs[p->fam]++;
		if (p->maxline > highest) highest = p->maxline;
		if (explore(0, 0, maxdev) < 0 && vx_too_many_violations()) break;
		if (vx_args.worker == 0 && (!sampled[p->fam] || (p->fam == 0 && done % 997 == 1))) {
			sampled[p->fam] = 1;
			vx_sample("%s program %d [%s]: explored with <=%d departures from the default answer", fam_name[p->fam], idx, p->text, maxdev);
		}
	}
	n_progs = done;
	vx_count("programs", n_progs); vx_count("programs_skipped_deadline", skipped);
	vx_count("evaluations", n_runs); vx_count("distinct", distinct_traces.n);
	vx_count("invocations_compared", n_invocations); vx_count("restarts_after_exit_compared", n_second_runs);
	for (int d = 0; d <= maxdev; d++) { char nm[48]; snprintf(nm, sizeof(nm), "answer_scripts_with_%d_departures", d); vx_count(nm, scripts_at_dev[d]); }
	vx_count("returns_yielded", ret_count[0]); vx_count("returns_waiting", ret_count[1]); vx_count("returns_exited", ret_count[2]); vx_count("returns_failed", ret_count[3]);
#ifdef C08_SMALL
	/* per-family counts of the small set; a family whose compile unit was left out shows as 0 programs */
	for (int f = 1; f < NFAM; f++) {
		char nm[64];
		snprintf(nm, sizeof(nm), "programs_%s", fam_name[f]); vx_count(nm, fam_progs[f]);
		snprintf(nm, sizeof(nm), "evaluations_%s", fam_name[f]); vx_count(nm, fam_runs[f]);
	}
	vx_count("programs_lines_beyond_pt_t_not_judged", beyond);
	vx_count("fibre_invocations_through_scheduler", n_fibre_dispatches);
	vx_max("highest_line_of_a_blocking_point_judged", highest);
	vx_max("highest_line_pt_t_can_hold", pt_max_line() > 0xffffffffULL ? 0xffffffffULL : pt_max_line());
	for (int i = 0; c08_diag[i]; i++) vx_note("%s", c08_diag[i]);
#else
	(void)beyond; (void)highest;
#endif
	vx_and("exhaustive", skipped == 0);
	vx_max("max_departures", (uint64_t)maxdev);
	vx_finish();
	return 0;
}

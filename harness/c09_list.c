/*
 * C09 - the linked list behaves as a sequence under every order of operations.
 *
 * Explicit-state BFS to a fixpoint over the real list.c: the live state is
 * (two lists, a pool of nodes, one iterator per list) + a boring array model.
 * After every operation the real list is traversed both by head/next and by a
 * scratch iterator and compared with the model together with every return
 * value. Canonical state = raw image (fixed addresses), so a stale tail
 * pointer of an empty list is part of the state and never merged away.
 */
#include "vx.h"

/* list.c is linked as an object of its own (bin/checks.d/C09.py: lib=['list.c']): nothing here shares a translation
 * unit with it, and whatever it keeps in statics is part of every snapshot (vx_lib_*) */
#include <librfn/util.h>
#include <librfn/list.h>

#define MAXN 6
#define NL 2

typedef struct { list_node_t link; int key; } node_t;

static struct live {
	list_t lists[NL];
	node_t nodes[MAXN];
	list_iterator_t iters[NL];
	/* model */
	int8_t mlist[NL][MAXN]; int8_t mlen[NL];
	int8_t mpos[NL];		/* iterator position 0..len, -1 = not valid */
	int8_t where[MAXN];		/* list index or -1 */
} L;

static int N;				/* nodes in this configuration */
static int keys[MAXN];

enum { OP_INSERT, OP_PUSH, OP_SORTED, OP_EXTRACT, OP_REMOVE, OP_CONTAINS, OP_CONTAINS_IT,
       OP_ITERATE, OP_NEXT, OP_IT_INSERT, OP_IT_REMOVE, OP_KINDS };
static const char *opname[] = { "insert", "push", "insert_sorted", "extract", "remove", "contains",
	"contains_iter", "iterate", "iterator_next", "iterator_insert", "iterator_remove" };
/* op code = (kind * NL + list) * MAXN + node */
#define NOPS (OP_KINDS * NL * MAXN)
static uint64_t exercised[OP_KINDS];

static int cmp_key(list_node_t *a, list_node_t *b)
{
	return containerof(a, node_t, link)->key - containerof(b, node_t, link)->key;
}
static int idx_of(list_node_t *n)
{
	if (!n) return -1;
	for (int i = 0; i < N; i++) if (n == &L.nodes[i].link) return i;
	return -2;	/* not one of ours */
}
static int model_sorted(int l)
{
	for (int i = 1; i < L.mlen[l]; i++) if (keys[L.mlist[l][i - 1]] > keys[L.mlist[l][i]]) return 0;
	return 1;
}
static void m_insert_at(int l, int pos, int n)
{
	for (int i = L.mlen[l]; i > pos; i--) L.mlist[l][i] = L.mlist[l][i - 1];
	L.mlist[l][pos] = (int8_t)n; L.mlen[l]++; L.where[n] = (int8_t)l;
}
static void m_remove_at(int l, int pos)
{
	L.where[L.mlist[l][pos]] = -1;
	for (int i = pos; i < L.mlen[l] - 1; i++) L.mlist[l][i] = L.mlist[l][i + 1];
	L.mlen[l]--;
	L.mlist[l][L.mlen[l]] = 0;	/* keep dead model bytes canonical */
}
static int m_find(int l, int n)
{
	for (int i = 0; i < L.mlen[l]; i++) if (L.mlist[l][i] == n) return i;
	return -1;
}
/* a mutation that does not go through list l's iterator makes that iterator
 * unusable until it is positioned again; its (dead) contents are cleared so
 * that states differing only in dead iterator bytes are merged. */
static void invalidate(int l) { L.mpos[l] = -1; memset(&L.iters[l], 0, sizeof(L.iters[l])); }

static int op_enabled(int op)
{
	int n = op % MAXN, l = (op / MAXN) % NL, k = op / MAXN / NL;
	switch (k) {
	case OP_INSERT: case OP_PUSH: return n < N && L.where[n] < 0;
	case OP_SORTED: return n < N && L.where[n] < 0 && model_sorted(l);
	case OP_EXTRACT: case OP_ITERATE: return n == 0;
	case OP_REMOVE: case OP_CONTAINS: case OP_CONTAINS_IT: return n < N;
	case OP_NEXT: return n == 0 && L.mpos[l] >= 0;
	case OP_IT_INSERT: return n < N && L.where[n] < 0 && L.mpos[l] >= 0;
	case OP_IT_REMOVE: return n == 0 && L.mpos[l] >= 0 && L.mpos[l] < L.mlen[l];
	}
	return 0;
}
static void op_describe(int op, vx_sb *sb)
{
	int n = op % MAXN, l = (op / MAXN) % NL, k = op / MAXN / NL;
	switch (k) {
	case OP_EXTRACT: case OP_ITERATE: case OP_NEXT: case OP_IT_REMOVE:
		vx_sb_printf(sb, "%s(L%d)", opname[k], l); break;
	default: vx_sb_printf(sb, "%s(L%d,n%d)", opname[k], l, n);
	}
}

/* full comparison of the real lists with the model. The part that goes through the public API (list_iterate, ...)
 * works on the live state but the caller puts the state back afterwards: an observation must not repair (or damage)
 * anything for the operations that follow - those run from the state the operation under test left behind. */
static uint64_t free_nodes_with_link;
static int check_all_inner(void);
static int check_all(void)
{
	static struct live keep; static void *libkeep;
	if (!libkeep && vx_lib_size()) libkeep = malloc(vx_lib_size());
	keep = L; if (libkeep) vx_lib_save(libkeep);
	int bad = check_all_inner();
	L = keep; if (libkeep) vx_lib_restore(libkeep);
	return bad;
}
static int check_all_inner(void)
{
	for (int l = 0; l < NL; l++) {
		list_t *lp = &L.lists[l];
		/* head/next traversal, bounded so a cycle cannot hang us */
		list_node_t *p = lp->head; int i = 0;
		for (; p && i <= N; p = p->next, i++) {
			if (i >= L.mlen[l] || idx_of(p) != L.mlist[l][i]) {
				vx_bfs_fail("traverse", "list L%d position %d holds n%d, model has %d elements%s",
					l, i, idx_of(p), L.mlen[l], i < L.mlen[l] ? " (different node)" : "");
				return 1;
			}
		}
		if (i != L.mlen[l]) { vx_bfs_fail("traverse", "list L%d has %d elements, model %d", l, i, L.mlen[l]); return 1; }
		/* the same through the public iterator */
		list_iterator_t it; i = 0;
		for (p = list_iterate(lp, &it); p && i <= N; p = list_iterator_next(&it), i++)
			if (i >= L.mlen[l] || idx_of(p) != L.mlist[l][i]) {
				vx_bfs_fail("iterate", "iteration of L%d yields n%d at position %d", l, idx_of(p), i);
				return 1;
			}
		if (i != L.mlen[l]) { vx_bfs_fail("iterate", "iteration of L%d yields %d elements, model %d", l, i, L.mlen[l]); return 1; }
		if (list_iterator_next(&it) != NULL) { vx_bfs_fail("iterate", "iterator_next past the end of L%d is not NULL", l); return 1; }
		if (list_empty(lp) != (L.mlen[l] == 0)) { vx_bfs_fail("empty", "list_empty(L%d) wrong", l); return 1; }
		if (idx_of(list_peek(lp)) != (L.mlen[l] ? L.mlist[l][0] : -1)) { vx_bfs_fail("peek", "list_peek(L%d) wrong", l); return 1; }
	}
	/* not judged: the statement says a removed node is "immediately reusable" - that is decided by reusing it (every
	 * insert operation is enabled for every free node in every state), not by what its link field holds meanwhile */
	for (int n = 0; n < N; n++) if (L.where[n] < 0 && L.nodes[n].link.next != NULL) free_nodes_with_link++;
	return 0;
}

static int op_apply(int op)
{
	int n = op % MAXN, l = (op / MAXN) % NL, k = op / MAXN / NL;
	list_t *lp = &L.lists[l]; list_node_t *np = &L.nodes[n].link, *r;
	int pos, exp; bool b;
	exercised[k]++;
	if (!(VX_TRY)) {
		VX_END;
		vx_bfs_fail("fault", "%s", vx_fault_msg);
		return 1;
	}
	switch (k) {
	case OP_INSERT:
		list_insert(lp, np); m_insert_at(l, L.mlen[l], n); invalidate(l); break;
	case OP_PUSH:
		list_push(lp, np); m_insert_at(l, 0, n); invalidate(l); break;
	case OP_SORTED:
		list_insert_sorted(lp, np, cmp_key);
		for (pos = 0; pos < L.mlen[l] && keys[L.mlist[l][pos]] <= keys[n]; pos++) ;
		m_insert_at(l, pos, n); invalidate(l); break;
	case OP_EXTRACT:
		r = list_extract(lp);
		exp = L.mlen[l] ? L.mlist[l][0] : -1;
		if (idx_of(r) != exp) { VX_END; vx_bfs_fail("extract", "list_extract returned n%d, expected n%d", idx_of(r), exp); return 1; }
		if (exp >= 0) { m_remove_at(l, 0); invalidate(l); }	/* nothing extracted: nothing changed */
		break;
	case OP_REMOVE:
		b = list_remove(lp, np); pos = m_find(l, n);
		if (b != (pos >= 0)) { VX_END; vx_bfs_fail("remove", "list_remove returned %d, membership is %d", b, pos >= 0); return 1; }
		if (pos >= 0) { m_remove_at(l, pos); invalidate(l); }
		break;
	case OP_CONTAINS:
		b = list_contains(lp, np, NULL); pos = m_find(l, n);
		if (b != (pos >= 0)) { VX_END; vx_bfs_fail("contains", "list_contains returned %d, membership is %d", b, pos >= 0); return 1; }
		break;
	case OP_CONTAINS_IT:
		b = list_contains(lp, np, &L.iters[l]); pos = m_find(l, n);
		if (b != (pos >= 0)) { VX_END; vx_bfs_fail("contains", "list_contains(iter) returned %d, membership is %d", b, pos >= 0); return 1; }
		L.mpos[l] = (int8_t)(pos >= 0 ? pos : L.mlen[l]);
		break;
	case OP_ITERATE:
		r = list_iterate(lp, &L.iters[l]);
		exp = L.mlen[l] ? L.mlist[l][0] : -1;
		if (idx_of(r) != exp) { VX_END; vx_bfs_fail("iterate", "list_iterate returned n%d, expected n%d", idx_of(r), exp); return 1; }
		L.mpos[l] = 0; break;
	case OP_NEXT:
		r = list_iterator_next(&L.iters[l]);
		if (L.mpos[l] < L.mlen[l]) L.mpos[l]++;
		exp = L.mpos[l] < L.mlen[l] ? L.mlist[l][L.mpos[l]] : -1;
		if (idx_of(r) != exp) { VX_END; vx_bfs_fail("iterator_next", "returned n%d, expected n%d", idx_of(r), exp); return 1; }
		break;
	case OP_IT_INSERT:
		list_iterator_insert(&L.iters[l], np);
		m_insert_at(l, L.mpos[l], n);	/* iterator now points at the new node: same index */
		break;
	case OP_IT_REMOVE:
		r = list_iterator_remove(&L.iters[l]);
		m_remove_at(l, L.mpos[l]);
		exp = L.mpos[l] < L.mlen[l] ? L.mlist[l][L.mpos[l]] : -1;
		if (idx_of(r) != exp) { VX_END; vx_bfs_fail("iterator_remove", "returned n%d, expected n%d", idx_of(r), exp); return 1; }
		break;
	}
	int bad = check_all();
	VX_END;
	return bad;
}

static void op_canon(vx_hasher *h) { vx_h_bytes(h, &L, sizeof(L)); }

static const struct { const char *name; int n; int keys[MAXN]; int thorough; } configs[] = {
	{ "n4-1223", 4, { 1, 2, 2, 3 }, 0 },
	{ "n3-221", 3, { 2, 2, 1 }, 0 },
	{ "n4-1111", 4, { 1, 1, 1, 1 }, 0 },
	{ "n4-3211", 4, { 3, 2, 1, 1 }, 0 },
	{ "n2-12", 2, { 1, 2 }, 0 },
	{ "n1", 1, { 1 }, 0 },
	{ "n5-12233", 5, { 1, 2, 2, 3, 3 }, 0 },
	{ "n5-32121", 5, { 3, 2, 1, 2, 1 }, 0 },
	/* the comparator returns the difference of the keys as an int: any magnitude is a legal comparator result
	 * (differences that are multiples of 2^8 / 2^16, that change sign when narrowed, that need all 31 bits) */
	{ "n4-wide8", 4, { 0, 256, 256, 512 }, 0 },
	{ "n4-wide16", 4, { 131072, 65536, 65536, 0 }, 0 },
	{ "n4-wideN", 4, { 1, 1000, 1000, 100000 }, 0 },
	{ "n4-wide31", 4, { 1000000000, 0, 0, -1000000000 }, 0 },
	{ "n6-122333", 6, { 1, 2, 2, 3, 3, 3 }, 1 },
	{ "n6-321321", 6, { 3, 2, 1, 3, 2, 1 }, 1 },
};

static void setup(int c)
{
	memset(&L, 0, sizeof(L));
	N = configs[c].n;
	for (int i = 0; i < MAXN; i++) { keys[i] = configs[c].keys[i]; L.nodes[i].key = keys[i]; L.where[i] = -1; }
	for (int l = 0; l < NL; l++) L.mpos[l] = -1;
	/* the documented initialisers, on top of memory that is not zero */
	static const list_t l0 = LIST_VAR_INIT; static const list_node_t n0 = LIST_NODE_VAR_INIT;
	for (int l = 0; l < NL; l++) { memset(&L.lists[l], 0xa5, sizeof(list_t)); L.lists[l] = l0; }
	for (int i = 0; i < MAXN; i++) { memset(&L.nodes[i].link, 0xa5, sizeof(list_node_t)); L.nodes[i].link = n0; }
}

/* ------------------------------------------------------------------ long lists
 * The search above is complete for pools of up to 6 nodes. Lists longer than any pool - on both sides of every width a
 * length, index or hop counter could be narrowed to - are covered by a product family instead of a search:
 *   length n x how the list was built x one probe operation x the position it is aimed at,
 * each case built afresh, the probe compared with an array model (return value, then a full head/next traversal). */
#define BIGMAX 65540
static node_t *big; static list_t biglist; static int32_t *bm; static int bml;
static const int big_lens[] = { 33, 65, 129, 255, 256, 257, 1000, 65535, 65536, 65537 };
enum { B_INSERT, B_PUSH, B_SORTED, B_KINDS };
static const char *bname[] = { "tail-insert", "push", "insert_sorted" };
enum { P_CONTAINS, P_CONTAINS_IT, P_REMOVE, P_IT_REMOVE, P_IT_INSERT, P_EXTRACT, P_WALK, P_KINDS };
static const char *pname[] = { "contains", "contains(iter)+next", "remove", "iterate..iterator_remove", "iterate..iterator_insert", "extract", "iterate to the end" };
static uint64_t big_cases, big_calls;
static int big_n, big_build, big_probe, big_pos;

__attribute__((format(printf, 2, 3)))
static int big_fail(const char *clause, const char *fmt, ...)
{
	va_list ap; va_start(ap, fmt); char *m = vx_vfmt(fmt, ap); va_end(ap);
	char sig[200], rp[200];
	snprintf(sig, sizeof(sig), "long-list|%s|%s|%s", clause, bname[big_build], pname[big_probe]);
	snprintf(rp, sizeof(rp), "long=1\nn=%d\nbuild=%d\nprobe=%d\npos=%d\n", big_n, big_build, big_probe, big_pos);
	vx_violation(sig, rp, "%s: %s -- list of %d nodes built by %s, probe %s at position %d", clause, m, big_n, bname[big_build], pname[big_probe], big_pos);
	free(m);
	return 1;
}
static int big_idx(list_node_t *p) { if (!p) return -1; node_t *q = containerof(p, node_t, link); return q >= big && q < big + BIGMAX ? (int)(q - big) : -2; }
static int big_check(void)
{
	list_node_t *p = biglist.head; int i = 0;
	for (; p && i <= bml; p = p->next, i++)
		if (i >= bml || big_idx(p) != bm[i]) return big_fail("traverse", "position %d holds node %d, the model has %d elements%s", i, big_idx(p), bml, i < bml ? " (a different node there)" : "");
	if (i != bml) return big_fail("traverse", "the list has %d elements, the model %d", i, bml);
	return 0;
}
static void bm_insert(int pos, int node) { memmove(bm + pos + 1, bm + pos, sizeof(bm[0]) * (size_t)(bml - pos)); bm[pos] = node; bml++; }
static void bm_remove(int pos) { memmove(bm + pos, bm + pos + 1, sizeof(bm[0]) * (size_t)(bml - pos - 1)); bml--; }
static int big_cmp(list_node_t *a, list_node_t *b) { return containerof(a, node_t, link)->key - containerof(b, node_t, link)->key; }

static int big_case(int n, int build, int probe, int pos)
{
	static const list_t l0 = LIST_VAR_INIT; static const list_node_t n0 = LIST_NODE_VAR_INIT;
	big_n = n; big_build = build; big_probe = probe; big_pos = pos;
	vx_lib_reset();
	biglist = l0; bml = 0;
	for (int i = 0; i <= n; i++) { big[i].link = n0; big[i].key = build == B_SORTED ? (i * 7) % 10 : i; }
	big_cases++;
	if (!(VX_TRY)) { VX_END; return big_fail("fault", "%s", vx_fault_msg); }
	for (int i = 0; i < n; i++) {
		if (build == B_INSERT) { list_insert(&biglist, &big[i].link); bm[bml++] = i; }
		else if (build == B_PUSH) { list_push(&biglist, &big[i].link); bm[n - 1 - i] = i; bml++; }	/* model filled from the back */
		else {
			int at = 0; while (at < bml && big[bm[at]].key <= big[i].key) at++;
			list_insert_sorted(&biglist, &big[i].link, big_cmp); bm_insert(at, i);
		}
	}
	big_calls += (uint64_t)n;
	if (big_check()) { VX_END; return 1; }
	int target = bm[pos], extra = n;	/* node at the probed position; big[n] is a spare node */
	list_iterator_t it; list_node_t *r; bool b; int i;
	switch (probe) {
	case P_CONTAINS:
		b = list_contains(&biglist, &big[target].link, NULL);
		if (!b) { VX_END; return big_fail("contains", "list_contains says the node at position %d is not a member", pos); }
		if (list_contains(&biglist, &big[extra].link, NULL)) { VX_END; return big_fail("contains", "list_contains finds a node that is in no list"); }
		break;
	case P_CONTAINS_IT:
		b = list_contains(&biglist, &big[target].link, &it);
		if (!b) { VX_END; return big_fail("contains", "list_contains(iter) says the node at position %d is not a member", pos); }
		for (i = pos + 1; ; i++) {
			r = list_iterator_next(&it);
			if (big_idx(r) != (i < bml ? bm[i] : -1)) { VX_END; return big_fail("iterator_next", "after list_contains(iter) at %d: step to position %d yields node %d, expected %d", pos, i, big_idx(r), i < bml ? bm[i] : -1); }
			if (!r) break;
		}
		break;
	case P_REMOVE:
		b = list_remove(&biglist, &big[target].link);
		if (!b) { VX_END; return big_fail("remove", "list_remove says the node at position %d is not a member", pos); }
		bm_remove(pos);
		if (list_remove(&biglist, &big[extra].link)) { VX_END; return big_fail("remove", "list_remove removes a node that is in no list"); }
		list_insert(&biglist, &big[target].link); bm_insert(bml, target);	/* immediately reusable */
		break;
	case P_IT_REMOVE: case P_IT_INSERT:
		r = list_iterate(&biglist, &it);
		for (i = 0; i < pos; i++) r = list_iterator_next(&it);
		if (big_idx(r) != target) { VX_END; return big_fail("iterator_next", "walking to position %d yields node %d, expected %d", pos, big_idx(r), target); }
		if (probe == P_IT_REMOVE) {
			r = list_iterator_remove(&it); bm_remove(pos);
			if (big_idx(r) != (pos < bml ? bm[pos] : -1)) { VX_END; return big_fail("iterator_remove", "returned node %d, expected %d", big_idx(r), pos < bml ? bm[pos] : -1); }
			list_push(&biglist, &big[target].link); bm_insert(0, target);
		} else {
			list_iterator_insert(&it, &big[extra].link); bm_insert(pos, extra);
		}
		break;
	case P_EXTRACT:
		for (i = 0; i <= pos && i < 300; i++) {
			r = list_extract(&biglist);
			if (big_idx(r) != bm[0]) { VX_END; return big_fail("extract", "extract #%d returned node %d, expected %d", i, big_idx(r), bm[0]); }
			bm_remove(0);
		}
		list_insert(&biglist, &big[extra].link); bm_insert(bml, extra);
		break;
	case P_WALK:
		r = list_iterate(&biglist, &it);
		for (i = 0; ; i++) {
			if (big_idx(r) != (i < bml ? bm[i] : -1)) { VX_END; return big_fail("iterate", "iteration yields node %d at position %d, expected %d", big_idx(r), i, i < bml ? bm[i] : -1); }
			if (!r) break;
			r = list_iterator_next(&it);
		}
		break;
	}
	big_calls += 4;
	int bad = big_check();
	VX_END;
	return bad;
}
static int big_positions(int n, int *out)
{
	const int cand[] = { 0, 1, 31, 32, 33, n / 2, 254, 255, 256, 257, n - 2, n - 1 };
	int k = 0;
	for (unsigned i = 0; i < sizeof(cand) / sizeof(cand[0]); i++) {
		int dup = 0;
		if (cand[i] < 0 || cand[i] >= n) continue;
		for (int j = 0; j < k; j++) if (out[j] == cand[i]) dup = 1;
		if (!dup) out[k++] = cand[i];
	}
	return k;
}
static void big_alloc(void) { if (!big) { big = calloc(BIGMAX, sizeof(node_t)); bm = malloc(sizeof(bm[0]) * BIGMAX); if (!big || !bm) _exit(3); } }
static void long_lists(uint64_t first_unit)
{
	big_alloc();
	uint64_t unit = first_unit; int complete = 1;
	for (unsigned li = 0; li < sizeof(big_lens) / sizeof(big_lens[0]); li++)
		for (int build = 0; build < B_KINDS; build++) {
			int n = big_lens[li];
			if (build == B_SORTED && n > 1000) continue;	/* quadratic */
			if (!vx_mine(unit++)) continue;
			int pos[16], np = big_positions(n, pos), stop = 0;
			for (int probe = 0; probe < P_KINDS && !stop; probe++)
				for (int k = 0; k < np && !stop; k++) {
					if (probe == P_WALK && k) continue;		/* position-free */
					if (big_case(n, build, probe, pos[k])) stop = 1;	/* one report per (length, build) */
					if (vx_deadline_passed()) { stop = 1; complete = 0; }
				}
		}
	vx_count("long_list_cases", big_cases); vx_count("long_list_api_calls", big_calls);
	vx_count("traces", big_cases);
	vx_and("exhaustive", complete);
	if (big_cases) vx_sample("long lists: %llu cases = lengths {33,65,129,255,256,257,1000,65535,65536,65537} x {tail-insert, push, insert_sorted (<= 1000)} x 7 probes x positions {0,1,31,32,33,n/2,254..257,n-2,n-1}, e.g. n=%d %s, %s at position %d",
			(unsigned long long)big_cases, big_n, bname[big_build], pname[big_probe], big_pos);
}

int main(int argc, char **argv)
{
	vx_init(argc, argv);
	vx_install_handlers();
	vx_watchdog(2.0);
	vx_bfs b = { .live = &L, .size = sizeof(L), .nops = NOPS, .enabled = op_enabled, .apply = op_apply,
		     .canon = op_canon, .describe = op_describe };
	char *rp = vx_read_replay();
	if (rp && vx_replay_field(rp, "long")) {
		big_alloc();
		int n = atoi(vx_replay_field(rp, "n")), bu = atoi(vx_replay_field(rp, "build")), pr = atoi(vx_replay_field(rp, "probe")), po = atoi(vx_replay_field(rp, "pos"));
		if (n < 1 || n > BIGMAX - 2 || bu < 0 || bu >= B_KINDS || pr < 0 || pr >= P_KINDS || po < 0 || po >= n) { fprintf(stderr, "c09: malformed replay file\n"); return 3; }
		big_case(n, bu, pr, po);
		vx_finish();
		return 0;
	}
	if (rp) {
		const char *cn = vx_replay_field(rp, "config");
		for (unsigned c = 0; c < lengthof(configs); c++) if (cn && !strcmp(cn, configs[c].name)) {
			setup((int)c); b.name = configs[c].name;
			vx_bfs_replay(&b, rp);
		}
		vx_finish();
		return 0;
	}
	for (unsigned c = 0; c < lengthof(configs); c++) {
		if (configs[c].thorough && !vx_thorough()) continue;
		if (!vx_mine(c)) continue;
		vx_lib_reset();
		setup((int)c);
		b.name = configs[c].name;
		vx_bfs_run(&b);
		vx_count("states", b.states); vx_count("transitions", b.transitions);
		vx_count("traces", b.transitions);	/* every transition is one step of the real code compared with the model */
		vx_count("scope_guard_disabled_ops", b.disabled);
		vx_and("exhaustive", b.fixpoint);
		vx_max("max_depth", (uint64_t)b.depth_done);
		vx_count("configs", 1);
		/* a sample: the history of the last (deepest) state */
		vx_sb hs = {0}, rs = {0};
		b.cur = b.st.n - 1; b.cur_op = 0;
		static uint32_t ops[256]; int n = vx_store_trace(&b.st, b.cur, ops, 256);
		for (int i = 0; i < n; i++) { if (i) vx_sb_printf(&hs, "; "); op_describe((int)ops[i], &hs); }
		vx_sample("%s: %llu states, %llu transitions, fixpoint=%d depth=%d; deepest history: %s", b.name,
			(unsigned long long)b.states, (unsigned long long)b.transitions, b.fixpoint, b.depth_done, hs.s ? hs.s : "");
		free(hs.s); free(rs.s);
		vx_bfs_free(&b);
	}
	long_lists(lengthof(configs));
	for (int k = 0; k < OP_KINDS; k++) {
		char nm[64]; snprintf(nm, sizeof(nm), "op_%s", opname[k]); vx_count(nm, exercised[k]);
	}
	vx_count("free_nodes_with_a_non_null_link_seen(not judged)", free_nodes_with_link);
	vx_count("library_static_bytes_in_every_snapshot", vx_lib_size());
	vx_finish();
	return 0;
}

/*
 * C10 - the message queue is a bounded FIFO of fixed buffers for every geometry.
 *
 * messageq.c is linked as an object of its own (lib=); this file sees the public header only.
 *
 * Families (all deterministic, all judged by the same per-slot status model and the same oracle, c10_apply):
 *  A  explicit-state BFS over sequential histories, one run per geometry (depth, msg_len, slack) on a descriptor built by
 *     messageq_init over a deliberately dirty descriptor (0x00 / 0xFF / 0xA5 fill; re-initialisation of every reachable
 *     descriptor image is an operation of the search alphabet);
 *  B  the static initialiser: MESSAGEQ_VAR_INIT objects generated at build time into c10_geoms.h with their arguments
 *     spelled as literals and as expressions of every operator class; a twin whose image is not byte-identical to what
 *     messageq_init produces is searched by BFS like family A (in place: the static object itself is the live descriptor);
 *  C  counter start states: the queue is driven through N real claim-send-receive-release cycles (N on both sides of
 *     2^8, 2^16 and, in the thorough tier, 2^31 and 2^32), every cycle compared with the model; at each N the descriptor
 *     image must be one the search of family A has visited, otherwise a BFS starts from it;
 *  D  geometry sweep: a fixed history (fill, overfull claim, send/receive one by one, rotate by one, fill, send in reverse
 *     order, drain) for every message size 1..65535 at depth 32 and a grid of sizes at every other depth (thorough: every
 *     size at every depth), slack 0 and msg_len-1.
 */
#include "vx.h"

#include <librfn/messageq.h>

#include "c10_types.h"		/* generated (bin/checks.d/C10.py): C10_MAXD, C10_MAXM, C10_ARENA_MAX, c10_sa_t, C10_STATIC_BASE, table types */

#define C10_LEN(a) (sizeof(a) / sizeof((a)[0]))

/* the storage: [canary 64][ depth*msg_len | slack ] flush against a guard page */
static uint8_t *c10_arena_end;		/* first byte of the guard page */
/* static-initialiser objects need a constant address: a static object (three views for the pointer spellings) */
c10_sa_t c10_sa;

enum { C10_FREE, C10_CLAIMED, C10_SENT, C10_HELD };

/* the model: per-slot status and three cyclic cursors. The statement says "cyclic order", not where the cycle starts:
 * the first buffer a fresh queue hands out fixes the rotation (started). */
static struct c10_model {
	uint8_t status[C10_MAXD];
	uint8_t c, r, h;		/* next slot to claim / to receive / oldest held */
	uint8_t started;
} c10_L;

static messageq_t c10_dyn;		/* the descriptor messageq_init works on */
static messageq_t c10_ref;		/* reference image for the constructor comparison */
static messageq_t *c10_Q;		/* the descriptor in use: &c10_dyn or a static twin (in place) */
#define C10_IMG (sizeof(messageq_t) + sizeof(c10_L))

static int c10_D, c10_M, c10_S;		/* depth, message length, slack bytes */
static int c10_max_unsent;		/* scope bound on claimed-but-unsent messages (0 = none) */
static int c10_max_held;		/* scope bound on received-but-unreleased messages (0 = none) */
static uint8_t *c10_base;		/* start of the caller's memory */
static int c10_is_static;

#define C10_OP_CLAIM 0
#define C10_OP_RECEIVE 1
#define C10_OP_RELEASE 2
#define C10_OP_REINIT 3			/* messageq_init again on the live (used) descriptor, same arguments */
#define C10_OP_SEND0 4			/* C10_OP_SEND0+k: send the k-th oldest claimed-unsent message */
static int c10_nops;
static uint64_t c10_exercised[5], c10_null_claims, c10_null_receives;

#include "c10_geoms.h"		/* generated: c10_geoms[], c10_plain[] (the plain twin of every geometry), c10_units[] (the spelled
				 * twins, one optional compile unit per base_len spelling class), c10_ptr_form() */
/* all twins, grouped by geometry; id = geometry index for the plain twin, 100000*(unit+1)+position for a spelled one */
typedef struct { const c10_twin_t *tw; int id; uint8_t pristine[sizeof(messageq_t)]; } c10_flat_t;
static c10_flat_t *c10_flat;
static int c10_nflat;
static int c10_first[C10_LEN(c10_geoms) + 1];	/* twins of geometry g: c10_flat[c10_first[g] .. c10_first[g+1]) */

static int c10_twins_init(void)
{
	int ng = (int)C10_LEN(c10_geoms), n = ng;
	c10_units_init();
	for (int k = 0; k < C10_UNITS; k++) n += c10_units[k].n;
	c10_flat = calloc((size_t)n, sizeof(*c10_flat));
	if (!c10_flat) return -1;
	for (int g = 0; g < ng; g++) c10_first[g + 1] = 1;
	for (int k = 0; k < C10_UNITS; k++) for (int j = 0; j < c10_units[k].n; j++) {
		int g = c10_units[k].t[j].geom;
		if (g < 0 || g >= ng) return -1;
		c10_first[g + 1]++;
	}
	for (int g = 0; g < ng; g++) c10_first[g + 1] += c10_first[g];
	int *fill = calloc((size_t)ng, sizeof(int));
	if (!fill) return -1;
	for (int g = 0; g < ng; g++) { c10_flat_t *f = &c10_flat[c10_first[g] + fill[g]++]; f->tw = &c10_plain[g]; f->id = g; }
	for (int k = 0; k < C10_UNITS; k++) for (int j = 0; j < c10_units[k].n; j++) {
		int g = c10_units[k].t[j].geom;
		c10_flat_t *f = &c10_flat[c10_first[g] + fill[g]++]; f->tw = &c10_units[k].t[j]; f->id = 100000 * (k + 1) + j;
	}
	free(fill);
	c10_nflat = n;
	/* the images the initialisers wrote, before anything used the objects */
	for (int i = 0; i < n; i++) memcpy(c10_flat[i].pristine, c10_flat[i].tw->obj, sizeof(messageq_t));
	return 0;
}
static int c10_flat_of_id(int id) { for (int i = 0; i < c10_nflat; i++) if (c10_flat[i].id == id) return i; return -1; }

static vx_bfs c10_b;
static int c10_in_search;
static const char *c10_cur_text;	/* how the static twin in use is spelled (NULL: messageq_init) */

static int c10_count(int st) { int n = 0; for (int i = 0; i < c10_D; i++) n += c10_L.status[i] == st; return n; }
static int c10_kth_claimed(int k)
{
	/* slots are claimed in cyclic order: walking forward from the claim cursor visits them oldest first */
	for (int j = 0; j < c10_D; j++) {
		int s = c10_L.c + j; if (s >= c10_D) s -= c10_D;
		if (c10_L.status[s] == C10_CLAIMED && k-- == 0) return s;
	}
	return -1;
}
static uint8_t c10_pat(int slot, int i) { return (uint8_t)(0xA0 + slot * 7 + i * 13); }
/* payload bytes that are written and checked: all of a small message, both ends of a large one */
#define C10_PAYLOAD_IDX(i, M) ((M) <= 16 ? (i) : (i) < 4 ? (i) : (M) - 8 + (i))
#define C10_PAYLOAD_N(M) ((M) <= 16 ? (M) : 8)
/* the same bytes, laid out per slot once per configuration (c10_setup) so that they move and compare in two chunks */
static uint8_t c10_pats[C10_MAXD][16];
static const uint8_t c10_zero16[16];
static void c10_pats_init(void)
{
	for (int q = 0; q < c10_D; q++) for (int j = 0; j < C10_PAYLOAD_N(c10_M); j++) c10_pats[q][j] = c10_pat(q, C10_PAYLOAD_IDX(j, c10_M));
}
static inline void c10_put(int q, const uint8_t *img)	/* img: c10_pats[q] (owned) or c10_zero16 (free) */
{
	uint8_t *p = c10_base + (size_t)q * c10_M;
	if (c10_M <= 16) memcpy(p, img, (size_t)c10_M);
	else { memcpy(p, img, 4); memcpy(p + c10_M - 4, img + 4, 4); }
}
static inline int c10_payload_intact(int q)
{
	const uint8_t *p = c10_base + (size_t)q * c10_M;
	if (c10_M <= 16) return 0 == memcmp(p, c10_pats[q], (size_t)c10_M);
	return 0 == memcmp(p, c10_pats[q], 4) && 0 == memcmp(p + c10_M - 4, c10_pats[q] + 4, 4);
}

__attribute__((format(printf, 2, 3)))
static void c10_fail(const char *clause, const char *fmt, ...)
{
	char msg[700];
	va_list ap; va_start(ap, fmt); int n = vsnprintf(msg, 400, fmt, ap); va_end(ap);
	if (c10_cur_text && n > 0 && n < 400) snprintf(msg + n, sizeof(msg) - (size_t)n, " [queue described by %.250s]", c10_cur_text);
	vx_bfs_fail(clause, "%s", msg);
	/* the first (shallowest) counterexample of a search is the one reported; do not go on expanding a broken queue */
	if (c10_in_search) c10_b.max_depth = 1;
}

static int c10_enabled(int op)
{
	if (op == C10_OP_CLAIM) return !c10_max_unsent || c10_count(C10_CLAIMED) < c10_max_unsent;
	if (op == C10_OP_RECEIVE) return !c10_max_held || c10_count(C10_HELD) < c10_max_held || c10_L.status[c10_L.r] != C10_SENT;
	if (op == C10_OP_RELEASE) return c10_count(C10_HELD) > 0;
	if (op == C10_OP_REINIT) return 1;
	return c10_kth_claimed(op - C10_OP_SEND0) >= 0;
}
static void c10_describe(int op, vx_sb *sb)
{
	if (op == C10_OP_CLAIM) vx_sb_printf(sb, "claim");
	else if (op == C10_OP_RECEIVE) vx_sb_printf(sb, "receive");
	else if (op == C10_OP_RELEASE) vx_sb_printf(sb, "release");
	else if (op == C10_OP_REINIT) vx_sb_printf(sb, "init-again");
	else vx_sb_printf(sb, "send#%d", op - C10_OP_SEND0);
}
/* slot number of a returned pointer; -1 NULL; <= -2: not a multiple of msg_len inside the storage (encodes the offset) */
static long c10_slot_of(void *p)
{
	if (!p) return -1;
	long off = (uint8_t *)p - c10_base;
	if (off < 0 || off >= (long)c10_D * c10_M || off % c10_M) return -2 - (off < 0 ? 0 : off);
	return off / c10_M;
}
/* are the n bytes at p all equal to v */
static int c10_all(const uint8_t *p, size_t n, uint8_t v) { return n == 0 || (p[0] == v && 0 == memcmp(p, p + 1, n - 1)); }

static int c10_check_memory(int whole_slack)
{
	size_t used = (size_t)c10_D * (size_t)c10_M;
	if (!c10_all(c10_base - 64, 64, 0xC5))
		for (int i = 0; i < 64; i++) if (c10_base[-64 + i] != 0xC5) { c10_fail("guard", "byte %d before the storage was modified", i - 64); return 1; }
	/* the slack: all of it when it is small or when asked for (end of a sweep case), both ends otherwise */
	if (c10_S <= 32 || whole_slack) {
		if (!c10_all(c10_base + used, (size_t)c10_S, 0x5C))
			for (int i = 0; i < c10_S; i++) if (c10_base[used + i] != 0x5C) { c10_fail("slack", "trailing byte %d (not part of a whole message) was modified", i); return 1; }
	} else {
		for (int j = 0; j < 32; j++) { int i = j < 16 ? j : c10_S - 32 + j; if (c10_base[used + i] != 0x5C) { c10_fail("slack", "trailing byte %d (not part of a whole message) was modified", i); return 1; } }
	}
	if (c10_is_static && !c10_all(c10_base + used + c10_S, 64, 0xC5))
		for (int i = 0; i < 64; i++) if (c10_base[used + c10_S + i] != 0xC5) { c10_fail("guard", "byte %d after the storage was modified", i); return 1; }
	/* payload of every owned (claimed/sent/held) slot must be what its owner wrote */
	for (int s = 0; s < c10_D; s++) if (c10_L.status[s] != C10_FREE && !c10_payload_intact(s))
		for (int j = 0; j < C10_PAYLOAD_N(c10_M); j++) {
			int i = C10_PAYLOAD_IDX(j, c10_M);
			if (c10_base[(size_t)s * c10_M + i] != c10_pat(s, i)) { c10_fail("payload", "payload byte %d of slot %d changed while owned", i, s); return 1; }
		}
	return 0;
}

static void c10_model_reset(void) { memset(&c10_L, 0, sizeof(c10_L)); }

static int c10_apply(int op)
{
	void *p = NULL; long s; int exp, k = -1; bool e = false;
	/* the storage is not part of the snapshot: rebuild it from the model (owned slots carry their pattern) */
	for (int q = 0; q < c10_D; q++) c10_put(q, c10_L.status[q] != C10_FREE ? c10_pats[q] : c10_zero16);
	if (op >= C10_OP_SEND0) k = c10_kth_claimed(op - C10_OP_SEND0);
	c10_exercised[op >= C10_OP_SEND0 ? 4 : op]++;
	/* only calls into the library between VX_TRY and VX_END; everything is judged afterwards */
	if (VX_TRY) {
		if (op == C10_OP_CLAIM) p = messageq_claim(c10_Q);
		else if (op == C10_OP_RECEIVE) p = messageq_receive(c10_Q);
		else if (op == C10_OP_RELEASE) messageq_release(c10_Q, c10_base + (size_t)c10_L.h * c10_M);
		else if (op == C10_OP_REINIT) messageq_init(c10_Q, c10_base, (size_t)c10_D * c10_M + c10_S, (size_t)c10_M);
		else messageq_send(c10_Q, c10_base + (size_t)k * c10_M);
		e = messageq_empty(c10_Q);
		VX_END;
	} else { VX_END; c10_fail("fault", "%s", vx_fault_msg); return 1; }
	if (op == C10_OP_CLAIM) {
		s = c10_slot_of(p);
		int nfree = c10_count(C10_FREE);
		if (!c10_L.started && s >= 0) { c10_L.c = c10_L.r = c10_L.h = (uint8_t)s; c10_L.started = 1; }	/* any buffer may be the first */
		exp = nfree ? c10_L.c : -1;
		if (exp < 0) c10_null_claims++;
		if (s != exp) {
			if (s == -1) c10_fail("claim-null", "claim returned NULL although %d of %d buffers are free", nfree, c10_D);
			else if (exp == -1) c10_fail("claim-overcommit", "claim returned slot/offset code %ld although all %d buffers are claimed and unreleased", s, c10_D);
			else c10_fail("claim-pointer", "claim returned slot/offset code %ld, expected slot %d (cyclic order, multiple of msg_len inside the storage)", s, exp);
			return 1;
		}
		if (exp >= 0) {
			if (c10_L.status[exp] != C10_FREE) { c10_fail("claim-dup", "claim handed out slot %d which is still owned", exp); return 1; }
			c10_L.status[exp] = C10_CLAIMED; c10_L.c = (uint8_t)((c10_L.c + 1) % c10_D);
			c10_put(exp, c10_pats[exp]);
		}
	} else if (op == C10_OP_RECEIVE) {
		s = c10_slot_of(p);
		exp = c10_L.status[c10_L.r] == C10_SENT ? c10_L.r : -1;
		if (exp < 0) c10_null_receives++;
		if (s != exp) { c10_fail("receive", "receive returned slot code %ld, expected %d (claim order, only once the oldest claimed message is sent)", s, exp); return 1; }
		if (exp >= 0) { c10_L.status[exp] = C10_HELD; c10_L.r = (uint8_t)((c10_L.r + 1) % c10_D); }
	} else if (op == C10_OP_RELEASE) {
		c10_put(c10_L.h, c10_zero16);
		c10_L.status[c10_L.h] = C10_FREE; c10_L.h = (uint8_t)((c10_L.h + 1) % c10_D);
	} else if (op == C10_OP_REINIT) {
		/* whatever was outstanding is dropped by its owner: a fresh queue on the same storage */
		c10_model_reset();
		for (int q = 0; q < c10_D; q++) c10_put(q, c10_zero16);
	} else {
		c10_L.status[k] = C10_SENT;
	}
	if (e != (c10_L.status[c10_L.r] != C10_SENT)) { c10_fail("empty", "messageq_empty is %d but receive would return %s", e, c10_L.status[c10_L.r] == C10_SENT ? "a message" : "nothing"); return 1; }
	return c10_check_memory(0);
}
static void c10_canon(vx_hasher *h) { vx_h_bytes(h, c10_Q, sizeof(messageq_t)); vx_h_bytes(h, &c10_L, sizeof(c10_L)); }
static void c10_save(void *dst) { memcpy(dst, c10_Q, sizeof(messageq_t)); memcpy((char *)dst + sizeof(messageq_t), &c10_L, sizeof(c10_L)); }
static void c10_load(const void *src) { memcpy(c10_Q, src, sizeof(messageq_t)); memcpy(&c10_L, (const char *)src + sizeof(messageq_t), sizeof(c10_L)); }
static vx_h128 c10_hash_now(void) { vx_hasher h; vx_h_init(&h); c10_canon(&h); vx_lib_hash(&h); return vx_h_done(&h); }

/* ---- configurations: d<D>-m<M>-s<S>-init<fill> | -static<twin>, optionally -pre<N> (N real cycles before the history) */
static const uint8_t c10_fill[3] = { 0x00, 0xFF, 0xA5 };
typedef struct { int d, m, s, is_static, idx; uint64_t pre; int sweep; } c10_cfg;	/* sweep: family D (no scope bound, storage not cleared) */

static void c10_cfg_name(const c10_cfg *c, char *out, size_t n)
{
	int k = snprintf(out, n, "d%d-m%d-s%d-%s%d", c->d, c->m, c->s, c->is_static ? "static" : c->sweep ? "sweep" : "init", c->idx);
	if (c->pre) snprintf(out + k, n - (size_t)k, "-pre%llu", (unsigned long long)c->pre);
}
static int c10_cfg_parse(const char *t, c10_cfg *c)
{
	char kind[16]; unsigned long long pre = 0;
	memset(c, 0, sizeof(*c));
	int n = sscanf(t, "d%d-m%d-s%d-%6[a-z]%d-pre%llu", &c->d, &c->m, &c->s, kind, &c->idx, &pre);
	if (n < 5) return -1;
	c->pre = pre;
	c->is_static = 0 == strcmp(kind, "static");
	c->sweep = 0 == strcmp(kind, "sweep");
	if (!c->is_static && !c->sweep && strcmp(kind, "init")) return -1;
	if (c->d < 1 || c->d > C10_MAXD || c->m < 1 || c->m > C10_MAXM || c->s < 0 || c->s >= c->m) return -1;
	if (c->is_static) {
		int f = c10_flat_of_id(c->idx);
		if (f < 0) return -1;
		const c10_geom_t *g = &c10_geoms[c10_flat[f].tw->geom];
		return g->d == c->d && g->m == c->m && g->s == c->s ? 0 : -1;
	}
	return c->idx >= 0 && c->idx < (int)C10_LEN(c10_fill) ? 0 : -1;
}

/* a failure of the constructor itself (no history yet): replayable from the configuration alone */
static void c10_config_violation(const char *clause, const char *name, const char *what)
{
	char sig[160], rpl[400];
	snprintf(sig, sizeof(sig), "%s|%s", clause, name);
	snprintf(rpl, sizeof(rpl), "config=%s\nsig=%s\n", name, sig);
	vx_violation(sig, rpl, "%s: %s (%s)", clause, what, name);
}

/* guarded messageq_init; 0 = returned normally */
static int c10_init_call(messageq_t *q, uint8_t *basep, int d, int m, int s)
{
	if (VX_TRY) { messageq_init(q, basep, (size_t)d * (size_t)m + (size_t)s, (size_t)m); VX_END; return 0; }
	VX_END;
	return 1;
}

/* bring up one configuration: geometry, storage, descriptor, model, scope. sparse: do not clear the whole storage (only
 * the payload bytes the oracle looks at are ever read, and c10_apply rewrites those before every operation) */
static int c10_setup(const c10_cfg *c)
{
	char name[96];
	int sparse = c->sweep, unrestricted = c->sweep;
	c10_D = c->d; c10_M = c->m; c10_S = c->s; c10_is_static = c->is_static;
	size_t used = (size_t)c10_D * (size_t)c10_M;
	c10_model_reset();
	vx_lib_reset();
	c10_pats_init();
	if (c->is_static) {
		c10_base = C10_STATIC_BASE;
		memset(c10_base - 64, 0xC5, 64); memset(c10_base + used + c10_S, 0xC5, 64);
	} else {
		c10_base = c10_arena_end - (used + (size_t)c10_S);
		memset(c10_base - 64, 0xC5, 64);
	}
	if (!sparse) memset(c10_base, 0, used);
	memset(c10_base + used, 0x5C, (size_t)c10_S);
	if (c->is_static) {
		int f = c10_flat_of_id(c->idx);
		if (f < 0) { fprintf(stderr, "c10: no such twin\n"); _exit(3); }
		c10_Q = c10_flat[f].tw->obj; c10_cur_text = c10_flat[f].tw->text;
		memcpy(c10_Q, c10_flat[f].pristine, sizeof(messageq_t));	/* back to what the initialiser wrote */
	} else {
		/* the descriptor is somebody's uninitialised or re-used memory: never rely on it being clean */
		c10_Q = &c10_dyn; c10_cur_text = NULL;
		memset(&c10_dyn, c10_fill[c->idx], sizeof(c10_dyn));
		if (c10_init_call(&c10_dyn, c10_base, c10_D, c10_M, c10_S)) {
			c10_cfg_name(c, name, sizeof(name));
			c10_config_violation("init-fault", name, vx_fault_msg);
			return 1;
		}
	}
	if (unrestricted) { c10_max_unsent = 0; c10_max_held = 0; c10_nops = C10_OP_SEND0 + c10_D; }
	else if (vx_thorough()) {
		if (c10_D <= 7) { c10_max_unsent = 0; c10_max_held = 0; c10_nops = C10_OP_SEND0 + c10_D; }
		else if (c10_D <= 16) { c10_max_unsent = 4; c10_max_held = 0; c10_nops = C10_OP_SEND0 + 4; }
		else { c10_max_unsent = 3; c10_max_held = 5; c10_nops = C10_OP_SEND0 + 3; }
	} else {
		if (c10_D <= 5) { c10_max_unsent = 0; c10_max_held = 0; c10_nops = C10_OP_SEND0 + c10_D; }
		else if (c10_D <= 12) { c10_max_unsent = 3; c10_max_held = 0; c10_nops = C10_OP_SEND0 + 3; }
		else { c10_max_unsent = 2; c10_max_held = 3; c10_nops = C10_OP_SEND0 + 2; }
	}
	return 0;
}

/* run a fixed history through the oracle (the replay executor of the engine: failures carry a complete, replayable
 * history); 0 = clean, 1 = violation recorded, -1 = the script asked for a disabled operation (harness bug) */
static int c10_script(const char *name, const char *ops)
{
	c10_b.name = name; c10_b.nops = c10_nops;
	int r = vx_bfs_replay(&c10_b, ops);
	vx_store_free(&c10_b.st);
	return r;
}

/* ---- family C: real cycles. One cycle = claim; send; receive; release on a quiescent queue. */
#define C10_STR2(x) #x
#define C10_STR(x) C10_STR2(x)
#define C10_CYCLE_OPS "ops=0 " C10_STR(C10_OP_SEND0) " 1 2"	/* claim; send#0; receive; release */
static uint64_t c10_cyc;		/* cycles completed (a global: the library calls are opaque, so it is current at a fault) */
static uint64_t c10_fast_total;

/* cycles [from, to) on the fast path: every returned pointer and messageq_empty compared, nothing else. 0 = clean,
 * 1 = cycle number c10_cyc (0-based) misbehaved or faulted, 2 = deadline reached */
static int c10_fast_cycles(uint64_t from, uint64_t to)
{
	unsigned c = c10_L.c;
	int bad = 0;
	c10_cyc = from;
	while (c10_cyc < to && !bad) {
		if ((c10_cyc & 0xffffff) == 0 && !vx_args.replay && vx_deadline_passed()) { bad = 2; break; }	/* a replay runs to its end */
		uint64_t stop = c10_cyc + 65536 < to ? c10_cyc + 65536 : to;
		if (VX_TRY) {
			while (c10_cyc < stop) {
				uint8_t *want = c10_base + (size_t)c * c10_M;
				void *p = messageq_claim(c10_Q);
				if (p != want) { bad = 1; break; }
				messageq_send(c10_Q, p);
				if (messageq_empty(c10_Q)) { bad = 1; break; }
				if (messageq_receive(c10_Q) != want) { bad = 1; break; }
				if (!messageq_empty(c10_Q)) { bad = 1; break; }
				messageq_release(c10_Q, want);
				c = c + 1 >= (unsigned)c10_D ? 0 : c + 1;
				c10_cyc++;
			}
			VX_END;
		} else { VX_END; bad = 1; }
	}
	c10_fast_total += c10_cyc - from;
	c10_L.c = c10_L.r = c10_L.h = (uint8_t)c;
	return bad;
}
/* from a freshly set-up queue to the state after n cycles: the first one through the full oracle (it fixes the
 * rotation), the rest on the fast path. 0 = clean; 1 = failed at cycle c10_cyc (violation recorded if it was cycle 0) */
static int c10_cycles_from_start(const char *name, uint64_t n)
{
	c10_cyc = 0;
	if (n == 0) return 0;
	if (c10_script(name, C10_CYCLE_OPS)) return 1;
	return c10_fast_cycles(1, n);
}
/* the fast path saw cycle number `at` misbehave: reproduce it through the full oracle, which reports it with a history */
static void c10_pin(const c10_cfg *c0, uint64_t at)
{
	c10_cfg c = *c0; char name[96];
	uint64_t before = vx_viol_total;
	c.pre = at;
	c10_cfg_name(&c, name, sizeof(name));
	if (c10_setup(&c)) return;
	int r = c10_cycles_from_start(name, at);
	if (r == 2) { vx_and("exhaustive", 0); vx_note("deadline reached while reproducing a failed cycle on the full oracle"); return; }
	if (r) {
		if (vx_viol_total == before) c10_config_violation("cycles-irreproducible", name, "a cycle that was clean failed when repeated");
		return;
	}
	if (c10_script(name, C10_CYCLE_OPS) != 1)
		c10_config_violation("cycles-fast-path-only", name, "the fast path rejected a cycle the full oracle accepts");
}

/* ---- one BFS run on the configuration that is set up; results stay in c10_b until vx_bfs_free */
/* resource caps, far above anything the unchanged library needs (a capped search is reported, the run is then not
 * exhaustive): states per search; once this worker has a counterexample, or two of its searches did not converge, it
 * does not pour more time into state spaces that an ever-growing counter keeps inflating */
static int c10_capped_searches;
static uint64_t c10_max_states(void) { return vx_nviols ? 300000 : vx_thorough() ? 8000000 : 1000000; }
static int c10_no_more_searches(void)
{
	if (c10_capped_searches < 2) return 0;
	vx_and("exhaustive", 0); vx_count("searches_skipped_after_two_did_not_converge", 1);
	return 1;
}
static void c10_search(const char *name, const char *family)
{
	char cn[64];
	c10_b.name = name; c10_b.nops = c10_nops; c10_b.max_depth = 0; c10_b.max_states = c10_max_states();
	c10_in_search = 1;
	vx_bfs_run(&c10_b);
	c10_in_search = 0;
	vx_count("states", c10_b.states); vx_count("transitions", c10_b.transitions); vx_count("traces", c10_b.transitions);
	vx_count("scope_guard_disabled_ops", c10_b.disabled);
	vx_and("exhaustive", c10_b.fixpoint); vx_max("max_depth", (uint64_t)c10_b.depth_done);
	vx_max("largest_search_states", c10_b.states);
	vx_count("geometry_runs", 1);
	snprintf(cn, sizeof(cn), "searches_%s", family); vx_count(cn, 1);
	if (!c10_b.fixpoint) { vx_count("searches_capped", 1); if (c10_b.capped) c10_capped_searches++; }
	if (!c10_max_unsent) vx_count("geometries_full_fixpoint", 1); else vx_count("geometries_restricted_fixpoint", 1);
}
static void c10_sample_search(const char *name)
{
	vx_sb hs = {0}; static uint32_t ops[512];
	int n = vx_store_trace(&c10_b.st, c10_b.st.n - 1, ops, 60);
	for (int k = 0; k < n; k++) { if (k) vx_sb_printf(&hs, "; "); c10_describe((int)ops[k], &hs); }
	vx_sample("%s: %llu states %llu transitions fixpoint=%d; start of the deepest history: %s", name,
		(unsigned long long)c10_b.states, (unsigned long long)c10_b.transitions, c10_b.fixpoint, hs.s ? hs.s : "");
	free(hs.s);
}

static int c10_stop(void) { return vx_too_many_violations() || vx_hangs_seen >= 3; }

/* family C on the configuration `c` whose BFS (visited set) is still in c10_b */
static void c10_counter_starts(const c10_cfg *c)
{
	static const uint64_t quick_n[] = { 254, 255, 256, 257, 65534, 65535, 65536, 65537 };
	static const uint64_t deep_n[] = { (1ull << 31) - 2, (1ull << 31) - 1, 1ull << 31, (1ull << 31) + 1,
					   (1ull << 32) - 2, (1ull << 32) - 1, 1ull << 32, (1ull << 32) + 1 };
	uint64_t marks[16]; int nm = 0;
	char name[96], base_name[96];
	for (unsigned i = 0; i < C10_LEN(quick_n); i++) marks[nm++] = quick_n[i];
	/* 2^32 real cycles take minutes: thorough tier, the smallest depth that does not divide a power of two */
	if (vx_thorough() && c->d == 3) for (unsigned i = 0; i < C10_LEN(deep_n); i++) marks[nm++] = deep_n[i];
	vx_set base_seen = c10_b.seen;		/* keep the visited set of the search from the fresh queue */
	memset(&c10_b.seen, 0, sizeof(c10_b.seen));
	vx_store_free(&c10_b.st);
	uint8_t *img = malloc(C10_IMG + vx_lib_size());
	c10_cfg_name(c, base_name, sizeof(base_name));
	if (c10_setup(c)) goto out;
	uint64_t done = 0;
	for (int k = 0; k < nm && !c10_stop(); k++) {
		int bad = done == 0 ? c10_cycles_from_start(base_name, marks[k]) : c10_fast_cycles(done, marks[k]);
		if (bad == 2) { vx_count("counter_start_cycles", c10_cyc - done); vx_and("exhaustive", 0); vx_count("counter_starts_skipped_deadline", (uint64_t)(nm - k)); goto out; }
		if (bad) {
			vx_count("counter_start_cycles", c10_cyc - done);
			if (c10_cyc > 0) c10_pin(c, c10_cyc);
			goto out;
		}
		vx_count("counter_start_cycles", marks[k] - done);
		done = marks[k];
		vx_count("counter_start_states", 1);
		if (vx_deadline_passed()) { vx_and("exhaustive", 0); vx_count("counter_starts_skipped_deadline", (uint64_t)(nm - k - 1)); break; }
		if (base_seen.t && vx_set_has(&base_seen, c10_hash_now())) { vx_count("counter_start_states_already_visited", 1); continue; }
		if (c10_no_more_searches()) continue;
		/* an image the search from the fresh queue never produced: search from here */
		c10_cfg cc = *c; cc.pre = done;
		c10_cfg_name(&cc, name, sizeof(name));
		c10_save(img); vx_lib_save(img + C10_IMG);
		c10_search(name, "from_counter_start");
		vx_bfs_free(&c10_b);
		c10_load(img); vx_lib_restore(img + C10_IMG);
	}
	vx_max("counter_start_cycles_longest_run", done);
	if (c->d == 3)
		vx_sample("counter start states: %s driven through %llu real claim;send#0;receive;release cycles (every cycle compared), stopping at %d cycle counts from 254 to %llu; at each the descriptor image is looked up among the states the search from the fresh queue visited",
			  base_name, (unsigned long long)done, nm, (unsigned long long)marks[nm - 1]);
out:
	free(img);
	vx_set_free(&base_seen);
}

/* ---- family D: the sweep history for depth d (cached) */
static const char *c10_sweep_ops(int d)
{
	static char *cache[C10_MAXD + 1];
	if (cache[d]) return cache[d];
	vx_sb sb = {0};
	vx_sb_printf(&sb, "ops=");
	for (int i = 0; i <= d; i++) vx_sb_printf(&sb, "0 ");				/* fill; one claim too many */
	for (int i = 0; i < d; i++) vx_sb_printf(&sb, "%d 1 1 ", C10_OP_SEND0);		/* send oldest, receive it, receive nothing */
	for (int i = 0; i < d; i++) vx_sb_printf(&sb, "2 ");				/* release all */
	vx_sb_printf(&sb, "0 %d 1 2 ", C10_OP_SEND0);					/* one cycle: cursors move on by one */
	for (int i = 0; i < d; i++) vx_sb_printf(&sb, "0 ");				/* fill across the wrap */
	for (int i = d - 1; i >= 0; i--) vx_sb_printf(&sb, "%d ", C10_OP_SEND0 + i);	/* send newest first */
	for (int i = 0; i <= d; i++) vx_sb_printf(&sb, "1 ");				/* receive all; one too many */
	for (int i = 0; i < d; i++) vx_sb_printf(&sb, "2 ");
	return cache[d] = sb.s;
}
static int c10_sweep_ops_count(int d) { return 9 * d + 6; }
static uint64_t c10_sweep_cases, c10_sweep_opcount;
static void c10_sweep_case(int d, int m, int s)
{
	c10_cfg c = { d, m, s, 0, 0, 0, 1 }; char name[96];
	c10_cfg_name(&c, name, sizeof(name));
	c10_sweep_cases++;
	if (c10_setup(&c)) return;
	int r = c10_script(name, c10_sweep_ops(d));
	if (r < 0) { fprintf(stderr, "c10: sweep script not executable\n"); _exit(3); }
	if (r == 0) {
		c10_sweep_opcount += (uint64_t)c10_sweep_ops_count(d);
		/* the whole slack once more at the end of the case; reported against the complete history */
		c10_b.name = name;
		if (c10_S > 32 && !c10_all(c10_base + (size_t)d * m, (size_t)s, 0x5C)) {
			char sig[200], rpl[400];
			snprintf(sig, sizeof(sig), "slack|%s|sweep history", name);
			snprintf(rpl, sizeof(rpl), "config=%s\nsig=%s\n", name, sig);
			vx_violation(sig, rpl, "slack: a trailing byte that is not part of a whole message was modified during the sweep history (%s)", name);
		}
	}
}
static int c10_in_grid(int m)
{
	static const int extra[] = { 13, 100, 1000, 2114, 2115, 3000, 5000, 7000, 10000, 24000, 40000, 50000, 65534 };
	for (int k = 0; k <= 16; k++) { int p = 1 << k; if (m == p - 1 || m == p || m == p + 1) return 1; }
	for (unsigned i = 0; i < C10_LEN(extra); i++) if (m == extra[i]) return 1;
	return m <= 16;
}
static void c10_sweep(uint64_t *unit)
{
	for (int m = 1; m <= C10_MAXM; m++) {
		if (!vx_mine((*unit)++)) continue;
		if (c10_stop()) break;
		if ((m & 63) == 0 && vx_deadline_passed()) { vx_and("exhaustive", 0); vx_count("sweep_sizes_skipped_deadline", (uint64_t)(C10_MAXM - m + 1) / (uint64_t)vx_args.nworkers); break; }
		int all_depths = vx_thorough() || c10_in_grid(m);
		for (int d = all_depths ? 1 : C10_MAXD; d <= C10_MAXD; d++) {
			c10_sweep_case(d, m, 0);
			if (m > 1) c10_sweep_case(d, m, m - 1);
		}
	}
	vx_count("sweep_cases", c10_sweep_cases); vx_count("sweep_operations", c10_sweep_opcount); vx_count("traces", c10_sweep_opcount);
	if (c10_sweep_cases && vx_args.worker == 0)
		vx_sample("geometry sweep: %llu cases on this worker, each the fixed history of 9*depth+6 operations (fill, claim once more, send+receive+receive one by one, release all, one cycle, fill, send newest first, receive depth+1 times, release all), e.g. the last one: depth %d msg_len %d slack %d",
			  (unsigned long long)c10_sweep_cases, c10_D, c10_M, c10_S);
}

/* ---- family B: the static twins of geometry g */
static int c10_twin_explored_already(uint8_t (*seen)[sizeof(messageq_t)], int n, const void *img)
{
	for (int i = 0; i < n; i++) if (0 == memcmp(seen[i], img, sizeof(messageq_t))) return 1;
	return 0;
}
static void c10_twins_of(int gi, int selected, uint64_t init_states, uint64_t init_trans, int init_fixpoint)
{
	static uint8_t explored[8][sizeof(messageq_t)];
	const c10_geom_t *g = &c10_geoms[gi];
	int nexplored = 0; char name[96];
	/* what messageq_init makes of the same arguments on a clean descriptor */
	memset(&c10_ref, 0, sizeof(c10_ref));
	int ref_ok = !c10_init_call(&c10_ref, C10_STATIC_BASE, g->d, g->m, g->s);
	for (int f = c10_first[gi]; f < c10_first[gi + 1] && !c10_stop(); f++) {
		c10_cfg c = { g->d, g->m, g->s, 1, c10_flat[f].id, 0 };
		int first = f == c10_first[gi];
		int identical = ref_ok && 0 == memcmp(c10_flat[f].pristine, &c10_ref, sizeof(messageq_t));
		vx_count("constructor_pairs_compared", 1);
		if (!first) vx_count("constructor_pairs_compared_spelled_arguments", 1);
		if (identical) vx_count("constructor_images_identical", 1);
		/* byte-identical descriptors behave identically. The plain twin of a small or 32-deep geometry is searched anyway
		 * (the static object's address is another base address); any other image is searched once per geometry */
		int plain = first && selected && (g->d <= 4 || g->d == C10_MAXD);
		if (identical && !first && g->d == 3 && g->m == 4 && g->s == 1 && (f - c10_first[gi]) % 50 == 7)
			vx_sample("static twin byte-identical to what messageq_init builds on a clean descriptor: d%d-m%d-s%d-static%d = %s", g->d, g->m, g->s, c10_flat[f].id, c10_flat[f].tw->text);
		if (identical && !plain) continue;
		if (!identical) {
			if (c10_twin_explored_already(explored, nexplored, c10_flat[f].pristine)) { vx_count("constructor_images_same_as_a_searched_twin", 1); continue; }
			if (nexplored < 8) memcpy(explored[nexplored++], c10_flat[f].pristine, sizeof(messageq_t));
			vx_count("constructor_images_different_searched", 1);
		}
		if (vx_deadline_passed()) { vx_and("exhaustive", 0); vx_count("twin_searches_skipped_deadline", 1); continue; }
		if (c10_no_more_searches()) continue;
		c10_cfg_name(&c, name, sizeof(name));
		if (c10_setup(&c)) continue;
		c10_search(name, "static_twin");
		if (first && init_fixpoint && c10_b.fixpoint) {
			/* informative only: both constructors conform to the same deterministic model, which is what "the same
			 * queue" means; the sizes of the raw state graphs may legitimately differ (e.g. a lazily filled field) */
			vx_count("constructor_graph_pairs_compared", 1);
			if (init_states == c10_b.states && init_trans == c10_b.transitions) vx_count("constructor_graph_pairs_same_size", 1);
			else vx_note("raw state graphs of the two constructors differ in size for d%d-m%d-s%d (%llu/%llu states); not judged", g->d, g->m, g->s,
				     (unsigned long long)init_states, (unsigned long long)c10_b.states);
		}
		if (!identical && vx_nsamples < 3)
			vx_sample("static twin searched because its image differs from messageq_init's: %s = %s", name, c10_flat[f].tw->text);
		vx_bfs_free(&c10_b);
		memcpy(c10_flat[f].tw->obj, c10_flat[f].pristine, sizeof(messageq_t));
	}
}

static int c10_geom_selected(const c10_geom_t *g)
{
	if (vx_thorough()) return 1;
	/* quick: every depth with msg_len 4 / slack 0, 1 and 3; all message sizes at a few depths */
	if (g->m == 4 || g->m > 12) return 1;	/* the large message sizes are few: always */
	return g->d <= 3 || g->d == 8 || g->d == 31 || g->d == 32;
}

int main(int argc, char **argv)
{
	vx_init(argc, argv);
	vx_install_handlers();
	vx_watchdog(2.0);
	uint8_t *gp = vx_guard_alloc(C10_ARENA_MAX + 64, 1);
	c10_arena_end = gp + C10_ARENA_MAX + 64;
	c10_b = (vx_bfs){ .live = NULL, .size = C10_IMG, .enabled = c10_enabled, .apply = c10_apply,
			  .canon = c10_canon, .describe = c10_describe, .save = c10_save, .load = c10_load };
	/* generator sanity: every pointer spelling means C10_STATIC_BASE, the table is consistent */
	for (int k = 0; k < C10_PTR_FORMS; k++) if (c10_ptr_form(k) != C10_STATIC_BASE) { fprintf(stderr, "c10: pointer spelling %d is not the static base\n", k); return 3; }
	if (c10_twins_init()) { fprintf(stderr, "c10: inconsistent twin tables\n"); return 3; }
	if (vx_args.worker == 0) {	/* sizes of the generated tables, reported once */
		vx_count("static_twins_plain", C10_LEN(c10_plain));
		for (int k = 0; k < C10_UNITS; k++) vx_count("static_twins_with_spelled_arguments", (uint64_t)c10_units[k].n);
	}

	char name[96];
	char *rp = vx_read_replay();
	if (rp) {
		const char *cn = vx_replay_field(rp, "config");
		c10_cfg c;
		if (!cn || c10_cfg_parse(cn, &c)) { fprintf(stderr, "c10: malformed replay file\n"); return 3; }
		snprintf(name, sizeof(name), "%.90s", cn);
		uint64_t pre = c.pre;
		/* a sweep case without a history: the whole case (its last check is not tied to one operation) */
		if (c.sweep && !strstr(rp, "ops=")) c10_sweep_case(c.d, c.m, c.s);
		else if (!c10_setup(&c) && !(pre && c10_cycles_from_start(name, pre)) && strstr(rp, "ops=")) c10_script(name, rp);
		vx_finish();
		return 0;
	}

	uint64_t unit = 0;
	/* the searches first (the counter start states with them), then the sweep */
	for (unsigned i = 0; i < C10_LEN(c10_geoms); i++) {
		const c10_geom_t *g = &c10_geoms[i];
		if (!vx_mine(unit++)) continue;
		if (c10_stop()) break;
		int selected = c10_geom_selected(g);
		uint64_t st0 = 0, tr0 = 0; int fix0 = 0;
		if (selected && vx_deadline_passed()) { vx_and("exhaustive", 0); vx_count("geometries_skipped_deadline", 1); selected = 0; }
		if (selected && c10_no_more_searches()) selected = 0;
		if (selected) {
			c10_cfg c = { g->d, g->m, g->s, 0, 0, 0 };
			c10_cfg_name(&c, name, sizeof(name));
			if (!c10_setup(&c)) {
				c10_search(name, "init");
				st0 = c10_b.states; tr0 = c10_b.transitions; fix0 = c10_b.fixpoint;
				if ((g->d == 2 || g->d == 32) && g->m == 4 && g->s == 3) c10_sample_search(name);
				/* the same call on a descriptor full of 0xFF / 0xA5: an image the first search has visited behaves the same */
				vx_set seen0 = c10_b.seen; memset(&c10_b.seen, 0, sizeof(c10_b.seen));
				vx_store_free(&c10_b.st);
				for (int f = 1; f < (int)C10_LEN(c10_fill) && !c10_stop(); f++) {
					c10_cfg cf = c; cf.idx = f;
					c10_cfg_name(&cf, name, sizeof(name));
					vx_count("dirty_descriptor_inits", 1);
					if (c10_setup(&cf)) continue;
					if (vx_set_has(&seen0, c10_hash_now())) {
						vx_count("dirty_descriptor_images_already_visited", 1);
						if (g->d == 2 && g->m == 4 && g->s == 3 && f == 1) vx_sample("%s: messageq_init on a descriptor filled with 0xFF gives an image the search from %s-init0 has visited", name, "d2-m4-s3");
						continue;
					}
					if (c10_no_more_searches()) continue;
					c10_search(name, "dirty_init");
					vx_bfs_free(&c10_b);
				}
				c10_b.seen = seen0;
			}
		}
		/* family C: with the visited set of the search just made, or with none (then every cycle is still compared) */
		if (g->m == 4 && g->s == 1 && c10_geom_selected(g) && !c10_stop() && !vx_deadline_passed()) {
			c10_cfg c = { g->d, g->m, g->s, 0, 0, 0 };
			c10_counter_starts(&c);
		} else vx_set_free(&c10_b.seen);
		memset(&c10_b.seen, 0, sizeof(c10_b.seen));
		c10_twins_of((int)i, selected, st0, tr0, fix0);
	}
	if (!c10_stop()) c10_sweep(&unit);
	vx_count("op_claim", c10_exercised[0]); vx_count("op_receive", c10_exercised[1]); vx_count("op_release", c10_exercised[2]);
	vx_count("op_init_again", c10_exercised[3]); vx_count("op_send", c10_exercised[4]);
	vx_count("claims_expected_null", c10_null_claims); vx_count("receives_expected_null", c10_null_receives);
	vx_count("counter_start_fast_cycles", c10_fast_total);
	vx_finish();
	return 0;
}

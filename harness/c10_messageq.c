/*
 * C10 - the message queue is a bounded FIFO of fixed buffers for every geometry.
 *
 * Explicit-state BFS over sequential histories of the real messageq.c, one run
 * per geometry (depth, msg_len, slack) and per constructor (messageq_init and
 * the static initialiser MESSAGEQ_VAR_INIT, objects generated at build time
 * into c10_geoms.h). Model = per-slot status + two cyclic cursors.
 */
#include "vx.h"

#include "messageq.c"

#define MAXD 32
#define ARENA_MAX (MAXD * 65535 + 16)	/* message sizes up to the 16-bit limit of the descriptor */

/* the storage: [canary 64][ depth*msg_len | slack ] flush against a guard page */
static uint8_t *arena_end;		/* first byte of the guard page */
static uint8_t *arena;			/* start of the caller's memory for the current geometry */
/* static-initialiser objects need a constant address: a plain static array */
static uint8_t static_arena[ARENA_MAX + 128];
#define STATIC_BASE (static_arena + 64)

enum { FREE, CLAIMED, SENT, HELD };

static struct live {
	messageq_t mq;
	uint8_t status[MAXD];
	uint8_t c, r, h;		/* next slot to claim / to receive / oldest held */
} L;

static int D, M, S;			/* depth, message length, slack bytes */
static int max_unsent;			/* scope bound on claimed-but-unsent messages (0 = none) */
static int max_held;			/* scope bound on received-but-unreleased messages (0 = none) */
static uint8_t *base;			/* arena or STATIC_BASE */

#define OP_CLAIM 0
#define OP_RECEIVE 1
#define OP_RELEASE 2
#define OP_SEND0 3			/* OP_SEND0+k: send the k-th oldest claimed-unsent message */
static int nops;
static uint64_t exercised[4], null_claims, null_receives;

static int count(int st) { int n = 0; for (int i = 0; i < D; i++) n += L.status[i] == st; return n; }
static int kth_claimed(int k)
{
	/* slots are claimed in cyclic order starting from the oldest outstanding one */
	int start = L.c;	/* walk the D slots in age order: oldest is the one after c going forward */
	for (int j = 0; j < D; j++) {
		int s = (start + j) % D;
		if (L.status[s] == CLAIMED && k-- == 0) return s;
	}
	return -1;
}
static uint8_t pat(int slot, int i) { return (uint8_t)(0xA0 + slot * 7 + i * 13); }
/* payload bytes that are written and checked: all of a small message, both ends of a large one */
#define PAYLOAD_IDX(i, M) ((M) <= 16 ? (i) : (i) < 4 ? (i) : (M) - 8 + (i))
#define PAYLOAD_N(M) ((M) <= 16 ? (M) : 8)

static int op_enabled(int op)
{
	if (op == OP_CLAIM) return !max_unsent || count(CLAIMED) < max_unsent;
	if (op == OP_RECEIVE) return !max_held || count(HELD) < max_held || L.status[L.r] != SENT;
	if (op == OP_RELEASE) return count(HELD) > 0;
	return kth_claimed(op - OP_SEND0) >= 0;
}
static void op_describe(int op, vx_sb *sb)
{
	if (op == OP_CLAIM) vx_sb_printf(sb, "claim");
	else if (op == OP_RECEIVE) vx_sb_printf(sb, "receive");
	else if (op == OP_RELEASE) vx_sb_printf(sb, "release");
	else vx_sb_printf(sb, "send#%d", op - OP_SEND0);
}
static long slot_of(void *p)
{
	if (!p) return -1;
	long off = (uint8_t *)p - base;
	if (off < 0 || off >= (long)D * M || off % M) return -2 - (off < 0 ? 0 : off);
	return off / M;
}

static int check_memory(void)
{
	for (int i = 0; i < 64; i++) if (base[-64 + i] != 0xC5) { vx_bfs_fail("guard", "byte %d before the storage was modified", i - 64); return 1; }
	for (int i = 0; i < S; i++) if (base[D * M + i] != 0x5C) { vx_bfs_fail("slack", "trailing byte %d (not part of a whole message) was modified", i); return 1; }
	if (base == STATIC_BASE)
		for (int i = 0; i < 64; i++) if (base[D * M + S + i] != 0xC5) { vx_bfs_fail("guard", "byte %d after the storage was modified", i); return 1; }
	/* payload of every owned (claimed/sent/held) slot must be what its owner wrote */
	for (int s = 0; s < D; s++) if (L.status[s] != FREE)
		for (int j = 0; j < PAYLOAD_N(M); j++) { int i = PAYLOAD_IDX(j, M); if (base[s * M + i] != pat(s, i)) { vx_bfs_fail("payload", "payload byte %d of slot %d changed while owned", i, s); return 1; } }
	return 0;
}

static int op_apply(int op)
{
	void *p; long s; int exp;
	/* the storage is not part of the snapshot: rebuild it from the model (owned slots carry their pattern) */
	for (int k = 0; k < D; k++) for (int j = 0; j < PAYLOAD_N(M); j++) { int i = PAYLOAD_IDX(j, M); base[k * M + i] = L.status[k] != FREE ? pat(k, i) : 0; }
	if (!(VX_TRY)) { VX_END; vx_bfs_fail("fault", "%s", vx_fault_msg); return 1; }
	if (op == OP_CLAIM) {
		exercised[0]++;
		p = messageq_claim(&L.mq); s = slot_of(p);
		exp = count(FREE) ? L.c : -1;
		if (exp < 0) null_claims++;
		if (s != exp) {
			VX_END;
			if (s == -1) vx_bfs_fail("claim-null", "claim returned NULL although %d of %d buffers are free", count(FREE), D);
			else if (exp == -1) vx_bfs_fail("claim-overcommit", "claim returned slot %ld although all %d buffers are claimed and unreleased", s, D);
			else vx_bfs_fail("claim-pointer", "claim returned slot/offset code %ld, expected slot %d (cyclic order, multiple of msg_len inside the storage)", s, exp);
			return 1;
		}
		if (exp >= 0) {
			if (L.status[exp] != FREE) { VX_END; vx_bfs_fail("claim-dup", "claim handed out slot %d which is still owned", exp); return 1; }
			L.status[exp] = CLAIMED; L.c = (uint8_t)((L.c + 1) % D);
			for (int j = 0; j < PAYLOAD_N(M); j++) { int i = PAYLOAD_IDX(j, M); base[exp * M + i] = pat(exp, i); }
		}
	} else if (op == OP_RECEIVE) {
		exercised[1]++;
		p = messageq_receive(&L.mq); s = slot_of(p);
		exp = L.status[L.r] == SENT ? L.r : -1;
		if (exp < 0) null_receives++;
		if (s != exp) { VX_END; vx_bfs_fail("receive", "receive returned slot code %ld, expected %d (claim order, only once the oldest claimed message is sent)", s, exp); return 1; }
		if (exp >= 0) { L.status[exp] = HELD; L.r = (uint8_t)((L.r + 1) % D); }
	} else if (op == OP_RELEASE) {
		exercised[2]++;
		messageq_release(&L.mq, base + L.h * M);
		for (int j = 0; j < PAYLOAD_N(M); j++) base[L.h * M + PAYLOAD_IDX(j, M)] = 0;
		L.status[L.h] = FREE; L.h = (uint8_t)((L.h + 1) % D);
	} else {
		exercised[3]++;
		int k = kth_claimed(op - OP_SEND0);
		messageq_send(&L.mq, base + k * M);
		L.status[k] = SENT;
	}
	bool e = messageq_empty(&L.mq);
	if (e != (L.status[L.r] != SENT)) { VX_END; vx_bfs_fail("empty", "messageq_empty is %d but receive would return %s", e, L.status[L.r] == SENT ? "a message" : "nothing"); return 1; }
	int bad = check_memory();
	VX_END;
	return bad;
}
static void op_canon(vx_hasher *h) { vx_h_bytes(h, &L, sizeof(L)); }

/* ---- geometries and their static-initialiser twins (generated) */
typedef struct { int d, m, s; messageq_t *stat; } geom_t;
#include "c10_geoms.h"		/* static messageq_t sq_<i> = MESSAGEQ_VAR_INIT(STATIC_BASE, d*m+s, m); geom_t geoms[] */

static void prep_arena(int use_static)
{
	if (use_static) { memset(static_arena, 0xC5, sizeof(static_arena)); base = STATIC_BASE; }
	else { base = arena_end - (D * M + S); memset(base - 64, 0xC5, 64); }
	memset(base, 0, (size_t)D * (size_t)M); memset(base + (size_t)D * (size_t)M, 0x5C, (size_t)S);
}
static void setup(const geom_t *g, int use_static)
{
	D = g->d; M = g->m; S = g->s;
	memset(&L, 0, sizeof(L));
	prep_arena(use_static);
	if (use_static) L.mq = *g->stat;
	else messageq_init(&L.mq, base, (size_t)(D * M + S), (size_t)M);
	if (vx_thorough()) {
		if (D <= 7) { max_unsent = 0; max_held = 0; nops = OP_SEND0 + D; }
		else if (D <= 16) { max_unsent = 4; max_held = 0; nops = OP_SEND0 + 4; }
		else { max_unsent = 3; max_held = 5; nops = OP_SEND0 + 3; }
	} else {
		if (D <= 5) { max_unsent = 0; max_held = 0; nops = OP_SEND0 + D; }
		else if (D <= 12) { max_unsent = 3; max_held = 0; nops = OP_SEND0 + 3; }
		else { max_unsent = 2; max_held = 3; nops = OP_SEND0 + 2; }
	}
}
static int same_descriptor(const messageq_t *a, const messageq_t *b)
{
	return a->basep == b->basep && a->msg_len == b->msg_len && a->queue_len == b->queue_len &&
	       atomic_load(&((messageq_t *)a)->num_free) == atomic_load(&((messageq_t *)b)->num_free) &&
	       atomic_load(&((messageq_t *)a)->sendp) == atomic_load(&((messageq_t *)b)->sendp) &&
	       atomic_load(&((messageq_t *)a)->full_flags) == atomic_load(&((messageq_t *)b)->full_flags) &&
	       a->receivep == b->receivep;
}

static int geom_selected(const geom_t *g)
{
	if (vx_thorough()) return 1;
	/* quick: every depth with msg_len 4 / slack 0 and 3; all message sizes at a few depths */
	if (g->m == 4 || g->m > 12) return 1;	/* the large message sizes are few: always */
	return g->d <= 3 || g->d == 8 || g->d == 31 || g->d == 32;
}

int main(int argc, char **argv)
{
	vx_init(argc, argv);
	vx_install_handlers();
	vx_watchdog(2.0);
	uint8_t *gp = vx_guard_alloc(ARENA_MAX + 64, 1);
	arena_end = gp + ARENA_MAX + 64; arena = gp;
	vx_bfs b = { .live = &L, .size = sizeof(L), .enabled = op_enabled, .apply = op_apply,
		     .canon = op_canon, .describe = op_describe };
	char name[64];
	char *rp = vx_read_replay();
	if (rp) {
		const char *cn = vx_replay_field(rp, "config");
		int d, m, s, st;
		if (cn && sscanf(cn, "d%d-m%d-s%d-static%d", &d, &m, &s, &st) == 4)
			for (unsigned i = 0; i < lengthof(geoms); i++) if (geoms[i].d == d && geoms[i].m == m && geoms[i].s == s) {
				setup(&geoms[i], st); b.nops = nops; b.name = cn;
				if (st && !strstr(rp, "ops=")) {
					messageq_t ref; messageq_init(&ref, STATIC_BASE, (size_t)(d * m + s), (size_t)m);
					if (!same_descriptor(&ref, geoms[i].stat)) vx_violation(vx_replay_field(rp, "sig"), rp, "static initialiser differs from messageq_init");
				} else vx_bfs_replay(&b, rp);
			}
		vx_finish();
		return 0;
	}
	for (unsigned i = 0; i < lengthof(geoms); i++) {
		const geom_t *g = &geoms[i];
		if (!vx_mine(i) || !geom_selected(g)) continue;
		if (vx_deadline_passed()) { vx_and("exhaustive", 0); vx_count("geometries_skipped_deadline", 1); continue; }
		uint64_t st_states[2] = {0}, st_trans[2] = {0};
		for (int use_static = 0; use_static < 2; use_static++) {
			/* the static twin is explored for the small depths and depth 32; its descriptor is compared for all */
			if (use_static) {
				messageq_t ref; D = g->d; M = g->m; S = g->s;
				messageq_init(&ref, STATIC_BASE, (size_t)(D * M + S), (size_t)M);
				vx_count("constructor_pairs_compared", 1);
				if (!same_descriptor(&ref, g->stat)) {
					char sig[128], rpl[128];
					snprintf(name, sizeof(name), "d%d-m%d-s%d-static1", g->d, g->m, g->s);
					snprintf(sig, sizeof(sig), "constructors-differ|%s", name);
					snprintf(rpl, sizeof(rpl), "config=%s\nsig=%s\n", name, sig);
					vx_violation(sig, rpl, "MESSAGEQ_VAR_INIT and messageq_init describe different queues for depth %d msg_len %d slack %d", g->d, g->m, g->s);
				}
				if (!(g->d <= 4 || g->d == 32)) continue;
			}
			setup(g, use_static);
			snprintf(name, sizeof(name), "d%d-m%d-s%d-static%d", g->d, g->m, g->s, use_static);
			b.name = name; b.nops = nops; b.max_depth = 0;
			vx_bfs_run(&b);
			st_states[use_static] = b.states; st_trans[use_static] = b.transitions;
			vx_count("states", b.states); vx_count("transitions", b.transitions); vx_count("traces", b.transitions);
			vx_count("scope_guard_disabled_ops", b.disabled);
			vx_and("exhaustive", b.fixpoint); vx_max("max_depth", (uint64_t)b.depth_done);
			vx_count("geometry_runs", 1);
			if (!max_unsent) vx_count("geometries_full_fixpoint", 1); else vx_count("geometries_restricted_fixpoint", 1);
			if ((g->d == 2 || g->d == 32) && g->m == 4 && g->s == 3 && !use_static) {
				vx_sb hs = {0}; static uint32_t ops[512];
				int n = vx_store_trace(&b.st, b.st.n - 1, ops, 512);
				for (int k = 0; k < n; k++) { if (k) vx_sb_printf(&hs, "; "); op_describe((int)ops[k], &hs); }
				vx_sample("%s: %llu states %llu transitions fixpoint=%d; deepest history (%d ops): %s", name,
					(unsigned long long)b.states, (unsigned long long)b.transitions, b.fixpoint, n, hs.s ? hs.s : "");
				free(hs.s);
			}
			vx_bfs_free(&b);
		}
		if (st_states[1] && (st_states[0] != st_states[1] || st_trans[0] != st_trans[1])) {
			char sig[128], rpl[128];
			snprintf(name, sizeof(name), "d%d-m%d-s%d-static1", g->d, g->m, g->s);
			snprintf(sig, sizeof(sig), "constructors-graph-differ|%s", name);
			snprintf(rpl, sizeof(rpl), "config=%s\nsig=%s\n", name, sig);
			vx_violation(sig, rpl, "state graphs differ between constructors: %llu/%llu states", (unsigned long long)st_states[0], (unsigned long long)st_states[1]);
		}
	}
	vx_count("op_claim", exercised[0]); vx_count("op_receive", exercised[1]); vx_count("op_release", exercised[2]);
	vx_count("op_send", exercised[3]); vx_count("claims_expected_null", null_claims); vx_count("receives_expected_null", null_receives);
	vx_finish();
	return 0;
}

/*
 * C11 - tree iterators visit in the promised order, restore the tree, and free
 * safely (librfn/bintree.c; the file is not part of librfn.a, the driver
 * compiles it as an object of its own, `lib=['bintree.c']`, so nothing of the
 * harness shares a translation unit with it).
 *
 * Bounded-exhaustive enumeration (engine C of DESIGN.md), five passes:
 *
 *  main   EVERY binary tree shape with 0..N nodes (Catalan unranking; a hash set
 *         confirms the shapes are pairwise distinct), built into a byte arena.
 *         Iterators in/pre/post run to completion (or j nodes + iterate_complete)
 *         against an independent reference traversal AND librfn's recursive
 *         traversal; every link must have its original value afterwards.
 *         bintree_free / _left / _right with a logging deallocator: exactly once,
 *         children first, parent link cleared, deallocated nodes poisoned.
 *         Layouts: node stride sizeof(bintree_node_t)+8 (8-aligned, "a8") and
 *         sizeof+2 (addresses 2 mod 4 / 0 mod 4, "m2"); node placement in memory
 *         ascending with the node id, reversed ("r") and permuted ("p").
 *  guard  (small shapes) every node at the end of a page of its own, revoked by
 *         the deallocator: ANY later access faults.
 *  deep   a fixed family of degenerate and bushy shapes (left/right spine, two
 *         zig-zags, three combs, heap-shaped full tree, spine+full) at every size
 *         13..130 and on both sides of 2^8, 2^9, 1000, 2^10 and 2^16, same
 *         oracles (operations whose cost is n*depth are bounded, see C11.py).
 *  list   list iterator against bintree_traverse_list on left- and right-leaning
 *         spines of every length 1..130 and around 2^8, 2^9, 1000, 2^10 (2^16 for
 *         the linear direction; for both in the thorough tier).
 *  wrap   BINTREE_DECLARE_INLINE_WRAPPERS instantiated once (a compile unit of
 *         its own): every wrapper against the plain function on all small shapes.
 *
 * Shape notation (signatures, replays): pre-order string over B/L/R/o = node
 * with both children / left child only / right child only / no child; "-" is
 * the empty tree; "family:n" names a member of the deep family. Node ids are
 * pre-order positions (root = 0).
 */
#include <stddef.h>
#include <librfn/bintree.h>

/* ---- the typed-wrapper unit (this file is compiled a second time with -DC11_WRAPPER_UNIT; if the macro no longer
 * accepts this instantiation the driver compiles the stub instead and says so) */
typedef struct c11w_node { unsigned long tag; bintree_node_t bt; } c11w_node_t;
struct c11w_api {
	int present;
	c11w_node_t *(*left)(c11w_node_t *);
	c11w_node_t *(*right)(c11w_node_t *);
	c11w_node_t *(*iterate[3])(bintree_iterator_t *, c11w_node_t *);	/* in, pre, post */
	c11w_node_t *(*next)(bintree_iterator_t *);
	void (*complete)(bintree_iterator_t *);
	void (*free_[3])(c11w_node_t *);					/* free, free_left, free_right */
};
extern const struct c11w_api c11w_api;
void c11w_free_node(bintree_node_t *n);

#if defined(C11_WRAPPER_UNIT)

#define c11w_to(n) ((n) ? &(n)->bt : (bintree_node_t *)0)
static inline c11w_node_t *c11w_from(bintree_node_t *b)
{
	return b ? (c11w_node_t *)((char *)b - offsetof(c11w_node_t, bt)) : (c11w_node_t *)0;
}
BINTREE_DECLARE_INLINE_WRAPPERS(c11w, c11w_node_t, c11w_from, c11w_to, c11w_free_node)
const struct c11w_api c11w_api = {
	1, c11w_left, c11w_right,
	{ c11w_iterate_in_order, c11w_iterate_pre_order, c11w_iterate_post_order },
	c11w_next, c11w_iterate_complete,
	{ c11w_free, c11w_free_left, c11w_free_right },
};

#elif defined(C11_WRAPPER_STUB)

const struct c11w_api c11w_api = { 0 };

#else /* ------------------------------------------------------------------------------------- the harness proper */

#include "vx.h"
#include <sys/resource.h>

/* bintree.c references xmalloc (util.c, which would drag in the time and ratelimit code). A change of the library may
 * start to use it in earnest, so these are real allocators with util.c's contract (never return NULL). */
void *xmalloc(size_t sz) { void *p = malloc(sz ? sz : 1); if (!p) abort(); return p; }
void *xzalloc(size_t sz) { void *p = calloc(1, sz ? sz : 1); if (!p) abort(); return p; }

#define MAXK 16			/* largest node count of the exhaustive passes */
#define MAXN 65552		/* largest node count of the deep family, with slack */
#define NSZ (sizeof(bintree_node_t))

/* ------------------------------------------------------------------ shapes */

static uint64_t CAT[MAXK + 1];
static int K;					/* nodes of the current shape */
static int32_t *Lc, *Rc, *Par, *Size, *Dep;	/* [MAXN] */
static int32_t *stk;				/* [MAXN + 8] scratch stack of the shape code */
static int nid;
static char *shape_pre;				/* pre-order string of the current shape */
static char shape_str[96];			/* its name in signatures: the string itself (small) or family:n */
static int shape_depth;
static uint64_t shape_cost;			/* sum over nodes of (depth + 1): steps of an operation that walks down from the root for every node */

static int unrank(int k, uint64_t r, int parent)
{
	if (k == 0) return -1;
	int id = nid++, i;
	Par[id] = parent; Size[id] = k;
	for (i = 0;; i++) { uint64_t c = CAT[i] * CAT[k - 1 - i]; if (r < c) break; r -= c; }
	uint64_t rl = r / CAT[k - 1 - i], rr = r % CAT[k - 1 - i];
	Lc[id] = unrank(i, rl, id);
	Rc[id] = unrank(k - 1 - i, rr, id);
	return id;
}
static void shape_finish(const char *name)
{
	shape_cost = 0; shape_depth = 0;
	for (int i = 0; i < K; i++) {
		Dep[i] = Par[i] < 0 ? 0 : Dep[Par[i]] + 1; shape_cost += (uint64_t)Dep[i] + 1;
		if (Dep[i] + 1 > shape_depth) shape_depth = Dep[i] + 1;
	}
	if (name) { snprintf(shape_str, sizeof(shape_str), "%s", name); return; }
	if (K == 0) { strcpy(shape_str, "-"); return; }
	for (int i = 0; i < K && i < (int)sizeof(shape_str) - 1; i++)
		shape_str[i] = Lc[i] >= 0 ? (Rc[i] >= 0 ? 'B' : 'L') : (Rc[i] >= 0 ? 'R' : 'o');
	shape_str[K < (int)sizeof(shape_str) - 1 ? K : (int)sizeof(shape_str) - 1] = 0;
}
/* shape_pre[0..n-1] -> Lc/Rc/Par/Size (no recursion: the deep family has 65 538 levels) */
static int parse_pre(int n)
{
	int sp = 0;
	if (n < 1 || n > MAXN - 8) return -1;
	stk[sp++] = -1;					/* open slot: (parent << 1 | side), -1 = the root */
	for (int id = 0; id < n; id++) {
		char c = shape_pre[id];
		if (!sp || (c != 'B' && c != 'L' && c != 'R' && c != 'o')) return -1;
		int slot = stk[--sp];
		Lc[id] = Rc[id] = -1;
		if (slot < 0) Par[id] = -1;
		else { Par[id] = slot >> 1; if (slot & 1) Rc[slot >> 1] = id; else Lc[slot >> 1] = id; }
		if (c == 'B' || c == 'R') stk[sp++] = id << 1 | 1;
		if (c == 'B' || c == 'L') stk[sp++] = id << 1;
	}
	if (sp) return -1;
	for (int id = n - 1; id >= 0; id--)
		Size[id] = 1 + (Lc[id] >= 0 ? Size[Lc[id]] : 0) + (Rc[id] >= 0 ? Size[Rc[id]] : 0);
	K = n;
	return 0;
}

/* the deep family: fixed shapes for any node count n */
enum { F_LSPINE, F_RSPINE, F_ZIGL, F_ZIGR, F_LRSPINE, F_RLSPINE, F_INNER, F_OUTER, F_LCOMB, F_RCOMB, F_ZCOMB, F_FULL, F_LSFULL, F_RSFULL, NFAM };
static const char *famname[NFAM] = { "lspine", "rspine", "zigl", "zigr", "lrspine", "rlspine", "inner", "outer", "lcomb", "rcomb", "zcomb", "full", "lsfull", "rsfull" };
static int gen_full(char *s, int n)			/* heap-shaped tree: node h has children 2h+1, 2h+2 while < n */
{
	int sp = 0, pos = 0;
	if (n < 1) return 0;
	stk[sp++] = 0;
	while (sp) {
		int h = stk[--sp], l = 2 * h + 1 < n, r = 2 * h + 2 < n;
		s[pos++] = l ? (r ? 'B' : 'L') : 'o';
		if (r) stk[sp++] = 2 * h + 2;
		if (l) stk[sp++] = 2 * h + 1;
	}
	return pos;
}
static int gen_family(int fam, int n)
{
	char *s = shape_pre;
	int pos = 0, k, m;
	if (n < 1 || n > MAXN - 8) return -1;
	switch (fam) {
	case F_LSPINE: case F_RSPINE:
		for (; pos < n - 1; pos++) s[pos] = fam == F_LSPINE ? 'L' : 'R';
		s[pos++] = 'o'; break;
	case F_ZIGL: case F_ZIGR:
		for (; pos < n - 1; pos++) s[pos] = ((pos & 1) == (fam == F_ZIGR)) ? 'L' : 'R';
		s[pos++] = 'o'; break;
	case F_LRSPINE: case F_RLSPINE:	/* one step to the left, then a right spine (the longest in-order predecessor search) / mirrored */
		if (n < 3) return -1;
		s[pos++] = fam == F_LRSPINE ? 'L' : 'R';
		for (; pos < n - 1; pos++) s[pos] = fam == F_LRSPINE ? 'R' : 'L';
		s[pos++] = 'o'; break;
	case F_INNER: case F_OUTER: {	/* root with two spines that lean towards each other / away from each other */
		int a = (n - 1) / 2, b = n - 1 - a;
		if (n < 5) return -1;
		s[pos++] = 'B';
		for (int i = 0; i < a - 1; i++) s[pos++] = fam == F_INNER ? 'R' : 'L';
		s[pos++] = 'o';
		for (int i = 0; i < b - 1; i++) s[pos++] = fam == F_INNER ? 'L' : 'R';
		s[pos++] = 'o'; break; }
	case F_LCOMB:			/* left spine, a leaf on the right of every spine node (the left-leaning list shape) */
		if (n < 3) return -1;
		m = n; if (!(n & 1)) { s[pos++] = 'L'; m--; }
		k = (m - 1) / 2;
		for (int i = 0; i < k; i++) s[pos++] = 'B';
		for (int i = 0; i <= k; i++) s[pos++] = 'o';
		break;
	case F_RCOMB:			/* right spine, a leaf on the left of every spine node */
		if (n < 3) return -1;
		m = n; if (!(n & 1)) { s[pos++] = 'R'; m--; }
		k = (m - 1) / 2;
		for (int i = 0; i < k; i++) { s[pos++] = 'B'; s[pos++] = 'o'; }
		s[pos++] = 'o'; break;
	case F_ZCOMB: {			/* zig-zag path, a leaf on the other side of every path node */
		int tail = 0;
		if (n < 3) return -1;
		m = n; if (!(n & 1)) { s[pos++] = 'L'; m--; }
		k = (m - 1) / 2;
		for (int i = 0; i < k; i++) {
			s[pos++] = 'B';
			if (i & 1) s[pos++] = 'o'; else tail++;
		}
		s[pos++] = 'o';
		for (int i = 0; i < tail; i++) s[pos++] = 'o';
		break; }
	case F_FULL:
		pos = gen_full(s, n); break;
	case F_LSFULL: case F_RSFULL:	/* a spine of n/2 nodes with a heap-shaped tree of the rest at its end */
		if (n < 4) return -1;
		for (; pos < n / 2; pos++) s[pos] = fam == F_LSFULL ? 'L' : 'R';
		pos += gen_full(s + pos, n - n / 2); break;
	default: return -1;
	}
	if (pos != n) return -1;
	s[n] = 0;
	if (parse_pre(n)) return -1;
	char nm[64]; snprintf(nm, sizeof(nm), "%s:%d", famname[fam], n);
	shape_finish(nm);
	return 0;
}
static int parse_shape(const char *s)
{
	const char *c = strchr(s, ':');
	if (!strcmp(s, "-")) { K = 0; shape_finish(NULL); return 0; }
	if (c) {
		for (int f = 0; f < NFAM; f++)
			if (strlen(famname[f]) == (size_t)(c - s) && !strncmp(s, famname[f], (size_t)(c - s)))
				return gen_family(f, atoi(c + 1));
		return -1;
	}
	size_t n = strlen(s);
	if (n > MAXK) return -1;
	memcpy(shape_pre, s, n + 1);
	if (parse_pre((int)n)) return -1;
	shape_finish(NULL);
	return 0;
}

/* independent reference traversals, straight from the shape arrays (explicit stack) */
static int ref_n; static int32_t *ref_seq;
static void ref_in(int s)
{
	int sp = 0, cur = s;
	while (cur >= 0 || sp) {
		while (cur >= 0) { stk[sp++] = cur; cur = Lc[cur]; }
		cur = stk[--sp]; ref_seq[ref_n++] = cur; cur = Rc[cur];
	}
}
static void ref_pre(int s)
{
	int sp = 0;
	if (s < 0) return;
	stk[sp++] = s;
	while (sp) { int x = stk[--sp]; ref_seq[ref_n++] = x; if (Rc[x] >= 0) stk[sp++] = Rc[x]; if (Lc[x] >= 0) stk[sp++] = Lc[x]; }
}
static void ref_post(int s)		/* node, right, left - reversed */
{
	int sp = 0, n0 = ref_n;
	if (s < 0) return;
	stk[sp++] = s;
	while (sp) { int x = stk[--sp]; ref_seq[ref_n++] = x; if (Lc[x] >= 0) stk[sp++] = Lc[x]; if (Rc[x] >= 0) stk[sp++] = Rc[x]; }
	for (int a = n0, b = ref_n - 1; a < b; a++, b--) { int32_t t = ref_seq[a]; ref_seq[a] = ref_seq[b]; ref_seq[b] = t; }
}

/* ------------------------------------------------------------------- nodes */

enum { LAY_A8, LAY_M2, NLAY };
enum { PL_ASC, PL_REV, PL_PERM, NPL };
static const char *layname[NLAY * NPL] = { "a8", "a8r", "a8p", "m2", "m2r", "m2p" };	/* index = layout * NPL + placement */
enum { PASS_MAIN, PASS_GUARD, PASS_LIST, PASS_DEEP, PASS_WRAP };
static const char *passname[] = { "main", "guard", "list", "deep", "wrap" };

/* strides follow the node type: 8-aligned with a gap of at least 8 bytes / under-aligned (2 mod 4, 0 mod 4 alternating) with a gap of 2.. bytes */
static size_t stride_of(int layout)
{
	size_t s;
	if (layout == LAY_A8) return (NSZ + 8 + 7) & ~(size_t)7;
	for (s = NSZ + 2; s % 4 != 2; s++) ;
	return s;
}
static uint8_t *arena_mem, *image0, *scratch_img;	/* [arena_cap] */
static size_t arena_cap, arena_used;
static uint8_t *nbase; static size_t nstride;
static int32_t *slot_of, *id_at;			/* placement of node ids in the arena / in the guard pages */
static int perm_for_k = -1; static int32_t *perm_cache;

#define MAXG 12
static uint8_t *gregion;			/* guard pass: [none][node page][none][node page]... */
static bintree_node_t *gslot[MAXG];
static uint8_t gdead[MAXG];			/* by page slot */
static int g_guard;				/* current pass uses the page-per-node placement */

static uint8_t *poison_page; static bintree_node_t *POISON;
static bintree_node_t poison_img;

static inline bintree_node_t *NA(int i)
{
	if (i < 0) return NULL;
	return g_guard ? gslot[slot_of[i]] : (bintree_node_t *)(nbase + (size_t)slot_of[i] * nstride);
}
static int id_of(const bintree_node_t *p)
{
	if (!p) return -1;
	if (g_guard) { for (int i = 0; i < K; i++) if (gslot[i] == p) return id_at[i]; return -2; }
	ptrdiff_t off = (const uint8_t *)p - nbase;
	if (off < 0 || off % (ptrdiff_t)nstride || off / (ptrdiff_t)nstride >= K) return -2;
	return id_at[off / (ptrdiff_t)nstride];
}
static void put_node(int i)
{
	bintree_node_t v = BINTREE_NODE_VAR_INIT;	/* whatever else a node holds starts as the library's initialiser says */
	v.left = NA(Lc[i]); v.right = NA(Rc[i]);
	memcpy(NA(i), &v, sizeof(v));			/* memcpy: the m2 layout is deliberately under-aligned */
}
static bintree_node_t get_node(int i) { bintree_node_t v; memcpy(&v, NA(i), sizeof(v)); return v; }

/* returns 0 if this placement is the same as an earlier one for this node count (tiny trees) */
static int set_placement(int pl)
{
	if (pl == PL_ASC) for (int i = 0; i < K; i++) slot_of[i] = i;
	else if (pl == PL_REV) { if (K < 2) return 0; for (int i = 0; i < K; i++) slot_of[i] = K - 1 - i; }
	else {
		if (K < 3) return 0;
		if (perm_for_k != K) {		/* one fixed shuffle per node count (Fisher-Yates driven by a hash of (K, i): deterministic) */
			int asc = 1, rev = 1;
			for (int i = 0; i < K; i++) perm_cache[i] = i;
			for (int i = K - 1; i > 0; i--) {
				int j = (int)(vx_mix(((uint64_t)K << 32) + (uint64_t)i + 0x51ed2701) % (uint64_t)(i + 1));
				int32_t t = perm_cache[i]; perm_cache[i] = perm_cache[j]; perm_cache[j] = t;
			}
			for (int i = 0; i < K; i++) { if (perm_cache[i] != i) asc = 0; if (perm_cache[i] != K - 1 - i) rev = 0; }
			if (asc || rev) { int32_t t = perm_cache[0]; perm_cache[0] = perm_cache[K / 2]; perm_cache[K / 2] = t; }
			perm_for_k = K;
		}
		memcpy(slot_of, perm_cache, sizeof(int32_t) * (size_t)K);
	}
	for (int i = 0; i < K; i++) id_at[slot_of[i]] = i;
	return 1;
}
static int build_arena(int layout, int pl)
{
	g_guard = 0;
	if (!set_placement(pl)) return 0;
	nstride = stride_of(layout);
	nbase = arena_mem + 16 + (layout == LAY_M2 ? 2 : 0);
	arena_used = 16 + 2 + (size_t)K * nstride + 16;
	if (arena_used > arena_cap) { fprintf(stderr, "c11: arena too small\n"); _exit(3); }
	memset(arena_mem, 0xC3, arena_used);
	for (int i = 0; i < K; i++) put_node(i);
	memcpy(image0, arena_mem, arena_used);
	return 1;
}
static void guard_revive(void)
{
	for (int i = 0; i < MAXG; i++) if (gdead[i]) {
		mprotect((uint8_t *)gslot[i] + NSZ - 4096, 4096, PROT_READ | PROT_WRITE);
		gdead[i] = 0;
	}
}
static void build_guard(void)		/* placement already set */
{
	g_guard = 1;
	guard_revive();
	for (int i = 0; i < K; i++) put_node(i);
}

/* ------------------------------------------------------------ case context */

enum { OP_IT_IN, OP_IT_PRE, OP_IT_POST, OP_FREE, OP_FREE_L, OP_FREE_R, OP_N, OP_ACCESS = OP_N };
static const char *opname[] = { "iter_in", "iter_pre", "iter_post", "free", "free_left", "free_right", "left_right" };

static struct {
	int pass, layout, sub, op, j, owner;	/* layout = layout * NPL + placement */
	int ldir, llen, lelem, lplace;		/* list cases */
} C;
static int g_count;				/* this case belongs to this worker's partition: count it */
static int g_replay;
static uint64_t n_hangs;
static vx_set distinct_set, shape_set;

#define CNT(name, n) do { if (g_count) vx_count(name, n); } while (0)

static void case_text(vx_sb *d, vx_sb *r)
{
	if (C.pass == PASS_LIST) {
		const char *dir = C.ldir ? "right" : "left", *el = C.lelem ? "inner" : "leaf";
		vx_sb_printf(d, "list spine dir=%s len=%d elems=%s", dir, C.llen, el);
		if (C.lplace) vx_sb_printf(d, " placement=reversed");
		vx_sb_printf(r, "pass=list\ndir=%s\nlen=%d\nelems=%s\nplace=%d\n", dir, C.llen, el, C.lplace);
		return;
	}
	if (C.pass == PASS_WRAP) {
		vx_sb_printf(d, "wrap shape=%s root=%d", shape_str, C.sub);
		vx_sb_printf(r, "pass=wrap\nshape=%s\nsub=%d\nop=%s\n", shape_str, C.sub, opname[C.op]);
		return;
	}
	vx_sb_printf(d, "%s/%s shape=%s root=%d", passname[C.pass], layname[C.layout], shape_str, C.sub);
	if (C.j >= 0) vx_sb_printf(d, " complete-after=%d", C.j);
	if (C.owner >= 0) vx_sb_printf(d, " deallocator-of-node-%d-frees-another-tree", C.owner);
	vx_sb_printf(r, "pass=%s\nlayout=%s\nshape=%s\nk=%d\nsub=%d\nop=%s\nj=%d\nowner=%d\n",
		passname[C.pass], layname[C.layout], shape_str, K, C.sub, opname[C.op], C.j, C.owner);
}

/* One signature per (clause, class): the first failing case in enumeration order names it; later cases of the same
 * (clause, class) are only counted. The deep pass is partitioned over the workers, so a worker that meets a new
 * (clause, class) there re-runs the deep enumeration from its start (all partitions, nothing counted) up to the first
 * case that fails in that way and names the signature after it: every worker reports the same, smallest case. */
#define MAXKEYS 96
static struct { char *key, *sig; } keys[MAXKEYS]; static int nkeys;
static struct { char *key, *desc, *replay, *msg; int op, hit; char *hdesc, *hreplay, *hmsg; } pend[MAXKEYS]; static int npend;
static int probing, probe_hit, probe_hangs, deep_unit, probe_last_unit;	/* probe_hit: every pending key has been met */
static unsigned probe_ops;

static void emit_violation(const char *key, const char *desc, const char *replay, const char *msg)
{
	vx_sb s = {0};
	vx_sb_printf(&s, "C11|%s|%s", key, desc);
	if (nkeys < MAXKEYS) { keys[nkeys].key = strdup(key); keys[nkeys].sig = strdup(s.s); nkeys++; }
	vx_violation(s.s, replay, "%s: %s -- case: %s", key, msg, desc);
	vx_viol_total--;		/* the case was counted when it was met */
	free(s.s);
}
__attribute__((format(printf, 3, 4)))
static void fail(const char *clause, const char *cls, const char *fmt, ...)
{
	char key[160];
	va_list ap; va_start(ap, fmt); char *m = vx_vfmt(fmt, ap); va_end(ap);
	vx_sb d = {0}, r = {0}; case_text(&d, &r);
	if (C.pass == PASS_LIST) snprintf(key, sizeof(key), "list.%s|%s", clause, cls);
	else snprintf(key, sizeof(key), "%s.%s|%s", opname[C.op], clause, cls);
	if (probing) {
		int open_keys = 0;
		for (int i = 0; i < npend; i++) {
			if (!pend[i].hit && !strcmp(key, pend[i].key)) {
				pend[i].hit = 1;
				pend[i].hdesc = strdup(d.s); pend[i].hreplay = strdup(r.s); pend[i].hmsg = strdup(m);
			}
			if (!pend[i].hit) open_keys++;
		}
		if (!open_keys) probe_hit = 1;
		goto out;
	}
	vx_viol_total++;
	for (int i = 0; i < nkeys; i++) if (!strcmp(keys[i].key, key)) goto out;
	for (int i = 0; i < npend; i++) if (!strcmp(pend[i].key, key)) goto out;
	if (C.pass == PASS_DEEP && !g_replay && npend < MAXKEYS) {
		pend[npend].key = strdup(key); pend[npend].desc = strdup(d.s);
		pend[npend].replay = strdup(r.s); pend[npend].msg = strdup(m); pend[npend].op = C.op; pend[npend].hit = 0; npend++;
	} else
		emit_violation(key, d.s, r.s, m);
out:
	free(m); free(d.s); free(r.s);
}

#define C11_FAULT_RUNAWAY 1000
/* a callback that is called far more often than the tree has nodes: leave the library call (bounded harness loops) */
static void runaway(const char *what)
{
	if (!vx_armed) return;
	vx_fault_kind = C11_FAULT_RUNAWAY;
	snprintf(vx_fault_msg, sizeof(vx_fault_msg), "%s", what);
	siglongjmp(vx_jb, 1);
}
static const char *fault_class(void)
{
	if (vx_fault_kind == VX_FAULT_ASSERT) return "fault-assert";
	if (vx_fault_kind == VX_FAULT_HANG) { if (probing) probe_hangs++; else n_hangs++; return "hang"; }
	if (vx_fault_kind == C11_FAULT_RUNAWAY) return "runaway-callbacks";
	return "fault-signal";
}
/* sequences are printed in full up to 40 entries, longer ones as head ... tail */
static void seq_text(vx_sb *b, const int32_t *s, int n)
{
	vx_sb_printf(b, "[");
	for (int i = 0; i < n; i++) {
		if (n > 40 && i >= 12 && i < n - 12) { if (i == 12) vx_sb_printf(b, " ... (%d entries) ...", n - 24); continue; }
		if (s[i] == -2) vx_sb_printf(b, "%s?", i ? " " : "");
		else if (s[i] == -1) vx_sb_printf(b, "%sNULL", i ? " " : "");
		else vx_sb_printf(b, "%s%d", i ? " " : "", s[i]);
	}
	vx_sb_printf(b, "]");
}
static void note_distinct(const int32_t *obs, int n)
{
	vx_hasher h; vx_h_init(&h);
	vx_h_u64(&h, (uint64_t)C.pass << 48 | (uint64_t)C.layout << 40 | (uint64_t)C.op << 32 | (uint32_t)C.j);
	vx_h_bytes(&h, shape_str, strlen(shape_str));
	vx_h_u64(&h, (uint64_t)n);
	for (int i = 0; i < n; i++) vx_h_u64(&h, (uint64_t)(int64_t)obs[i]);
	if (vx_set_add(&distinct_set, vx_h_done(&h))) vx_count("distinct", 1);
}
static int smp_iter, smp_free, smp_guard, smp_deep, smp_place, smp_list, smp_longlist, smp_wrap;	/* sample budget per kind */

/* --------------------------------------------------------------- iterators */

static int32_t *trav, *got_buf, *dlog;		/* [MAXN + 8] */
static int trav_n, trav_cap; static uint64_t trav_calls, trav_limit;
static uint64_t stack_nodes_ok;			/* deepest recursion the stack limit certainly allows */

static void tvis(void *ctx, bintree_node_t *node, bintree_node_t *parent, int depth)
{
	(void)ctx; (void)parent; (void)depth;
	vx_opseq++;				/* progress: the watchdog looks for a library call that gets nowhere */
	if (++trav_calls > trav_limit) runaway("the recursive traversal calls its visitor without end");
	if (node && trav_n < trav_cap) trav[trav_n++] = id_of(node);
}
static int same_seq(const int32_t *a, int an, const int32_t *b, int bn)
{
	if (an != bn) return 0;
	return !memcmp(a, b, sizeof(int32_t) * (size_t)an);
}
/* The statement speaks of links: every link of every node must have its original value. Bytes between the nodes belong
 * to nobody and must not change either; other bytes of a node (a field a later version may add) are not judged.
 * returns 1 if a violation was recorded */
static int check_restore(const char *when)
{
	char cls[48]; vx_sb msg = {0};
	if (!memcmp(arena_mem, image0, arena_used)) return 0;
	for (int i = 0; i < K; i++) {
		bintree_node_t now, was;
		memcpy(&now, NA(i), sizeof(now));
		memcpy(&was, image0 + ((uint8_t *)NA(i) - arena_mem), sizeof(was));
		if (now.left != was.left) {
			if (((uintptr_t)now.left ^ (uintptr_t)was.left) == 1) {
				snprintf(cls, sizeof(cls), "left-tag-bit");
				vx_sb_printf(&msg, "node %d: low bit of the left pointer is %s", i, ((uintptr_t)now.left & 1) ? "still set" : "cleared");
			} else {
				snprintf(cls, sizeof(cls), "left-link");
				vx_sb_printf(&msg, "node %d: left link was node %d, is now %d%s", i, id_of(was.left),
					id_of((bintree_node_t *)((uintptr_t)now.left & ~(uintptr_t)1)), ((uintptr_t)now.left & 1) ? " (tagged)" : "");
			}
			goto bad;
		}
		if (now.right != was.right) {
			snprintf(cls, sizeof(cls), "right-link");
			vx_sb_printf(&msg, "node %d: right link was %s, now points at node %d", i, was.right ? "a child" : "NULL", id_of(now.right));
			goto bad;
		}
	}
	memcpy(scratch_img, arena_mem, arena_used);
	for (int i = 0; i < K; i++) { size_t off = (size_t)((uint8_t *)NA(i) - arena_mem); memcpy(scratch_img + off, image0 + off, NSZ); }
	if (memcmp(scratch_img, image0, arena_used)) {
		snprintf(cls, sizeof(cls), "bytes-outside-nodes");
		vx_sb_printf(&msg, "bytes between the nodes changed");
		goto bad;
	}
	CNT("info_iteration_left_non_link_bytes_of_a_node_changed", 1);
	return 0;
bad:
	fail("restore", cls, "%s %s", when, msg.s);
	free(msg.s);
	return 1;
}


/* The iterators and bintree_free are the constant-stack alternative to the recursive traversals: in the DEEP pass (and
 * for every replay of it) they run on a stack of their own, C11_SMALL_STACK bytes with an inaccessible page below, so
 * stack use that grows with the depth of the tree faults there instead of hiding in the 1 GiB the harness gives the
 * recursive yardstick (seeded/C11-r5). The fault arrives on the alternate signal stack and leaves through VX_TRY. */
#include <ucontext.h>
#define C11_SMALL_STACK (32 * 1024)
static ucontext_t ss_main, ss_ctx;
static void (*ss_fn)(void *); static void *ss_arg; static uint8_t *ss_mem;
static void ss_tramp(void) { ss_fn(ss_arg); }
static void on_small_stack(void (*fn)(void *), void *arg)
{
	if (!ss_mem) {
		ss_mem = mmap(NULL, C11_SMALL_STACK + 4096, PROT_READ | PROT_WRITE, MAP_PRIVATE | MAP_ANONYMOUS, -1, 0);
		if (ss_mem == MAP_FAILED || mprotect(ss_mem, 4096, PROT_NONE)) { fprintf(stderr, "c11: no small stack\n"); exit(3); }
	}
	getcontext(&ss_ctx);
	ss_ctx.uc_stack.ss_sp = ss_mem + 4096; ss_ctx.uc_stack.ss_size = C11_SMALL_STACK; ss_ctx.uc_link = &ss_main;
	makecontext(&ss_ctx, ss_tramp, 0);
	ss_fn = fn; ss_arg = arg;
	swapcontext(&ss_main, &ss_ctx);
}
static int use_small_stack(void) { return C.pass == PASS_DEEP; }

struct iter_args { int op, j, size, small; int32_t *got; volatile int *got_n, *overflow, *rewrote; bintree_iterator_t *it; bintree_node_t *root; };
static void iter_body(void *p)
{
	struct iter_args *a = p;
	bintree_node_t *n = a->op == OP_IT_IN ? bintree_iterate_in_order(a->it, a->root)
	  : a->op == OP_IT_PRE ? bintree_iterate_pre_order(a->it, a->root) : bintree_iterate_post_order(a->it, a->root);
	while (n) {
		if (*a->got_n > a->size + 1) { *a->overflow = 1; break; }
		a->got[(*a->got_n)++] = id_of(n);
		vx_opseq++;
		if (a->small && !*a->rewrote && memcmp(arena_mem, image0, arena_used)) *a->rewrote = 1;
		if (a->j >= 0 && *a->got_n == a->j) { bintree_iterate_complete(a->it); break; }
		n = bintree_next(a->it);
	}
}

static void run_iter_case(int op, int s, int j)
{
	static const char *cn[] = { "op_iter_in", "op_iter_pre", "op_iter_post" };
	static const char *cc[] = { "op_iter_in_then_complete", "op_iter_pre_then_complete", "op_iter_post_then_complete" };
	static const char *cr[] = { "iter_in_cases_links_rewritten_midway", "iter_pre_cases_links_rewritten_midway", "iter_post_cases_links_rewritten_midway" };
	int32_t *got = got_buf;
	int size = s >= 0 ? Size[s] : 0, small = K <= MAXK;
	volatile int got_n = 0;
	volatile int overflow = 0, rewrote = 0, faulted = 0, trav_fault = 0, trav_done = 0;
	bintree_iterator_t it;
	bintree_node_t *root = NA(s);

	C.op = op; C.sub = s; C.j = j; C.owner = -1;
	vx_lib_reset();		/* a static the library may keep cannot leak from one case into the next */
	memcpy(arena_mem, image0, arena_used);
	ref_n = 0;
	if (op == OP_IT_IN) ref_in(s); else if (op == OP_IT_PRE) ref_pre(s); else ref_post(s);
	CNT("evaluations", 1);
	CNT(j >= 0 ? cc[op] : cn[op], 1);

	/* librfn's own recursive traversal (only once per (op, root): the j >= 0 variants check restoration only) */
	trav_n = 0; trav_cap = size + 4; trav_calls = 0; trav_limit = 8 * (uint64_t)size + 64;
	if (j < 0 && (uint64_t)size > stack_nodes_ok) CNT("scope_skip_recursive_traversal_deeper_than_the_stack", 1);
	else if (j < 0) {
		trav_done = 1;
		if (VX_TRY) {
			if (op == OP_IT_IN) bintree_traverse_in_order(root, tvis, NULL);
			else if (op == OP_IT_PRE) bintree_traverse_pre_order(root, tvis, NULL);
			else bintree_traverse_post_order(root, tvis, NULL);
			VX_END;
		} else {
			VX_END; trav_fault = 1;
			fail("order", "librfn-recursive-traversal-faults", "bintree_traverse_* itself: %s", vx_fault_msg);
		}
		if (memcmp(arena_mem, image0, arena_used)) memcpy(arena_mem, image0, arena_used);
	}

	memset(&it, 0x5a, sizeof(it));
	if (VX_TRY) {
		struct iter_args ia = { op, j, size, small, got, &got_n, &overflow, &rewrote, &it, root };
		if (use_small_stack()) { CNT("iterations_run_on_the_small_stack", 1); on_small_stack(iter_body, &ia); }
		else iter_body(&ia);
		VX_END;
	} else {
		VX_END; faulted = 1;
		fail(j >= 0 ? "complete" : "order", fault_class(), "%s after %d nodes were returned", vx_fault_msg, got_n);
	}
	CNT("nodes_returned", (uint64_t)got_n);
	if (rewrote) CNT(cr[op], 1);
	if (faulted) return;

	if (j < 0) {
		vx_sb a = {0}, b = {0};
		if (overflow || !same_seq(got, got_n, ref_seq, ref_n)) {
			seq_text(&a, got, got_n); seq_text(&b, ref_seq, ref_n);
			fail("order", "iterator!=reference", "iterator returned %d nodes %s%s, the recursive definition gives %d nodes %s",
				got_n, a.s, overflow ? " and more" : "", ref_n, b.s);
		}
		if (trav_done && !trav_fault) {
			if (overflow || !same_seq(got, got_n, trav, trav_n)) {
				vx_sb_reset(&a); vx_sb_reset(&b);
				seq_text(&a, got, got_n); seq_text(&b, trav, trav_n);
				fail("order", "iterator!=librfn-recursive", "iterator returned %d nodes %s%s, bintree_traverse_* visits %d nodes %s",
					got_n, a.s, overflow ? " and more" : "", trav_n, b.s);
			}
		}
		free(a.s); free(b.s);
	}
	if (!overflow) check_restore("after the iteration ran to completion");
	if (g_count && s == 0 && K >= 2) note_distinct(got, got_n);
	if (g_count && s == 0 && j < 0 && vx_want_sample()) {
		vx_sb a = {0};
		if (C.pass == PASS_MAIN && K >= 6 && strchr(shape_str, 'B') && strchr(shape_str, 'L') && C.layout == 0 && smp_iter < 3) {
			smp_iter++; seq_text(&a, got, got_n);
			vx_sample("main/%s shape=%s %s from the root returns %s; links restored; links rewritten midway: %s",
				layname[C.layout], shape_str, opname[op], a.s, rewrote ? "yes" : "no");
		} else if (C.pass == PASS_MAIN && K >= 6 && strchr(shape_str, 'B') && C.layout % NPL == PL_PERM && smp_place < 1) {
			vx_sb p = {0};
			smp_place++; seq_text(&a, got, got_n); seq_text(&p, slot_of, K);
			vx_sample("main/%s shape=%s nodes placed in arena slots %s: %s from the root returns %s; links restored",
				layname[C.layout], shape_str, p.s, opname[op], a.s);
			free(p.s);
		} else if (C.pass == PASS_DEEP && smp_deep < 2 && (K == 33 || K == 257 || K >= 65535) && op == (smp_deep ? OP_IT_IN : OP_IT_POST)) {
			smp_deep++; seq_text(&a, got, got_n);
			vx_sample("deep/%s shape=%s (depth %d) %s from the root returns %d nodes %s; links restored",
				layname[C.layout], shape_str, shape_depth, opname[op], got_n, a.s);
		}
		free(a.s);
	}
}

/* -------------------------------------------------------------------- free */

static int dlog_n, dlog_cap; static uint64_t dlog_total, dlog_limit, dealloc_null_calls;
static uint8_t *dcount;				/* [MAXN] */
static int32_t *pos_buf;			/* [MAXN] */

/* a node may own something that is a tree itself: its deallocator then frees that tree with bintree_free
 * while the outer bintree_free is still under way (the free functions must not share state between calls) */
static int nested_owner = -1, nested_ran;
static bintree_node_t side[3]; static uint8_t side_count[3];
static void side_dealloc(bintree_node_t *n)
{
	for (int i = 0; i < 3; i++) if (n == &side[i]) { if (side_count[i] < 255) side_count[i]++; side[i] = poison_img; }
}
static void dealloc_cb(bintree_node_t *n)
{
	vx_opseq++;
	if (!n) { dealloc_null_calls++; return; }	/* the statement is silent about a deallocator called with NULL: tolerated, counted */
	int id = id_of(n);
	if (id >= 0 && id == nested_owner && !nested_ran) {
		bintree_node_t z = BINTREE_NODE_VAR_INIT;
		nested_ran = 1;
		side[0] = side[1] = side[2] = z;
		side[0].left = &side[1]; side[0].right = &side[2];
		memset(side_count, 0, sizeof(side_count));
		bintree_free(&side[0], side_dealloc);
	}
	if (++dlog_total > dlog_limit) runaway("the deallocator is called without end");
	if (dlog_n < dlog_cap) dlog[dlog_n++] = id;
	if (id < 0) return;
	if (dcount[id] < 255) dcount[id]++;
	if (dcount[id] > 1) return;
	if (g_guard) {
		gdead[slot_of[id]] = 1;
		mprotect((uint8_t *)n + NSZ - 4096, 4096, PROT_NONE);
	} else
		memcpy(n, &poison_img, NSZ);
}

struct free_args { int op; bintree_node_t *root; };
static void free_body(void *p)
{
	struct free_args *a = p;
	if (a->op == OP_FREE) bintree_free(a->root, dealloc_cb);
	else if (a->op == OP_FREE_L) bintree_free_left(a->root, dealloc_cb);
	else bintree_free_right(a->root, dealloc_cb);
}
static void run_free_case(int op, int s)
{
	static const char *cn[] = { "op_free", "op_free_left", "op_free_right" };
	static const char *gn[] = { "guard_op_free", "guard_op_free_left", "guard_op_free_right" };
	int t = op == OP_FREE ? s : op == OP_FREE_L ? Lc[s] : Rc[s];	/* root of what must be deallocated */
	int lo = t, hi = t >= 0 ? t + Size[t] : -1;			/* pre-order ids of that subtree: lo..hi-1 */
	int32_t *pos = pos_buf;
	bintree_node_t *root = NA(s);

	C.op = op; C.sub = s; C.j = -1; C.owner = nested_owner;
	nested_ran = 0;
	vx_lib_reset();
	if (nested_owner >= 0) CNT("free_cases_with_a_deallocator_that_frees_another_tree", 1);
	if (g_guard) build_guard(); else memcpy(arena_mem, image0, arena_used);
	memset(dcount, 0, (size_t)K + 1); dlog_n = 0; dlog_total = 0; dealloc_null_calls = 0;
	dlog_cap = K + 4; dlog_limit = 2 * (uint64_t)K + 64;
	CNT("evaluations", 1);
	CNT(g_guard ? gn[op - OP_FREE] : cn[op - OP_FREE], 1);

	if (VX_TRY) {
		struct free_args fa_ = { op, root };
		if (use_small_stack()) { CNT("frees_run_on_the_small_stack", 1); on_small_stack(free_body, &fa_); }
		else free_body(&fa_);
		VX_END;
	} else {
		VX_END;
		const char *cls = fault_class();
		uint8_t *fa = (uint8_t *)vx_fault_addr;
		int hit = -1;
		if (vx_fault_kind == SIGSEGV || vx_fault_kind == SIGBUS) {
			if (g_guard) { for (int i = 0; i < K; i++) if (gdead[slot_of[i]] && fa >= (uint8_t *)NA(i) + NSZ - 4096 && fa < (uint8_t *)NA(i) + NSZ) hit = i; }
			else if (fa >= poison_page && fa < poison_page + 4096) hit = -2;
		}
		if (hit >= 0) fail("use-after-dealloc", "access-to-revoked-node", "node %d was touched after it had been handed to the deallocator (%d deallocations so far)", hit, dlog_n);
		else if (hit == -2) fail("use-after-dealloc", "followed-poisoned-link", "a link read from an already deallocated node was followed (%d deallocations so far)", dlog_n);
		else fail("call", cls, "%s after %d deallocations", vx_fault_msg, dlog_n);
		CNT("dealloc_calls", dlog_total);
		if (g_guard) guard_revive();
		return;
	}
	CNT("dealloc_calls", dlog_total);
	if (dealloc_null_calls) CNT("info_deallocator_called_with_NULL", dealloc_null_calls);

	/* exactly once, nothing else */
	vx_sb lg = {0}; seq_text(&lg, dlog, dlog_n);
	if (nested_ran && (side_count[0] != 1 || side_count[1] != 1 || side_count[2] != 1))
		fail("once", "nested-tree", "the 3-node tree freed from inside the deallocator of node %d had its nodes deallocated %d/%d/%d times", nested_owner, side_count[0], side_count[1], side_count[2]);
	for (int i = 0; i < K; i++) pos[i] = -1;
	int bad_once = 0;
	for (int i = 0; i < dlog_n && !bad_once; i++) {
		int id = dlog[i];
		if (id < 0) { fail("once", "foreign-pointer", "deallocator called with a pointer that is no node; log %s", lg.s); bad_once = 1; }
		else if (id < lo || id >= hi) { fail("once", "node-outside-subtree", "node %d is not part of the subtree but was deallocated; log %s", id, lg.s); bad_once = 1; }
		else if (pos[id] >= 0) { fail("once", "twice", "node %d deallocated twice; log %s", id, lg.s); bad_once = 1; }
		else pos[id] = i;
	}
	if (!bad_once && dlog_total > (uint64_t)dlog_n) { fail("once", "twice", "%llu deallocator calls for %d nodes", (unsigned long long)dlog_total, hi - lo); bad_once = 1; }
	for (int id = lo; id < hi && !bad_once; id++)
		if (pos[id] < 0) { fail("once", "missed", "node %d was never deallocated; %d deallocations for %d nodes; log %s", id, dlog_n, hi - lo, lg.s); bad_once = 1; }
	/* children before parents */
	if (!bad_once)
		for (int id = lo; id < hi; id++) {
			int c = Lc[id] >= 0 && pos[Lc[id]] > pos[id] ? Lc[id] : Rc[id] >= 0 && pos[Rc[id]] > pos[id] ? Rc[id] : -1;
			if (c >= 0) { fail("children-first", "parent-before-child", "node %d deallocated before its child %d; log %s", id, c, lg.s); break; }
		}
	/* a store into a deallocated node (main pass; in the guard pass it would have faulted) */
	if (!g_guard)
		for (int id = 0; id < K; id++) if (dcount[id]) {
			if (memcmp(NA(id), &poison_img, NSZ)) { fail("use-after-dealloc", "store-into-deallocated-node", "node %d was written after it had been deallocated; log %s", id, lg.s); break; }
		}
	/* parent link cleared (the variants know the parent; dcount[s]: the parent itself was wrongly freed, reported above) */
	if (op != OP_FREE && !dcount[s]) {
		bintree_node_t v = get_node(s);
		bintree_node_t *lnk = op == OP_FREE_L ? v.left : v.right;
		if (lnk != NULL) fail("parent-link", op == OP_FREE_L ? "left-not-null" : "right-not-null",
			"after %s(node %d) the link is %s, not NULL", opname[op], s, id_of(lnk) >= 0 ? "still a node" : "a non-NULL value");
	}
	/* informational only (the statement is silent): surviving nodes otherwise untouched? */
	if (!g_guard && g_count) {
		int touched = 0;
		for (int id = 0; id < K; id++) if (!dcount[id]) {
			bintree_node_t now = get_node(id), was; memcpy(&was, image0 + ((uint8_t *)NA(id) - arena_mem), sizeof(was));
			if (id == s && op == OP_FREE_L) was.left = NULL;
			if (id == s && op == OP_FREE_R) was.right = NULL;
			if (now.left != was.left || now.right != was.right) touched = 1;
		}
		if (touched) { CNT("info_free_changed_a_surviving_node", 1); vx_note("informational: a free variant changed a link of a node outside the freed subtree (not part of the statement, not a violation)"); }
	}
	if (g_count && s == 0 && K >= 2) note_distinct(dlog, dlog_n);
	if (g_count && s == 0 && op == OP_FREE && vx_want_sample() && K >= 6) {
		if (C.pass == PASS_MAIN && strchr(shape_str, 'B') && strchr(shape_str, 'L') && smp_free < 2 && nested_owner < 0 && C.layout == (smp_free ? LAY_M2 * NPL + PL_REV : 0)) {
			smp_free++;
			vx_sample("main/%s shape=%s bintree_free(root): deallocation order %s", layname[C.layout], shape_str, lg.s);
		} else if (C.pass == PASS_GUARD && strchr(shape_str, 'B') && smp_guard < 1) {
			smp_guard++;
			vx_sample("guard/%s shape=%s bintree_free(root), page of each node revoked as it is deallocated: order %s", layname[C.layout], shape_str, lg.s);
		} else if (C.pass == PASS_DEEP && smp_free < 3 && (K == 66 || K == 1000)) {
			smp_free = 3;
			vx_sample("deep/%s shape=%s bintree_free(root): %d deallocations, order %s", layname[C.layout], shape_str, dlog_n, lg.s);
		}
	}
	free(lg.s);
	if (g_guard) guard_revive();
}

/* ---------------------------------------------------- one shape, all cases */

static int SUBK, CK, GN, M2K, PERMK, REVK;		/* bounds of the secondary dimensions (set per tier) */
static uint64_t COST_ALL, COST_BIG;		/* deep pass: bound on n*depth-cost operations (every layout / first layout only) */

static void run_case(int op, int s, int j)
{
	if (op <= OP_IT_POST) run_iter_case(op, s, j); else run_free_case(op, s);
}
static int too_many(void) { return vx_viol_total > 3000 || n_hangs >= 3; }

static void run_shape(void)
{
	C.pass = PASS_MAIN;
	for (int lay = 0; lay < NLAY; lay++) for (int pl = 0; pl < NPL; pl++) {
		if (lay == LAY_M2 && K > M2K) continue;
		if (pl == PL_PERM && K > PERMK) continue;
		if (pl == PL_REV && K > REVK) continue;
		if (lay == LAY_M2 && pl == PL_PERM) continue;
		C.layout = lay * NPL + pl;
		if (!build_arena(lay, pl)) continue;
		if (K == 0) {	/* the empty tree: iterators and bintree_free accept NULL; the variants need a node */
			for (int op = OP_IT_IN; op <= OP_FREE; op++) run_case(op, -1, -1);
			CNT("scope_skip_free_variant_on_empty_tree", 2);
			continue;
		}
		if (pl) CNT(pl == PL_REV ? "cases_with_reversed_node_placement" : "cases_with_permuted_node_placement", OP_N);
		int ns = K <= SUBK && pl == PL_ASC ? K : 1;
		for (int s = 0; s < ns; s++) {
			for (int op = 0; op < OP_N; op++) run_case(op, s, -1);
			if (s) CNT("cases_with_inner_node_as_root", OP_N);
		}
		if (K <= CK && pl != PL_PERM)
			for (int op = OP_IT_IN; op <= OP_IT_POST; op++)
				for (int j = 1; j <= K; j++) run_case(op, 0, j);
		/* every node in turn owns a second tree that its deallocator frees with bintree_free (small shapes) */
		if (K <= 7 && lay == LAY_A8 && pl == PL_ASC)
			for (int owner = 0; owner < K; owner++) {
				nested_owner = owner;
				for (int op = OP_FREE; op < OP_N; op++) run_case(op, 0, -1);
				nested_owner = -1;
			}
	}
	if (K >= 1 && K <= GN)
		for (int pl = PL_ASC; pl <= PL_REV; pl++) {
			C.pass = PASS_GUARD; C.layout = LAY_A8 * NPL + pl;
			if (!set_placement(pl)) continue;
			build_guard();
			for (int s = 0; s < K; s++)
				for (int op = OP_FREE; op < OP_N; op++) run_case(op, s, -1);
			g_guard = 0;
		}
}

/* ---------------------------------------------------------------- deep family */

static int deep_sizes[256], n_deep_sizes;
static void add_sizes(int *v, int *n, int lo, int hi) { for (int i = lo; i <= hi; i++) v[(*n)++] = i; }

/* all cases of one member of the family; count = this worker owns the unit */
static void run_deep_unit(int fam, int n, int count)
{
	g_count = count;
	if (gen_family(fam, n)) { CNT("deep_family_member_does_not_exist_at_this_size", 1); return; }
	CNT("deep_shapes", 1);
	if (g_count) { vx_max("deep_max_nodes", (uint64_t)K); vx_max("deep_max_depth", (uint64_t)shape_depth); }
	C.pass = PASS_DEEP;
	for (int lay = 0; lay < NLAY; lay++) for (int pl = 0; pl < NPL; pl++) {
		if (probing ? probe_hit || probe_hangs >= 2 : too_many()) return;
		C.layout = lay * NPL + pl;
		/* the members around 2^16: three of the six layouts (ascending, permuted, under-aligned reversed) */
		if (n > 2000 && !(C.layout == 0 || C.layout == LAY_A8 * NPL + PL_PERM || C.layout == LAY_M2 * NPL + PL_REV)) { CNT("deep_scope_skip_layout_at_2_16", 1); continue; }
		if (!build_arena(lay, pl)) continue;
		/* the expensive members (thorough tier): first layout only, and the three sizes 2^16-1, 2^16, 2^16+1 */
		uint64_t lim = (lay == LAY_A8 && pl == PL_ASC && COST_BIG > COST_ALL && n >= 65535 && n <= 65537) ? COST_BIG : COST_ALL;
		for (int op = 0; op < OP_N; op++) {
			if (probing && !(probe_ops >> op & 1)) continue;
			/* in-/pre-order iteration and the recursive traversals are linear; post-order iteration and the free
			 * functions walk down from the root for every node */
			if (op >= OP_IT_POST && shape_cost > lim) { CNT("deep_scope_skip_quadratic_operation_above_cost_bound", 1); continue; }
			if (op >= OP_IT_POST && shape_cost > COST_ALL && op != OP_IT_POST && op != OP_FREE) { CNT("deep_scope_skip_quadratic_operation_above_cost_bound", 1); continue; }
			run_case(op, 0, -1);
			CNT("deep_cases", 1);
			if (op <= OP_IT_POST && shape_cost <= COST_ALL && (n <= 2000 || C.layout == 0)) {
				int js[3] = { 1, K / 2, K - 1 };
				for (int q = 0; q < 3; q++) { run_case(op, 0, js[q]); CNT("deep_cases", 1); }
			}
		}
	}
}
static int deep_pass(int probe);
static void deep_flush_pending(void)
{
	/* one sweep for all keys that are new: only the operations they name, from the first unit up to the one just run */
	probe_hit = 0; probe_hangs = 0; probe_last_unit = deep_unit; probe_ops = 0;
	for (int i = 0; i < npend; i++) probe_ops |= 1u << pend[i].op;
	if (n_hangs < 3) { probing = 1; deep_pass(1); probing = 0; }
	for (int i = 0; i < npend; i++) {
		if (pend[i].hit) emit_violation(pend[i].key, pend[i].hdesc, pend[i].hreplay, pend[i].hmsg);
		else emit_violation(pend[i].key, pend[i].desc, pend[i].replay, pend[i].msg);
		if (pend[i].hit) { free(pend[i].hdesc); free(pend[i].hreplay); free(pend[i].hmsg); }
		free(pend[i].key); free(pend[i].desc); free(pend[i].replay); free(pend[i].msg);
	}
	npend = 0;
}
/* returns 1 if stopped early */
static int deep_pass(int probe)
{
	uint64_t part = 7;
	for (int si = 0; si < n_deep_sizes; si++)
		for (int fam = 0; fam < NFAM; fam++) {
			int mine = vx_mine(part++), unit = si * NFAM + fam;
			if (probe) {
				if (probe_hit || probe_hangs >= 2 || unit > probe_last_unit) return 0;
				run_deep_unit(fam, deep_sizes[si], 0);
				continue;
			}
			if (!mine) continue;
			if (vx_deadline_passed() || too_many() || vx_too_many_violations()) return 1;
			deep_unit = unit;
			run_deep_unit(fam, deep_sizes[si], 1);
			if (npend) deep_flush_pending();
		}
	return 0;
}

/* -------------------------------------------------------------- list spines */

typedef struct { bintree_node_t n; int is_list; int32_t code; } lnode_t;
#define LCODE_SPINE 0x40000000
#define LCODE_CHILD 0x20000000
static lnode_t *lpool; static int lpool_cap, ln_n, ln_rev;
static lnode_t **lsp, **lel;			/* [MAXN] */
static int32_t *lseq; static int lseq_n, lseq_cap; static uint64_t lvis_calls, lvis_limit, is_list_calls, is_list_limit, is_list_null;

/* a realistic predicate: looks at the node. The statement does not say whether is_list may be asked about "no node";
 * the answer is the obvious one (no list node there) and the question is counted */
static bool is_list_cb(bintree_node_t *n)
{
	if (++is_list_calls > is_list_limit) runaway("is_list is called without end");
	if (!n) { is_list_null++; return false; }
	return ((lnode_t *)n)->is_list != 0;
}
static int lcode(bintree_node_t *n)
{
	if (!n) return -1;
	lnode_t *p = (lnode_t *)n;
	if (p < lpool || p >= lpool + lpool_cap) return -2;
	return p->code;
}
static void lvis(void *ctx, bintree_node_t *n)
{
	(void)ctx;
	vx_opseq++;
	if (++lvis_calls > lvis_limit) runaway("bintree_traverse_list calls its visitor without end");
	if (n && lseq_n < lseq_cap) lseq[lseq_n++] = lcode(n);
}
static lnode_t *lnew(int is_list, int code)
{
	lnode_t *p = ln_rev ? &lpool[lpool_cap - 1 - ln_n] : &lpool[ln_n];
	bintree_node_t z = BINTREE_NODE_VAR_INIT;
	ln_n++;
	p->n = z; p->is_list = is_list; p->code = code;
	return p;
}
static void ltext(vx_sb *b, const int32_t *s, int n)
{
	vx_sb_printf(b, "[");
	for (int i = 0; i < n; i++) {
		if (n > 40 && i >= 12 && i < n - 12) { if (i == 12) vx_sb_printf(b, " ... (%d entries) ...", n - 24); continue; }
		if (s[i] >= LCODE_SPINE) vx_sb_printf(b, "%sL%d", i ? " " : "", s[i] - LCODE_SPINE);
		else if (s[i] >= LCODE_CHILD) vx_sb_printf(b, "%schild%d", i ? " " : "", s[i] - LCODE_CHILD);
		else if (s[i] == -1) vx_sb_printf(b, "%sNULL", i ? " " : "");
		else if (s[i] < 0) vx_sb_printf(b, "%s?", i ? " " : "");
		else vx_sb_printf(b, "%se%d", i ? " " : "", s[i]);
	}
	vx_sb_printf(b, "]");
}

/* spine nodes L0 (top) .. L(len-1); elements e0..e(len) in list order */
static void run_list_case(int dir, int len, int elem, int place)
{
	lnode_t **sp = lsp, **el = lel;
	int32_t *got = got_buf;
	volatile int got_n = 0;
	volatile int overflow = 0, faulted = 0, trav_fault = 0;
	bintree_iterator_t it;
	bintree_node_t *n;

	C.pass = PASS_LIST; C.ldir = dir; C.llen = len; C.lelem = elem; C.lplace = place; C.j = -1;
	ln_n = 0; ln_rev = place;
	vx_lib_reset();
	for (int i = 0; i < len; i++) sp[i] = lnew(1, LCODE_SPINE + i);
	for (int i = 0; i <= len; i++) {
		el[i] = lnew(0, i);
		if (elem) { el[i]->n.left = &lnew(0, LCODE_CHILD + 2 * i)->n; el[i]->n.right = &lnew(0, LCODE_CHILD + 2 * i + 1)->n; }
	}
	if (dir == 0) {		/* left-leaning: the deepest spine node holds e0,e1; every node above adds one on its right */
		for (int i = 0; i < len - 1; i++) { sp[i]->n.left = &sp[i + 1]->n; sp[i]->n.right = &el[len - i]->n; }
		sp[len - 1]->n.left = &el[0]->n; sp[len - 1]->n.right = &el[1]->n;
	} else {		/* right-leaning */
		for (int i = 0; i < len - 1; i++) { sp[i]->n.left = &el[i]->n; sp[i]->n.right = &sp[i + 1]->n; }
		sp[len - 1]->n.left = &el[len - 1]->n; sp[len - 1]->n.right = &el[len]->n;
	}
	CNT("evaluations", 1); CNT("op_list_iterate", 1);
	if (place) CNT("list_cases_with_reversed_node_placement", 1);

	lseq_n = 0; lseq_cap = len + 4; lvis_calls = 0; lvis_limit = 4 * (uint64_t)len + 64;
	is_list_calls = 0; is_list_limit = 16 * (uint64_t)len + 256; is_list_null = 0;
	if (VX_TRY) { bintree_traverse_list(&sp[0]->n, is_list_cb, lvis, NULL); VX_END; }
	else { VX_END; trav_fault = 1; fail("order", "librfn-recursive-traversal-faults", "bintree_traverse_list itself: %s", vx_fault_msg); }

	memset(&it, 0x5a, sizeof(it));
	is_list_calls = 0;
	if (VX_TRY) {
		for (n = bintree_iterate_list(&it, &sp[0]->n, is_list_cb); n; n = bintree_next(&it)) {
			if (got_n > len + 2) { overflow = 1; break; }
			got[got_n++] = lcode(n);
			vx_opseq++; is_list_calls = 0;
		}
		VX_END;
	} else {
		VX_END; faulted = 1;
		fail("order", fault_class(), "%s after %d elements were returned", vx_fault_msg, got_n);
	}
	CNT("list_elements_returned", (uint64_t)got_n);
	if (is_list_null) CNT("info_is_list_asked_about_NULL", is_list_null);
	if (faulted) return;
	vx_sb a = {0}, b = {0};
	int same = !overflow && got_n == len + 1;
	for (int i = 0; same && i <= len; i++) if (got[i] != i) same = 0;
	ltext(&a, got, got_n);
	if (!same) fail("order", "iterator!=reference", "list iterator returned %d elements %s%s, the list is e0..e%d", got_n, a.s, overflow ? " and more" : "", len);
	if (!trav_fault) {
		int eq = !overflow && got_n == lseq_n;
		for (int i = 0; eq && i < got_n; i++) if (got[i] != lseq[i]) eq = 0;
		if (!eq) { ltext(&b, lseq, lseq_n); fail("order", "iterator!=librfn-recursive", "list iterator returned %d elements %s%s, bintree_traverse_list visits %d: %s", got_n, a.s, overflow ? " and more" : "", lseq_n, b.s); }
	}
	if (g_count) {
		vx_hasher h; vx_h_init(&h);
		vx_h_u64(&h, 0x7157ULL << 40 | (uint64_t)place << 36 | (uint64_t)dir << 34 | (uint64_t)elem << 32 | (uint64_t)len);
		for (int i = 0; i < got_n; i++) vx_h_u64(&h, (uint64_t)(int64_t)got[i]);
		if (vx_set_add(&distinct_set, vx_h_done(&h))) vx_count("distinct", 1);
		if (len == 4 && elem == 0 && !place && smp_list < 2 && vx_want_sample()) {
			smp_list++;
			vx_sample("list spine dir=%s len=4 elems=leaf: iterator returns %s", dir ? "right" : "left", a.s);
		}
		if (len >= 257 && smp_longlist < 1 && vx_want_sample()) {
			smp_longlist++;
			vx_sample("list spine dir=%s len=%d elems=%s%s: iterator returns %d elements %s, as bintree_traverse_list",
				dir ? "right" : "left", len, elem ? "inner" : "leaf", place ? " placement=reversed" : "", got_n, a.s);
		}
	}
	free(a.s); free(b.s);
}

static int list_lens[256], n_list_lens;
static uint64_t LIST_COST_ALL, LIST_COST_BIG;
/* cheap cases are run by EVERY worker (same first failing case everywhere) and counted by one; the few expensive ones
 * (left-leaning around 2^16: the iterator walks down from the top for every element) are partitioned */
static void list_pass(uint64_t *part)
{
	for (int li = 0; li < n_list_lens; li++)
		for (int dir = 0; dir < 2; dir++)
			for (int elem = 0; elem < 2; elem++)
				for (int place = 0; place < 2; place++) {
					int len = list_lens[li];
					uint64_t cost = dir ? (uint64_t)len : (uint64_t)len * (uint64_t)len / 2;
					g_count = vx_mine((*part)++);
					if (too_many() || vx_deadline_passed()) continue;
					if (cost > LIST_COST_BIG || (cost > LIST_COST_ALL && (place || len < 65535 || len > 65537))) { CNT("list_scope_skip_left_leaning_above_cost_bound", 1); continue; }
					if (cost > LIST_COST_ALL && !g_count) continue;
					run_list_case(dir, len, elem, place);
					if (g_count) { vx_count("list_cases", 1); vx_max(dir ? "list_max_spine_length_right" : "list_max_spine_length_left", (uint64_t)len); }
				}
}

/* ------------------------------------------- typed wrappers against the plain functions */

#define WMAXK 8
static c11w_node_t wn[2][WMAXK];		/* [0]: driven through the c11w_* wrappers, [1]: through bintree_* */
static int w_side; static int32_t w_log[2][4 * WMAXK + 8]; static int w_logn[2];
static bintree_node_t w_links[2][WMAXK];	/* links afterwards, as node ids (+1, 0 = NULL, -1 = something else) */

static int w_id(int side, const bintree_node_t *b)
{
	if (!b) return -1;
	for (int i = 0; i < K; i++) if (&wn[side][i].bt == b) return i;
	return -2;
}
static void w_push(int side, int v) { if (w_logn[side] < 4 * WMAXK + 8) w_log[side][w_logn[side]++] = v; }
void c11w_free_node(bintree_node_t *n)
{
	int id = w_id(w_side, n);
	w_push(w_side, id);
	if (id >= 0) wn[w_side][id].bt = poison_img;
}
static void w_build(int side)
{
	bintree_node_t z = BINTREE_NODE_VAR_INIT;
	for (int i = 0; i < K; i++) {
		wn[side][i].tag = 0xabcd0000ul + (unsigned long)i; wn[side][i].bt = z;
		wn[side][i].bt.left = Lc[i] >= 0 ? &wn[side][Lc[i]].bt : NULL;
		wn[side][i].bt.right = Rc[i] >= 0 ? &wn[side][Rc[i]].bt : NULL;
	}
	w_logn[side] = 0;
}
static int w_nid(int side, c11w_node_t *p) { return p ? (p >= wn[side] && p < wn[side] + K ? (int)(p - wn[side]) : -2) : -1; }

static void run_wrap_case(int op, int s)
{
	volatile int fault[2] = { 0, 0 };
	C.pass = PASS_WRAP; C.op = op; C.sub = s; C.j = -1; C.owner = -1;
	CNT("evaluations", 1); CNT("wrapper_cases", 1);
	for (int side = 0; side < 2; side++) {
		bintree_iterator_t it;
		c11w_node_t *root = s >= 0 ? &wn[side][s] : NULL;
		w_side = side; w_build(side);
		vx_lib_reset();
		memset(&it, 0x5a, sizeof(it));
		if (VX_TRY) {
			if (op <= OP_IT_POST) {
				int cnt = 0;
				if (side == 0) {
					for (c11w_node_t *p = c11w_api.iterate[op](&it, root); p && cnt++ <= K + 1; p = c11w_api.next(&it)) w_push(0, w_nid(0, p));
				} else {
					bintree_node_t *r = root ? &root->bt : NULL;
					for (bintree_node_t *p = op == OP_IT_IN ? bintree_iterate_in_order(&it, r) : op == OP_IT_PRE ? bintree_iterate_pre_order(&it, r) : bintree_iterate_post_order(&it, r);
					     p && cnt++ <= K + 1; p = bintree_next(&it)) w_push(1, w_id(1, p));
				}
			} else if (op < OP_N) {
				if (side == 0) c11w_api.free_[op - OP_FREE](root);
				else if (op == OP_FREE) bintree_free(root ? &root->bt : NULL, c11w_free_node);
				else if (op == OP_FREE_L) bintree_free_left(&root->bt, c11w_free_node);
				else bintree_free_right(&root->bt, c11w_free_node);
			} else {	/* the accessors, and iterate_complete after the first node */
				if (side == 0) {
					w_push(0, w_nid(0, c11w_api.left(root))); w_push(0, w_nid(0, c11w_api.right(root)));
					if (c11w_api.iterate[OP_IT_IN](&it, root)) c11w_api.complete(&it);
				} else {
					w_push(1, w_id(1, root->bt.left)); w_push(1, w_id(1, root->bt.right));
					if (bintree_iterate_in_order(&it, &root->bt)) bintree_iterate_complete(&it);
				}
			}
			VX_END;
		} else { VX_END; fault[side] = 1; if (vx_fault_kind == VX_FAULT_HANG) n_hangs++; }
		for (int i = 0; i < K; i++) {
			w_links[side][i].left = (bintree_node_t *)(intptr_t)(w_id(side, wn[side][i].bt.left) + 1);
			w_links[side][i].right = (bintree_node_t *)(intptr_t)(w_id(side, wn[side][i].bt.right) + 1);
			if (!memcmp(&wn[side][i].bt, &poison_img, NSZ)) w_links[side][i].left = w_links[side][i].right = (bintree_node_t *)(intptr_t)-7;
		}
	}
	int differ = fault[0] != fault[1] || w_logn[0] != w_logn[1] || memcmp(w_log[0], w_log[1], sizeof(int32_t) * (size_t)w_logn[0]);
	int links = 0;
	for (int i = 0; i < K; i++) if (w_links[0][i].left != w_links[1][i].left || w_links[0][i].right != w_links[1][i].right) links = 1;
	if (differ || links) {
		vx_sb a = {0}, b = {0};
		seq_text(&a, w_log[0], w_logn[0]); seq_text(&b, w_log[1], w_logn[1]);
		fail("wrapper", "differs-from-plain-function", "through the c11w_* wrappers (BINTREE_DECLARE_INLINE_WRAPPERS): %s%s; through bintree_*: %s%s%s",
			a.s, fault[0] ? " then a fault" : "", b.s, fault[1] ? " then a fault" : "", links && !differ ? "; the links of the two trees differ afterwards" : "");
		free(a.s); free(b.s);
	}
	if (g_count) {
		vx_hasher h; vx_h_init(&h);
		vx_h_u64(&h, 0x77ULL << 48 | (uint64_t)op << 32 | (uint32_t)s);
		vx_h_bytes(&h, shape_str, strlen(shape_str));
		for (int i = 0; i < w_logn[0]; i++) vx_h_u64(&h, (uint64_t)(int64_t)w_log[0][i]);
		if (K >= 2 && vx_set_add(&distinct_set, vx_h_done(&h))) vx_count("distinct", 1);
		if (K >= 5 && op == OP_FREE_R && s == 0 && Rc[0] >= 0 && Lc[0] >= 0 && smp_wrap < 1 && vx_want_sample()) {
			vx_sb a = {0}; seq_text(&a, w_log[0], w_logn[0]); smp_wrap++;
			vx_sample("wrap shape=%s c11w_free_right(root) deallocates %s, exactly as bintree_free_right", shape_str, a.s);
			free(a.s);
		}
	}
}
static void wrap_shape(void)
{
	if (K == 0) { for (int op = OP_IT_IN; op <= OP_FREE; op++) run_wrap_case(op, -1); return; }
	for (int s = 0; s < K; s++)
		for (int op = 0; op <= OP_ACCESS; op++) run_wrap_case(op, s);
}

/* -------------------------------------------------------------------- main */

static void *xmap(size_t n)
{
	void *p = mmap(NULL, n, PROT_READ | PROT_WRITE, MAP_PRIVATE | MAP_ANONYMOUS, -1, 0);
	if (p == MAP_FAILED) { perror("c11: mmap"); _exit(3); }
	return p;
}
static void setup_memory(void)
{
	poison_page = mmap(NULL, 4096, PROT_NONE, MAP_PRIVATE | MAP_ANONYMOUS, -1, 0);
	if (poison_page == MAP_FAILED) { perror("mmap"); _exit(3); }
	POISON = (bintree_node_t *)((uintptr_t)(poison_page + 0x100) | 1);	/* odd: reads as "not yet visited" */
	memset(&poison_img, 0xDB, sizeof(poison_img));
	poison_img.left = poison_img.right = POISON;
	gregion = mmap(NULL, (2 * MAXG + 1) * 4096, PROT_NONE, MAP_PRIVATE | MAP_ANONYMOUS, -1, 0);
	if (gregion == MAP_FAILED) { perror("mmap"); _exit(3); }
	for (int i = 0; i < MAXG; i++) {
		uint8_t *pg = gregion + (size_t)(2 * i + 1) * 4096;
		mprotect(pg, 4096, PROT_READ | PROT_WRITE);
		gslot[i] = (bintree_node_t *)(pg + 4096 - NSZ);	/* flush against the next (inaccessible) page */
	}
	size_t smax = stride_of(LAY_A8) > stride_of(LAY_M2) ? stride_of(LAY_A8) : stride_of(LAY_M2);
	arena_cap = 64 + (size_t)MAXN * smax;
	arena_mem = xmap(arena_cap); image0 = xmap(arena_cap); scratch_img = xmap(arena_cap);
	size_t a = sizeof(int32_t) * (MAXN + 8);
	Lc = xmap(a); Rc = xmap(a); Par = xmap(a); Size = xmap(a); Dep = xmap(a); stk = xmap(2 * a);
	slot_of = xmap(a); id_at = xmap(a); perm_cache = xmap(a); ref_seq = xmap(a);
	trav = xmap(a); got_buf = xmap(a); dlog = xmap(a); pos_buf = xmap(a); lseq = xmap(a);
	dcount = xmap(MAXN + 8); shape_pre = xmap(MAXN + 8);
	lpool_cap = 4 * MAXN; lpool = xmap(sizeof(lnode_t) * (size_t)lpool_cap);
	lsp = xmap(sizeof(lnode_t *) * MAXN); lel = xmap(sizeof(lnode_t *) * MAXN);
}
/* librfn's recursive traversals are the statement's yardstick, and on a spine they recurse once per node: give them a
 * stack that holds 65 538 frames on every build (the limit is read by the kernel at exec time, hence the re-exec) */
static void big_stack(char **argv)
{
	struct rlimit rl;
	const rlim_t want = (rlim_t)1 << 30;
	if (getrlimit(RLIMIT_STACK, &rl)) { stack_nodes_ok = 4096; return; }
	if (rl.rlim_cur != RLIM_INFINITY && rl.rlim_cur < want && !getenv("C11_STACK_SET")) {
		struct rlimit nl = rl;
		nl.rlim_cur = (rl.rlim_max == RLIM_INFINITY || rl.rlim_max >= want) ? want : rl.rlim_max;
		if (nl.rlim_cur > rl.rlim_cur && !setrlimit(RLIMIT_STACK, &nl)) {
			setenv("C11_STACK_SET", "1", 1);
			execv("/proc/self/exe", argv);
			setrlimit(RLIMIT_STACK, &rl);
		}
	}
	getrlimit(RLIMIT_STACK, &rl);
	/* 1 KiB per level is several times what any of the builds needs */
	stack_nodes_ok = rl.rlim_cur == RLIM_INFINITY ? (uint64_t)1 << 20 : (uint64_t)rl.rlim_cur / 1024;
}

int main(int argc, char **argv)
{
	big_stack(argv);
	vx_init(argc, argv);
	vx_install_handlers();
	vx_watchdog(2.0);
	setup_memory();
	CAT[0] = 1;
	for (int k = 1; k <= MAXK; k++) { CAT[k] = 0; for (int i = 0; i < k; i++) CAT[k] += CAT[i] * CAT[k - 1 - i]; }
	vx_set_init(&distinct_set, 16); vx_set_init(&shape_set, 14);

	int N, KCOMMON = 7, WK;
	if (vx_thorough()) { N = 15; SUBK = 12; CK = 12; GN = 12; M2K = 13; PERMK = 13; REVK = 14; WK = 8; }
	else { N = 12; SUBK = 9; CK = 9; GN = 9; M2K = 10; PERMK = 10; REVK = 11; WK = 6; }
	/* deep family / list spines: every size from just above the exhaustive bound to 130 (no power of two needed to hit a
	 * limit such as 48 or 100), then both sides of 2^8, 2^9, 1000, 2^10, 2^16 */
	add_sizes(deep_sizes, &n_deep_sizes, 13, 130); add_sizes(list_lens, &n_list_lens, 1, 130);
	{
		static const int around[] = { 256, 512, 1024, 65536 };
		for (unsigned i = 0; i < sizeof(around) / sizeof(around[0]); i++) {
			if (around[i] == 1024) { add_sizes(deep_sizes, &n_deep_sizes, 999, 1001); add_sizes(list_lens, &n_list_lens, 999, 1001); }
			add_sizes(deep_sizes, &n_deep_sizes, around[i] - 2, around[i] + 2); add_sizes(list_lens, &n_list_lens, around[i] - 2, around[i] + 2);
		}
	}
	COST_ALL = 3000000; LIST_COST_ALL = 3000000;
	COST_BIG = vx_thorough() ? (uint64_t)65540 * 65540 : COST_ALL;
	LIST_COST_BIG = vx_thorough() ? (uint64_t)65540 * 65540 : LIST_COST_ALL;

	char *rp = vx_read_replay();
	if (rp) {
		char pass[32] = "", lay[32] = "", shp[64] = "", op[32] = "", dir[32] = "", el[32] = "";
		const char *f;
		g_count = 1; g_replay = 1;
		if ((f = vx_replay_field(rp, "pass"))) snprintf(pass, sizeof(pass), "%s", f);
		if (!strcmp(pass, "list")) {
			if ((f = vx_replay_field(rp, "dir"))) snprintf(dir, sizeof(dir), "%s", f);
			if ((f = vx_replay_field(rp, "elems"))) snprintf(el, sizeof(el), "%s", f);
			f = vx_replay_field(rp, "len");
			int len = f ? atoi(f) : 0;
			f = vx_replay_field(rp, "place");
			int place = f ? atoi(f) != 0 : 0;
			if (len < 1 || len > MAXN - 8) { fprintf(stderr, "c11: bad replay (len)\n"); return 3; }
			run_list_case(!strcmp(dir, "right"), len, !strcmp(el, "inner"), place);
		} else {
			if ((f = vx_replay_field(rp, "layout"))) snprintf(lay, sizeof(lay), "%s", f);
			if ((f = vx_replay_field(rp, "shape"))) snprintf(shp, sizeof(shp), "%s", f);
			if ((f = vx_replay_field(rp, "op"))) snprintf(op, sizeof(op), "%s", f);
			f = vx_replay_field(rp, "sub"); int s = f ? atoi(f) : 0;
			f = vx_replay_field(rp, "j"); int j = f ? atoi(f) : -1;
			f = vx_replay_field(rp, "owner"); nested_owner = f ? atoi(f) : -1;
			int o = -1; for (int i = 0; i <= OP_ACCESS; i++) if (!strcmp(op, opname[i])) o = i;
			int ly = 0; for (int i = 0; i < NLAY * NPL; i++) if (!strcmp(lay, layname[i])) ly = i;
			if (parse_shape(shp) || o < 0 || s >= K || (K && s < 0) || (!strcmp(pass, "guard") && K > MAXG) ||
			    (!strcmp(pass, "wrap") && K > WMAXK)) { fprintf(stderr, "c11: bad replay\n"); return 3; }
			if (!K) s = -1;
			C.layout = ly;
			if (!strcmp(pass, "wrap")) {
				if (!c11w_api.present || (o >= OP_FREE_L && s < 0)) { fprintf(stderr, "c11: bad replay (wrap)\n"); return 3; }
				run_wrap_case(o, s);
			} else if (o >= OP_N) { fprintf(stderr, "c11: bad replay (op)\n"); return 3; }
			else if (!strcmp(pass, "guard")) { C.pass = PASS_GUARD; set_placement(ly % NPL); build_guard(); run_case(o, s, j); }
			else {
				C.pass = !strcmp(pass, "deep") ? PASS_DEEP : PASS_MAIN;
				build_arena(ly / NPL, ly % NPL);
				run_case(o, s, j);
			}
		}
		vx_finish();
		return 0;
	}

	int stopped = 0, k;
	uint64_t part = 0;
	list_pass(&part);
	if (vx_deadline_passed()) stopped = 1;

	/* all shapes with k nodes, k = 0..N. Shapes with k <= KCOMMON are run by EVERY worker (so that the
	 * first failing case, which names the signature, is the same in all of them) but counted by one. */
	const uint64_t CHUNK = 64;
	for (k = 0; k <= N && !stopped; k++) {
		char cname[32]; snprintf(cname, sizeof(cname), "shapes_n%02d", k);
		for (uint64_t r0 = 0; r0 < CAT[k]; r0 += CHUNK) {
			int mine = vx_mine(part++);
			if (!mine && k > KCOMMON) continue;
			if (vx_deadline_passed() || too_many() || vx_too_many_violations()) { stopped = 1; break; }
			for (uint64_t r = r0; r < r0 + CHUNK && r < CAT[k]; r++) {
				nid = 0; K = k; unrank(k, r, -1); shape_finish(NULL);
				g_count = mine;
				if (mine) {
					vx_hasher h; vx_h_init(&h); vx_h_bytes(&h, shape_str, strlen(shape_str));
					if (vx_set_add(&shape_set, vx_h_done(&h))) vx_count("shapes_distinct", 1);
					vx_count("shapes", 1); vx_count(cname, 1);
				}
				run_shape();
			}
		}
	}
	int n_done = stopped ? (k - 2 < 0 ? 0 : k - 2) : N;
	if (!stopped) stopped = deep_pass(0);
	/* the typed wrappers: tiny, EVERY worker runs all of it, each shape is counted by one. Last: a library fault shows on both
	 * sides of this differential alike and belongs to the passes above */
	if (c11w_api.present && !stopped) {
		for (k = 0; k <= WK; k++)
			for (uint64_t r = 0; r < CAT[k] && !too_many(); r++) {
				nid = 0; K = k; unrank(k, r, -1); shape_finish(NULL);
				g_count = vx_mine(part++);
				CNT("wrapper_shapes", 1);
				wrap_shape();
			}
		vx_max("bound_wrapper_differential", (uint64_t)WK);
	} else if (!c11w_api.present)
		vx_and("exhaustive", 0);	/* the driver says why: the wrapper unit did not compile */
	if (too_many()) stopped = 1;

	if (stopped) {
		if (too_many() || vx_too_many_violations()) vx_note("enumeration stopped early: too many violating cases / hangs");
		else vx_note("deadline reached: enumeration stopped (all shapes up to n=%d were done)", n_done);
	}
	vx_and("exhaustive", !stopped);
	vx_min("n_nodes_fully_enumerated", (uint64_t)n_done);
	vx_max("n_nodes_bound", (uint64_t)N);
	{ uint64_t e = 0; for (int i = 0; i <= N; i++) e += CAT[i]; vx_max("shapes_expected_catalan_sum", e); }
	vx_max("bound_every_node_as_root", (uint64_t)SUBK);
	vx_max("bound_complete_after_j", (uint64_t)CK);
	vx_max("bound_guard_page_pass", (uint64_t)GN);
	vx_max("bound_underaligned_layout", (uint64_t)M2K);
	vx_max("bound_permuted_placement", (uint64_t)PERMK);
	vx_max("bound_reversed_placement", (uint64_t)REVK);
	vx_max("node_size_bytes", (uint64_t)NSZ);
	vx_finish();
	return 0;
}

#endif /* harness proper */

/*
 * C11 - tree iterators visit in the promised order, restore the tree, and free
 * safely (librfn/bintree.c; the file is not part of librfn.a, it is compiled
 * here directly).
 *
 * Bounded-exhaustive enumeration (engine C of DESIGN.md):
 *
 *  - EVERY binary tree shape with 0..N nodes (Catalan unranking, so the set of
 *    shapes is known to be complete and a hash set confirms they are pairwise
 *    distinct), built from the shape description into a byte arena;
 *  - on every shape: the in-order / pre-order / post-order iterators run to
 *    completion, compared with (a) a recursive traversal of the harness's own
 *    shape arrays and (b) librfn's bintree_traverse_*; the byte image of the
 *    whole arena must be identical before and after; for small shapes also
 *    "take j nodes, then bintree_iterate_complete" for every j, and every node
 *    as the root of the sub-operation;
 *  - bintree_free / bintree_free_left / bintree_free_right with a logging
 *    deallocator: every node of the subtree exactly once, nothing else,
 *    children before parents, parent link NULL afterwards. Main pass: a
 *    deallocated node is filled with an odd pointer into an inaccessible page
 *    (following it faults, a store into it is seen afterwards). Guard pass
 *    (small shapes): every node sits at the end of its own page and the page is
 *    revoked (PROT_NONE) by the deallocator, so ANY later access faults;
 *  - two arena layouts: 8-byte aligned nodes and nodes at addresses == 2 mod 4
 *    or 0 mod 4 with stride 18 (the quantifier only promises 2-byte alignment;
 *    the post-order iterator tags the low bit of left pointers);
 *  - list iterator against bintree_traverse_list on left- and right-leaning
 *    spines of length 1..12 (1..32 thorough), elements leaves or inner nodes.
 *
 * Shape notation (signatures, replays): pre-order string over B/L/R/o = node
 * with both children / left child only / right child only / no child; "-" is
 * the empty tree. Node ids are pre-order positions (root = 0).
 */
#include "vx.h"

#include "bintree.c"

/* bintree.c's graphviz helper references xmalloc (util.c, which would drag in
 * the time and ratelimit code); it is never called here. Link stub only. */
void *xmalloc(size_t sz)
{
	(void)sz;
	fprintf(stderr, "c11: xmalloc link stub called\n");
	_exit(3);
}

#define MAXK 16
#define MAXSEQ 64

/* ------------------------------------------------------------------ shapes */

static uint64_t CAT[MAXK + 1];
static int K;					/* nodes of the current shape */
static int8_t Lc[MAXK], Rc[MAXK], Par[MAXK], Size[MAXK];
static int nid;
static char shape_str[MAXK + 2];

static int unrank(int k, uint64_t r, int parent)
{
	if (k == 0) return -1;
	int id = nid++, i;
	Par[id] = (int8_t)parent; Size[id] = (int8_t)k;
	for (i = 0;; i++) { uint64_t c = CAT[i] * CAT[k - 1 - i]; if (r < c) break; r -= c; }
	uint64_t rl = r / CAT[k - 1 - i], rr = r % CAT[k - 1 - i];
	Lc[id] = (int8_t)unrank(i, rl, id);
	Rc[id] = (int8_t)unrank(k - 1 - i, rr, id);
	return id;
}
static void make_shape_str(void)
{
	if (K == 0) { strcpy(shape_str, "-"); return; }
	for (int i = 0; i < K; i++)
		shape_str[i] = Lc[i] >= 0 ? (Rc[i] >= 0 ? 'B' : 'L') : (Rc[i] >= 0 ? 'R' : 'o');
	shape_str[K] = 0;
}
static const char *pp; static int parse_bad;
static int parse_node(int parent)
{
	char c = *pp;
	if (!c || nid >= MAXK) { parse_bad = 1; return -1; }
	pp++;
	int id = nid++;
	Par[id] = (int8_t)parent; Lc[id] = Rc[id] = -1;
	if (c == 'B' || c == 'L') Lc[id] = (int8_t)parse_node(id);
	if (c == 'B' || c == 'R') Rc[id] = (int8_t)parse_node(id);
	if (c != 'B' && c != 'L' && c != 'R' && c != 'o') parse_bad = 1;
	Size[id] = (int8_t)(nid - id);
	return id;
}
static int parse_shape(const char *s)
{
	nid = 0; parse_bad = 0;
	if (!strcmp(s, "-")) { K = 0; make_shape_str(); return 0; }
	pp = s; parse_node(-1);
	if (*pp || parse_bad) return -1;
	K = nid; make_shape_str();
	return 0;
}

/* independent reference traversals, straight from the shape arrays */
static int ref_n; static int8_t ref_seq[MAXK];
static void ref_in(int s) { if (s < 0) return; ref_in(Lc[s]); ref_seq[ref_n++] = (int8_t)s; ref_in(Rc[s]); }
static void ref_pre(int s) { if (s < 0) return; ref_seq[ref_n++] = (int8_t)s; ref_pre(Lc[s]); ref_pre(Rc[s]); }
static void ref_post(int s) { if (s < 0) return; ref_post(Lc[s]); ref_post(Rc[s]); ref_seq[ref_n++] = (int8_t)s; }

/* ------------------------------------------------------------------- nodes */

enum { LAY_A8, LAY_M2, NLAY };
static const char *layname[] = { "a8", "m2" };
enum { PASS_MAIN, PASS_GUARD, PASS_LIST };
static const char *passname[] = { "main", "guard", "list" };

static uint8_t arena_mem[32 + MAXK * 24 + 32] __attribute__((aligned(64)));
static uint8_t image0[sizeof(arena_mem)];
static uint8_t *nbase; static size_t nstride;

#define MAXG 12
static uint8_t *gregion;			/* guard pass: [none][node page][none][node page]... */
static bintree_node_t *gnode[MAXG];
static uint8_t gdead[MAXG];
static int g_guard;				/* current pass uses the page-per-node placement */

static uint8_t *poison_page; static bintree_node_t *POISON;

static inline bintree_node_t *NA(int i)
{
	if (i < 0) return NULL;
	return g_guard ? gnode[i] : (bintree_node_t *)(nbase + (size_t)i * nstride);
}
static int id_of(const bintree_node_t *p)
{
	if (!p) return -1;
	if (g_guard) { for (int i = 0; i < K; i++) if (gnode[i] == p) return i; return -2; }
	ptrdiff_t off = (const uint8_t *)p - nbase;
	if (off < 0 || off % (ptrdiff_t)nstride || off / (ptrdiff_t)nstride >= K) return -2;
	return (int)(off / (ptrdiff_t)nstride);
}
static void put_node(int i)
{
	bintree_node_t v = { NA(Lc[i]), NA(Rc[i]) };
	memcpy(NA(i), &v, sizeof(v));		/* memcpy: the m2 layout is deliberately under-aligned */
}
static bintree_node_t get_node(int i) { bintree_node_t v; memcpy(&v, NA(i), sizeof(v)); return v; }

static void build_arena(int layout)
{
	g_guard = 0;
	memset(arena_mem, 0xC3, sizeof(arena_mem));
	if (layout == LAY_A8) { nbase = arena_mem + 16; nstride = 24; }
	else { nbase = arena_mem + 18; nstride = 18; }
	for (int i = 0; i < K; i++) put_node(i);
	memcpy(image0, arena_mem, sizeof(arena_mem));
}
static void guard_revive(void)
{
	for (int i = 0; i < MAXG; i++) if (gdead[i]) {
		mprotect((uint8_t *)gnode[i] + sizeof(bintree_node_t) - 4096, 4096, PROT_READ | PROT_WRITE);
		gdead[i] = 0;
	}
}
static void build_guard(void)
{
	g_guard = 1;
	guard_revive();
	for (int i = 0; i < K; i++) put_node(i);
}

/* ------------------------------------------------------------ case context */

enum { OP_IT_IN, OP_IT_PRE, OP_IT_POST, OP_FREE, OP_FREE_L, OP_FREE_R, OP_N };
static const char *opname[] = { "iter_in", "iter_pre", "iter_post", "free", "free_left", "free_right" };

static struct {
	int pass, layout, sub, op, j, owner;
	int ldir, llen, lelem;			/* list cases */
} C;
static int g_count;				/* this case belongs to this worker's partition: count it */
static uint64_t n_hangs;
static vx_set distinct_set, shape_set;

#define CNT(name, n) do { if (g_count) vx_count(name, n); } while (0)

static void case_text(vx_sb *d, vx_sb *r)
{
	if (C.pass == PASS_LIST) {
		const char *dir = C.ldir ? "right" : "left", *el = C.lelem ? "inner" : "leaf";
		vx_sb_printf(d, "list spine dir=%s len=%d elems=%s", dir, C.llen, el);
		vx_sb_printf(r, "pass=list\ndir=%s\nlen=%d\nelems=%s\n", dir, C.llen, el);
		return;
	}
	vx_sb_printf(d, "%s/%s shape=%s root=%d", passname[C.pass], layname[C.layout], shape_str, C.sub);
	if (C.j >= 0) vx_sb_printf(d, " complete-after=%d", C.j);
	if (C.owner >= 0) vx_sb_printf(d, " deallocator-of-node-%d-frees-another-tree", C.owner);
	vx_sb_printf(r, "pass=%s\nlayout=%s\nshape=%s\nk=%d\nsub=%d\nop=%s\nj=%d\nowner=%d\n",
		passname[C.pass], layname[C.layout], shape_str, K, C.sub, opname[C.op], C.j, C.owner);
}

/* One signature per (clause, class): the first failing case in enumeration
 * order names it; later cases of the same (clause, class) are only counted. */
#define MAXKEYS 96
static struct { char *key, *sig; } keys[MAXKEYS]; static int nkeys;

__attribute__((format(printf, 3, 4)))
static void fail(const char *clause, const char *cls, const char *fmt, ...)
{
	char key[160];
	va_list ap; va_start(ap, fmt); char *m = vx_vfmt(fmt, ap); va_end(ap);
	vx_sb d = {0}, r = {0}; case_text(&d, &r);
	if (C.pass == PASS_LIST) snprintf(key, sizeof(key), "list.%s|%s", clause, cls);
	else snprintf(key, sizeof(key), "%s.%s|%s", opname[C.op], clause, cls);
	const char *sig = NULL;
	for (int i = 0; i < nkeys; i++) if (!strcmp(keys[i].key, key)) sig = keys[i].sig;
	if (!sig) {
		vx_sb s = {0};
		vx_sb_printf(&s, "C11|%s|%s", key, d.s);
		sig = s.s;
		if (nkeys < MAXKEYS) { keys[nkeys].key = strdup(key); keys[nkeys].sig = s.s; nkeys++; }
	}
	vx_violation(sig, r.s, "%s: %s -- case: %s", key, m, d.s);
	free(m); free(d.s); free(r.s);
}
static const char *fault_class(void)
{
	if (vx_fault_kind == VX_FAULT_ASSERT) return "fault-assert";
	if (vx_fault_kind == VX_FAULT_HANG) { n_hangs++; return "hang"; }
	return "fault-signal";
}
static void seq_text(vx_sb *b, const int *s, int n)
{
	vx_sb_printf(b, "[");
	for (int i = 0; i < n; i++) {
		if (s[i] == -2) vx_sb_printf(b, "%s?", i ? " " : "");
		else if (s[i] == -1) vx_sb_printf(b, "%sNULL", i ? " " : "");
		else vx_sb_printf(b, "%s%d", i ? " " : "", s[i]);
	}
	vx_sb_printf(b, "]");
}
static void note_distinct(const int *obs, int n)
{
	vx_hasher h; vx_h_init(&h);
	vx_h_u64(&h, (uint64_t)C.pass << 48 | (uint64_t)C.layout << 40 | (uint64_t)C.op << 32 | (uint32_t)C.j);
	vx_h_bytes(&h, shape_str, strlen(shape_str));
	vx_h_u64(&h, (uint64_t)n);
	for (int i = 0; i < n; i++) vx_h_u64(&h, (uint64_t)(int64_t)obs[i]);
	if (vx_set_add(&distinct_set, vx_h_done(&h))) vx_count("distinct", 1);
}

/* --------------------------------------------------------------- iterators */

static int trav[MAXSEQ], trav_n;
static void tvis(void *ctx, bintree_node_t *node, bintree_node_t *parent, int depth)
{
	(void)ctx; (void)parent; (void)depth;
	if (node && trav_n < MAXSEQ) trav[trav_n++] = id_of(node);
}
static int same_seq(const int *a, int an, const int8_t *b, int bn)
{
	if (an != bn) return 0;
	for (int i = 0; i < an; i++) if (a[i] != b[i]) return 0;
	return 1;
}
/* which link of which node differs from the pristine image */
static void restore_diff(char *cls, size_t clsn, vx_sb *msg)
{
	for (int i = 0; i < K; i++) {
		bintree_node_t now, was;
		memcpy(&now, NA(i), sizeof(now));
		memcpy(&was, image0 + ((uint8_t *)NA(i) - arena_mem), sizeof(was));
		if (now.left != was.left) {
			if (((uintptr_t)now.left ^ (uintptr_t)was.left) == 1) {
				snprintf(cls, clsn, "left-tag-bit");
				vx_sb_printf(msg, "node %d: low bit of the left pointer is %s", i, ((uintptr_t)now.left & 1) ? "still set" : "cleared");
			} else {
				snprintf(cls, clsn, "left-link");
				vx_sb_printf(msg, "node %d: left link was node %d, is now %d%s", i, id_of(was.left),
					id_of((bintree_node_t *)((uintptr_t)now.left & ~(uintptr_t)1)), ((uintptr_t)now.left & 1) ? " (tagged)" : "");
			}
			return;
		}
		if (now.right != was.right) {
			snprintf(cls, clsn, "right-link");
			vx_sb_printf(msg, "node %d: right link was %s, now points at node %d", i, was.right ? "a child" : "NULL", id_of(now.right));
			return;
		}
	}
	snprintf(cls, clsn, "bytes-outside-nodes");
	vx_sb_printf(msg, "bytes between the nodes changed");
}

static void run_iter_case(int op, int s, int j)
{
	static const char *cn[] = { "op_iter_in", "op_iter_pre", "op_iter_post" };
	static const char *cc[] = { "op_iter_in_then_complete", "op_iter_pre_then_complete", "op_iter_post_then_complete" };
	static const char *cr[] = { "iter_in_cases_links_rewritten_midway", "iter_pre_cases_links_rewritten_midway", "iter_post_cases_links_rewritten_midway" };
	int got[MAXSEQ], size = s >= 0 ? Size[s] : 0;
	volatile int got_n = 0;
	volatile int overflow = 0, rewrote = 0, faulted = 0, trav_fault = 0;
	bintree_iterator_t it;
	bintree_node_t *root = NA(s), *n;

	C.op = op; C.sub = s; C.j = j; C.owner = -1;
	memcpy(arena_mem, image0, sizeof(arena_mem));
	ref_n = 0;
	if (op == OP_IT_IN) ref_in(s); else if (op == OP_IT_PRE) ref_pre(s); else ref_post(s);
	CNT("evaluations", 1);
	CNT(j >= 0 ? cc[op] : cn[op], 1);

	/* librfn's own recursive traversal (only once per (op, root): the j >= 0 variants check restoration only) */
	trav_n = 0;
	if (j < 0) {
		if (VX_TRY) {
			if (op == OP_IT_IN) bintree_traverse_in_order(root, tvis, NULL);
			else if (op == OP_IT_PRE) bintree_traverse_pre_order(root, tvis, NULL);
			else bintree_traverse_post_order(root, tvis, NULL);
			VX_END;
		} else {
			VX_END; trav_fault = 1;
			fail("order", "librfn-recursive-traversal-faults", "bintree_traverse_* itself: %s", vx_fault_msg);
		}
		memcpy(arena_mem, image0, sizeof(arena_mem));
	}

	memset(&it, 0x5a, sizeof(it));
	if (VX_TRY) {
		n = op == OP_IT_IN ? bintree_iterate_in_order(&it, root)
		  : op == OP_IT_PRE ? bintree_iterate_pre_order(&it, root) : bintree_iterate_post_order(&it, root);
		while (n) {
			if (got_n > size + 1) { overflow = 1; break; }
			got[got_n++] = id_of(n);
			if (!rewrote && memcmp(arena_mem, image0, sizeof(arena_mem))) rewrote = 1;
			if (j >= 0 && got_n == j) { bintree_iterate_complete(&it); break; }
			n = bintree_next(&it);
		}
		VX_END;
	} else {
		VX_END; faulted = 1;
		fail(j >= 0 ? "complete" : "order", fault_class(), "%s after %d nodes were returned", vx_fault_msg, got_n);
	}
	CNT("nodes_returned", (uint64_t)got_n);
	if (rewrote) CNT(cr[op], 1);
	if (faulted) return;

	if (j < 0) {
		vx_sb a = {0}, b = {0};
		int8_t t8[MAXSEQ];
		if (overflow || !same_seq(got, got_n, ref_seq, ref_n)) {
			seq_text(&a, got, got_n);
			int r[MAXK]; for (int i = 0; i < ref_n; i++) r[i] = ref_seq[i];
			seq_text(&b, r, ref_n);
			fail("order", "iterator!=reference", "iterator returned %s%s, the recursive definition gives %s",
				a.s, overflow ? " and more" : "", b.s);
		}
		if (!trav_fault) {
			int tn = trav_n < MAXSEQ ? trav_n : MAXSEQ;
			for (int i = 0; i < tn; i++) t8[i] = (int8_t)trav[i];
			if (overflow || !same_seq(got, got_n, t8, tn)) {
				vx_sb_reset(&a); vx_sb_reset(&b);
				seq_text(&a, got, got_n); seq_text(&b, trav, tn);
				fail("order", "iterator!=librfn-recursive", "iterator returned %s%s, bintree_traverse_* visits %s",
					a.s, overflow ? " and more" : "", b.s);
			}
		}
		free(a.s); free(b.s);
	}
	if (!overflow && memcmp(arena_mem, image0, sizeof(arena_mem))) {
		char cls[48]; vx_sb m = {0};
		restore_diff(cls, sizeof(cls), &m);
		fail("restore", cls, "after the iteration ran to completion %s", m.s);
		free(m.s);
	}
	if (g_count && s == 0 && K >= 2) note_distinct(got, got_n);
	if (g_count && s == 0 && j < 0 && vx_want_sample() && K >= 6 && strchr(shape_str, 'B') && strchr(shape_str, 'L') && C.layout == LAY_A8 && (vx_nsamples < 3)) {
		vx_sb a = {0}; seq_text(&a, got, got_n);
		vx_sample("main/%s shape=%s %s from the root returns %s; image restored; links rewritten midway: %s",
			layname[C.layout], shape_str, opname[op], a.s, rewrote ? "yes" : "no");
		free(a.s);
	}
}

/* -------------------------------------------------------------------- free */

static int dlog[MAXSEQ], dlog_n; static uint64_t dlog_total;
static uint8_t dcount[MAXK];

/* a node may own something that is a tree itself: its deallocator then frees that tree with bintree_free
 * while the outer bintree_free is still under way (the free functions must not share state between calls) */
static int nested_owner = -1, nested_ran;
static bintree_node_t side[3]; static uint8_t side_count[3];
static void side_dealloc(bintree_node_t *n)
{
	for (int i = 0; i < 3; i++) if (n == &side[i]) { if (side_count[i] < 255) side_count[i]++; side[i].left = side[i].right = POISON; }
}
static void dealloc_cb(bintree_node_t *n)
{
	int id = id_of(n);
	if (id >= 0 && id == nested_owner && !nested_ran) {
		nested_ran = 1;
		side[0].left = &side[1]; side[0].right = &side[2]; side[1].left = side[1].right = side[2].left = side[2].right = NULL;
		memset(side_count, 0, sizeof(side_count));
		bintree_free(&side[0], side_dealloc);
	}
	dlog_total++;
	if (dlog_n < MAXSEQ) dlog[dlog_n++] = id;
	if (id < 0) return;
	if (dcount[id] < 255) dcount[id]++;
	if (dcount[id] > 1) return;
	if (g_guard) {
		gdead[id] = 1;
		mprotect((uint8_t *)n + sizeof(*n) - 4096, 4096, PROT_NONE);
	} else {
		bintree_node_t v = { POISON, POISON };
		memcpy(n, &v, sizeof(v));
	}
}

static void run_free_case(int op, int s)
{
	static const char *cn[] = { "op_free", "op_free_left", "op_free_right" };
	static const char *gn[] = { "guard_op_free", "guard_op_free_left", "guard_op_free_right" };
	int t = op == OP_FREE ? s : op == OP_FREE_L ? Lc[s] : Rc[s];	/* root of what must be deallocated */
	int lo = t, hi = t >= 0 ? t + Size[t] : -1;			/* pre-order ids of that subtree: lo..hi-1 */
	int pos[MAXK];
	bintree_node_t *root = NA(s);

	C.op = op; C.sub = s; C.j = -1; C.owner = nested_owner;
	nested_ran = 0;
	if (nested_owner >= 0) CNT("free_cases_with_a_deallocator_that_frees_another_tree", 1);
	if (g_guard) build_guard(); else memcpy(arena_mem, image0, sizeof(arena_mem));
	memset(dcount, 0, sizeof(dcount)); dlog_n = 0; dlog_total = 0;
	CNT("evaluations", 1);
	CNT(g_guard ? gn[op - OP_FREE] : cn[op - OP_FREE], 1);

	if (VX_TRY) {
		if (op == OP_FREE) bintree_free(root, dealloc_cb);
		else if (op == OP_FREE_L) bintree_free_left(root, dealloc_cb);
		else bintree_free_right(root, dealloc_cb);
		VX_END;
	} else {
		VX_END;
		const char *cls = fault_class();
		uint8_t *fa = (uint8_t *)vx_fault_addr;
		int hit = -1;
		if (vx_fault_kind == SIGSEGV || vx_fault_kind == SIGBUS) {
			if (g_guard) { for (int i = 0; i < K; i++) if (gdead[i] && fa >= (uint8_t *)gnode[i] + sizeof(bintree_node_t) - 4096 && fa < (uint8_t *)gnode[i] + sizeof(bintree_node_t)) hit = i; }
			else if (fa >= poison_page && fa < poison_page + 4096) hit = -2;
		}
		if (hit >= 0) fail("use-after-dealloc", "access-to-revoked-node", "node %d was touched after it had been handed to the deallocator (%d deallocations so far)", hit, dlog_n);
		else if (hit == -2) fail("use-after-dealloc", "followed-poisoned-link", "a link read from an already deallocated node was followed (%d deallocations so far)", dlog_n);
		else fail("call", cls, "%s after %d deallocations", vx_fault_msg, dlog_n);
		CNT("dealloc_calls", dlog_total);
		if (g_guard) guard_revive();
		return;
	}
	CNT("dealloc_calls", dlog_total);

	/* exactly once, nothing else */
	vx_sb lg = {0}; seq_text(&lg, dlog, dlog_n);
	if (nested_ran && (side_count[0] != 1 || side_count[1] != 1 || side_count[2] != 1))
		fail("once", "nested-tree", "the 3-node tree freed from inside the deallocator of node %d had its nodes deallocated %d/%d/%d times", nested_owner, side_count[0], side_count[1], side_count[2]);
	for (int i = 0; i < K; i++) pos[i] = -1;
	int bad_once = 0;
	for (int i = 0; i < dlog_n && !bad_once; i++) {
		int id = dlog[i];
		if (id < 0) { fail("once", "foreign-pointer", "deallocator called with %s; log %s", id == -1 ? "NULL" : "a pointer that is no node", lg.s); bad_once = 1; }
		else if (id < lo || id >= hi) { fail("once", "node-outside-subtree", "node %d is not part of the subtree but was deallocated; log %s", id, lg.s); bad_once = 1; }
		else if (pos[id] >= 0) { fail("once", "twice", "node %d deallocated twice; log %s", id, lg.s); bad_once = 1; }
		else pos[id] = i;
	}
	if (!bad_once && dlog_total > (uint64_t)dlog_n) { fail("once", "twice", "%llu deallocator calls for %d nodes", (unsigned long long)dlog_total, hi - lo); bad_once = 1; }
	for (int id = lo; id < hi && !bad_once; id++)
		if (pos[id] < 0) { fail("once", "missed", "node %d was never deallocated; log %s", id, lg.s); bad_once = 1; }
	/* children before parents */
	if (!bad_once)
		for (int id = lo; id < hi; id++) {
			int c = Lc[id] >= 0 && pos[Lc[id]] > pos[id] ? Lc[id] : Rc[id] >= 0 && pos[Rc[id]] > pos[id] ? Rc[id] : -1;
			if (c >= 0) { fail("children-first", "parent-before-child", "node %d deallocated before its child %d; log %s", id, c, lg.s); break; }
		}
	/* a store into a deallocated node (main pass; in the guard pass it would have faulted) */
	if (!g_guard)
		for (int id = 0; id < K; id++) if (dcount[id]) {
			bintree_node_t v = get_node(id);
			if (v.left != POISON || v.right != POISON) { fail("use-after-dealloc", "store-into-deallocated-node", "node %d was written after it had been deallocated; log %s", id, lg.s); break; }
		}
	/* parent link cleared (the variants know the parent; dcount[s]: the parent itself was wrongly freed, reported above) */
	if (op != OP_FREE && !dcount[s]) {
		bintree_node_t v = get_node(s);
		bintree_node_t *lnk = op == OP_FREE_L ? v.left : v.right;
		if (lnk != NULL) fail("parent-link", op == OP_FREE_L ? "left-not-null" : "right-not-null",
			"after %s(node %d) the link is %s, not NULL", opname[op], s, id_of(lnk) >= 0 ? "still a node" : "a non-NULL value");
	}
	/* informational only (the statement is silent): surviving nodes otherwise untouched? */
	if (!g_guard) {
		int touched = 0;
		for (int id = 0; id < K; id++) if (!dcount[id]) {
			bintree_node_t now = get_node(id), was; memcpy(&was, image0 + ((uint8_t *)NA(id) - arena_mem), sizeof(was));
			if (id == s && op == OP_FREE_L) was.left = NULL;
			if (id == s && op == OP_FREE_R) was.right = NULL;
			if (now.left != was.left || now.right != was.right) touched = 1;
		}
		if (touched) { CNT("info_free_changed_a_surviving_node", 1); vx_note("informational: a free variant changed a link of a node outside the freed subtree (not part of the statement, not a violation)"); }
	}
	if (g_count && s == 0 && K >= 2) note_distinct(dlog, dlog_n);
	if (g_count && s == 0 && op == OP_FREE && vx_want_sample() && K >= 6 && strchr(shape_str, 'B') && strchr(shape_str, 'L') && vx_nsamples < 5)
		vx_sample("%s/%s shape=%s bintree_free(root): deallocation order %s", passname[C.pass], layname[C.layout], shape_str, lg.s);
	free(lg.s);
	if (g_guard) guard_revive();
}

/* ---------------------------------------------------- one shape, all cases */

static int SUBK, CK, GN, M2K;			/* bounds of the secondary dimensions (set per tier) */

static void run_case(int op, int s, int j)
{
	if (op <= OP_IT_POST) run_iter_case(op, s, j); else run_free_case(op, s);
}

static void run_shape(void)
{
	C.pass = PASS_MAIN;
	for (int lay = 0; lay < NLAY; lay++) {
		if (lay == LAY_M2 && K > M2K) continue;
		C.layout = lay;
		build_arena(lay);
		if (K == 0) {	/* the empty tree: iterators and bintree_free accept NULL; the variants need a node */
			for (int op = OP_IT_IN; op <= OP_FREE; op++) run_case(op, -1, -1);
			CNT("scope_skip_free_variant_on_empty_tree", 2);
			continue;
		}
		int ns = K <= SUBK ? K : 1;
		for (int s = 0; s < ns; s++) {
			for (int op = 0; op < OP_N; op++) run_case(op, s, -1);
			if (s) CNT("cases_with_inner_node_as_root", OP_N);
		}
		if (K <= CK)
			for (int op = OP_IT_IN; op <= OP_IT_POST; op++)
				for (int j = 1; j <= K; j++) run_case(op, 0, j);
		/* every node in turn owns a second tree that its deallocator frees with bintree_free (small shapes) */
		if (K <= 7 && lay == LAY_A8)
			for (int owner = 0; owner < K; owner++) {
				nested_owner = owner;
				for (int op = OP_FREE; op < OP_N; op++) run_case(op, 0, -1);
				nested_owner = -1;
			}
	}
	if (K >= 1 && K <= GN) {
		C.pass = PASS_GUARD; C.layout = LAY_A8;
		build_guard();
		for (int s = 0; s < K; s++)
			for (int op = OP_FREE; op < OP_N; op++) run_case(op, s, -1);
		g_guard = 0;
	}
}

/* -------------------------------------------------------------- list spines */

typedef struct { bintree_node_t n; int is_list; int code; } lnode_t;
#define MAXLEN 32
static lnode_t lnodes[MAXLEN + 3 * (MAXLEN + 1)];
static int ln_n;

static bool is_list_cb(bintree_node_t *n) { return ((lnode_t *)n)->is_list != 0; }	/* a realistic predicate: looks at the node */
static int lcode(bintree_node_t *n)
{
	if (!n) return -1;
	lnode_t *p = (lnode_t *)n;
	if (p < lnodes || p >= lnodes + ln_n) return -2;
	return p->code;
}
static int lseq[MAXSEQ * 2], lseq_n;
static void lvis(void *ctx, bintree_node_t *n) { (void)ctx; if (lseq_n < MAXSEQ * 2) lseq[lseq_n++] = lcode(n); }
static lnode_t *lnew(int is_list, int code)
{
	lnode_t *p = &lnodes[ln_n++];
	memset(p, 0, sizeof(*p)); p->is_list = is_list; p->code = code;
	return p;
}
static void ltext(vx_sb *b, const int *s, int n)
{
	vx_sb_printf(b, "[");
	for (int i = 0; i < n; i++) {
		if (s[i] >= 2000) vx_sb_printf(b, "%schild%d", i ? " " : "", s[i] - 2000);
		else if (s[i] >= 1000) vx_sb_printf(b, "%sL%d", i ? " " : "", s[i] - 1000);
		else if (s[i] == -1) vx_sb_printf(b, "%sNULL", i ? " " : "");
		else if (s[i] < 0) vx_sb_printf(b, "%s?", i ? " " : "");
		else vx_sb_printf(b, "%se%d", i ? " " : "", s[i]);
	}
	vx_sb_printf(b, "]");
}

/* spine nodes L0 (top) .. L(len-1); elements e0..e(len) in list order */
static void run_list_case(int dir, int len, int elem)
{
	lnode_t *sp[MAXLEN], *el[MAXLEN + 1];
	int got[MAXSEQ * 2];
	volatile int got_n = 0;
	volatile int overflow = 0, faulted = 0, trav_fault = 0;
	bintree_iterator_t it;
	bintree_node_t *n;

	C.pass = PASS_LIST; C.ldir = dir; C.llen = len; C.lelem = elem; C.j = -1;
	ln_n = 0;
	for (int i = 0; i < len; i++) sp[i] = lnew(1, 1000 + i);
	for (int i = 0; i <= len; i++) {
		el[i] = lnew(0, i);
		if (elem) { el[i]->n.left = &lnew(0, 2000 + 2 * i)->n; el[i]->n.right = &lnew(0, 2001 + 2 * i)->n; }
	}
	if (dir == 0) {		/* left-leaning: the deepest spine node holds e0,e1; every node above adds one on its right */
		for (int i = 0; i < len - 1; i++) { sp[i]->n.left = &sp[i + 1]->n; sp[i]->n.right = &el[len - i]->n; }
		sp[len - 1]->n.left = &el[0]->n; sp[len - 1]->n.right = &el[1]->n;
	} else {		/* right-leaning */
		for (int i = 0; i < len - 1; i++) { sp[i]->n.left = &el[i]->n; sp[i]->n.right = &sp[i + 1]->n; }
		sp[len - 1]->n.left = &el[len - 1]->n; sp[len - 1]->n.right = &el[len]->n;
	}
	CNT("evaluations", 1); CNT("op_list_iterate", 1);

	lseq_n = 0;
	if (VX_TRY) { bintree_traverse_list(&sp[0]->n, is_list_cb, lvis, NULL); VX_END; }
	else { VX_END; trav_fault = 1; fail("order", "librfn-recursive-traversal-faults", "bintree_traverse_list itself: %s", vx_fault_msg); }

	memset(&it, 0x5a, sizeof(it));
	if (VX_TRY) {
		for (n = bintree_iterate_list(&it, &sp[0]->n, is_list_cb); n; n = bintree_next(&it)) {
			if (got_n > len + 2) { overflow = 1; break; }
			got[got_n++] = lcode(n);
		}
		VX_END;
	} else {
		VX_END; faulted = 1;
		fail("order", fault_class(), "%s after %d elements were returned", vx_fault_msg, got_n);
	}
	CNT("list_elements_returned", (uint64_t)got_n);
	if (faulted) return;
	vx_sb a = {0}, b = {0};
	int same = !overflow && got_n == len + 1;
	for (int i = 0; same && i <= len; i++) if (got[i] != i) same = 0;
	ltext(&a, got, got_n);
	if (!same) fail("order", "iterator!=reference", "list iterator returned %s%s, the list is e0..e%d", a.s, overflow ? " and more" : "", len);
	if (!trav_fault) {
		int eq = !overflow && got_n == lseq_n;
		for (int i = 0; eq && i < got_n; i++) if (got[i] != lseq[i]) eq = 0;
		if (!eq) { ltext(&b, lseq, lseq_n); fail("order", "iterator!=librfn-recursive", "list iterator returned %s%s, bintree_traverse_list visits %s", a.s, overflow ? " and more" : "", b.s); }
	}
	if (g_count) {
		vx_hasher h; vx_h_init(&h);
		vx_h_u64(&h, 0x7157ULL << 32 | (uint64_t)dir << 16 | (uint64_t)elem << 8 | (uint64_t)len);
		for (int i = 0; i < got_n; i++) vx_h_u64(&h, (uint64_t)(int64_t)got[i]);
		if (vx_set_add(&distinct_set, vx_h_done(&h))) vx_count("distinct", 1);
		if (len == 4 && elem == 0 && vx_want_sample())
			vx_sample("list spine dir=%s len=4 elems=leaf: iterator returns %s", dir ? "right" : "left", a.s);
	}
	free(a.s); free(b.s);
}

/* -------------------------------------------------------------------- main */

static void setup_memory(void)
{
	poison_page = mmap(NULL, 4096, PROT_NONE, MAP_PRIVATE | MAP_ANONYMOUS, -1, 0);
	if (poison_page == MAP_FAILED) { perror("mmap"); _exit(3); }
	POISON = (bintree_node_t *)((uintptr_t)(poison_page + 0x100) | 1);	/* odd: reads as "not yet visited" */
	gregion = mmap(NULL, (2 * MAXG + 1) * 4096, PROT_NONE, MAP_PRIVATE | MAP_ANONYMOUS, -1, 0);
	if (gregion == MAP_FAILED) { perror("mmap"); _exit(3); }
	for (int i = 0; i < MAXG; i++) {
		uint8_t *pg = gregion + (size_t)(2 * i + 1) * 4096;
		mprotect(pg, 4096, PROT_READ | PROT_WRITE);
		gnode[i] = (bintree_node_t *)(pg + 4096 - sizeof(bintree_node_t));	/* flush against the next (inaccessible) page */
	}
}

static int too_many(void) { return vx_viol_total > 3000 || n_hangs >= 3; }

int main(int argc, char **argv)
{
	vx_init(argc, argv);
	vx_install_handlers();
	vx_watchdog(2.0);
	setup_memory();
	CAT[0] = 1;
	for (int k = 1; k <= MAXK; k++) { CAT[k] = 0; for (int i = 0; i < k; i++) CAT[k] += CAT[i] * CAT[k - 1 - i]; }
	vx_set_init(&distinct_set, 16); vx_set_init(&shape_set, 14);

	int N, LMAX, KCOMMON = 7;
	if (vx_thorough()) { N = 15; SUBK = 12; CK = 12; GN = 12; M2K = 13; LMAX = 32; }
	else { N = 12; SUBK = 9; CK = 9; GN = 9; M2K = 10; LMAX = 12; }

	char *rp = vx_read_replay();
	if (rp) {
		char pass[32] = "", lay[32] = "", shp[64] = "", op[32] = "", dir[32] = "", el[32] = "";
		const char *f;
		g_count = 1;
		if ((f = vx_replay_field(rp, "pass"))) snprintf(pass, sizeof(pass), "%s", f);
		if (!strcmp(pass, "list")) {
			if ((f = vx_replay_field(rp, "dir"))) snprintf(dir, sizeof(dir), "%s", f);
			if ((f = vx_replay_field(rp, "elems"))) snprintf(el, sizeof(el), "%s", f);
			f = vx_replay_field(rp, "len");
			int len = f ? atoi(f) : 0;
			if (len < 1 || len > MAXLEN) { fprintf(stderr, "c11: bad replay (len)\n"); return 3; }
			run_list_case(!strcmp(dir, "right"), len, !strcmp(el, "inner"));
		} else {
			if ((f = vx_replay_field(rp, "layout"))) snprintf(lay, sizeof(lay), "%s", f);
			if ((f = vx_replay_field(rp, "shape"))) snprintf(shp, sizeof(shp), "%s", f);
			if ((f = vx_replay_field(rp, "op"))) snprintf(op, sizeof(op), "%s", f);
			f = vx_replay_field(rp, "sub"); int s = f ? atoi(f) : 0;
			f = vx_replay_field(rp, "j"); int j = f ? atoi(f) : -1;
			f = vx_replay_field(rp, "owner"); nested_owner = f ? atoi(f) : -1;
			int o = -1; for (int i = 0; i < OP_N; i++) if (!strcmp(op, opname[i])) o = i;
			if (parse_shape(shp) || o < 0 || s >= K || (K && s < 0) || (!strcmp(pass, "guard") && K > MAXG)) { fprintf(stderr, "c11: bad replay\n"); return 3; }
			if (!K) s = -1;
			C.layout = !strcmp(lay, "m2") ? LAY_M2 : LAY_A8;
			if (!strcmp(pass, "guard")) { C.pass = PASS_GUARD; build_guard(); }
			else { C.pass = PASS_MAIN; build_arena(C.layout); }
			run_case(o, s, j);
		}
		vx_finish();
		return 0;
	}

	/* list spines: tiny, so EVERY worker runs all of them (same first failing case everywhere); each is counted by one */
	uint64_t part = 0;
	for (int len = 1; len <= LMAX; len++)
		for (int dir = 0; dir < 2; dir++)
			for (int elem = 0; elem < 2; elem++) {
				g_count = vx_mine(part++);
				if (too_many()) continue;
				run_list_case(dir, len, elem);
				if (g_count) vx_count("list_cases", 1);
			}
	vx_max("list_max_spine_length", (uint64_t)LMAX);

	/* all shapes with k nodes, k = 0..N. Shapes with k <= KCOMMON are run by EVERY worker (so that the
	 * first failing case, which names the signature, is the same in all of them) but counted by one. */
	int stopped = 0, k;
	const uint64_t CHUNK = 64;
	for (k = 0; k <= N && !stopped; k++) {
		char cname[32]; snprintf(cname, sizeof(cname), "shapes_n%02d", k);
		for (uint64_t r0 = 0; r0 < CAT[k]; r0 += CHUNK) {
			int mine = vx_mine(part++);
			if (!mine && k > KCOMMON) continue;
			if (vx_deadline_passed() || too_many() || vx_too_many_violations()) { stopped = 1; break; }
			for (uint64_t r = r0; r < r0 + CHUNK && r < CAT[k]; r++) {
				nid = 0; K = k; unrank(k, r, -1); make_shape_str();
				g_count = mine;
				if (mine) {
					vx_hasher h; vx_h_init(&h); vx_h_bytes(&h, shape_str, strlen(shape_str));
					if (vx_set_add(&shape_set, vx_h_done(&h))) vx_count("shapes_distinct", 1);
					vx_count("shapes", 1); vx_count(cname, 1);
				}
				run_shape();
			}
		}
	}
	if (stopped) {
		if (too_many() || vx_too_many_violations()) vx_note("enumeration stopped early: too many violating cases / hangs");
		else vx_note("deadline reached: enumeration stopped inside n=%d", k - 1);
	}
	vx_and("exhaustive", !stopped);
	vx_min("n_nodes_fully_enumerated", (uint64_t)(stopped ? (k - 2 < 0 ? 0 : k - 2) : N));
	vx_max("n_nodes_bound", (uint64_t)N);
	{ uint64_t e = 0; for (int i = 0; i <= N; i++) e += CAT[i]; vx_max("shapes_expected_catalan_sum", e); }
	vx_max("bound_every_node_as_root", (uint64_t)SUBK);
	vx_max("bound_complete_after_j", (uint64_t)CK);
	vx_max("bound_guard_page_pass", (uint64_t)GN);
	vx_max("bound_underaligned_layout", (uint64_t)M2K);
	vx_finish();
	return 0;
}

/*
 * C12 - pack/unpack never leaves the buffer, fails stickily, fixed byte order.
 *
 * Bounded-exhaustive enumeration (engine C) over the real pack.c:
 *
 *  phase 1 (sequences)  buffer sizes 0..9, each flush against a PROT_NONE page
 *      (right-aligned: over-runs fault; second pass left-aligned: under-runs
 *      fault, over-writes hit a canary), every sequence of length <= 4 (quick)
 *      / <= 5 (thorough) over the alphabet of IMPLEMENTED operations with
 *      boundary-value arguments.  Depth-first with an explicit stack and
 *      iterative deepening (so the first counterexample of a partition is a
 *      shortest one); every call is compared with the model.
 *  phase 2 (value sweeps)  every 8/16-bit value through each 8/16-bit packer /
 *      unpacker, every byte pattern in each byte lane of the 32-bit ones (all
 *      lane pairs in the thorough tier), each at exact fit, one byte short,
 *      and at offset 1; pack -> rewind -> unpack round trips for every
 *      packer/unpacker pair of equal width and byte order.
 *
 * Model: byte vector + unbounded cursor.  Oracle after EVERY call: buffer
 * image, canary bytes beside the buffer (one 32-byte window compare), returned value (0 on overflow),
 * destination array (copy / zero-filled on overflow / untouched for NULL and
 * outside [0,sz)), rf_pack_consumed, rf_pack_remaining.  A fault (guard page,
 * assert) during a call is a violation as well.
 *
 * Which operations exist is decided at link time: every rf_pack_X / rf_unpack_X
 * declared in pack.h is referenced weakly, so an operation that pack.c does
 * not implement simply is not in the alphabet (and one that gets implemented
 * later joins it without touching this file).
 */
#include "vx.h"

#pragma weak rf_pack_bytes
#pragma weak rf_pack_char
#pragma weak rf_pack_s8
#pragma weak rf_pack_u8
#pragma weak rf_pack_s16be
#pragma weak rf_pack_s16le
#pragma weak rf_pack_u16be
#pragma weak rf_pack_u16le
#pragma weak rf_pack_s32be
#pragma weak rf_pack_s32le
#pragma weak rf_pack_u32be
#pragma weak rf_pack_u32le
#pragma weak rf_unpack_bytes
#pragma weak rf_unpack_char
#pragma weak rf_unpack_s8
#pragma weak rf_unpack_u8
#pragma weak rf_unpack_s16be
#pragma weak rf_unpack_s16le
#pragma weak rf_unpack_u16be
#pragma weak rf_unpack_u16le
#pragma weak rf_unpack_s32be
#pragma weak rf_unpack_s32le
#pragma weak rf_unpack_u32be
#pragma weak rf_unpack_u32le

#include "pack.c"

#define BARRIER() __asm__ __volatile__("" ::: "memory")

#define MAXN 9			/* largest buffer */
#define AREA 64			/* bytes next to each guard page that we use */
#define WIN 32			/* window = buffer + the canary bytes beside it, compared as a whole */
#define MAXL 5			/* longest sequence of phase 1 */
#define MAXPATH 24
#define MAXA 160

/* ------------------------------------------------------------ operations */

enum { K_P_BYTES, K_P_CHAR, K_P_S8, K_P_U8, K_P_S16BE, K_P_S16LE, K_P_U16BE, K_P_U16LE,
       K_P_S32BE, K_P_S32LE, K_P_U32BE, K_P_U32LE,
       K_U_BYTES, K_U_CHAR, K_U_S8, K_U_U8, K_U_S16BE, K_U_S16LE, K_U_U16BE, K_U_U16LE,
       K_U_S32BE, K_U_S32LE, K_U_U32BE, K_U_U32LE, K_REWIND, K_KINDS };

enum { SGN_U, SGN_S, SGN_CHAR };
typedef struct { const char *name; uint8_t pack, width, be, sgn, impl; } opinfo_t;
static opinfo_t ops[K_KINDS] = {
	[K_P_BYTES] = { "pack_bytes", 1, 0, 0, 0, 0 },   [K_P_CHAR] = { "pack_char", 1, 1, 0, SGN_CHAR, 0 },
	[K_P_S8] = { "pack_s8", 1, 1, 0, SGN_S, 0 },     [K_P_U8] = { "pack_u8", 1, 1, 0, SGN_U, 0 },
	[K_P_S16BE] = { "pack_s16be", 1, 2, 1, SGN_S, 0 }, [K_P_S16LE] = { "pack_s16le", 1, 2, 0, SGN_S, 0 },
	[K_P_U16BE] = { "pack_u16be", 1, 2, 1, SGN_U, 0 }, [K_P_U16LE] = { "pack_u16le", 1, 2, 0, SGN_U, 0 },
	[K_P_S32BE] = { "pack_s32be", 1, 4, 1, SGN_S, 0 }, [K_P_S32LE] = { "pack_s32le", 1, 4, 0, SGN_S, 0 },
	[K_P_U32BE] = { "pack_u32be", 1, 4, 1, SGN_U, 0 }, [K_P_U32LE] = { "pack_u32le", 1, 4, 0, SGN_U, 0 },
	[K_U_BYTES] = { "unpack_bytes", 0, 0, 0, 0, 0 }, [K_U_CHAR] = { "unpack_char", 0, 1, 0, SGN_CHAR, 0 },
	[K_U_S8] = { "unpack_s8", 0, 1, 0, SGN_S, 0 },   [K_U_U8] = { "unpack_u8", 0, 1, 0, SGN_U, 0 },
	[K_U_S16BE] = { "unpack_s16be", 0, 2, 1, SGN_S, 0 }, [K_U_S16LE] = { "unpack_s16le", 0, 2, 0, SGN_S, 0 },
	[K_U_U16BE] = { "unpack_u16be", 0, 2, 1, SGN_U, 0 }, [K_U_U16LE] = { "unpack_u16le", 0, 2, 0, SGN_U, 0 },
	[K_U_S32BE] = { "unpack_s32be", 0, 4, 1, SGN_S, 0 }, [K_U_S32LE] = { "unpack_s32le", 0, 4, 0, SGN_S, 0 },
	[K_U_U32BE] = { "unpack_u32be", 0, 4, 1, SGN_U, 0 }, [K_U_U32LE] = { "unpack_u32le", 0, 4, 0, SGN_U, 0 },
	[K_REWIND] = { "rewind", 0, 0, 0, 0, 1 },	/* rf_pack_init on the same buffer */
};

static void detect_implemented(void)
{
#define IMPL(k, f) ops[k].impl = ((f) != NULL)
	IMPL(K_P_BYTES, rf_pack_bytes); IMPL(K_P_CHAR, rf_pack_char); IMPL(K_P_S8, rf_pack_s8); IMPL(K_P_U8, rf_pack_u8);
	IMPL(K_P_S16BE, rf_pack_s16be); IMPL(K_P_S16LE, rf_pack_s16le); IMPL(K_P_U16BE, rf_pack_u16be); IMPL(K_P_U16LE, rf_pack_u16le);
	IMPL(K_P_S32BE, rf_pack_s32be); IMPL(K_P_S32LE, rf_pack_s32le); IMPL(K_P_U32BE, rf_pack_u32be); IMPL(K_P_U32LE, rf_pack_u32le);
	IMPL(K_U_BYTES, rf_unpack_bytes); IMPL(K_U_CHAR, rf_unpack_char); IMPL(K_U_S8, rf_unpack_s8); IMPL(K_U_U8, rf_unpack_u8);
	IMPL(K_U_S16BE, rf_unpack_s16be); IMPL(K_U_S16LE, rf_unpack_s16le); IMPL(K_U_U16BE, rf_unpack_u16be); IMPL(K_U_U16LE, rf_unpack_u16le);
	IMPL(K_U_S32BE, rf_unpack_s32be); IMPL(K_U_S32LE, rf_unpack_s32le); IMPL(K_U_U32BE, rf_unpack_u32be); IMPL(K_U_U32LE, rf_unpack_u32le);
#undef IMPL
}

/* one call: operation + argument */
typedef struct { uint8_t kind, sz, null; uint32_t arg; } act_t;

static void act_describe(const act_t *a, vx_sb *sb)
{
	const opinfo_t *o = &ops[a->kind];
	if (a->kind == K_P_BYTES) vx_sb_printf(sb, "pack_bytes(%s,%u)", a->null ? "NULL" : "src", a->sz);
	else if (a->kind == K_U_BYTES) vx_sb_printf(sb, "unpack_bytes(%s,%u)", a->null ? "NULL" : "dst", a->sz);
	else if (o->pack) vx_sb_printf(sb, "%s(0x%0*x)", o->name, o->width * 2, a->arg);
	else vx_sb_printf(sb, "%s()", o->name);
}
static void act_token(const act_t *a, vx_sb *sb)	/* replay form */
{
	const opinfo_t *o = &ops[a->kind];
	if (a->kind == K_P_BYTES || a->kind == K_U_BYTES) vx_sb_printf(sb, "%s:%s:%u", o->name, a->null ? "null" : "buf", a->sz);
	else if (o->pack) vx_sb_printf(sb, "%s:0x%x", o->name, a->arg);
	else vx_sb_printf(sb, "%s", o->name);
}
static int act_parse(const char *tok, act_t *a)
{
	char name[32]; size_t l = strcspn(tok, ": \n");
	if (l >= sizeof(name)) return -1;
	memcpy(name, tok, l); name[l] = 0;
	memset(a, 0, sizeof(*a));
	for (int k = 0; k < K_KINDS; k++) if (!strcmp(name, ops[k].name)) {
		a->kind = (uint8_t)k;
		if (k == K_P_BYTES || k == K_U_BYTES) {
			if (tok[l] != ':') return -1;
			a->null = (0 == strncmp(tok + l + 1, "null", 4));
			const char *c = strchr(tok + l + 1, ':'); if (!c) return -1;
			a->sz = (uint8_t)strtoul(c + 1, NULL, 0);
		} else if (ops[k].pack) {
			if (tok[l] != ':') return -1;
			a->arg = (uint32_t)strtoul(tok + l + 1, NULL, 0);
		}
		return 0;
	}
	return -1;
}

/* --------------------------------------------------- the case being executed */

static uint8_t *areaR, *areaL;		/* AREA bytes ending at / starting after a PROT_NONE page */
static int N, ALIGN;			/* buffer size, 0 = right-aligned, 1 = left-aligned */
static uint8_t FILL[16];		/* initial buffer contents */
static uint8_t *buf, *win; static int BOFF;	/* buf = win + BOFF */
static rf_pack_t pk;
static struct model { uint8_t img[WIN]; long cur; } M;	/* expected window image + unbounded cursor */
#define MB (M.img + BOFF)		/* expected buffer contents */
static act_t path[MAXPATH]; static volatile int plen;	/* history incl. the call being executed */
static const act_t *volatile cur_act;	/* the call being executed (the implicit rf_pack_init when plen == 0) */
static const act_t act_init = { K_REWIND, 0, 0, 0 };
static int PHASE;			/* 31 = sequences, otherwise kind being swept */
static int64_t last_ret; static int last_fits;
static int suppress;			/* iterative deepening: shallower levels were already reported */
static int have_roundtrip; static uint32_t roundtrip_val;	/* for replay text */

static uint8_t src_data[3] = { 0xd1, 0xe2, 0xf3 };
static uint8_t dstarea[32];
#define DST (dstarea + 8)

static const uint8_t pattern[16] = { 0x81, 0x02, 0xf3, 0x7f, 0x80, 0xff, 0x00, 0x45, 0xc6, 0x19, 0, 0, 0, 0, 0, 0 };

enum { SIT_FIT, SIT_EXACT, SIT_OVERFLOW, SIT_STICKY, SIT_N };
static const char *sitname[] = { "fits-with-slack", "exact-fit", "first-overflow", "after-overflow" };

static uint64_t n_eval, n_sweep_calls, n_by_len[MAXPATH + 1], n_opsit[K_KINDS][SIT_N], n_null[2], n_roundtrips;
static uint8_t crossing[MAXA][2][MAXN + 1][MAXN + 2]; static uint64_t n_crossings; static int cur_ai;
static vx_set distinct; static uint64_t dcache[1 << 15];

static void begin_case(int n, int align, const uint8_t *fill)
{
	N = n; ALIGN = align;
	memcpy(FILL, fill, 16);
	win = align == 0 ? areaR + AREA - WIN : areaL;
	BOFF = align == 0 ? WIN - n : 0;
	buf = win + BOFF;
	memset(M.img, 0xC5, WIN); memcpy(MB, FILL, (size_t)n); M.cur = 0;
	memcpy(win, M.img, WIN);
	memset(&pk, 0, sizeof(pk));
	plen = 0; have_roundtrip = 0;
}

static unsigned act_size(const act_t *a)
{
	return (a->kind == K_P_BYTES || a->kind == K_U_BYTES) ? a->sz : ops[a->kind].width;
}
static int situation(long old, unsigned k)
{
	if (old > N) return SIT_STICKY;
	if (old + (long)k > N) return SIT_OVERFLOW;
	return old + (long)k == N ? SIT_EXACT : SIT_FIT;
}

static void replay_text(vx_sb *rep, vx_sb *hist)
{
	vx_sb_printf(rep, "n=%d\nalign=%c\nphase=%d\nfill=", N, ALIGN ? 'L' : 'R', PHASE);
	for (int i = 0; i < N; i++) vx_sb_printf(rep, "%s%02x", i ? " " : "", FILL[i]);
	if (have_roundtrip) vx_sb_printf(rep, "\nroundtrip=0x%x", roundtrip_val);
	vx_sb_printf(rep, "\nops=");
	for (int i = 0; i < plen; i++) {
		if (i) { vx_sb_printf(rep, " "); vx_sb_printf(hist, "; "); }
		act_token(&path[i], rep); act_describe(&path[i], hist);
	}
	vx_sb_printf(rep, "\n");
	if (!plen) vx_sb_printf(hist, "(only rf_pack_init)");
}

static uint8_t seen_sig[16][K_KINDS + 1][2][SIT_N];
static const char *clauses[16]; static int nclauses;

/* Record a violation of `clause` by the last call of path[]. The signature is
 * deliberately coarse: clause + operation (+NULL variant) + where the call
 * stood relative to the end of the buffer; the minimal history found first in
 * the deterministic enumeration order is in the message and the replay. */
__attribute__((format(printf, 3, 4)))
static int fail(int sit, const char *clause, const char *fmt, ...)
{
	if (suppress) return 0;
	int ci = 0;
	for (; ci < nclauses; ci++) if (!strcmp(clauses[ci], clause)) break;
	if (ci == nclauses && nclauses < 16) clauses[nclauses++] = clause;
	const act_t *a = plen ? cur_act : NULL;
	int kind = a ? a->kind : K_KINDS, nul = a ? a->null : 0;
	if (ci < 16 && seen_sig[ci][kind][nul][sit]) { vx_viol_total++; return 0; }
	if (ci < 16) seen_sig[ci][kind][nul][sit] = 1;
	vx_sb sig = {0}, rep = {0}, hist = {0};
	va_list ap; va_start(ap, fmt); char *m = vx_vfmt(fmt, ap); va_end(ap);
	vx_sb_printf(&sig, "C12|%s|", clause);
	if (!a) vx_sb_printf(&sig, "init");
	else if (a->kind == K_P_BYTES) vx_sb_printf(&sig, "pack_bytes(%s)", a->null ? "NULL" : "src");
	else if (a->kind == K_U_BYTES) vx_sb_printf(&sig, "unpack_bytes(%s)", a->null ? "NULL" : "dst");
	else vx_sb_printf(&sig, "%s", ops[a->kind].name);
	vx_sb_printf(&sig, "|%s", sitname[sit]);
	replay_text(&rep, &hist);
	vx_violation(sig.s, rep.s, "%s: %s -- buffer of %d byte%s (%s-aligned to the guard page), history [%s]", clause, m,
		     N, N == 1 ? "" : "s", ALIGN ? "left" : "right", hist.s);
	free(m); free(sig.s); free(rep.s); free(hist.s);
	return 0;
}

static uint32_t compose(const uint8_t *s, int width, int be)
{
	uint32_t r = 0;
	for (int i = 0; i < width; i++) r |= (uint32_t)s[i] << (8 * (be ? width - 1 - i : i));
	return r;
}
static int64_t as_type(uint32_t raw, int width, int sgn)
{
	if (sgn == SGN_CHAR) return (int64_t)(char)(uint8_t)raw;
	if (sgn == SGN_S) {
		if (width == 1) return (int8_t)(uint8_t)raw;
		if (width == 2) return (int16_t)(uint16_t)raw;
		return (int32_t)raw;
	}
	return (int64_t)raw;
}

static void hexbytes(vx_sb *sb, const uint8_t *p, int n)
{
	for (int i = 0; i < n; i++) vx_sb_printf(sb, "%s%02x", i ? " " : "", p[i]);
	if (!n) vx_sb_printf(sb, "(empty)");
}

/* Execute one call on the real pack.c and on the model and compare.
 * 1 = agreed, 0 = violation recorded. `count` = this call is a new case. */
static int step_inner(const act_t *a, int count)
{
	const opinfo_t *o = &ops[a->kind];
	const long old = M.cur;
	const unsigned k = act_size(a);
	int64_t ret = 0;
	int sit, fits;

	cur_act = a;
	if (a->kind == K_REWIND) {
		BARRIER();
		rf_pack_init(&pk, buf, (unsigned)N);
		BARRIER();
		M.cur = 0; sit = N == 0 ? SIT_EXACT : SIT_FIT; fits = 1;
		goto compare;
	}
	sit = situation(old, k);
	fits = sit <= SIT_EXACT;
	if (a->kind == K_U_BYTES) memset(dstarea, 0xA5, sizeof(dstarea));
	BARRIER();
	switch (a->kind) {
	case K_P_BYTES: rf_pack_bytes(&pk, a->null ? NULL : src_data, a->sz); break;
	case K_P_CHAR: rf_pack_char(&pk, (char)a->arg); break;
	case K_P_S8: rf_pack_s8(&pk, (int8_t)a->arg); break;
	case K_P_U8: rf_pack_u8(&pk, (int16_t)(a->arg & 0xff)); break;
	case K_P_S16BE: rf_pack_s16be(&pk, (int16_t)a->arg); break;
	case K_P_S16LE: rf_pack_s16le(&pk, (int16_t)a->arg); break;
	case K_P_U16BE: rf_pack_u16be(&pk, (uint16_t)a->arg); break;
	case K_P_U16LE: rf_pack_u16le(&pk, (uint16_t)a->arg); break;
	case K_P_S32BE: rf_pack_s32be(&pk, (int32_t)a->arg); break;
	case K_P_S32LE: rf_pack_s32le(&pk, (int32_t)a->arg); break;
	case K_P_U32BE: rf_pack_u32be(&pk, a->arg); break;
	case K_P_U32LE: rf_pack_u32le(&pk, a->arg); break;
	case K_U_BYTES: rf_unpack_bytes(&pk, a->null ? NULL : DST, a->sz); break;
	case K_U_CHAR: ret = rf_unpack_char(&pk); break;
	case K_U_S8: ret = rf_unpack_s8(&pk); break;
	case K_U_U8: ret = rf_unpack_u8(&pk); break;
	case K_U_S16BE: ret = rf_unpack_s16be(&pk); break;
	case K_U_S16LE: ret = rf_unpack_s16le(&pk); break;
	case K_U_U16BE: ret = rf_unpack_u16be(&pk); break;
	case K_U_U16LE: ret = rf_unpack_u16le(&pk); break;
	case K_U_S32BE: ret = rf_unpack_s32be(&pk); break;
	case K_U_S32LE: ret = rf_unpack_s32le(&pk); break;
	case K_U_U32BE: ret = rf_unpack_u32be(&pk); break;
	case K_U_U32LE: ret = rf_unpack_u32le(&pk); break;
	}
	BARRIER();

	/* model */
	M.cur = old + (long)k;
	if (o->pack && fits) {
		if (a->kind == K_P_BYTES) { for (unsigned i = 0; i < k; i++) MB[old + i] = a->null ? 0 : src_data[i]; }
		else for (unsigned i = 0; i < k; i++) MB[old + i] = (uint8_t)(a->arg >> (8 * (o->be ? k - 1 - i : i)));
	}

compare:
	last_ret = ret; last_fits = fits;
	/* 1. + 2. buffer image and the bytes beside it (on the side without guard page) */
	if (memcmp(win, M.img, WIN)) {
		if (N && memcmp(buf, MB, (size_t)N)) {
			int i = 0; while (buf[i] == MB[i]) i++;
			vx_sb g = {0}, w = {0}; hexbytes(&g, buf, N); hexbytes(&w, MB, N);
			const char *cl = (o->pack && fits && i >= old && i < old + (long)k) ? "layout"
				: (o->pack && !fits) ? "overflow-transfer" : "stray-write";
			fail(sit, cl, "buffer is [%s], expected [%s] (first difference at offset %d; cursor before the call %ld, item of %u byte%s)",
			     g.s, w.s, i, old, k, k == 1 ? "" : "s");
			free(g.s); free(w.s);
			return 0;
		}
		int i = 0; while (win[i] == M.img[i]) i++;
		return fail(sit, "outside-write", "byte at offset %d relative to the buffer start was modified (buffer is %d bytes)", i - BOFF, N);
	}
	/* 3. returned value */
	if (!o->pack && o->width) {
		int64_t want = fits ? as_type(compose(MB + old, o->width, o->be), o->width, o->sgn) : 0;
		if (ret != want)
			return fail(sit, fits ? "value" : "overflow-value", "returned %lld (0x%llx), expected %lld (0x%llx)%s",
				    (long long)ret, (unsigned long long)ret, (long long)want, (unsigned long long)want,
				    fits ? "" : " because the item does not fit");
	}
	/* 4. destination array */
	if (a->kind == K_U_BYTES) {
		for (int i = 0; i < (int)sizeof(dstarea); i++) {
			int j = i - 8;
			uint8_t want = (a->null || j < 0 || j >= (int)k) ? 0xA5 : fits ? MB[old + j] : 0;
			if (dstarea[i] != want) {
				const char *cl = (a->null || j < 0 || j >= (int)k) ? "dst-outside" : fits ? "dst" : "overflow-dst";
				return fail(sit, cl, "destination byte %d is 0x%02x, expected 0x%02x (%s)", j, dstarea[i], want,
					    (a->null || j < 0 || j >= (int)k) ? "not part of the output array: must stay untouched"
					    : fits ? "copy of the buffer" : "zero-fill because the item does not fit");
			}
		}
	}
	/* 5. accounting */
	{
		int c = rf_pack_consumed(&pk), r = rf_pack_remaining(&pk);
		if (c != M.cur) return fail(sit, "consumed", "rf_pack_consumed = %d, expected %ld", c, M.cur);
		if (r != N - M.cur) return fail(sit, "remaining", "rf_pack_remaining = %d, expected %ld", r, N - M.cur);
	}

	if (count) {
		n_eval++; n_opsit[a->kind][sit]++;
		if (PHASE == 31) n_by_len[plen]++; else n_sweep_calls++;
		if (a->kind == K_P_BYTES || a->kind == K_U_BYTES) n_null[a->null]++;
		if (PHASE == 31 && plen && sit == SIT_OVERFLOW && !crossing[cur_ai][ALIGN][N][old]) { crossing[cur_ai][ALIGN][N][old] = 1; n_crossings++; }
		/* observation tuple, packed injectively into 64 bits */
		uint32_t val = a->kind == K_REWIND ? 0 : o->pack ? (a->kind == K_P_BYTES ? 0 : (k == 4 ? a->arg : a->arg & ((1u << (8 * k)) - 1)))
			: fits ? compose(MB + old, (int)k, 0) : 0;
		uint64_t key = ((uint64_t)PHASE << 59) | ((uint64_t)a->kind << 54) | ((uint64_t)N << 50) | ((uint64_t)ALIGN << 49)
			| ((uint64_t)(old & 63) << 43) | ((uint64_t)sit << 41) | ((uint64_t)a->sz << 39) | ((uint64_t)a->null << 38)
			| ((uint64_t)(a == &act_init) << 37) | val;
		uint64_t hk = vx_mix(key + 0x9e3779b97f4a7c15ULL);
		if (dcache[hk & (lengthof(dcache) - 1)] != key + 1) {
			dcache[hk & (lengthof(dcache) - 1)] = key + 1;
			vx_h128 h = { hk, key + 1 };
			vx_set_add(&distinct, h);
		}
	}
	return 1;
}

static void repair_canary(void)
{
	memset(win, 0xC5, (size_t)BOFF); memset(buf + N, 0xC5, (size_t)(WIN - BOFF - N));
}
static int step(const act_t *a, int count)
{
	int ok = step_inner(a, count);
	if (!ok) repair_canary();	/* never blame a later call for damage already reported */
	return ok;
}

/* ------------------------------------------------------- phase 1: sequences */

static act_t alphabet[MAXA]; static int NA;

static void build_alphabet(void)
{
	static const uint32_t v8[] = { 0, 1, 0x7f, 0x80, 0xff };
	static const uint32_t v16[] = { 0, 1, 0x7f, 0x80, 0xff, 0x1234, 0x8000, 0xffff };
	static const uint32_t v32[] = { 0, 1, 0x7f, 0x80, 0xff, 0x1234, 0x8000, 0xffff, 0x12345678, 0x80000000, 0xffffffff };
	static const uint8_t runs[] = { 0, 1, 3 };
	NA = 0;
	for (int k = 0; k < K_KINDS; k++) {
		if (!ops[k].impl) continue;
		if (k == K_P_BYTES || k == K_U_BYTES) {
			for (int nul = 0; nul < 2; nul++) for (unsigned r = 0; r < lengthof(runs); r++)
				alphabet[NA++] = (act_t){ (uint8_t)k, runs[r], (uint8_t)nul, 0 };
		} else if (ops[k].pack) {
			const uint32_t *v = ops[k].width == 1 ? v8 : ops[k].width == 2 ? v16 : v32;
			unsigned nv = ops[k].width == 1 ? lengthof(v8) : ops[k].width == 2 ? lengthof(v16) : lengthof(v32);
			for (unsigned i = 0; i < nv; i++) alphabet[NA++] = (act_t){ (uint8_t)k, 0, 0, v[i] };
		} else
			alphabet[NA++] = (act_t){ (uint8_t)k, 0, 0, 0 };
	}
}

static struct frame { struct model m; rf_pack_t pk; int next; } stk[MAXL + 1];
static volatile int depth;
static uint64_t cand_over, cand_read;
#define NSPLIT 4			/* each (size, alignment) is split by (index of the LAST call) mod NSPLIT */
static int SPLIT;

static void sample_current(const char *what)
{
	vx_sb rep = {0}, hist = {0}, b = {0};
	replay_text(&rep, &hist); hexbytes(&b, buf, N);
	vx_sample("%s: n=%d %c-aligned: %s => last call returned %lld, consumed=%d remaining=%d buffer=[%s]", what, N,
		  ALIGN ? 'L' : 'R', hist.s, (long long)last_ret, rf_pack_consumed(&pk), rf_pack_remaining(&pk), b.s);
	free(rep.s); free(hist.s); free(b.s);
}

static const char *fault_text(void)
{
	return vx_fault_kind == SIGSEGV ? " (access outside the buffer: it lies flush against an inaccessible page)" : "";
}

/* all sequences of length exactly L (their proper prefixes are re-executed and
 * re-checked, but neither counted nor reported again: they were the leaves of
 * an earlier round). Returns 0 if stopped early. */
static int dfs(int L)
{
	static uint64_t poll;
	int ok;
	begin_case(N, ALIGN, pattern);
	suppress = (L != 0);
	/* the implicit rf_pack_init is a checked call of its own: the history of length 0 */
	if (VX_TRY) { ok = step(&act_init, L == 0 && SPLIT == 0); VX_END; }
	else { VX_END; fail(N ? SIT_FIT : SIT_EXACT, "fault", "%s during rf_pack_init", vx_fault_msg); ok = 0; }
	suppress = 0;
	if (!ok) return 0;		/* nothing below a broken init is meaningful */
	if (L == 0) return 1;
	stk[0].m = M; stk[0].pk = pk; stk[0].next = (L == 1) ? SPLIT : 0; depth = 0;
	for (;;) {
		if (VX_TRY) {
			for (;;) {
				struct frame *f = &stk[depth];
				int leaf = (depth + 1 == L);
				if (f->next >= NA) { if (depth == 0) break; depth--; continue; }
				int ai = f->next;
				f->next += leaf ? NSPLIT : 1;	/* leaves: only the last calls of this sub-partition */
				memcpy(win, f->m.img, WIN); M = f->m; pk = f->pk;
				path[depth] = alphabet[ai]; plen = depth + 1; cur_ai = ai;
				suppress = !leaf;
				vx_opseq++;
				ok = step(&path[depth], leaf);
				if (!leaf) {
					if (ok) { depth++; stk[depth].m = M; stk[depth].pk = pk; stk[depth].next = (depth + 1 == L) ? SPLIT : 0; }
					continue;
				}
				if (ok && L >= 3) {
					if (M.cur > N && ++cand_over == 30011 && vx_want_sample()) sample_current("sequence");
					if (last_fits && last_ret && ++cand_read == 30011 && vx_want_sample()) sample_current("sequence");
				}
				if ((++poll & 0xfffff) == 0 && (vx_deadline_passed() || vx_too_many_violations())) { VX_END; suppress = 0; return 0; }
			}
			VX_END;
			break;
		} else {
			/* a fault inside the call path[plen-1]; the model still holds the state before it */
			VX_END;
			suppress = (plen != L);
			fail(situation(M.cur, act_size(&path[plen - 1])), "fault", "%s%s", vx_fault_msg, fault_text());
			repair_canary();
			if (vx_too_many_violations()) { suppress = 0; return 0; }
			/* go on with the next sibling: stk[depth].next is already advanced */
		}
	}
	suppress = 0;
	return 1;
}

/* ----------------------------------------------------- phase 2: value sweeps */

static struct { int kind, n, off, align; uint32_t v; } SP;

static int run(act_t a) { path[plen] = a; plen++; return step(&path[plen - 1], 1); }

static uint32_t nvals(int w) { return w == 1 ? 256u : w == 2 ? 65536u : 3u * 4 * 256 + (vx_thorough() ? 2u * 6 * 65536 : 0); }
static uint32_t val(int w, uint32_t i)
{
	static const uint32_t bg3[] = { 0, 0xffffffffu, 0x12345678u };
	static const uint8_t pairs[6][2] = { {0,1}, {0,2}, {0,3}, {1,2}, {1,3}, {2,3} };
	if (w != 4) return i;
	if (i < 3072) {
		uint32_t bg = bg3[i / 1024]; int lane = (int)(i / 256) % 4;
		return (bg & ~(0xffu << (8 * lane))) | ((i & 0xff) << (8 * lane));
	}
	i -= 3072;
	uint32_t bg = bg3[i / (6 * 65536)]; const uint8_t *p = pairs[(i / 65536) % 6]; uint32_t x = i & 0xffff;
	bg &= ~(0xffu << (8 * p[0])); bg &= ~(0xffu << (8 * p[1]));
	return bg | ((x & 0xff) << (8 * p[0])) | ((x >> 8) << (8 * p[1]));
}

/* packer SP.kind with value SP.v into a buffer of SP.n bytes at offset SP.off,
 * then every unpacker of the same width and byte order reads it back */
static void pack_case(void)
{
	const opinfo_t *o = &ops[SP.kind];
	begin_case(SP.n, SP.align, pattern);
	if (!run((act_t){ K_REWIND, 0, 0, 0 })) return;
	if (SP.off && !run((act_t){ K_P_BYTES, 1, 1, 0 })) return;
	if (!run((act_t){ (uint8_t)SP.kind, 0, 0, SP.v })) return;
	int fits = last_fits;
	for (int u = K_U_CHAR; u <= K_U_U32LE; u++) {
		if (!ops[u].impl || ops[u].width != o->width || (o->width > 1 && ops[u].be != o->be)) continue;
		if (plen + 3 > MAXPATH) break;
		if (!run((act_t){ K_REWIND, 0, 0, 0 })) return;
		if (SP.off && !run((act_t){ K_U_BYTES, 1, 1, 0 })) return;
		if (!run((act_t){ (uint8_t)u, 0, 0, 0 })) return;
		if (fits) {
			/* model-independent: the bits that went in come out */
			uint32_t mask = o->width == 4 ? 0xffffffffu : (1u << (8 * o->width)) - 1;
			n_roundtrips++;
			if (((uint32_t)last_ret & mask) != (SP.v & mask)) {
				have_roundtrip = 1; roundtrip_val = SP.v & mask;
				fail(situation(SP.off, o->width), "roundtrip", "%s(0x%x) read back by %s gives 0x%x",
				     o->name, SP.v & mask, ops[u].name, (uint32_t)last_ret & mask);
				return;
			}
		}
	}
}

/* unpacker SP.kind on a buffer whose item bytes are the bytes of SP.v */
static void unpack_case(void)
{
	const opinfo_t *o = &ops[SP.kind];
	uint8_t fill[16];
	memcpy(fill, pattern, 16);
	for (int i = 0; i < o->width && SP.off + i < SP.n; i++) fill[SP.off + i] = (uint8_t)(SP.v >> (8 * i));
	begin_case(SP.n, SP.align, fill);
	if (!run((act_t){ K_REWIND, 0, 0, 0 })) return;
	if (SP.off && !run((act_t){ K_U_BYTES, 1, 1, 0 })) return;
	run((act_t){ (uint8_t)SP.kind, 0, 0, 0 });
}

static void guarded(void (*body)(void))
{
	if (VX_TRY) { body(); VX_END; }
	else {
		VX_END;
		if (plen) fail(situation(M.cur, act_size(&path[plen - 1])), "fault", "%s%s", vx_fault_msg, fault_text());
		else fail(SIT_FIT, "fault", "%s", vx_fault_msg);
	}
}

static int sweep(int kind)
{
	const opinfo_t *o = &ops[kind];
	int w = o->width;
	/* exact fit, one byte short, exact fit at offset 1, slack at offset 1, one short at offset 1 */
	const int lay[5][2] = { { w, 0 }, { w - 1, 0 }, { w + 1, 1 }, { w + 2, 1 }, { w, 1 } };
	uint32_t nv = nvals(w);
	PHASE = kind;
	for (uint32_t i = 0; i < nv; i++) {
		if ((i & 0xfff) == 0 && (vx_deadline_passed() || vx_too_many_violations())) return 0;
		for (int align = 0; align < 2; align++) for (int l = 0; l < 5; l++) {
			SP.kind = kind; SP.v = val(w, i); SP.n = lay[l][0]; SP.off = lay[l][1]; SP.align = align;
			guarded(o->pack ? pack_case : unpack_case);
			if (i == nv / 3 && l == 2 && align == 0 && vx_want_sample()) sample_current("value sweep");
		}
	}
	char nm[64]; snprintf(nm, sizeof(nm), "sweep_values_%s", o->name); vx_count(nm, nv);
	return 1;
}

/* ------------------------------------------------------------------- replay */

static void do_replay(const char *rp)
{
	const char *f;
	uint8_t fill[16]; memcpy(fill, pattern, 16);
	int n = (f = vx_replay_field(rp, "n")) ? atoi(f) : 0;
	int align = (f = vx_replay_field(rp, "align")) && f[0] == 'L';
	PHASE = (f = vx_replay_field(rp, "phase")) ? atoi(f) : 31;
	if ((f = vx_replay_field(rp, "fill"))) {
		const char *p = f; int i = 0;
		while (*p && i < 16) { char *e; unsigned long v = strtoul(p, &e, 16); if (e == p) break; fill[i++] = (uint8_t)v; p = e; }
	}
	int rt = 0; uint32_t rtv = 0;
	if ((f = vx_replay_field(rp, "roundtrip"))) { rt = 1; rtv = (uint32_t)strtoul(f, NULL, 0); }
	if (n < 0 || n > MAXN) { fprintf(stderr, "c12: bad replay (n)\n"); return; }
	const char *p = strstr(rp, "\nops=");
	if (!p) { fprintf(stderr, "c12: bad replay (ops)\n"); return; }
	p += 5;
	static act_t acts[MAXPATH]; int na = 0;
	while (*p && *p != '\n' && na < MAXPATH) {
		while (*p == ' ') p++;
		if (!*p || *p == '\n') break;
		if (act_parse(p, &acts[na]) || !ops[acts[na].kind].impl) { fprintf(stderr, "c12: replay names an operation that is not implemented\n"); return; }
		na++;
		p += strcspn(p, " \n");
	}
	begin_case(n, align, fill);
	if (VX_TRY) {
		/* phase 1 histories start with the implicit init; sweep histories list it explicitly */
		if (PHASE == 31 && !step(&act_init, 0)) { VX_END; return; }
		for (int i = 0; i < na; i++) {
			path[plen] = acts[i]; plen++;
			if (!step(&path[plen - 1], 1)) { VX_END; return; }
		}
		if (rt && na) {
			const opinfo_t *o = &ops[acts[na - 1].kind];
			uint32_t mask = o->width == 4 ? 0xffffffffu : (1u << (8 * o->width)) - 1;
			if (((uint32_t)last_ret & mask) != (rtv & mask)) {
				int pi = -1;
				for (int i = 0; i < na; i++) if (ops[acts[i].kind].pack && ops[acts[i].kind].width) { pi = i; break; }
				have_roundtrip = 1; roundtrip_val = rtv;
				fail(situation(M.cur - o->width, o->width), "roundtrip", "%s(0x%x) read back by %s gives 0x%x",
				     pi >= 0 ? ops[acts[pi].kind].name : "?", rtv & mask, o->name, (uint32_t)last_ret & mask);
			}
		}
		VX_END;
		printf("replay: %d call(s) executed without disagreement, consumed=%d remaining=%d\n", na, rf_pack_consumed(&pk), rf_pack_remaining(&pk));
	} else {
		VX_END;
		if (plen) fail(situation(M.cur, act_size(&path[plen - 1])), "fault", "%s%s", vx_fault_msg, fault_text());
		else fail(N ? SIT_FIT : SIT_EXACT, "fault", "%s during rf_pack_init", vx_fault_msg);
	}
}

/* --------------------------------------------------------------------- main */

int main(int argc, char **argv)
{
	vx_init(argc, argv);
	vx_install_handlers();
	vx_watchdog(2.0);
	detect_implemented();
	build_alphabet();
	areaR = vx_guard_alloc(AREA, 1);
	areaL = vx_guard_alloc(AREA, 0);
	vx_set_init(&distinct, 16);

	char *rp = vx_read_replay();
	if (rp) { do_replay(rp); vx_finish(); return 0; }

	{
		vx_sb in = {0}, out = {0};
		for (int k = 0; k < K_REWIND; k++) vx_sb_printf(ops[k].impl ? &in : &out, " %s", ops[k].name);
		vx_note("alphabet = operations pack.c implements:%s, plus rewind (= rf_pack_init on the same buffer); %d actions with arguments",
			in.s ? in.s : " (none)", NA);
		if (out.s) vx_note("declared in pack.h but not implemented in pack.c, hence not exercised:%s", out.s);
		free(in.s); free(out.s);
	}

	const int Lmax = vx_thorough() ? 5 : 4;
	int complete = 1;
	/* phase 1: partition p = ((size * 2 + alignment) * NSPLIT + class of the last call). Splitting by the LAST
	 * call keeps the observation tuples of different partitions disjoint (the tuple names the call), so the sum
	 * of the per-worker distinct counts is exact; the price is that proper prefixes are executed NSPLIT times. */
	for (int p = 0; p < (MAXN + 1) * 2 * NSPLIT; p++) {
		if (!vx_mine((uint64_t)p)) continue;
		SPLIT = p % NSPLIT; N = p / NSPLIT / 2; ALIGN = (p / NSPLIT) % 2; PHASE = 31; cand_over = cand_read = 0;
		int done = 0;
		for (int L = 0; L <= Lmax; L++) { if (!dfs(L)) break; done = L; }
		vx_min("seq_len_completed", (uint64_t)done);
		if (done < Lmax) complete = 0;
		vx_count("seq_partitions(size,alignment,last-call-class)", 1);
	}
	/* phase 2: one partition per implemented scalar operation */
	for (int k = 0; k < K_REWIND; k++) {
		if (!ops[k].impl || !ops[k].width) continue;
		if (!vx_mine((uint64_t)((MAXN + 1) * 2 * NSPLIT + k))) continue;
		if (!sweep(k)) complete = 0;
		vx_count("sweep_partitions(operation)", 1);
	}
	if (vx_too_many_violations()) vx_note("enumeration stopped early: violation table full");

	vx_and("exhaustive", complete);
	vx_count("evaluations", n_eval);
	vx_count("distinct", distinct.n);
	vx_count("roundtrips_checked", n_roundtrips);
	vx_count("sweep_calls", n_sweep_calls);
	vx_count("overflow_crossings_distinct(action,alignment,size,cursor)", n_crossings);
	vx_count("scope_guard_skips", 0);	/* total requested bytes never approach 2^31 here */
	vx_max("alphabet_actions", (uint64_t)NA);
	for (int l = 0; l <= MAXL; l++) if (n_by_len[l]) { char nm[64]; snprintf(nm, sizeof(nm), "sequences_len%d", l); vx_count(nm, n_by_len[l]); }
	for (int k = 0; k < K_KINDS; k++) {
		if (!ops[k].impl) continue;
		for (int s = 0; s < SIT_N; s++) {
			char nm[64]; snprintf(nm, sizeof(nm), "op_%s.%s", ops[k].name, sitname[s]);
			vx_count(nm, n_opsit[k][s]);
		}
	}
	vx_count("bytes_ops_with_buffer", n_null[0]);
	vx_count("bytes_ops_with_NULL", n_null[1]);
	vx_finish();
	return 0;
}

/*
 * C12 - pack/unpack never leaves the buffer, fails stickily, fixed byte order.
 *
 * Bounded-exhaustive enumeration over the real pack.c (linked as an object of its
 * own: `lib=['pack.c']`; only <librfn/pack.h> is included here, so nothing of this
 * file can clash with a name inside pack.c, and every static pack.c may grow is
 * reset before each case / saved with each frame).
 *
 * One engine executes every call on the real code and on a model (expected memory
 * image of "watch windows" + unbounded cursor + current buffer size) and compares
 * after EVERY call: memory (buffer and the bytes beside it), returned value (0 on
 * overflow), destination array (copy / zero-filled on overflow / untouched outside),
 * rf_pack_consumed, rf_pack_remaining.  A fault (guard page, assert, endless loop)
 * during a call is a violation as well.  The buffer lies flush against an
 * inaccessible page (R: its end, L: its start); in the AddressSanitizer build (A) it
 * is an exactly-sized region inside an otherwise poisoned arena and every ASan report
 * that names an address of that arena is a violation (reads included).
 *
 * Families (each a bounded-exhaustive product; bounds in bin/checks.d/C12.py):
 *  seq     all call sequences up to a length over the alphabet of implemented
 *          operations with boundary arguments, buffer sizes 0..9   (depth first,
 *          iterative deepening, so the first counterexample is a shortest one)
 *  sweep   every 8/16-bit value, every byte-lane pattern of 32-bit values through
 *          every scalar operation at and around exact fit, with round trips
 *  runs    all sequences of pack_bytes/unpack_bytes with EVERY run length 0..17
 *          (real array and NULL) and rewind, buffer sizes 0..36
 *  src     source arrays with every byte value (0x00 included) at every position
 *          of every run length 1..17, packed and read back
 *  reinit  rf_pack_init again on the same rf_pack_t and the same base with every
 *          other size (smaller, equal, larger), after a prefix and before a suffix
 *          of calls; the rf_pack_t starts zeroed or poisoned
 *  mid     buffer sizes / run lengths / cursors on both sides of 2^7, 2^8, 2^15,
 *          2^16 with real arrays (buffer modelled byte by byte)
 *  wide    buffer sizes / cursors on both sides of EVERY power of two up to
 *          2^31-1 inside a 2 GiB guard-paged mapping (NULL source/destination for
 *          the long runs; memory watched at both edges and at the cursor)
 *
 * Which operations exist is decided without taking the address of anything that
 * pack.h defines as a macro: a function-like macro counts as implemented and is
 * simply called; everything else is referenced weakly, so an operation pack.c does
 * not implement is not in the alphabet (and joins it when it gets implemented).
 */
#include "vx.h"

#pragma weak rf_pack_bytes
#pragma weak rf_pack_char
#pragma weak rf_pack_s8
#pragma weak rf_pack_u8
#pragma weak rf_pack_s16be
#pragma weak rf_pack_s16le
#pragma weak rf_pack_u16be
#pragma weak rf_pack_u16le
#pragma weak rf_pack_s32be
#pragma weak rf_pack_s32le
#pragma weak rf_pack_u32be
#pragma weak rf_pack_u32le
#pragma weak rf_unpack_bytes
#pragma weak rf_unpack_char
#pragma weak rf_unpack_s8
#pragma weak rf_unpack_u8
#pragma weak rf_unpack_s16be
#pragma weak rf_unpack_s16le
#pragma weak rf_unpack_u16be
#pragma weak rf_unpack_u16le
#pragma weak rf_unpack_s32be
#pragma weak rf_unpack_s32le
#pragma weak rf_unpack_u32be
#pragma weak rf_unpack_u32le

#include <librfn/pack.h>

/* implemented?  a macro of that name: yes (never take its address); otherwise the weak reference decides */
#ifdef rf_pack_bytes
#define HAS_P_BYTES 1
#else
#define HAS_P_BYTES (rf_pack_bytes != NULL)
#endif
#ifdef rf_pack_char
#define HAS_P_CHAR 1
#else
#define HAS_P_CHAR (rf_pack_char != NULL)
#endif
#ifdef rf_pack_s8
#define HAS_P_S8 1
#else
#define HAS_P_S8 (rf_pack_s8 != NULL)
#endif
#ifdef rf_pack_u8
#define HAS_P_U8 1
#else
#define HAS_P_U8 (rf_pack_u8 != NULL)
#endif
#ifdef rf_pack_s16be
#define HAS_P_S16BE 1
#else
#define HAS_P_S16BE (rf_pack_s16be != NULL)
#endif
#ifdef rf_pack_s16le
#define HAS_P_S16LE 1
#else
#define HAS_P_S16LE (rf_pack_s16le != NULL)
#endif
#ifdef rf_pack_u16be
#define HAS_P_U16BE 1
#else
#define HAS_P_U16BE (rf_pack_u16be != NULL)
#endif
#ifdef rf_pack_u16le
#define HAS_P_U16LE 1
#else
#define HAS_P_U16LE (rf_pack_u16le != NULL)
#endif
#ifdef rf_pack_s32be
#define HAS_P_S32BE 1
#else
#define HAS_P_S32BE (rf_pack_s32be != NULL)
#endif
#ifdef rf_pack_s32le
#define HAS_P_S32LE 1
#else
#define HAS_P_S32LE (rf_pack_s32le != NULL)
#endif
#ifdef rf_pack_u32be
#define HAS_P_U32BE 1
#else
#define HAS_P_U32BE (rf_pack_u32be != NULL)
#endif
#ifdef rf_pack_u32le
#define HAS_P_U32LE 1
#else
#define HAS_P_U32LE (rf_pack_u32le != NULL)
#endif
#ifdef rf_unpack_bytes
#define HAS_U_BYTES 1
#else
#define HAS_U_BYTES (rf_unpack_bytes != NULL)
#endif
#ifdef rf_unpack_char
#define HAS_U_CHAR 1
#else
#define HAS_U_CHAR (rf_unpack_char != NULL)
#endif
#ifdef rf_unpack_s8
#define HAS_U_S8 1
#else
#define HAS_U_S8 (rf_unpack_s8 != NULL)
#endif
#ifdef rf_unpack_u8
#define HAS_U_U8 1
#else
#define HAS_U_U8 (rf_unpack_u8 != NULL)
#endif
#ifdef rf_unpack_s16be
#define HAS_U_S16BE 1
#else
#define HAS_U_S16BE (rf_unpack_s16be != NULL)
#endif
#ifdef rf_unpack_s16le
#define HAS_U_S16LE 1
#else
#define HAS_U_S16LE (rf_unpack_s16le != NULL)
#endif
#ifdef rf_unpack_u16be
#define HAS_U_U16BE 1
#else
#define HAS_U_U16BE (rf_unpack_u16be != NULL)
#endif
#ifdef rf_unpack_u16le
#define HAS_U_U16LE 1
#else
#define HAS_U_U16LE (rf_unpack_u16le != NULL)
#endif
#ifdef rf_unpack_s32be
#define HAS_U_S32BE 1
#else
#define HAS_U_S32BE (rf_unpack_s32be != NULL)
#endif
#ifdef rf_unpack_s32le
#define HAS_U_S32LE 1
#else
#define HAS_U_S32LE (rf_unpack_s32le != NULL)
#endif
#ifdef rf_unpack_u32be
#define HAS_U_U32BE 1
#else
#define HAS_U_U32BE (rf_unpack_u32be != NULL)
#endif
#ifdef rf_unpack_u32le
#define HAS_U_U32LE 1
#else
#define HAS_U_U32LE (rf_unpack_u32le != NULL)
#endif

#ifndef lengthof
#define lengthof(a) (sizeof(a) / sizeof((a)[0]))
#endif
#define BARRIER() __asm__ __volatile__("" ::: "memory")

/* ------------------------------------------------- AddressSanitizer build (part c12asan) */

#ifdef C12_ASAN
#define ASAN_BUILD 1
const char *__asan_default_options(void)
{
	return "halt_on_error=0:detect_leaks=0:print_summary=0:handle_segv=0:handle_sigbus=0:handle_sigfpe=0:handle_abort=0:"
	       "detect_stack_use_after_return=0:allow_user_poisoning=1:suppress_equal_pcs=0:symbolize=0";
}
extern const char *__asan_get_report_description(void);
extern void *__asan_get_report_address(void);
extern int __asan_get_report_access_type(void);
extern size_t __asan_get_report_access_size(void);
extern void __asan_poison_memory_region(void const volatile *addr, size_t size);
extern void __asan_unpoison_memory_region(void const volatile *addr, size_t size);
static volatile int asan_errors; static volatile uint64_t asan_total;
static void *volatile asan_addr; static volatile int asan_write; static volatile size_t asan_size; static char asan_kind[48];
void __asan_on_error(void)
{
	asan_total++;
	if (!asan_errors++) {
		asan_addr = __asan_get_report_address(); asan_write = __asan_get_report_access_type();
		asan_size = __asan_get_report_access_size();
		snprintf(asan_kind, sizeof(asan_kind), "%s", __asan_get_report_description());
	}
}
/* the harness itself reads and writes the poisoned bytes beside the buffer: not instrumented, and written so that the
 * compiler cannot turn the loops into calls of the (intercepted) memcpy/memset/memcmp */
#define RAW __attribute__((no_sanitize("address"), noinline))
RAW static void raw_copy(void *d, const void *s, size_t n)
{
	uint8_t *dd = d; const uint8_t *ss = s;
	for (; n >= 8; n -= 8, dd += 8, ss += 8) { uint64_t x; __builtin_memcpy(&x, ss, 8); BARRIER(); __builtin_memcpy(dd, &x, 8); }
	for (; n; n--) { *dd++ = *ss++; BARRIER(); }
}
RAW static void raw_fill(void *d, int c, size_t n)
{
	uint8_t *dd = d; uint64_t x = 0x0101010101010101ULL * (uint8_t)c;
	for (; n >= 8; n -= 8, dd += 8) { __builtin_memcpy(dd, &x, 8); BARRIER(); }
	for (; n; n--) { *dd++ = (uint8_t)c; BARRIER(); }
}
RAW static int raw_differs(const void *a, const void *b, size_t n)
{
	const uint8_t *aa = a, *bb = b;
	for (; n >= 8; n -= 8, aa += 8, bb += 8) { uint64_t x, y; __builtin_memcpy(&x, aa, 8); __builtin_memcpy(&y, bb, 8); BARRIER(); if (x != y) return 1; }
	for (; n; n--) { if (*aa++ != *bb++) return 1; BARRIER(); }
	return 0;
}
#else
#define ASAN_BUILD 0
#define raw_copy memcpy
#define raw_fill memset
#define raw_differs memcmp
static volatile int asan_errors; static volatile uint64_t asan_total;
#endif

/* the statics of pack.c (vx.h, `lib=`): saved / restored with copies the sanitizer does not see, because in the
 * AddressSanitizer build the red zones around the library's globals lie inside the saved image */
static void lib_save(void *dst)
{
	if (vx_lib_dsz()) raw_copy(dst, __start_vxlibdata, vx_lib_dsz());
	if (vx_lib_bsz()) raw_copy((char *)dst + vx_lib_dsz(), __start_vxlibbss, vx_lib_bsz());
}
static void lib_restore(const void *src)
{
	if (vx_lib_dsz()) raw_copy(__start_vxlibdata, src, vx_lib_dsz());
	if (vx_lib_bsz()) raw_copy(__start_vxlibbss, (const char *)src + vx_lib_dsz(), vx_lib_bsz());
}
static void lib_reset(void) { if (vx_lib_pristine) lib_restore(vx_lib_pristine); }

/* ------------------------------------------------------------------ constants */

#define MAXN 9			/* largest buffer of the sequence / reinit families */
#define RUNMAX 17		/* longest run of the run family */
#define RUNCAP 36		/* largest buffer of the run family */
#define MAXL 5			/* longest sequence of a depth-first family */
#define MAXPATH 24
#define MAXA 200
#define WMAX 224		/* largest window a depth-first frame can hold */
#define CANB 32			/* watched bytes before the buffer (placements R and A) */
#define FULLMAX (65537 + 64)	/* largest buffer that is modelled byte by byte */
#define EDGE 256		/* bytes watched at each edge of a larger buffer */
#define CURW 32			/* bytes watched on each side of the item at the cursor of a larger buffer */
#define MAXWT 7
#define DCAN 16			/* canary bytes before (ASan build: and after) the destination array */
#define SRCSMALL 64		/* source runs up to this length take their bytes from SRC[] */
#define BIGRUN 65537		/* longest run with a real array */
#define PATP 251		/* period of the background pattern */
#define SCOPE_MAX 2147483647L	/* scope of the statement: total requested bytes below 2^31 */

enum { PL_R, PL_L, PL_A };
static const char place_chr[] = "RLA";
static const char *place_name[] = { "ending flush against an inaccessible page", "starting right after an inaccessible page",
				    "an exactly-sized region of a poisoned arena (AddressSanitizer)" };

enum { FAM_RUNS = 25, FAM_SRC = 26, FAM_REINIT = 27, FAM_MID = 28, FAM_WIDE = 29, FAM_SEQ = 31 };	/* 0..23: sweep of that operation */

/* ---------------------------------------------------------------------- arenas */

typedef struct { uint8_t *lo, *hi; } arena_t;	/* accessible bytes [lo,hi) between inaccessible pages */
static arena_t AR, ARS, ARD;			/* pack buffers, source arrays, destination arrays */
static int HUGE_OK;				/* AR is large enough for a buffer of 2^31-1 bytes */

static int arena_make(arena_t *a, size_t body, size_t tail)
{
	size_t pg = 4096;
	body = (body + pg - 1) / pg * pg; tail = (tail + pg - 1) / pg * pg + pg;
	uint8_t *m = mmap(NULL, pg + body + tail, PROT_NONE, MAP_PRIVATE | MAP_ANONYMOUS | MAP_NORESERVE, -1, 0);
	if (m == MAP_FAILED) return -1;
	if (mprotect(m + pg, body, PROT_READ | PROT_WRITE)) { munmap(m, pg + body + tail); return -1; }
	a->lo = m + pg; a->hi = a->lo + body;
	return 0;
}

/* ------------------------------------------------------------ operations */

enum { K_P_BYTES, K_P_CHAR, K_P_S8, K_P_U8, K_P_S16BE, K_P_S16LE, K_P_U16BE, K_P_U16LE,
       K_P_S32BE, K_P_S32LE, K_P_U32BE, K_P_U32LE,
       K_U_BYTES, K_U_CHAR, K_U_S8, K_U_U8, K_U_S16BE, K_U_S16LE, K_U_U16BE, K_U_U16LE,
       K_U_S32BE, K_U_S32LE, K_U_U32BE, K_U_U32LE, K_REWIND, K_INIT, K_KINDS };

enum { SGN_U, SGN_S, SGN_CHAR };
typedef struct { const char *name; uint8_t pack, width, be, sgn, impl; } opinfo_t;
static opinfo_t ops[K_KINDS] = {
	[K_P_BYTES] = { "pack_bytes", 1, 0, 0, 0, 0 },   [K_P_CHAR] = { "pack_char", 1, 1, 0, SGN_CHAR, 0 },
	[K_P_S8] = { "pack_s8", 1, 1, 0, SGN_S, 0 },     [K_P_U8] = { "pack_u8", 1, 1, 0, SGN_U, 0 },
	[K_P_S16BE] = { "pack_s16be", 1, 2, 1, SGN_S, 0 }, [K_P_S16LE] = { "pack_s16le", 1, 2, 0, SGN_S, 0 },
	[K_P_U16BE] = { "pack_u16be", 1, 2, 1, SGN_U, 0 }, [K_P_U16LE] = { "pack_u16le", 1, 2, 0, SGN_U, 0 },
	[K_P_S32BE] = { "pack_s32be", 1, 4, 1, SGN_S, 0 }, [K_P_S32LE] = { "pack_s32le", 1, 4, 0, SGN_S, 0 },
	[K_P_U32BE] = { "pack_u32be", 1, 4, 1, SGN_U, 0 }, [K_P_U32LE] = { "pack_u32le", 1, 4, 0, SGN_U, 0 },
	[K_U_BYTES] = { "unpack_bytes", 0, 0, 0, 0, 0 }, [K_U_CHAR] = { "unpack_char", 0, 1, 0, SGN_CHAR, 0 },
	[K_U_S8] = { "unpack_s8", 0, 1, 0, SGN_S, 0 },   [K_U_U8] = { "unpack_u8", 0, 1, 0, SGN_U, 0 },
	[K_U_S16BE] = { "unpack_s16be", 0, 2, 1, SGN_S, 0 }, [K_U_S16LE] = { "unpack_s16le", 0, 2, 0, SGN_S, 0 },
	[K_U_U16BE] = { "unpack_u16be", 0, 2, 1, SGN_U, 0 }, [K_U_U16LE] = { "unpack_u16le", 0, 2, 0, SGN_U, 0 },
	[K_U_S32BE] = { "unpack_s32be", 0, 4, 1, SGN_S, 0 }, [K_U_S32LE] = { "unpack_s32le", 0, 4, 0, SGN_S, 0 },
	[K_U_U32BE] = { "unpack_u32be", 0, 4, 1, SGN_U, 0 }, [K_U_U32LE] = { "unpack_u32le", 0, 4, 0, SGN_U, 0 },
	[K_REWIND] = { "rewind", 0, 0, 0, 0, 1 },	/* rf_pack_init on the same buffer with the same size */
	[K_INIT] = { "init", 0, 0, 0, 0, 1 },		/* rf_pack_init on the same base with the size given */
};

static void detect_implemented(void)
{
	ops[K_P_BYTES].impl = HAS_P_BYTES; ops[K_P_CHAR].impl = HAS_P_CHAR; ops[K_P_S8].impl = HAS_P_S8; ops[K_P_U8].impl = HAS_P_U8;
	ops[K_P_S16BE].impl = HAS_P_S16BE; ops[K_P_S16LE].impl = HAS_P_S16LE; ops[K_P_U16BE].impl = HAS_P_U16BE; ops[K_P_U16LE].impl = HAS_P_U16LE;
	ops[K_P_S32BE].impl = HAS_P_S32BE; ops[K_P_S32LE].impl = HAS_P_S32LE; ops[K_P_U32BE].impl = HAS_P_U32BE; ops[K_P_U32LE].impl = HAS_P_U32LE;
	ops[K_U_BYTES].impl = HAS_U_BYTES; ops[K_U_CHAR].impl = HAS_U_CHAR; ops[K_U_S8].impl = HAS_U_S8; ops[K_U_U8].impl = HAS_U_U8;
	ops[K_U_S16BE].impl = HAS_U_S16BE; ops[K_U_S16LE].impl = HAS_U_S16LE; ops[K_U_U16BE].impl = HAS_U_U16BE; ops[K_U_U16LE].impl = HAS_U_U16LE;
	ops[K_U_S32BE].impl = HAS_U_S32BE; ops[K_U_S32LE].impl = HAS_U_S32LE; ops[K_U_U32BE].impl = HAS_U_U32BE; ops[K_U_U32LE].impl = HAS_U_U32LE;
}

/* one call: operation + argument (sz: run length of the byte operations, new size of init) */
typedef struct { uint8_t kind, null; uint32_t sz; uint32_t arg; } act_t;

static act_t mk_bytes(int kind, int null, uint32_t r) { act_t a = { (uint8_t)kind, (uint8_t)null, r, 0 }; return a; }
static act_t mk_scalar(int kind, uint32_t v) { act_t a = { (uint8_t)kind, 0, 0, v }; return a; }
static act_t mk_init(uint32_t n) { act_t a = { K_INIT, 0, n, 0 }; return a; }
static act_t mk_rewind(void) { act_t a = { K_REWIND, 0, 0, 0 }; return a; }
#define SKIP(r) mk_bytes(K_U_BYTES, 1, (r))

static void act_describe(const act_t *a, vx_sb *sb)
{
	const opinfo_t *o = &ops[a->kind];
	if (a->kind == K_P_BYTES) vx_sb_printf(sb, "pack_bytes(%s,%u)", a->null ? "NULL" : "src", a->sz);
	else if (a->kind == K_U_BYTES) vx_sb_printf(sb, "unpack_bytes(%s,%u)", a->null ? "NULL" : "dst", a->sz);
	else if (a->kind == K_INIT) vx_sb_printf(sb, "init(same base,%u)", a->sz);
	else if (o->pack) vx_sb_printf(sb, "%s(0x%0*x)", o->name, o->width * 2, a->arg);
	else vx_sb_printf(sb, "%s()", o->name);
}
static void act_token(const act_t *a, vx_sb *sb)	/* replay form */
{
	const opinfo_t *o = &ops[a->kind];
	if (a->kind == K_P_BYTES || a->kind == K_U_BYTES) vx_sb_printf(sb, "%s:%s:%u", o->name, a->null ? "null" : "buf", a->sz);
	else if (a->kind == K_INIT) vx_sb_printf(sb, "init:%u", a->sz);
	else if (o->pack) vx_sb_printf(sb, "%s:0x%x", o->name, a->arg);
	else vx_sb_printf(sb, "%s", o->name);
}
static int act_parse(const char *tok, act_t *a)
{
	char name[32]; size_t l = strcspn(tok, ": \n");
	if (l >= sizeof(name)) return -1;
	memcpy(name, tok, l); name[l] = 0;
	memset(a, 0, sizeof(*a));
	for (int k = 0; k < K_KINDS; k++) if (!strcmp(name, ops[k].name)) {
		a->kind = (uint8_t)k;
		if (k == K_P_BYTES || k == K_U_BYTES) {
			if (tok[l] != ':') return -1;
			a->null = (0 == strncmp(tok + l + 1, "null", 4));
			const char *c = strchr(tok + l + 1, ':'); if (!c) return -1;
			a->sz = (uint32_t)strtoul(c + 1, NULL, 0);
		} else if (k == K_INIT) {
			if (tok[l] != ':') return -1;
			a->sz = (uint32_t)strtoul(tok + l + 1, NULL, 0);
		} else if (ops[k].pack) {
			if (tok[l] != ':') return -1;
			a->arg = (uint32_t)strtoul(tok + l + 1, NULL, 0);
		}
		return 0;
	}
	return -1;
}

/* --------------------------------------------------- the case being executed */

typedef struct { long off; size_t len; uint8_t *real, *shadow; } watch_t;	/* off: relative to the buffer start */

static int FAM;				/* family (FAM_*, or the operation being swept) */
static long N0;				/* size the first rf_pack_init of the case uses */
static uint32_t CAP;			/* bytes of the region the buffer may occupy (largest size used in the case) */
static int PLACE, CAN, PK0, SPARSE;	/* placement, watched bytes after the region, initial rf_pack_t (0 zeroed, 1 poisoned), CAP > FULLMAX */
static uint8_t *buf;
static watch_t WT[MAXWT]; static int NWT;
static uint8_t shadow0[CANB + FULLMAX + 256], shadowx[MAXWT][EDGE + 2 * CURW + 128];
static struct model { long cur, n; } M;	/* unbounded cursor, size given to the last rf_pack_init */
static rf_pack_t pk;
static act_t path[MAXPATH]; static volatile int plen;	/* history incl. the call being executed */
static const act_t *volatile cur_act;	/* the call being executed (the implicit rf_pack_init when plen == 0) */
static const act_t act_init = { K_REWIND, 0, 0, 0 };
static int implicit_init;		/* depth-first families: the history starts with an rf_pack_init that is not listed */
static int64_t last_ret; static int last_fits;
static int suppress;			/* iterative deepening: shallower levels were already reported */
static int have_roundtrip; static uint32_t roundtrip_val; static int rt_bytes;	/* for replay text */
static int give_up;			/* too many hangs / sanitizer reports: stop enumerating */
static int prev_sparse;

static uint8_t patT[PATP], pmaster[PATP + CANB + FULLMAX + 256 + 8];
static const uint8_t SRC_DEFAULT[RUNMAX] = { 0xd1, 0x00, 0xf3, 0x7f, 0x80, 0xff, 0x01, 0x45, 0xc6, 0x19, 0x2a, 0x3b, 0x4c, 0x5d, 0x6e, 0x9f, 0xb0 };
static uint8_t SRC[SRCSMALL]; static int src_custom;
static uint8_t stail[SRCSMALL]; static int src_dirty;
static long poke_off = -1; static int poke_len; static uint8_t poke_bytes[8];
static uint8_t *last_dst; static uint32_t last_dst_len;

enum { SIT_FIT, SIT_EXACT, SIT_OVERFLOW, SIT_STICKY, SIT_N };
static const char *sitname[] = { "fits-with-slack", "exact-fit", "first-overflow", "after-overflow" };

static uint64_t n_eval, n_sweep_calls, n_by_len[MAXPATH + 1], n_opsit[K_KINDS][SIT_N], n_null[2], n_roundtrips, n_rt_bytes, n_fam_calls[32];
static uint64_t max_run, max_cursor, max_size;
static uint8_t crossing[MAXA][2][MAXN + 1][MAXN + 2]; static uint64_t n_crossings; static int cur_ai;
static vx_set distinct; static uint64_t dcache[1 << 15];

static void pattern_init(void)
{
	static const uint8_t nice[10] = { 0x81, 0x02, 0xf3, 0x7f, 0x80, 0xff, 0x00, 0x45, 0xc6, 0x19 };
	for (int i = 0; i < PATP; i++) patT[i] = i < 10 ? nice[i] : (uint8_t)(i * 73 + 17);
	for (size_t i = 0; i < sizeof(pmaster); i++) pmaster[i] = patT[i % PATP];
}
static const uint8_t *pat_at(long off) { long m = off % PATP; if (m < 0) m += PATP; return pmaster + m; }

#ifdef C12_ASAN
static uint8_t *exposed_ptr; static size_t exposed_len; static long exposed_n = -1;
static void asan_expose(long n)
{
	if (exposed_ptr) __asan_poison_memory_region(exposed_ptr, exposed_len);
	__asan_unpoison_memory_region(buf, (size_t)n);
	exposed_ptr = buf; exposed_len = (size_t)n; exposed_n = n;
}
static void asan_hide(void) { if (exposed_ptr) __asan_poison_memory_region(exposed_ptr, exposed_len); exposed_ptr = NULL; exposed_n = -1; }
#else
#define asan_expose(n) ((void)0)
#define asan_hide() ((void)0)
#define exposed_n M.n
#endif

static void set_window(int w, long off, size_t len)
{
	WT[w].off = off; WT[w].len = len; WT[w].real = buf + off; WT[w].shadow = w == 0 ? shadow0 : shadowx[w];
	memcpy(WT[w].shadow, pat_at(off), len);
	raw_copy(WT[w].real, WT[w].shadow, len);
}

/* expected memory: a write of the model */
static void mwrite(long o, const uint8_t *d, size_t k)
{
	for (int w = 0; w < NWT; w++) {
		long lo = o > WT[w].off ? o : WT[w].off, hi = o + (long)k, e = WT[w].off + (long)WT[w].len;
		if (hi > e) hi = e;
		if (lo >= hi) continue;
		if (d) memcpy(WT[w].shadow + (lo - WT[w].off), d + (lo - o), (size_t)(hi - lo));
		else memset(WT[w].shadow + (lo - WT[w].off), 0, (size_t)(hi - lo));
	}
}
/* expected bytes [o,o+k) if one window holds them all */
static const uint8_t *mptr(long o, size_t k)
{
	for (int w = 0; w < NWT; w++)
		if (o >= WT[w].off && o + (long)k <= WT[w].off + (long)WT[w].len) return WT[w].shadow + (o - WT[w].off);
	return NULL;
}
static uint8_t mbyte(long o)	/* outside every window the large mapping was never written: zero */
{
	const uint8_t *p = mptr(o, 1);
	return p ? *p : 0;
}
static void mget(long o, int k, uint8_t *out)
{
	const uint8_t *p = mptr(o, (size_t)k);
	for (int i = 0; i < k; i++) out[i] = p ? p[i] : mbyte(o + i);
}

static void begin_case(int fam, uint32_t cap, long n0, int place, int can, int pk0)
{
	if (prev_sparse) for (int w = 0; w < NWT; w++) raw_fill(WT[w].real, 0, WT[w].len);	/* back to the state of a fresh mapping */
	FAM = fam; CAP = cap; PLACE = place; CAN = can; PK0 = pk0;
	lib_reset();
	asan_hide();
	SPARSE = cap > FULLMAX; prev_sparse = SPARSE;
	buf = place == PL_R ? AR.hi - cap : place == PL_L ? AR.lo : AR.lo + 8192;
	long before = place == PL_L ? 0 : CANB;
	if (!SPARSE) { set_window(0, -before, (size_t)before + cap + (place == PL_R ? 0 : (size_t)can)); NWT = 1; }
	else { set_window(0, -before, (size_t)before + EDGE); set_window(1, (long)cap - EDGE, EDGE + (place == PL_R ? 0 : 64)); NWT = 2; }
	memset(&pk, pk0 ? 0xA5 : 0, sizeof(pk));
	M.n = N0 = n0; M.cur = 0;
	plen = 0; have_roundtrip = 0; rt_bytes = 0; implicit_init = 0; poke_off = -1; last_dst = NULL;
	if (src_custom) { memcpy(SRC, SRC_DEFAULT, RUNMAX); src_custom = 0; }
}
static void poke(long off, const uint8_t *b, int len)	/* initial buffer contents other than the background pattern */
{
	poke_off = off; poke_len = len; memcpy(poke_bytes, b, (size_t)len);
	mwrite(off, b, (size_t)len);
	for (int w = 0; w < NWT; w++) raw_copy(WT[w].real, WT[w].shadow, WT[w].len);
}

/* larger buffers: watch the bytes around the item at the cursor as well */
static void watch_cursor(long old, uint32_t k)
{
	long lo = old - CURW, hi = old + (long)(k > 64 ? 64 : k) + CURW;
	if (buf + lo < AR.lo) lo = AR.lo - buf;
	if (hi > AR.hi - buf) hi = AR.hi - buf;
	for (int pass = 0; pass < 2; pass++)
		for (int w = 0; w < NWT; w++) {
			long eo = WT[w].off, ee = eo + (long)WT[w].len;
			if (lo < ee && hi > eo) { if (lo >= eo) lo = ee; else hi = eo; }
		}
	if (lo >= hi || NWT >= MAXWT) return;
	set_window(NWT, lo, (size_t)(hi - lo)); NWT++;
}

static uint32_t act_size(const act_t *a)
{
	return (a->kind == K_P_BYTES || a->kind == K_U_BYTES) ? a->sz : ops[a->kind].width;
}
static int situation(long old, uint32_t k)
{
	if (old > M.n) return SIT_STICKY;
	if (old + (long)k > M.n) return SIT_OVERFLOW;
	return old + (long)k == M.n ? SIT_EXACT : SIT_FIT;
}

static void hexbytes(vx_sb *sb, const uint8_t *p, int n)
{
	for (int i = 0; i < n; i++) vx_sb_printf(sb, "%s%02x", i ? " " : "", p[i]);
	if (!n) vx_sb_printf(sb, "(empty)");
}

static void replay_text(vx_sb *rep, vx_sb *hist)
{
	vx_sb_printf(rep, "fam=%d\ncap=%u\nn=%ld\nplace=%c\ncan=%d\npk0=%d\nimplicit=%d\nasan=%d\n", FAM, CAP, N0,
		     place_chr[PLACE], CAN, PK0, implicit_init, ASAN_BUILD);
	if (poke_off >= 0) { vx_sb_printf(rep, "poke=%ld:", poke_off); hexbytes(rep, poke_bytes, poke_len); vx_sb_printf(rep, "\n"); }
	if (src_custom) { vx_sb_printf(rep, "src="); hexbytes(rep, SRC, RUNMAX); vx_sb_printf(rep, "\n"); }
	if (have_roundtrip) vx_sb_printf(rep, "roundtrip=0x%x\n", roundtrip_val);
	if (rt_bytes) vx_sb_printf(rep, "rtbytes=1\n");
	vx_sb_printf(rep, "ops=");
	for (int i = 0; i < plen; i++) {
		if (i) { vx_sb_printf(rep, " "); vx_sb_printf(hist, "; "); }
		act_token(&path[i], rep); act_describe(&path[i], hist);
	}
	vx_sb_printf(rep, "\n");
	if (!plen) vx_sb_printf(hist, "(only rf_pack_init)");
}

static uint8_t seen_sig[24][K_KINDS + 1][2][SIT_N];
static const char *clauses[24]; static int nclauses;

/* Record a violation of `clause` by the last call of path[]. The signature is
 * deliberately coarse: clause + operation (+NULL variant) + where the call
 * stood relative to the end of the buffer; the minimal history found first in
 * the deterministic enumeration order is in the message and the replay. */
__attribute__((format(printf, 3, 4)))
static int fail(int sit, const char *clause, const char *fmt, ...)
{
	if (suppress) return 0;
	int ci = 0;
	for (; ci < nclauses; ci++) if (!strcmp(clauses[ci], clause)) break;
	if (ci == nclauses && nclauses < 24) clauses[nclauses++] = clause;
	const act_t *a = plen ? cur_act : NULL;
	int kind = a ? a->kind : K_KINDS, nul = a ? a->null : 0;
	if (ci < 24 && seen_sig[ci][kind][nul][sit]) { if (++vx_viol_total > 20000) give_up = 1; return 0; }	/* a broken library: no point in visiting every failing case */
	if (ci < 24) seen_sig[ci][kind][nul][sit] = 1;
	vx_sb sig = {0}, rep = {0}, hist = {0};
	va_list ap; va_start(ap, fmt); char *m = vx_vfmt(fmt, ap); va_end(ap);
	vx_sb_printf(&sig, "C12|%s|", clause);
	if (!a) vx_sb_printf(&sig, "init");
	else if (a->kind == K_P_BYTES) vx_sb_printf(&sig, "pack_bytes(%s)", a->null ? "NULL" : "src");
	else if (a->kind == K_U_BYTES) vx_sb_printf(&sig, "unpack_bytes(%s)", a->null ? "NULL" : "dst");
	else vx_sb_printf(&sig, "%s", ops[a->kind].name);
	vx_sb_printf(&sig, "|%s", sitname[sit]);
	replay_text(&rep, &hist);
	vx_violation(sig.s, rep.s, "%s: %s -- buffer of %ld byte%s (%s%s), history [%s]", clause, m,
		     M.n, M.n == 1 ? "" : "s", place_name[PLACE], PK0 ? "; the rf_pack_t held 0xa5 bytes before its first rf_pack_init" : "", hist.s);
	free(m); free(sig.s); free(rep.s); free(hist.s);
	return 0;
}

static uint32_t compose(const uint8_t *s, int width, int be)
{
	uint32_t r = 0;
	for (int i = 0; i < width; i++) r |= (uint32_t)s[i] << (8 * (be ? width - 1 - i : i));
	return r;
}
static int64_t as_type(uint32_t raw, int width, int sgn)
{
	if (sgn == SGN_CHAR) return (int64_t)(char)(uint8_t)raw;
	if (sgn == SGN_S) {
		if (width == 1) return (int8_t)(uint8_t)raw;
		if (width == 2) return (int16_t)(uint16_t)raw;
		return (int32_t)raw;
	}
	return (int64_t)raw;
}

/* source array of a pack_bytes call: its last byte lies flush against an inaccessible page */
static uint8_t *src_prepare(uint32_t k)
{
	if (k <= SRCSMALL) { memcpy(ARS.hi - k, SRC, k); src_dirty = 1; }
	else if (src_dirty) { memcpy(ARS.hi - SRCSMALL, stail, SRCSMALL); src_dirty = 0; }
	return ARS.hi - k;
}
/* destination array of an unpack_bytes call: exactly k bytes (then the inaccessible page / poisoned bytes), canary before */
static uint8_t *dst_prepare(uint32_t k)
{
#ifdef C12_ASAN
	uint8_t *d = ARD.lo + 4096;
	__asan_poison_memory_region(ARD.lo, (size_t)(ARD.hi - ARD.lo));
	__asan_unpoison_memory_region(d, k);
	raw_fill(d - DCAN, 0xA5, (size_t)k + 2 * DCAN);
#else
	uint8_t *d = ARD.hi - k;
	memset(d - DCAN, 0xA5, (size_t)k + DCAN);
#endif
	last_dst = d; last_dst_len = k;
	return d;
}

/* first byte (offset relative to the buffer start) where memory and expectation differ; differences inside the
 * current buffer are reported in preference to differences outside */
static int first_diff(long *where)
{
	for (int inside = 1; inside >= 0; inside--)
		for (int w = 0; w < NWT; w++) {
			if (!raw_differs(WT[w].real, WT[w].shadow, WT[w].len)) continue;
			uint8_t tmp[64];
			for (size_t i = 0; i < WT[w].len; i += sizeof(tmp)) {
				size_t c = WT[w].len - i < sizeof(tmp) ? WT[w].len - i : sizeof(tmp);
				raw_copy(tmp, WT[w].real + i, c);
				for (size_t j = 0; j < c; j++) {
					long o = WT[w].off + (long)(i + j);
					if (tmp[j] != WT[w].shadow[i + j] && (!inside || (o >= 0 && o < M.n))) { *where = o; return 1; }
				}
			}
		}
	return 0;
}

#ifdef C12_ASAN
static int asan_fail(int sit)
{
	const uint8_t *ad = (const uint8_t *)asan_addr;
	if (asan_total > 400) give_up = 1;
	if (ad >= AR.lo && ad < AR.hi)
		return fail(sit, asan_write ? "outside-write" : "outside-read",
			    "AddressSanitizer (%s): %s of %zu byte(s) starting at offset %ld relative to the buffer start; only the %ld bytes of the buffer are accessible",
			    asan_kind, asan_write ? "write" : "read", (size_t)asan_size, (long)(ad - buf), M.n);
	if (ad >= ARD.lo && ad < ARD.hi && asan_write && last_dst)
		return fail(sit, "dst-outside", "AddressSanitizer (%s): write of %zu byte(s) at offset %ld relative to an output array of %u bytes",
			    asan_kind, (size_t)asan_size, (long)(ad - last_dst), last_dst_len);
	return fail(sit, "fault", "AddressSanitizer (%s): %s of %zu byte(s) outside every object of the call", asan_kind, asan_write ? "write" : "read", (size_t)asan_size);
}
#endif

/* Execute one call on the real pack.c and on the model and compare.
 * 1 = agreed, 0 = violation recorded. `count` = this call is a new case. */
static int step_inner(const act_t *a, int count)
{
	const opinfo_t *o = &ops[a->kind];
	const long old = M.cur;
	const uint32_t k = act_size(a);
	int64_t ret = 0;
	int sit, fits;
	uint8_t *sp = NULL, *dp = NULL;
	uint8_t tmp[4];

	cur_act = a;
	if (a->kind == K_REWIND || a->kind == K_INIT) {
		long n = a->kind == K_INIT ? (long)a->sz : M.n;
		asan_expose(n); asan_errors = 0;
		BARRIER();
		rf_pack_init(&pk, buf, (unsigned)n);
		BARRIER();
		M.n = n; M.cur = 0; sit = n == 0 ? SIT_EXACT : SIT_FIT; fits = 1;
		goto compare;
	}
	if (ASAN_BUILD && exposed_n != M.n) asan_expose(M.n);
	sit = situation(old, k);
	fits = sit <= SIT_EXACT;
	if (SPARSE) watch_cursor(old, k);
	if (a->kind == K_P_BYTES && !a->null) sp = src_prepare(k);
	if (a->kind == K_U_BYTES && !a->null) dp = dst_prepare(k);
	asan_errors = 0;
	BARRIER();
	switch (a->kind) {
	case K_P_BYTES: rf_pack_bytes(&pk, sp, k); break;
	case K_P_CHAR: rf_pack_char(&pk, (char)a->arg); break;
	case K_P_S8: rf_pack_s8(&pk, (int8_t)a->arg); break;
	case K_P_U8: rf_pack_u8(&pk, (int16_t)(a->arg & 0xff)); break;
	case K_P_S16BE: rf_pack_s16be(&pk, (int16_t)a->arg); break;
	case K_P_S16LE: rf_pack_s16le(&pk, (int16_t)a->arg); break;
	case K_P_U16BE: rf_pack_u16be(&pk, (uint16_t)a->arg); break;
	case K_P_U16LE: rf_pack_u16le(&pk, (uint16_t)a->arg); break;
	case K_P_S32BE: rf_pack_s32be(&pk, (int32_t)a->arg); break;
	case K_P_S32LE: rf_pack_s32le(&pk, (int32_t)a->arg); break;
	case K_P_U32BE: rf_pack_u32be(&pk, a->arg); break;
	case K_P_U32LE: rf_pack_u32le(&pk, a->arg); break;
	case K_U_BYTES: rf_unpack_bytes(&pk, dp, k); break;
	case K_U_CHAR: ret = rf_unpack_char(&pk); break;
	case K_U_S8: ret = rf_unpack_s8(&pk); break;
	case K_U_U8: ret = rf_unpack_u8(&pk); break;
	case K_U_S16BE: ret = rf_unpack_s16be(&pk); break;
	case K_U_S16LE: ret = rf_unpack_s16le(&pk); break;
	case K_U_U16BE: ret = rf_unpack_u16be(&pk); break;
	case K_U_U16LE: ret = rf_unpack_u16le(&pk); break;
	case K_U_S32BE: ret = rf_unpack_s32be(&pk); break;
	case K_U_S32LE: ret = rf_unpack_s32le(&pk); break;
	case K_U_U32BE: ret = rf_unpack_u32be(&pk); break;
	case K_U_U32LE: ret = rf_unpack_u32le(&pk); break;
	}
	BARRIER();

	/* model */
	M.cur = old + (long)k;
	if (o->pack && fits) {
		if (a->kind == K_P_BYTES) mwrite(old, a->null ? NULL : sp, k);
		else { for (uint32_t i = 0; i < k; i++) tmp[i] = (uint8_t)(a->arg >> (8 * (o->be ? k - 1 - i : i))); mwrite(old, tmp, k); }
	}

compare:
	last_ret = ret; last_fits = fits;
#ifdef C12_ASAN
	if (asan_errors) return asan_fail(sit);
#endif
	/* 1. + 2. buffer image and the bytes beside it (on the side without inaccessible page) */
	{
		int differs = 0;
		for (int w = 0; w < NWT; w++) if (raw_differs(WT[w].real, WT[w].shadow, WT[w].len)) { differs = 1; break; }
		long d = 0;
		if (differs && first_diff(&d)) {
			if (d >= 0 && d < M.n) {
				long lo = M.n <= 24 ? 0 : d - 4 < 0 ? 0 : d - 4, hi = M.n <= 24 ? M.n : lo + 16 > M.n ? M.n : lo + 16;
				uint8_t g[24], wv[24];
				raw_copy(g, buf + lo, (size_t)(hi - lo)); for (long i = lo; i < hi; i++) wv[i - lo] = mbyte(i);
				vx_sb gs = {0}, ws = {0}; hexbytes(&gs, g, (int)(hi - lo)); hexbytes(&ws, wv, (int)(hi - lo));
				const char *cl = (o->pack && fits && d >= old && d < old + (long)k) ? "layout"
					: (o->pack && !fits) ? "overflow-transfer" : "stray-write";
				fail(sit, cl, "buffer bytes %ld..%ld are [%s], expected [%s] (first difference at offset %ld; cursor before the call %ld, item of %u byte%s)",
				     lo, hi - 1, gs.s, ws.s, d, old, k, k == 1 ? "" : "s");
				free(gs.s); free(ws.s);
				return 0;
			}
			return fail(sit, "outside-write", "byte at offset %ld relative to the buffer start was modified (buffer is %ld bytes)", d, M.n);
		}
	}
	/* 3. returned value */
	if (!o->pack && o->width) {
		mget(old, o->width, tmp);
		int64_t want = fits ? as_type(compose(tmp, o->width, o->be), o->width, o->sgn) : 0;
		if (ret != want)
			return fail(sit, fits ? "value" : "overflow-value", "returned %lld (0x%llx), expected %lld (0x%llx)%s",
				    (long long)ret, (unsigned long long)ret, (long long)want, (unsigned long long)want,
				    fits ? "" : " because the item does not fit");
	}
	/* 4. destination array */
	if (dp) {
		uint8_t can[2 * DCAN]; int nc = ASAN_BUILD ? 2 * DCAN : DCAN;
		raw_copy(can, dp - DCAN, DCAN);
		if (ASAN_BUILD) raw_copy(can + DCAN, dp + k, DCAN);
		for (int i = 0; i < nc; i++) if (can[i] != 0xA5) {
			long j = i < DCAN ? (long)i - DCAN : (long)k + i - DCAN;
			return fail(sit, "dst-outside", "destination byte %ld is 0x%02x, expected 0x%02x (not part of the output array of %u bytes: must stay untouched)", j, can[i], 0xA5, k);
		}
		const uint8_t *mp = fits ? mptr(old, k) : NULL;
		for (uint32_t j = 0; j < k; j++) {
			uint8_t want = fits ? (mp ? mp[j] : mbyte(old + (long)j)) : 0;
			if (dp[j] != want)
				return fail(sit, fits ? "dst" : "overflow-dst", "destination byte %u is 0x%02x, expected 0x%02x (%s)", j, dp[j], want,
					    fits ? "copy of the buffer" : "zero-fill because the item does not fit");
		}
	}
	/* 5. accounting */
	{
		int c = rf_pack_consumed(&pk), r = rf_pack_remaining(&pk);
		if (c != M.cur) return fail(sit, "consumed", "rf_pack_consumed = %d, expected %ld", c, M.cur);
		if (r != M.n - M.cur) return fail(sit, "remaining", "rf_pack_remaining = %d, expected %ld", r, M.n - M.cur);
		/* the same two readings in the type the functions return (no conversion to int on the way): an overflow must be
		 * visible as a NEGATIVE remainder to a caller that writes rf_pack_remaining(&pk) < 0 (seeded/C12-r5) */
		double dc = (double) rf_pack_consumed(&pk), dr = (double) rf_pack_remaining(&pk);
		if (dc != (double) M.cur) return fail(sit, "consumed-type", "rf_pack_consumed as a number = %g, expected %ld", dc, M.cur);
		if (dr != (double) (M.n - M.cur)) return fail(sit, "remaining-type", "rf_pack_remaining as a number = %g, expected %ld", dr, M.n - M.cur);
	}

	if (count) {
		n_eval++; n_opsit[a->kind][sit]++; n_fam_calls[FAM]++;
		if (FAM == FAM_SEQ) n_by_len[plen]++; else if (FAM < 24) n_sweep_calls++;
		if (a->kind == K_P_BYTES || a->kind == K_U_BYTES) { n_null[a->null]++; if (k > max_run) max_run = k; }
		if ((uint64_t)M.cur > max_cursor) max_cursor = (uint64_t)M.cur;
		if ((uint64_t)M.n > max_size) max_size = (uint64_t)M.n;
		if (FAM == FAM_SEQ && plen && sit == SIT_OVERFLOW && !crossing[cur_ai][PLACE == PL_L][M.n][old]) { crossing[cur_ai][PLACE == PL_L][M.n][old] = 1; n_crossings++; }
		/* observation tuple */
		uint32_t val = 0;
		if (a->kind == K_REWIND || a->kind == K_INIT) val = 0;
		else if (o->pack) val = a->kind == K_P_BYTES ? 0 : (k == 4 ? a->arg : a->arg & ((1u << (8 * k)) - 1));
		else if (fits && k) { int kk = k > 4 ? 4 : (int)k; mget(old, kk, tmp); val = compose(tmp, kk, 0); }
		uint64_t key, hk; vx_h128 h;
		if (FAM < 24 || FAM == FAM_SEQ) {	/* small fields: packed injectively into 64 bits */
			key = ((uint64_t)FAM << 59) | ((uint64_t)a->kind << 54) | ((uint64_t)M.n << 50) | ((uint64_t)(PLACE == PL_L) << 49)
				| ((uint64_t)(old & 63) << 43) | ((uint64_t)sit << 41) | ((uint64_t)a->sz << 39) | ((uint64_t)a->null << 38)
				| ((uint64_t)(a == &act_init) << 37) | ((uint64_t)ASAN_BUILD << 36) | val;
			hk = vx_mix(key + 0x9e3779b97f4a7c15ULL);
			h.a = hk; h.b = key + 1;
		} else {			/* (family, build, operation, NULL flag, run length / new size, argument or bytes read, buffer size, region, placement, initial rf_pack_t, cursor, position) */
			vx_hasher hh; vx_h_init(&hh);
			vx_h_u64(&hh, ((uint64_t)FAM << 56) | ((uint64_t)ASAN_BUILD << 55) | ((uint64_t)a->kind << 48) | ((uint64_t)a->null << 47) | ((uint64_t)sit << 45)
				 | ((uint64_t)PLACE << 43) | ((uint64_t)PK0 << 42) | ((uint64_t)(a == &act_init) << 41) | a->sz);
			vx_h_u64(&hh, ((uint64_t)CAP << 32) | (uint64_t)(uint32_t)M.n);
			vx_h_u64(&hh, ((uint64_t)old << 32) | val);
			h = vx_h_done(&hh); key = h.a ^ h.b; hk = h.a;
		}
		if (dcache[hk & (lengthof(dcache) - 1)] != key + 1) {
			dcache[hk & (lengthof(dcache) - 1)] = key + 1;
			vx_set_add(&distinct, h);
		}
	}
	return 1;
}

static void repair(void)
{
	for (int w = 0; w < NWT; w++) raw_copy(WT[w].real, WT[w].shadow, WT[w].len);
}
static int step(const act_t *a, int count)
{
	int ok = step_inner(a, count);
	if (!ok) repair();	/* never blame a later call for damage already reported */
	return ok;
}

static void sample_current(const char *what)
{
	vx_sb rep = {0}, hist = {0}, b = {0};
	uint8_t tmp[16]; int nb = M.n > 16 ? 16 : (int)M.n;
	replay_text(&rep, &hist); raw_copy(tmp, buf, (size_t)nb); hexbytes(&b, tmp, nb);
	vx_sample("%s: buffer of %ld bytes, placement %c%s: %s%s => last call returned %lld, consumed=%d remaining=%d buffer=[%s%s]", what, M.n,
		  place_chr[PLACE], PK0 ? ", rf_pack_t poisoned before init" : "", implicit_init ? "init; " : "", hist.s, (long long)last_ret,
		  rf_pack_consumed(&pk), rf_pack_remaining(&pk), b.s, M.n > 16 ? " ..." : "");
	free(rep.s); free(hist.s); free(b.s);
}

static const char *fault_text(void)
{
	return vx_fault_kind == SIGSEGV ? " (access outside the buffer: it lies flush against an inaccessible page)" : "";
}
static void note_fault(void)
{
	if (vx_fault_kind == VX_FAULT_HANG && vx_hangs_seen >= 3) give_up = 1;	/* every further hang costs a watchdog period */
}

/* ------------------------------------------- depth-first families (seq, runs, reinit) */

typedef struct { const act_t *a; int n; } level_t;
static struct {
	int fam; uint32_t cap; long n0; int place, can, pk0, nsplit, split;
	level_t lev[MAXL + 1];
	int samples_left; uint64_t sample_at, cand; const char *name;
} DF;
static struct frame { uint8_t img[WMAX]; struct model m; rf_pack_t pk; int next; uint8_t *lib; } stk[MAXL + 1];
static volatile int depth;

static void frame_save(struct frame *f)
{
	memcpy(f->img, WT[0].shadow, WT[0].len); f->m = M; f->pk = pk;
	if (vx_lib_size()) { if (!f->lib && !(f->lib = malloc(vx_lib_size()))) _exit(3); lib_save(f->lib); }
}
static void frame_load(const struct frame *f)
{
	raw_copy(WT[0].real, f->img, WT[0].len); memcpy(WT[0].shadow, f->img, WT[0].len); M = f->m; pk = f->pk;
	if (f->lib) lib_restore(f->lib);
}

/* all sequences of length exactly L, call i taken from DF.lev[i] (their proper prefixes are re-executed and
 * re-checked, but neither counted nor reported again: they were the leaves of an earlier round). Each partition takes
 * the last calls whose index is DF.split modulo DF.nsplit. Returns 0 if stopped early. */
static int dfs(int L)
{
	static uint64_t poll;
	int ok;
	begin_case(DF.fam, DF.cap, DF.n0, DF.place, DF.can, DF.pk0);
	if (NWT != 1 || WT[0].len > WMAX) { fprintf(stderr, "c12: window too large for a depth-first family\n"); _exit(3); }
	implicit_init = 1;
	suppress = (L != 0);
	/* the implicit rf_pack_init is a checked call of its own: the history of length 0 */
	if (VX_TRY) { ok = step(&act_init, L == 0 && DF.split == 0); VX_END; }
	else { VX_END; fail(M.n ? SIT_FIT : SIT_EXACT, "fault", "%s during rf_pack_init", vx_fault_msg); note_fault(); ok = 0; }
	suppress = 0;
	if (!ok) return 0;		/* nothing below a broken init is meaningful */
	if (L == 0) return 1;
	frame_save(&stk[0]); stk[0].next = (L == 1) ? DF.split : 0; depth = 0;
	for (;;) {
		if (VX_TRY) {
			for (;;) {
				struct frame *f = &stk[depth];
				int leaf = (depth + 1 == L);
				if (f->next >= DF.lev[depth].n) { if (depth == 0) break; depth--; continue; }
				int ai = f->next;
				f->next += leaf ? DF.nsplit : 1;	/* leaves: only the last calls of this sub-partition */
				frame_load(f);
				path[depth] = DF.lev[depth].a[ai]; plen = depth + 1; cur_ai = ai;
				suppress = !leaf;
				vx_opseq++;
				ok = step(&path[depth], leaf);
				if (!leaf) {
					if (ok) { depth++; frame_save(&stk[depth]); stk[depth].next = (depth + 1 == L) ? DF.split : 0; }
					continue;
				}
				if (ok && DF.samples_left && ((DF.samples_left & 1) ? M.cur > M.n : (last_fits && (last_ret != 0 || DF.fam != FAM_SEQ))) && ++DF.cand == DF.sample_at) { DF.cand = 0; DF.samples_left--; if (vx_want_sample()) sample_current(DF.name); }
				if ((++poll & 0xfffff) == 0 && (vx_deadline_passed() || vx_too_many_violations())) { VX_END; suppress = 0; return 0; }
				if (give_up) { VX_END; suppress = 0; return 0; }
			}
			VX_END;
			break;
		} else {
			/* a fault inside the call path[plen-1]; the model still holds the state before it */
			VX_END;
			suppress = (plen != L);
			fail(situation(M.cur, act_size(&path[plen - 1])), "fault", "%s%s", vx_fault_msg, fault_text());
			note_fault();
			repair();
			if (vx_too_many_violations() || give_up) { suppress = 0; return 0; }
			/* go on with the next sibling: stk[depth].next is already advanced */
		}
	}
	suppress = 0;
	return 1;
}

/* the alphabets */
static act_t seqA[MAXA]; static int NSEQ;	/* every implemented operation with boundary arguments, rewind */
static act_t runA[MAXA]; static int NRUN;	/* byte operations with every run length 0..RUNMAX, rewind */
static act_t midA[MAXA]; static int NMID;	/* byte operations with run lengths around the powers of two, one call of every scalar, rewind */
static act_t probeA[16]; static int NPROBE;	/* short calls that show whether the state after the history is right */
static act_t oneinit[1];

static const uint32_t midV[] = { 0, 1, 2, 3, 127, 128, 129, 255, 256, 257, 32767, 32768, 32769, 65535, 65536, 65537 };
static uint32_t wideV[100]; static int NWIDE;

static int first_impl(int pack, int width)
{
	static const int pref[] = { K_P_U16LE, K_P_U32LE, K_P_U8, K_U_U16LE, K_U_U32LE, K_U_U8 };
	for (unsigned i = 0; i < lengthof(pref); i++) if (ops[pref[i]].impl && ops[pref[i]].pack == pack && ops[pref[i]].width == width) return pref[i];
	for (int k = 0; k < K_REWIND; k++) if (ops[k].impl && ops[k].pack == pack && ops[k].width == width) return k;
	return -1;
}

static void build_alphabets(void)
{
	static const uint32_t v8[] = { 0, 1, 0x7f, 0x80, 0xff };
	static const uint32_t v16[] = { 0, 1, 0x7f, 0x80, 0xff, 0x1234, 0x8000, 0xffff };
	static const uint32_t v32[] = { 0, 1, 0x7f, 0x80, 0xff, 0x1234, 0x8000, 0xffff, 0x12345678, 0x80000000, 0xffffffff };
	static const uint8_t runs[] = { 0, 1, 3 };
	NSEQ = NRUN = NMID = NPROBE = 0;
	for (int k = 0; k < K_KINDS; k++) {
		if (!ops[k].impl || k == K_INIT) continue;
		if (k == K_P_BYTES || k == K_U_BYTES) {
			for (int nul = 0; nul < 2; nul++) {
				for (unsigned r = 0; r < lengthof(runs); r++) seqA[NSEQ++] = mk_bytes(k, nul, runs[r]);
				for (unsigned r = 0; r <= RUNMAX; r++) runA[NRUN++] = mk_bytes(k, nul, r);
				for (unsigned r = 0; r < lengthof(midV); r++) midA[NMID++] = mk_bytes(k, nul, midV[r]);
			}
		} else if (ops[k].pack) {
			const uint32_t *v = ops[k].width == 1 ? v8 : ops[k].width == 2 ? v16 : v32;
			unsigned nv = ops[k].width == 1 ? lengthof(v8) : ops[k].width == 2 ? lengthof(v16) : lengthof(v32);
			for (unsigned i = 0; i < nv; i++) seqA[NSEQ++] = mk_scalar(k, v[i]);
			midA[NMID++] = mk_scalar(k, 0xa1b2c3d4u >> (8 * (4 - ops[k].width)));
		} else {
			seqA[NSEQ++] = mk_scalar(k, 0);
			if (k != K_REWIND) midA[NMID++] = mk_scalar(k, 0);
		}
	}
	runA[NRUN++] = mk_rewind(); midA[NMID++] = mk_rewind();
	for (int pack = 1; pack >= 0; pack--) for (int w = 2; w; w = w == 2 ? 4 : w == 4 ? 1 : 0) {
		int k = first_impl(pack, w);
		if (k >= 0) probeA[NPROBE++] = mk_scalar(k, pack ? 0xa1b2c3d4u >> (8 * (4 - w)) : 0);
	}
	if (ops[K_P_BYTES].impl) { probeA[NPROBE++] = mk_bytes(K_P_BYTES, 0, 1); probeA[NPROBE++] = mk_bytes(K_P_BYTES, 1, 1); }
	if (ops[K_U_BYTES].impl) { probeA[NPROBE++] = mk_bytes(K_U_BYTES, 0, 1); probeA[NPROBE++] = mk_bytes(K_U_BYTES, 1, 1); }
	/* both sides of every power of two below 2^31, and the largest values of the scope */
	uint32_t raw[100]; int n = 0;
	raw[n++] = 0;
	for (int e = 1; e <= 30; e++) { raw[n++] = (1u << e) - 1; raw[n++] = 1u << e; raw[n++] = (1u << e) + 1; }
	raw[n++] = 0x7ffffffeu; raw[n++] = 0x7fffffffu;
	NWIDE = 0;
	for (int i = 0; i < n; i++) { int dup = 0; for (int j = 0; j < NWIDE; j++) if (wideV[j] == raw[i]) dup = 1; if (!dup) wideV[NWIDE++] = raw[i]; }
	for (int i = 1; i < NWIDE; i++) for (int j = i; j > 0 && wideV[j - 1] > wideV[j]; j--) { uint32_t t = wideV[j]; wideV[j] = wideV[j - 1]; wideV[j - 1] = t; }
}

/* ------------------------------------------------- scripted families: helpers */

static int run(act_t a, int count)
{
	if (plen >= MAXPATH) return 0;
	path[plen] = a; plen++;
	return step(&path[plen - 1], count);
}

static void guarded(void (*body)(void))
{
	if (give_up) return;
	if (VX_TRY) { body(); VX_END; }
	else {
		VX_END;
		if (plen) fail(situation(M.cur, act_size(&path[plen - 1])), "fault", "%s%s", vx_fault_msg, fault_text());
		else fail(SIT_FIT, "fault", "%s", vx_fault_msg);
		note_fault();
		repair();
	}
}

/* ----------------------------------------------------- family: value sweeps */

static struct { int kind, n, off, align; uint32_t v; } SP;

static uint32_t nvals(int w) { return w == 1 ? 256u : w == 2 ? 65536u : 3u * 4 * 256 + (vx_thorough() ? 2u * 6 * 65536 : 0); }
static uint32_t val(int w, uint32_t i)
{
	static const uint32_t bg3[] = { 0, 0xffffffffu, 0x12345678u };
	static const uint8_t pairs[6][2] = { {0,1}, {0,2}, {0,3}, {1,2}, {1,3}, {2,3} };
	if (w != 4) return i;
	if (i < 3072) {
		uint32_t bg = bg3[i / 1024]; int lane = (int)(i / 256) % 4;
		return (bg & ~(0xffu << (8 * lane))) | ((i & 0xff) << (8 * lane));
	}
	i -= 3072;
	uint32_t bg = bg3[i / (6 * 65536)]; const uint8_t *p = pairs[(i / 65536) % 6]; uint32_t x = i & 0xffff;
	bg &= ~(0xffu << (8 * p[0])); bg &= ~(0xffu << (8 * p[1]));
	return bg | ((x & 0xff) << (8 * p[0])) | ((x >> 8) << (8 * p[1]));
}

/* packer SP.kind with value SP.v into a buffer of SP.n bytes at offset SP.off,
 * then every unpacker of the same width and byte order reads it back */
static void pack_case(void)
{
	const opinfo_t *o = &ops[SP.kind];
	begin_case(SP.kind, (uint32_t)SP.n, SP.n, SP.align, 32, 0);
	if (!run(mk_rewind(), 1)) return;
	if (SP.off && !run(mk_bytes(K_P_BYTES, 1, 1), 1)) return;
	if (!run(mk_scalar(SP.kind, SP.v), 1)) return;
	int fits = last_fits;
	for (int u = K_U_CHAR; u <= K_U_U32LE; u++) {
		if (!ops[u].impl || ops[u].width != o->width || (o->width > 1 && ops[u].be != o->be)) continue;
		if (plen + 3 > MAXPATH) break;
		if (!run(mk_rewind(), 1)) return;
		if (SP.off && !run(SKIP(1), 1)) return;
		if (!run(mk_scalar(u, 0), 1)) return;
		if (fits) {
			/* model-independent: the bits that went in come out */
			uint32_t mask = o->width == 4 ? 0xffffffffu : (1u << (8 * o->width)) - 1;
			n_roundtrips++;
			if (((uint32_t)last_ret & mask) != (SP.v & mask)) {
				have_roundtrip = 1; roundtrip_val = SP.v & mask;
				fail(situation(SP.off, o->width), "roundtrip", "%s(0x%x) read back by %s gives 0x%x",
				     o->name, SP.v & mask, ops[u].name, (uint32_t)last_ret & mask);
				return;
			}
		}
	}
}

/* unpacker SP.kind on a buffer whose item bytes are the bytes of SP.v */
static void unpack_case(void)
{
	const opinfo_t *o = &ops[SP.kind];
	uint8_t b[4]; int nb = 0;
	begin_case(SP.kind, (uint32_t)SP.n, SP.n, SP.align, 32, 0);
	for (int i = 0; i < o->width && SP.off + i < SP.n; i++) b[nb++] = (uint8_t)(SP.v >> (8 * i));
	if (nb) poke(SP.off, b, nb);
	if (!run(mk_rewind(), 1)) return;
	if (SP.off && !run(SKIP(1), 1)) return;
	run(mk_scalar(SP.kind, 0), 1);
}

static int sweep(int kind, int sample)
{
	const opinfo_t *o = &ops[kind];
	int w = o->width;
	/* exact fit, one byte short, exact fit at offset 1, slack at offset 1, one short at offset 1 */
	const int lay[5][2] = { { w, 0 }, { w - 1, 0 }, { w + 1, 1 }, { w + 2, 1 }, { w, 1 } };
	uint32_t nv = nvals(w);
	for (uint32_t i = 0; i < nv; i++) {
		if ((i & 0xfff) == 0 && (vx_deadline_passed() || vx_too_many_violations() || give_up)) return 0;
		for (int align = 0; align < 2; align++) for (int l = 0; l < 5; l++) {
			SP.kind = kind; SP.v = val(w, i); SP.n = lay[l][0]; SP.off = lay[l][1]; SP.align = align;
			guarded(o->pack ? pack_case : unpack_case);
			if (sample && i == nv / 3 && l == 2 && align == 0 && vx_want_sample()) sample_current("value sweep");
		}
	}
	char nm[64]; snprintf(nm, sizeof(nm), "sweep_values_%s", o->name); vx_count(nm, nv);
	return 1;
}

/* ---------------------------------- family: source arrays with every byte value */

static struct { int r, pos, v, bg, off, slack, place; } SC;
static uint64_t n_src_cases;

static void src_case(void)
{
	uint32_t cap = (uint32_t)(SC.off + SC.r + SC.slack);
	begin_case(FAM_SRC, cap, cap, SC.place, 32, 0);
	for (int i = 0; i < RUNMAX; i++) SRC[i] = SC.bg ? (uint8_t)~SRC_DEFAULT[i] : SRC_DEFAULT[i];
	SRC[SC.pos] = (uint8_t)SC.v; src_custom = 1; rt_bytes = 1;
	if (!run(mk_init(cap), 1)) return;
	if (SC.off && !run(mk_bytes(K_P_BYTES, 1, (uint32_t)SC.off), 1)) return;
	if (!run(mk_bytes(K_P_BYTES, 0, (uint32_t)SC.r), 1)) return;
	if (!ops[K_U_BYTES].impl) return;
	if (!run(mk_rewind(), 1)) return;
	if (SC.off && !run(SKIP((uint32_t)SC.off), 1)) return;
	if (!run(mk_bytes(K_U_BYTES, 0, (uint32_t)SC.r), 1)) return;
	n_rt_bytes++;
	if (memcmp(last_dst, SRC, (size_t)SC.r))	/* model-independent: the bytes that went in come out */
		fail(situation(SC.off, (uint32_t)SC.r), "roundtrip", "pack_bytes of %d bytes read back by unpack_bytes gives other bytes", SC.r);
}

static int src_family(int r, int place, int sample)
{
	for (int pos = 0; pos < r; pos++) for (int v = 0; v < 256; v++) {
		if (vx_too_many_violations() || give_up || (v == 0 && vx_deadline_passed())) return 0;
		for (int bg = 0; bg < 2; bg++) for (int off = 0; off < 2; off++) for (int slack = 0; slack < 2; slack++) {
			SC.r = r; SC.pos = pos; SC.v = v; SC.bg = bg; SC.off = off; SC.slack = slack; SC.place = place;
			guarded(src_case); n_src_cases++;
			if (sample && pos == r / 2 && v == 0 && bg == 0 && off == 1 && slack == 0 && vx_want_sample()) sample_current("source bytes (0x00 in the middle of the run)");
		}
	}
	return 1;
}

/* ------------------------- families: mid (around 2^7 .. 2^16, real arrays) and wide (every power of two) */

static struct { uint32_t S; int place; act_t a1, a2, a3; int c0, c1, c2; } BC;
static uint64_t n_mid_seq, n_wide_seq, n_wide_scope_skips, n_wide_touch_skips;

static void big_case(void)
{
	begin_case(FAM, BC.S, BC.S, BC.place, 64, 0);
	if (!run(mk_init(BC.S), BC.c0)) return;
	if (!run(BC.a1, BC.c1)) return;
	if (!run(BC.a2, BC.c2)) return;
	run(BC.a3, 1);
}

static int mid_family(uint32_t S, int place, int sample)
{
	for (int i1 = 0; i1 < NMID; i1++) {
		if (vx_deadline_passed() || vx_too_many_violations() || give_up) return 0;
		for (int i2 = 0; i2 < NMID; i2++) for (int i3 = 0; i3 < NPROBE; i3++) {
			FAM = FAM_MID; BC.S = S; BC.place = place; BC.a1 = midA[i1]; BC.a2 = midA[i2]; BC.a3 = probeA[i3];
			BC.c2 = (i3 == 0); BC.c1 = BC.c2 && i2 == 0; BC.c0 = BC.c1 && i1 == 0;
			guarded(big_case); n_mid_seq++;
			if (sample && midA[i1].sz == 65535 && midA[i1].kind == K_P_BYTES && !midA[i1].null && midA[i2].sz == 2 && midA[i2].kind == K_U_BYTES && !midA[i2].null && i3 == 0 && vx_want_sample())
				sample_current("mid (sizes, runs and cursors around 2^8 / 2^16)");
		}
	}
	return 1;
}

/* does the model say that `a` at cursor c in a buffer of S bytes transfers more than the watched bytes at the cursor? */
static int touches_too_much(uint32_t S, long c, const act_t *a)
{
	if (S <= FULLMAX) return 0;
	if (a->kind != K_P_BYTES || a->sz <= 64) return 0;
	return c <= (long)S && c + (long)a->sz <= (long)S;
}

static int wide_family(uint32_t S, int place, int sample)
{
	static uint32_t r2v[128];
	static const uint32_t r2fix[] = { 0, 1, 2, 3, 255, 256, 257, 65535, 65536, 65537 };
	int pc0 = 0;
	if (S > FULLMAX) madvise(AR.lo, (size_t)(AR.hi - AR.lo), MADV_DONTNEED);
	for (int i1 = 0; i1 < NWIDE; i1++) {
		uint32_t r1 = wideV[i1];
		int pc1 = 0, pc2 = -1;
		if (vx_deadline_passed() || vx_too_many_violations() || give_up) return 0;
		/* second advance: around 2^8 and 2^16, and landing 3, 2, 1 short of / exactly at / one past the end */
		int n2 = 0;
		for (unsigned i = 0; i < lengthof(r2fix); i++) r2v[n2++] = r2fix[i];
		for (int d = -3; d <= 1; d++) { long v = (long)S - (long)r1 + d; if (v >= 0 && v <= SCOPE_MAX) r2v[n2++] = (uint32_t)v; }
		if (vx_thorough()) for (int i = 0; i < NWIDE; i++) r2v[n2++] = wideV[i];
		for (int i = 0; i < n2; i++) for (int j = 0; j < i; j++) if (r2v[j] == r2v[i]) { r2v[i--] = r2v[--n2]; break; }
		/* the probes, and an empty run as the last one: the histories that request exactly 2^31-1 bytes end with it */
		for (int i2 = 0; i2 < n2; i2++) for (int k2 = 0; k2 < 2; k2++) for (int i3 = 0; i3 <= NPROBE; i3++) {
			uint32_t r2 = r2v[i2];
			act_t a2 = k2 ? mk_bytes(K_P_BYTES, 1, r2) : SKIP(r2), a3 = i3 < NPROBE ? probeA[i3] : SKIP(0);
			if (k2 && !ops[K_P_BYTES].impl) continue;
			if ((long)r1 + (long)r2 + (long)act_size(&a3) > SCOPE_MAX) { n_wide_scope_skips++; continue; }
			if (touches_too_much(S, (long)r1, &a2)) { n_wide_touch_skips++; continue; }
			FAM = FAM_WIDE; BC.S = S; BC.place = place; BC.a1 = SKIP(r1); BC.a2 = a2; BC.a3 = a3;
			/* a shared prefix counts once: with the first history of this unit that contains it */
			if (pc2 != (i2 * 2 + k2)) { pc2 = i2 * 2 + k2; BC.c2 = 1; } else BC.c2 = 0;
			BC.c1 = !pc1; pc1 = 1; BC.c0 = !pc0; pc0 = 1;
			guarded(big_case); n_wide_seq++;
			if (sample && r1 == 0x40000000u && r2 == 65536 && k2 == 0 && i3 == 0 && vx_want_sample()) sample_current("wide (2 GiB mapping)");
		}
	}
	return 1;
}

/* ------------------------------------------------------------------- replay */

static void do_replay(const char *rp)
{
	const char *f;
#define FIELD(k, d) ((f = vx_replay_field(rp, k)) ? strtol(f, NULL, 0) : (d))
	int fam = (int)FIELD("fam", FAM_SEQ);
	long cap = FIELD("cap", 0), n = FIELD("n", cap), can = FIELD("can", 32), pk0 = FIELD("pk0", 0), implicit = FIELD("implicit", 0);
	long asan = FIELD("asan", 0);
	int place = (f = vx_replay_field(rp, "place")) ? (f[0] == 'L' ? PL_L : f[0] == 'A' ? PL_A : PL_R) : PL_R;
	if (asan != ASAN_BUILD || (place == PL_A) != ASAN_BUILD) { fprintf(stderr, "c12: this replay belongs to the %s build\n", asan ? "AddressSanitizer" : "plain"); return; }
	if (fam < 0 || fam > 31 || cap < 0 || cap > (HUGE_OK ? SCOPE_MAX : FULLMAX) || n < 0 || n > cap || can < 0 || can > 128) { fprintf(stderr, "c12: bad replay (geometry)\n"); return; }
	const char *p = strstr(rp, "\nops=");
	if (!p) { fprintf(stderr, "c12: bad replay (ops)\n"); return; }
	p += 5;
	static act_t acts[MAXPATH]; int na = 0;
	while (*p && *p != '\n' && na < MAXPATH) {
		while (*p == ' ') p++;
		if (!*p || *p == '\n') break;
		if (act_parse(p, &acts[na]) || !ops[acts[na].kind].impl) { fprintf(stderr, "c12: replay names an operation that is not implemented\n"); return; }
		if (acts[na].kind == K_INIT && acts[na].sz > (uint32_t)cap) { fprintf(stderr, "c12: bad replay (init beyond the region)\n"); return; }
		na++;
		p += strcspn(p, " \n");
	}
	begin_case(fam, (uint32_t)cap, n, place, (int)can, (int)pk0);
	if (!SPARSE && WT[0].len > sizeof(shadow0)) { fprintf(stderr, "c12: bad replay (window)\n"); return; }
	implicit_init = (int)implicit;
	if ((f = vx_replay_field(rp, "src"))) {
		const char *q = f; int i = 0;
		while (*q && i < RUNMAX) { char *e; unsigned long v = strtoul(q, &e, 16); if (e == q) break; SRC[i++] = (uint8_t)v; q = e; }
		src_custom = 1;
	}
	if ((f = vx_replay_field(rp, "poke"))) {
		char *e; long off = strtol(f, &e, 10); uint8_t b[8]; int nb = 0;
		if (*e == ':') { const char *q = e + 1; while (*q && nb < 8) { char *e2; unsigned long v = strtoul(q, &e2, 16); if (e2 == q) break; b[nb++] = (uint8_t)v; q = e2; } }
		if (nb && off >= 0 && off + nb <= cap) poke(off, b, nb);
	}
	int rt = 0; uint32_t rtv = 0;
	if ((f = vx_replay_field(rp, "roundtrip"))) { rt = 1; rtv = (uint32_t)strtoul(f, NULL, 0); }
	rt_bytes = (int)FIELD("rtbytes", 0);
#undef FIELD
	if (VX_TRY) {
		if (implicit_init && !step(&act_init, 0)) { VX_END; return; }
		for (int i = 0; i < na; i++) {
			path[plen] = acts[i]; plen++;
			if (!step(&path[plen - 1], 1)) { VX_END; return; }
		}
		if (rt && na) {
			const opinfo_t *o = &ops[acts[na - 1].kind];
			uint32_t mask = o->width == 4 ? 0xffffffffu : (1u << (8 * o->width)) - 1;
			if (((uint32_t)last_ret & mask) != (rtv & mask)) {
				int pi = -1;
				for (int i = 0; i < na; i++) if (ops[acts[i].kind].pack && ops[acts[i].kind].width) { pi = i; break; }
				have_roundtrip = 1; roundtrip_val = rtv;
				fail(situation(M.cur - o->width, o->width), "roundtrip", "%s(0x%x) read back by %s gives 0x%x",
				     pi >= 0 ? ops[acts[pi].kind].name : "?", rtv & mask, o->name, (uint32_t)last_ret & mask);
			}
		}
		if (rt_bytes && na && acts[na - 1].kind == K_U_BYTES && last_dst && acts[na - 1].sz <= RUNMAX && memcmp(last_dst, SRC, acts[na - 1].sz))
			fail(situation(M.cur - (long)acts[na - 1].sz, acts[na - 1].sz), "roundtrip", "pack_bytes of %u bytes read back by unpack_bytes gives other bytes", acts[na - 1].sz);
		VX_END;
		printf("replay: %d call(s) executed without disagreement, consumed=%d remaining=%d\n", na, rf_pack_consumed(&pk), rf_pack_remaining(&pk));
	} else {
		VX_END;
		if (plen) fail(situation(M.cur, act_size(&path[plen - 1])), "fault", "%s%s", vx_fault_msg, fault_text());
		else fail(M.n ? SIT_FIT : SIT_EXACT, "fault", "%s during rf_pack_init", vx_fault_msg);
	}
}

/* --------------------------------------------------------------------- main */

static void df_config(int fam, uint32_t cap, long n0, int place, int can, int pk0, int nsplit, int split)
{
	DF.fam = fam; DF.cap = cap; DF.n0 = n0; DF.place = place; DF.can = can; DF.pk0 = pk0; DF.nsplit = nsplit; DF.split = split;
	DF.samples_left = 0; DF.cand = 0;
}

int main(int argc, char **argv)
{
	vx_init(argc, argv);
	asan_errors = 0; asan_total = 0;	/* vx_init copies the image of the library's statics with memcpy: red zones */
	vx_install_handlers();
	vx_watchdog(2.0);
	detect_implemented();
	pattern_init();
	build_alphabets();
	memcpy(SRC, SRC_DEFAULT, RUNMAX);
	for (int i = RUNMAX; i < SRCSMALL; i++) SRC[i] = (uint8_t)(i * 37 + 11);
#ifdef C12_ASAN
	if (arena_make(&AR, 8192 + FULLMAX + 256 + 8192, 4096) || arena_make(&ARD, 4096 + BIGRUN + 4096, 4096)) { perror("c12: mmap"); return 3; }
	__asan_poison_memory_region(AR.lo, (size_t)(AR.hi - AR.lo));
#else
	if (arena_make(&AR, ((size_t)1 << 31) + 131072, (size_t)1 << 31) == 0) HUGE_OK = 1;
	else if (arena_make(&AR, 2 * FULLMAX + 16384, 4096)) { perror("c12: mmap"); return 3; }
	if (arena_make(&ARD, DCAN + BIGRUN, 4096)) { perror("c12: mmap"); return 3; }
#endif
	if (arena_make(&ARS, BIGRUN + SRCSMALL, 4096)) { perror("c12: mmap"); return 3; }
	for (uint8_t *q = ARS.lo; q < ARS.hi; q++) *q = (uint8_t)((q - ARS.lo) * 89 + 7);
	memcpy(stail, ARS.hi - SRCSMALL, SRCSMALL);
	vx_set_init(&distinct, 16);

	char *rp = vx_read_replay();
	if (rp) { do_replay(rp); vx_finish(); return 0; }

	{
		vx_sb in = {0}, out = {0};
		for (int k = 0; k < K_REWIND; k++) vx_sb_printf(ops[k].impl ? &in : &out, " %s", ops[k].name);
		vx_note("alphabet = operations pack.c implements:%s, plus rewind (= rf_pack_init on the same buffer); %d actions with arguments",
			in.s ? in.s : " (none)", NSEQ);
		if (out.s) vx_note("declared in pack.h but not implemented in pack.c, hence not exercised:%s", out.s);
		free(in.s); free(out.s);
	}

	static const int places_plain[] = { PL_R, PL_L }, places_asan[] = { PL_A };
	const int *places = ASAN_BUILD ? places_asan : places_plain;
	const int nplaces = ASAN_BUILD ? 1 : 2;
	const int thorough = vx_thorough() && !ASAN_BUILD;	/* the AddressSanitizer part is the same in both tiers */
	const int bytes_ok = ops[K_P_BYTES].impl && ops[K_U_BYTES].impl;
	int complete = 1;
	uint64_t part = 0;
	char nm[96];
#define SAMPLENAME(s) (ASAN_BUILD ? "AddressSanitizer build, " s : s)

	/* ---- seq: partition = (size, placement, class of the last call). Splitting by the LAST call keeps the observation
	 * tuples of different partitions disjoint (the tuple names the call), so the sum of the per-worker distinct counts is
	 * exact; the price is that proper prefixes are executed once per class. */
	{
		const int Lmax = thorough ? 5 : 4, nsplit = 4;
		for (int cap = 0; cap <= MAXN; cap++) for (int pi = 0; pi < nplaces; pi++) for (int split = 0; split < nsplit; split++) {
			if (!vx_mine(part++)) continue;
			df_config(FAM_SEQ, (uint32_t)cap, cap, places[pi], 32, 0, nsplit, split);
			for (int l = 0; l <= MAXL; l++) { DF.lev[l].a = seqA; DF.lev[l].n = NSEQ; }
			if (cap == 6 && pi == 0 && split == 0) { DF.samples_left = ASAN_BUILD ? 1 : 2; DF.sample_at = 30011; DF.name = SAMPLENAME("sequence"); }
			int done = 0;
			for (int L = 0; L <= Lmax; L++) { if (!dfs(L)) break; done = L; }
			vx_min("seq_len_completed", (uint64_t)done);
			if (done < Lmax) complete = 0;
			vx_count("seq_partitions(size,placement,last-call-class)", 1);
		}
	}
	/* ---- value sweeps: one partition per implemented scalar operation */
	if (!ASAN_BUILD && bytes_ok)
		for (int k = 0; k < K_REWIND; k++) {
			if (!ops[k].impl || !ops[k].width) continue;
			if (!vx_mine(part++)) continue;
			if (!sweep(k, k == first_impl(1, 2) || k == first_impl(0, 4))) complete = 0;
			vx_count("sweep_partitions(operation)", 1);
		}
	/* ---- runs: every run length 0..RUNMAX */
	if (bytes_ok) {
		const int Lmax = thorough ? 4 : 3, nsplit = 4;
		for (int cap = 0; cap <= RUNCAP; cap++) for (int pi = 0; pi < nplaces; pi++) for (int split = 0; split < nsplit; split++) {
			if (!vx_mine(part++)) continue;
			df_config(FAM_RUNS, (uint32_t)cap, cap, places[pi], 96, 0, nsplit, split);
			for (int l = 0; l <= MAXL; l++) { DF.lev[l].a = runA; DF.lev[l].n = NRUN; }
			if (cap == 20 && pi == 0 && split == 0) { DF.samples_left = ASAN_BUILD ? 1 : 2; DF.sample_at = 7001; DF.name = SAMPLENAME("runs (every length 0..17)"); }
			int done = 0;
			for (int L = 0; L <= Lmax; L++) { if (!dfs(L)) break; done = L; }
			vx_min("runs_len_completed", (uint64_t)done);
			if (done < Lmax) complete = 0;
			vx_count("runs_partitions(size,placement,last-call-class)", 1);
		}
	}
	/* ---- src: every byte value at every position of the source array */
	if (!ASAN_BUILD && bytes_ok)
		for (int r = 1; r <= RUNMAX; r++) for (int pi = 0; pi < nplaces; pi++) {
			if (!vx_mine(part++)) continue;
			if (!src_family(r, places[pi], r == 5 && pi == 0)) complete = 0;
			vx_count("src_partitions(run length,placement)", 1);
		}
	/* ---- reinit: rf_pack_init again with every other size on the same base */
	for (int cap = 0; cap <= MAXN; cap++) for (int pi = 0; pi < nplaces; pi++) for (int pk0 = 0; pk0 < 2; pk0++) {
		if (!vx_mine(part++)) continue;
		for (int n1 = 0; n1 <= cap; n1++) {
			int first = 1;
			for (int n2 = 0; n2 <= cap; n2++) {
				if (n1 != cap && n2 != cap) continue;
				df_config(FAM_REINIT, (uint32_t)cap, n1, places[pi], 32, pk0, 1, 0);
				oneinit[0] = mk_init((uint32_t)n2);
				DF.lev[0].a = seqA; DF.lev[0].n = NSEQ; DF.lev[1].a = oneinit; DF.lev[1].n = 1;
				DF.lev[2].a = seqA; DF.lev[2].n = NSEQ; DF.lev[3].a = seqA; DF.lev[3].n = NSEQ;
				if (cap == 8 && n1 == 8 && n2 == 3 && pi == 0 && pk0 == 1) { DF.samples_left = ASAN_BUILD ? 1 : 2; DF.sample_at = 1501; DF.name = SAMPLENAME("re-initialisation with another size"); }
				for (int L = first ? 0 : 2; L <= 4; L++) if (!dfs(L)) { complete = 0; break; }
				first = 0;
				if (thorough && pk0 == 0) {	/* two calls before the re-initialisation, one after */
					df_config(FAM_REINIT, (uint32_t)cap, n1, places[pi], 32, 0, 1, 0);
					DF.lev[0].a = seqA; DF.lev[0].n = NSEQ; DF.lev[1].a = seqA; DF.lev[1].n = NSEQ; DF.lev[2].a = oneinit; DF.lev[2].n = 1;
					DF.lev[3].a = seqA; DF.lev[3].n = NSEQ;
					for (int L = 3; L <= 4; L++) if (!dfs(L)) { complete = 0; break; }
				}
				vx_count("reinit_size_pairs(old size,new size,placement,initial rf_pack_t)", 1);
			}
		}
	}
	/* ---- mid: sizes, runs and cursors on both sides of 2^7, 2^8, 2^15, 2^16 with real arrays */
	if (bytes_ok)
		for (unsigned si = 0; si < lengthof(midV); si++) for (int pi = 0; pi < nplaces; pi++) {
			if (!vx_mine(part++)) continue;
			if (!mid_family(midV[si], places[pi], midV[si] == 65537 && pi == nplaces - 1)) complete = 0;
			vx_count("mid_partitions(size,placement)", 1);
		}
	/* ---- wide: both sides of every power of two up to the scope limit, inside the 2 GiB mapping */
	if (!ASAN_BUILD && bytes_ok) {
		for (int si = 0; si < NWIDE; si++) for (int pi = 0; pi < nplaces; pi++) {
			if (!vx_mine(part++)) continue;
			if (wideV[si] > FULLMAX && !HUGE_OK) { complete = 0; vx_note("no 2 GiB mapping available: buffer sizes above %d skipped", FULLMAX); continue; }
			if (!wide_family(wideV[si], places[pi], (wideV[si] == 0x7fffffffu && pi == 1) || (wideV[si] == 65536 && pi == 0))) complete = 0;
			vx_count("wide_partitions(size,placement)", 1);
		}
	}
	if (vx_too_many_violations()) vx_note("enumeration stopped early: violation table full");
	if (give_up) { complete = 0; vx_note("enumeration stopped early: repeated endless loops, or more than 20000 violating cases / 400 sanitizer reports in one worker"); }

	vx_and("exhaustive", complete);
	vx_count("evaluations", n_eval);
	vx_count("distinct", distinct.n);
	vx_count("roundtrips_checked", n_roundtrips);
	vx_count("roundtrips_checked_bytes", n_rt_bytes);
	vx_count("sweep_calls", n_sweep_calls);
	vx_count("overflow_crossings_distinct(action,alignment,size,cursor)", n_crossings);
	vx_count("calls_family_seq", n_fam_calls[FAM_SEQ]);
	vx_count("calls_family_runs", n_fam_calls[FAM_RUNS]);
	vx_count("calls_family_src", n_fam_calls[FAM_SRC]);
	vx_count("calls_family_reinit", n_fam_calls[FAM_REINIT]);
	vx_count("calls_family_mid", n_fam_calls[FAM_MID]);
	vx_count("calls_family_wide", n_fam_calls[FAM_WIDE]);
	vx_count("src_cases", n_src_cases);
	vx_count("mid_sequences", n_mid_seq);
	vx_count("wide_sequences", n_wide_seq);
	vx_count("scope_guard_skips", n_wide_scope_skips);	/* wide: histories that would request 2^31 bytes or more */
	vx_count("wide_touch_guard_skips", n_wide_touch_skips);	/* wide: long zero runs that fit a buffer too large to be modelled byte by byte */
	vx_max("alphabet_actions", (uint64_t)NSEQ);
	vx_max("alphabet_actions_runs", (uint64_t)NRUN);
	vx_max("alphabet_actions_mid", (uint64_t)NMID);
	vx_max("probe_actions", (uint64_t)NPROBE);
	vx_max("wide_menu_values", (uint64_t)NWIDE);
	vx_max("longest_run", max_run);
	vx_max("largest_cursor", max_cursor);
	vx_max("largest_buffer", max_size);
	vx_count("sanitizer_reports", asan_total);
	for (int l = 0; l <= MAXL; l++) if (n_by_len[l]) { snprintf(nm, sizeof(nm), "sequences_len%d", l); vx_count(nm, n_by_len[l]); }
	for (int k = 0; k < K_KINDS; k++) {
		if (!ops[k].impl) continue;
		for (int s = 0; s < SIT_N; s++) {
			snprintf(nm, sizeof(nm), "op_%s.%s", ops[k].name, sitname[s]);
			vx_count(nm, n_opsit[k][s]);
		}
	}
	vx_count("bytes_ops_with_buffer", n_null[0]);
	vx_count("bytes_ops_with_NULL", n_null[1]);
	vx_finish();
	return 0;
}

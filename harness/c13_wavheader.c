/*
 * C13 - WAV headers round-trip and correctly describe the file they head.
 *
 * Two binaries are built from this file (see bin/checks.d/C13.py). The librfn sources are linked as objects of their
 * own (lib=[pack.c, util.c, string.c, wavheader.c]); only the public header is included here.
 *
 * (1) default: Engine A (DESIGN.md section 2.1 / section 4 C13, encode-first). Explicit-state
 *     BFS with vx_bfs over the state graph of the two mutators of the real wavheader.c:
 *        fill(0x00|0xff|0x55)             what the structure held beforehand (first step only)
 *        init(rate, channels, format)     rate in c13_rates, channels in c13_chans (both sides of the powers of two a
 *                                         rate, a channel count, channels x width or bits x channels could be cut to),
 *                                         S16LE / S32LE / FLOAT
 *        set_num_frames(n)                n in {0,1,2,1000,65535,65536,65537,2^24, the largest n that still fits,
 *                                         that n + 1} (thorough adds 3, 255, 256, 257, 2^24+1 and the largest n - 1)
 *     Combinations whose sizes do not fit their fields (16-bit block alignment, 32-bit byte
 *     rate / data size / RIFF size) are generated and skipped by the scope guard, counted. The header length that
 *     enters the RIFF-size limit is the length the real encoder emits for the header at hand, not a constant.
 *     The search runs to a fixpoint, i.e. it covers histories of every length over this
 *     alphabet. On EVERY reached state the oracle of the statement is evaluated against a
 *     model that is nothing but the arguments of the last init and the last frame count. The structure is copied
 *     first: the clauses are judged on the header as init/set_num_frames left it, and the API functions that take a
 *     non-const pointer work on copies, so an observation can neither repair nor disturb the explored state:
 *        validate == 0; decode(encode(h)) == h over the WHOLE structure (every named field, and every other byte of
 *        the structure that is not padding) and the same length;
 *        RIFF size == encoded length - 8 + data size; data size == frames * block_align;
 *        block_align / byte_rate / bits_per_sample / channels / rate follow from the arguments.
 *     A violating state is still expanded (the model stays well defined), and violations are
 *     grouped into coarse classes (wav_common.h) whose first - shortest - history is the
 *     signature.
 *
 * (2) -DC13_DECODE_FIRST: the decode-first clause over the complete C14 corpus
 *     (wav_common.h): every string that rf_wavheader_decode accepts (0 <= r <= sz) is
 *     re-encoded into a buffer of exactly r bytes ending at a PROT_NONE page; the result
 *     must have length r and equal the first r input bytes with the ignored extension
 *     bytes (fmt size >= 18, cb_size != 22) normalised to zero.
 */
#include "vx.h"
#include <stddef.h>
#include <stdio_ext.h>

#include <librfn/time.h>
#include <librfn/wavheader.h>

uint32_t time_now(void) { return 0; }	/* referenced by util.c (ratelimit_check), never called here */

#include "wav_common.h"

#ifndef C13_DECODE_FIRST
/* ===================================================================== (1) BFS */

/* the first QRATE / QCH / QFR entries are the quick alphabet, the rest is added by the thorough tier; operation
 * numbers are the same in both tiers so that a replay file means the same history under either.
 * rates: 1, the usual ones, both sides of 2^16, one above 2^18 (and above any "sane" audio rate), one above 2^24; thorough
 *        adds 96000, 2^18, 2^24-1, 2^30, 2^31-1.
 * channels: 1, 2, 6, 8; 127/128 (x2 bytes = 2^8), 255/256 (2^8), 2048 and 4096 (x32 resp. x16 bits = 2^16), 16383 (the most
 *        a 4-byte format fits), 32767 (the most a 2-byte format fits); thorough adds 3, 63/64 (x4 bytes = 2^8), 257,
 *        2047, 4095, 8191/8192, 16384, 32768 (fits no format: scope guard). */
static const int c13_rates[] = { 1, 8000, 44100, 192000, 65535, 65536, 768000, 16777217,
				 96000, 262144, 16777215, 1073741824, 2147483647 };
static const int c13_chans[] = { 1, 2, 6, 255, 32767, 8, 127, 128, 256, 2048, 4096, 16383,
				 3, 63, 64, 257, 2047, 4095, 8191, 8192, 16384, 32768 };
static const rf_wavheader_format_t c13_fmts[] = { RF_WAVHEADER_S16LE, RF_WAVHEADER_S32LE, RF_WAVHEADER_FLOAT };
static const char *c13_fmtname[] = { "S16LE", "S32LE", "FLOAT" };
static const uint8_t c13_fills[] = { 0x00, 0xff, 0x55 };
enum { FR_0, FR_1, FR_2, FR_1000, FR_MAXFIT, FR_OVER, FR_65535, FR_65536, FR_65537, FR_2P24,
       FR_3, FR_MAXFIT_1, FR_255, FR_256, FR_257, FR_2P24_1, FR_KINDS };
static const char *c13_frname[] = { "0", "1", "2", "1000", "max-fit", "max-fit+1", "65535", "65536", "65537", "16777216",
				    "3", "max-fit-1", "255", "256", "257", "16777217" };
#define NRATE ((int)(sizeof(c13_rates) / sizeof(c13_rates[0])))
#define NCH ((int)(sizeof(c13_chans) / sizeof(c13_chans[0])))
#define QRATE 8
#define QCH 12
#define QFR 10
#define NFMT 3
#define NFILL 3
#define OP_INIT0 NFILL
#define OP_FRAMES0 (OP_INIT0 + NRATE * NCH * NFMT)
#define NOPS (OP_FRAMES0 + FR_KINDS)
#define C13_ENCCAP 256			/* room offered to the encoder; every header of the grammar without a skipped extension is <= 80 bytes */

static struct c13_live {
	uint8_t pre[16];
	rf_wavheader_t h;
	uint8_t post[16];
	/* model: the arguments that produced the header */
	struct { uint8_t phase /* 0 virgin, 1 filled, 2 initialised */, fill /* phase 1 only */, fmt_i, pad; int32_t rate, ch; uint32_t frames; } m;
} L;

static uint64_t skip_init_unfit, skip_frames_unfit, skip_frames_uninit, skip_other, skip_tier, hdrlen_unknown, fmt_helper_differs;
static int replaying;
static uint64_t n_op_fill, n_op_init[NFMT], n_op_frames[FR_KINDS], n_oracle;
static vx_set seen_enc, seen_hdrlen;
static uint8_t *c13_dec_end;		/* one past a C13_ENCCAP-byte area for exactly-sized decode inputs, ending at a PROT_NONE page */
static uint8_t *c13_enc_end;		/* one past a C13_ENCCAP-byte encode buffer ending at a PROT_NONE page */

static unsigned c13_width(int fi) { return fi == 0 ? 2 : 4; }	/* sample width in bytes: the meaning of the format argument */
/* The explored state is what the two mutators leave behind - in the structure and in whatever statics the library keeps
 * (vx_bfs snapshots those too). The calls the oracle and the scope guard make (validate, encode, decode, get_format) are
 * observations: the library's statics are put back afterwards, so an observation cannot become part of the state (a call
 * counter inside decode would otherwise make every state new and the graph infinite). */
static void *c13_libimg;
static volatile int c13_in_obs;
static void c13_obs_begin(void) { if (vx_lib_size()) { if (!c13_libimg && !(c13_libimg = malloc(vx_lib_size()))) _exit(3); vx_lib_save(c13_libimg); } }
static void c13_obs_end(void) { if (c13_libimg) vx_lib_restore(c13_libimg); }
/* the number of bytes the real encoder emits for the live header (the data size does not enter it); 0 = the encoder
 * faults or answers nonsense, which the oracle reports when the state is judged */
static unsigned c13_hdrlen(void)
{
	rf_wavheader_t tmp = L.h; int el = -1;
	c13_obs_begin();
	if (VX_TRY) { el = rf_wavheader_encode(&tmp, c13_enc_end - C13_ENCCAP, C13_ENCCAP); VX_END; } else { VX_END; el = -1; }
	c13_obs_end();
	if (el < 12 || el > C13_ENCCAP) { hdrlen_unknown++; return 0; }
	return (unsigned)el;
}
static int fits_init(int rate, int ch, int fi)
{
	uint64_t ba = (uint64_t)ch * c13_width(fi);
	return ba <= 0xffff && (uint64_t)rate * ba <= 0xffffffffULL;
}
static uint64_t block_of(void) { return (uint64_t)L.m.ch * c13_width(L.m.fmt_i); }
/* the header bytes that follow the RIFF size field; when the encoder gives no usable answer the smallest header of the
 * format (RF_WAVHEADER_MIN_SIZE) stands in so that the frame counts stay defined */
static uint64_t tail_of(void) { unsigned l = c13_hdrlen(); return (l ? l : RF_WAVHEADER_MIN_SIZE) - 8; }
static int fits_frames(uint64_t n)
{
	uint64_t d = n * block_of();
	return n <= 0xffffffffULL && d <= 0xffffffffULL && tail_of() + d <= 0xffffffffULL;
}
static uint64_t max_fit(void) { return (0xffffffffULL - tail_of()) / block_of(); }
static uint64_t frames_of(int k)
{
	switch (k) {
	case FR_0: return 0; case FR_1: return 1; case FR_2: return 2; case FR_1000: return 1000;
	case FR_3: return 3; case FR_65535: return 65535; case FR_65536: return 65536; case FR_65537: return 65537;
	case FR_255: return 255; case FR_256: return 256; case FR_257: return 257;
	case FR_2P24: return 16777216; case FR_2P24_1: return 16777217;
	case FR_MAXFIT: return max_fit();
	case FR_MAXFIT_1: return max_fit() - 1;
	default: return max_fit() + 1;
	}
}
static void init_args(int op, int *r, int *c, int *f) { int i = op - OP_INIT0; *f = i % NFMT; *c = (i / NFMT) % NCH; *r = i / NFMT / NCH; }

static int op_enabled(int op)
{
	if (op < NFILL) { if (L.m.phase != 0) { skip_other++; return 0; } return 1; }
	if (L.m.phase == 0) { skip_other++; return 0; }
	if (op < OP_FRAMES0) {
		int r, c, f; init_args(op, &r, &c, &f);
		if ((r >= QRATE || c >= QCH) && !vx_thorough() && !replaying) { skip_tier++; return 0; }
		if (!fits_init(c13_rates[r], c13_chans[c], f)) { skip_init_unfit++; return 0; }
		return 1;
	}
	if (op - OP_FRAMES0 >= QFR && !vx_thorough() && !replaying) { skip_tier++; return 0; }
	if (L.m.phase != 2) { skip_frames_uninit++; return 0; }	/* set_num_frames needs an initialised header */
	if (!fits_frames(frames_of(op - OP_FRAMES0))) { skip_frames_unfit++; return 0; }
	return 1;
}
static void op_describe(int op, vx_sb *sb)
{
	if (op < NFILL) vx_sb_printf(sb, "fill(0x%02x)", c13_fills[op]);
	else if (op < OP_FRAMES0) { int r, c, f; init_args(op, &r, &c, &f); vx_sb_printf(sb, "init(%d,%d,%s)", c13_rates[r], c13_chans[c], c13_fmtname[f]); }
	else vx_sb_printf(sb, "set_num_frames(%s)", c13_frname[op - OP_FRAMES0]);
}

__attribute__((format(printf, 2, 3)))
static void c13_fail(const char *key, const char *fmt_, ...)
{
	vx_sb hist = { 0 }, rep = { 0 };
	va_list ap; va_start(ap, fmt_); char *m = vx_vfmt(fmt_, ap); va_end(ap);
	vx_bfs_history(vx_bfs_cur, &hist, &rep);
	w_report(key, hist.s, rep.s, "%s -- after history [%s]; model: format=%s channels=%d rate=%d frames=%u", m, hist.s,
		 c13_fmtname[L.m.fmt_i], L.m.ch, L.m.rate, L.m.frames);
	free(m); free(hist.s); free(rep.s);
}

/* the members the harness can name (for readable messages); whatever else the structure holds is compared as bytes */
static const struct { const char *name; size_t off, size; } c13_hfields[] = {
#define C13_F(x) { #x, offsetof(rf_wavheader_t, x), sizeof(((rf_wavheader_t *)0)->x) }
	C13_F(chunk_id), C13_F(chunk_size), C13_F(format), C13_F(fmt_chunk_id), C13_F(fmt_chunk_size), C13_F(audio_format), C13_F(num_channels),
	C13_F(sample_rate), C13_F(byte_rate), C13_F(block_align), C13_F(bits_per_sample), C13_F(cb_size), C13_F(valid_bits_per_sample),
	C13_F(channel_mask), C13_F(sub_format), C13_F(fact_chunk_id), C13_F(fact_chunk_size), C13_F(sample_length), C13_F(data_chunk_id),
	C13_F(data_chunk_size),
#undef C13_F
};
#define C13_NHF (sizeof(c13_hfields) / sizeof(c13_hfields[0]))
#if defined(__has_builtin)
#if __has_builtin(__builtin_clear_padding)
#define C13_CLEAR_PADDING(p) __builtin_clear_padding(p)
#endif
#endif
#ifndef C13_CLEAR_PADDING
#define C13_CLEAR_PADDING(p) ((void)0)	/* this compiler cannot tell padding from members: every byte is compared */
#endif

/* "an identical structure": every named member, then every remaining byte of the structure that is not padding (a member
 * added to the structure later is not known here by name but is compared all the same). Names of the differing members go
 * to diff ('+'-separated), a description of the first one to first. */
static void c13_struct_diff(const rf_wavheader_t *a, const rf_wavheader_t *b, vx_sb *diff, char *first, size_t nfirst)
{
	static uint8_t named[sizeof(rf_wavheader_t)];
	rf_wavheader_t ca = *a, cb = *b;
	memset(named, 0, sizeof(named));
	for (unsigned i = 0; i < C13_NHF; i++) {
		memset(named + c13_hfields[i].off, 1, c13_hfields[i].size);
		if (memcmp((const uint8_t *)a + c13_hfields[i].off, (const uint8_t *)b + c13_hfields[i].off, c13_hfields[i].size)) {
			if (!diff->n) {
				uint32_t x = 0, y = 0;
				memcpy(&x, (const uint8_t *)a + c13_hfields[i].off, c13_hfields[i].size < 4 ? c13_hfields[i].size : 4);
				memcpy(&y, (const uint8_t *)b + c13_hfields[i].off, c13_hfields[i].size < 4 ? c13_hfields[i].size : 4);
				snprintf(first, nfirst, "%s is 0x%x in the header and 0x%x after decode(encode())", c13_hfields[i].name, x, y);
			}
			vx_sb_printf(diff, "%s%s", diff->n ? "+" : "", c13_hfields[i].name);
		}
	}
	C13_CLEAR_PADDING(&ca); C13_CLEAR_PADDING(&cb);
	for (size_t o = 0; o < sizeof(rf_wavheader_t); o++)
		if (!named[o] && ((const uint8_t *)&ca)[o] != ((const uint8_t *)&cb)[o]) {
			if (!diff->n) snprintf(first, nfirst, "the byte at offset %zu of the structure, which belongs to none of the %u members known by name, is 0x%02x in the header and 0x%02x after decode(encode())",
					       o, (unsigned)C13_NHF, ((const uint8_t *)&ca)[o], ((const uint8_t *)&cb)[o]);
			vx_sb_printf(diff, "%sunnamed-member", diff->n ? "+" : "");
			break;
		}
}

/* the oracle of the statement on the live state; violations are recorded, never returned */
static void check_state(void)
{
	const rf_wavheader_t snap = L.h;	/* the header as init / set_num_frames left it: what the statement speaks about */
	const rf_wavheader_t *h = &snap;
	rf_wavheader_t obs;			/* the copy handed to functions that take a non-const pointer */
	n_oracle++;

	/* the header validates */
	obs = snap;
	int v = rf_wavheader_validate(&obs);
	if (v != 0) c13_fail("validate", "rf_wavheader_validate() = %d on a header produced by init/set_num_frames "
			     "(chunk_size=%u fmt_chunk_size=%u fact_chunk_size=%u)", v, h->chunk_size, h->fmt_chunk_size, h->fact_chunk_size);

	/* encoding then decoding returns an identical structure and the same length */
	uint8_t *big = c13_enc_end - C13_ENCCAP;
	memset(big, 0xee, C13_ENCCAP);
	obs = snap;
	int el = rf_wavheader_encode(&obs, big, C13_ENCCAP);
	int dl = -1;
	if (el < 0 || el > C13_ENCCAP) c13_fail("encode-length", "rf_wavheader_encode() into %d bytes = %d", C13_ENCCAP, el);
	else {
		uint8_t *p = c13_dec_end - el;	/* exactly el bytes, the last one against a PROT_NONE page */
		memcpy(p, big, (size_t)el);
		memset(w_wh, 0xa5, sizeof(*w_wh));
		dl = rf_wavheader_decode(p, (unsigned)el, w_wh);
		if (dl != el) c13_fail("roundtrip-length", "encode() = %d bytes but decode() of exactly those bytes = %d", el, dl);
		else {
			vx_sb diff = { 0 }; char first[240] = "";
			c13_struct_diff(h, w_wh, &diff, first, sizeof(first));
			if (diff.n) {
				char key[600]; snprintf(key, sizeof(key), "roundtrip-field|%.*s", (int)strcspn(diff.s, "+"), diff.s);
				c13_fail(key, "decode(encode(h)) differs from h in %s (%s)", diff.s, first);
			}
			free(diff.s);
		}
		vx_hasher hs; vx_h_init(&hs); vx_h_bytes(&hs, big, (size_t)el); vx_h_u64(&hs, (uint64_t)el); vx_h_u64(&hs, (uint64_t)(int64_t)v);
		vx_h_u64(&hs, (uint64_t)(int64_t)dl);
		vx_set_add(&seen_enc, vx_h_done(&hs));
		vx_h_init(&hs); vx_h_u64(&hs, (uint64_t)el); vx_set_add(&seen_hdrlen, vx_h_done(&hs));

		/* the RIFF chunk size equals the number of bytes that follow it in a file carrying exactly the declared data */
		uint64_t want = (uint64_t)el - 8 + h->data_chunk_size;
		if ((uint64_t)h->chunk_size != want) {
			char key[64]; snprintf(key, sizeof(key), "riff-size|delta=%+d", (int)(int32_t)(h->chunk_size - (uint32_t)want));
			c13_fail(key, "chunk_size = %u but the %d-byte header is followed by %u data bytes: %llu bytes follow the RIFF size field",
				 h->chunk_size, el, h->data_chunk_size, (unsigned long long)want);
		}
	}

	/* the data size is frames times block alignment */
	if ((uint64_t)h->data_chunk_size != (uint64_t)L.m.frames * h->block_align)
		c13_fail("data-size", "data_chunk_size = %u, frames * block_align = %llu", h->data_chunk_size,
			 (unsigned long long)L.m.frames * h->block_align);

	/* block alignment, byte rate and bits per sample follow from channel count, sample width and rate */
	unsigned by = c13_width(L.m.fmt_i);
	if (h->num_channels != (unsigned)L.m.ch) c13_fail("describe|num_channels", "num_channels = %u", h->num_channels);
	if (h->sample_rate != (uint32_t)L.m.rate) c13_fail("describe|sample_rate", "sample_rate = %u", h->sample_rate);
	if (h->block_align != (unsigned)L.m.ch * by) c13_fail("describe|block_align", "block_align = %u, channels * sample width = %u", h->block_align, (unsigned)L.m.ch * by);
	if ((uint64_t)h->byte_rate != (uint64_t)L.m.rate * (uint64_t)L.m.ch * by)
		c13_fail("describe|byte_rate", "byte_rate = %u, rate * channels * sample width = %llu", h->byte_rate, (unsigned long long)L.m.rate * (unsigned long long)L.m.ch * by);
	if (h->bits_per_sample != 8 * by) c13_fail("describe|bits_per_sample", "bits_per_sample = %u, sample width is %u bytes", h->bits_per_sample, by);
	/* what rf_wavheader_get_format makes of the header is not part of the statement: counted, not judged */
	obs = snap;
	if (rf_wavheader_get_format(&obs) != c13_fmts[L.m.fmt_i]) fmt_helper_differs++;
}

static int op_apply(int op)
{
	if (op < NFILL) {
		n_op_fill++;
		memset(&L.h, c13_fills[op], sizeof(L.h));
		L.m.phase = 1; L.m.fill = c13_fills[op];
		return 0;
	}
	/* (the frame count is worked out before the guarded section: it asks the real encoder for the header length, which is
	 * a guarded section of its own) */
	uint64_t nframes = op >= OP_FRAMES0 ? frames_of(op - OP_FRAMES0) : 0;
	if (!(VX_TRY)) {
		VX_END;
		if (c13_in_obs) { c13_in_obs = 0; c13_obs_end(); }
		char key[400]; snprintf(key, sizeof(key), "fault|%s", vx_fault_msg);
		c13_fail(key, "%s", vx_fault_msg);
		return 1;
	}
	if (op < OP_FRAMES0) {
		int r, c, f; init_args(op, &r, &c, &f);
		n_op_init[f]++;
		rf_wavheader_init(&L.h, c13_rates[r], c13_chans[c], c13_fmts[f]);
		L.m.phase = 2; L.m.fill = 0; L.m.fmt_i = (uint8_t)f; L.m.rate = c13_rates[r]; L.m.ch = c13_chans[c]; L.m.frames = 0;
	} else {
		n_op_frames[op - OP_FRAMES0]++;
		rf_wavheader_set_num_frames(&L.h, (unsigned)nframes);
		L.m.frames = (uint32_t)nframes;
	}
	for (int i = 0; i < 16; i++)
		if (L.pre[i] != 0xc5 || L.post[i] != 0xc5) {
			VX_END;
			c13_fail("canary", "bytes next to the structure were overwritten");
			return 1;
		}
	c13_obs_begin(); c13_in_obs = 1;
	check_state();
	c13_in_obs = 0; c13_obs_end();
	VX_END;
	return 0;
}
static void op_canon(vx_hasher *h) { vx_h_bytes(h, &L, sizeof(L)); }

static void setup(void)
{
	memset(&L, 0, sizeof(L));
	memset(L.pre, 0xc5, 16); memset(L.post, 0xc5, 16);
}

int main(int argc, char **argv)
{
	vx_init(argc, argv);
	vx_install_handlers();
	vx_watchdog(2.0);
	__fsetlocking(stdout, FSETLOCKING_BYCALLER); __fsetlocking(stderr, FSETLOCKING_BYCALLER);
	w_setup_guards();
	c13_enc_end = (uint8_t *)vx_guard_alloc(C13_ENCCAP, 1) + C13_ENCCAP;
	c13_dec_end = (uint8_t *)vx_guard_alloc(C13_ENCCAP, 1) + C13_ENCCAP;
	vx_set_init(&seen_enc, 16); vx_set_init(&seen_hdrlen, 4);
	vx_bfs b = { .live = &L, .size = sizeof(L), .nops = NOPS, .enabled = op_enabled, .apply = op_apply,
		     .canon = op_canon, .describe = op_describe, .name = "mutators" };
	setup();
	char *rp = vx_read_replay();
	if (rp) {
		replaying = 1;
		vx_bfs_replay(&b, rp);
		vx_finish();
		return 0;
	}
	if (!vx_mine(0)) { vx_finish(); return 0; }	/* one graph, one worker */
	b.max_states = 20000000;
	vx_bfs_run(&b);
	vx_count("states", b.states); vx_count("transitions", b.transitions);
	vx_count("traces", n_oracle);		/* transitions whose resulting header went through the whole oracle */
	vx_count("bfs_distinct_observations", seen_enc.n);	/* distinct (encoded bytes, length, validate, decode length) */
	vx_count("bfs_distinct_encoded_header_lengths", seen_hdrlen.n);
	vx_and("exhaustive", b.fixpoint);
	vx_max("bfs_depth", (uint64_t)b.depth_done);
	vx_count("scope_guard_init_does_not_fit", skip_init_unfit);
	vx_count("scope_guard_frames_do_not_fit", skip_frames_unfit);
	vx_count("scope_guard_set_num_frames_before_init", skip_frames_uninit);
	vx_count("scope_guard_header_length_unknown_minimum_used", hdrlen_unknown);
	vx_count("get_format_differs_from_init_argument_not_judged", fmt_helper_differs);
	vx_count("alphabet_entries_reserved_for_thorough_tier", skip_tier);
	vx_count("op_fill", n_op_fill);
	for (int f = 0; f < NFMT; f++) { char nm[64]; snprintf(nm, sizeof(nm), "op_init_%s", c13_fmtname[f]); vx_count(nm, n_op_init[f]); }
	for (int k = 0; k < FR_KINDS; k++) { char nm[64]; snprintf(nm, sizeof(nm), "op_set_num_frames_%s", c13_frname[k]); vx_count(nm, n_op_frames[k]); }
	if (b.capped) vx_note("BFS stopped early (deadline, state cap, 3 endless loops or 16 distinct violation signatures): complete only to depth %d", b.depth_done);
	/* samples: the deepest history, one from the middle of the store, and the first state reached with a rate above 2^24 */
	for (int k = 0; k < 3; k++) {
		vx_sb hs = { 0 }; static uint32_t ops[64];
		uint64_t idx = k == 1 ? b.st.n / 2 : b.st.n - 1;
		if (k == 2) {
			for (idx = 0; idx < b.st.n; idx++) {
				const struct c13_live *s = (const struct c13_live *)(b.st.data + idx * b.st.ssz);
				if (s->m.phase == 2 && s->m.rate > (1 << 24) && s->m.frames) break;
			}
			if (idx >= b.st.n) break;
		}
		int n = vx_store_trace(&b.st, idx, ops, 64);
		for (int i = 0; i < n; i++) { if (i) vx_sb_printf(&hs, "; "); op_describe((int)ops[i], &hs); }
		vx_sample("mutator graph: %llu states, %llu transitions, fixpoint=%d, depth %d; history of state %llu: %s",
			  (unsigned long long)b.states, (unsigned long long)b.transitions, b.fixpoint, b.depth_done,
			  (unsigned long long)idx, hs.s ? hs.s : "");
		free(hs.s);
	}
	/* self-check (DESIGN 2.1): determinism - re-execute the histories of 64 spread-out states from reset and
	 * require the identical state image; vacuity - every live alphabet entry was exercised */
	w_silent = 1;
	for (uint64_t k = 0; k < 64 && k < b.st.n; k++) {
		static uint32_t ops[256]; static struct c13_live want;
		uint64_t idx = b.st.n * k / 64;
		if (b.st.depth[idx] > 256) continue;	/* (only a graph that did not close has such states) */
		int n = vx_store_trace(&b.st, idx, ops, 256);
		memcpy(&want, b.st.data + idx * b.st.ssz, sizeof(want));	/* the live part of the stored state */
		setup(); vx_lib_reset(); b.cur = 0;
		for (int i = 0; i < n; i++) { b.cur_op = (int)ops[i]; op_apply((int)ops[i]); }
		if (memcmp(&want, &L, sizeof(L))) { fprintf(stderr, "c13: re-executing the history of state %llu gives a different state\n", (unsigned long long)idx); return 6; }
	}
	w_silent = 0;
	for (int f = 0; f < NFMT; f++) if (!n_op_init[f]) { fprintf(stderr, "c13: init(%s) never exercised\n", c13_fmtname[f]); return 7; }
	for (int k = 0; k < (vx_thorough() ? FR_KINDS : QFR); k++)
		if (k != FR_OVER && !n_op_frames[k]) { fprintf(stderr, "c13: set_num_frames(%s) never exercised\n", c13_frname[k]); return 7; }
	vx_bfs_free(&b);
	vx_finish();
	return 0;
}

#else
/* ======================================================= (2) decode-first clause */

static vx_set seen_inputs;
static int replaying, slen, maxdev;
static int sampled, owns_template;	/* one sample per worker: the template it owns, else its first multi-deviation case / a big header */
static char *cur_rp;
static const char *case_rp(const w_case *c) { if (!cur_rp) cur_rp = w_case_replay(c); return cur_rp; }
static const char *hexof(const uint8_t *b, int n)
{
	static char s[4][2 * W_BUFMAX + 1]; static int k;
	char *o = s[k++ & 3];
	for (int i = 0; i < n; i++) snprintf(o + 2 * i, 3, "%02x", b[i]);
	o[2 * n] = 0;
	return o;
}

static void c13d_case(const w_case *c)
{
	char ct[400], key[400];
	if (w_hang_abort) return;
	free(cur_rp); cur_rp = NULL;
	W_COUNT("cases", 1);
	/* prefixes that end at or before the last deviating field are inputs of the case without that deviation */
	for (int t = (c->tdup + 1 > c->tmin ? c->tdup + 1 : c->tmin); t <= c->n && !w_hang_abort; t++) {
		int ret = 0, eret = 0;
		W_COUNT("evaluations", 1);
		const uint8_t *p = w_place(c->buf, t, 1);
		memset(w_wh, 0xa5, sizeof(*w_wh));
		vx_lib_reset();
		if (VX_TRY) { ret = rf_wavheader_decode(p, (unsigned)t, w_wh); VX_END; }
		else { VX_END; w_after_fault(); W_COUNT("decode_faults_left_to_C14", 1); continue; }
		if (!(ret >= 0 && ret <= t)) { W_COUNT("not_accepted", 1); continue; }
		W_COUNT("accepted_and_reencoded", 1);
		if (ret < RF_WAVHEADER_MIN_SIZE) W_COUNT("accepted_below_44_bytes", 1);
		snprintf(ct, sizeof(ct), "%s|sz=%d|ret=%d", c->desc, t, ret);

		if (!w_silent && !replaying && (c->tmpl < 0 || (t > slen && w_owns(c, t)))) {
			vx_hasher h; vx_h_init(&h); vx_h_u64(&h, (uint64_t)(c->tmpl + 1)); vx_h_u64(&h, (uint64_t)t);
			vx_h_bytes(&h, c->buf, (size_t)t);
			if (vx_set_add(&seen_inputs, vx_h_done(&h))) vx_count("distinct", 1);
		}

		/* the bytes the re-encoding must reproduce: the input with the ignored extension bytes zeroed */
		uint8_t want[W_BUFMAX]; w_ref ref;
		memcpy(want, c->buf, (size_t)ret);
		w_ref_parse(c->buf, (uint64_t)t, &ref);
		uint64_t nskip = 0;
		for (uint64_t i = ref.skip_off; i < ref.skip_off + ref.skip_len && i < (uint64_t)ret; i++) { want[i] = 0; nskip++; }
		if (nskip) W_COUNT("accepted_with_ignored_extension_bytes", 1);

		uint8_t *q = w_enc_end - ret;
		memset(q, 0xee, (size_t)ret);
		if (VX_TRY) { eret = rf_wavheader_encode(w_wh, q, (unsigned)ret); VX_END; }
		else {
			VX_END; w_after_fault();
			snprintf(key, sizeof(key), "reencode-fault|%s", vx_fault_msg);
			w_report(key, ct, case_rp(c), "rf_wavheader_encode faults (%s) on the structure decoded from %s", vx_fault_msg, hexof(c->buf, t));
			continue;
		}
		if (!w_silent && !replaying && t == c->n && c->tmpl >= 0 && !sampled && (c->nd == 0 || (c->nd >= 2 && !(vx_args.worker & 1) && !owns_template)) && (sampled = 1))
			vx_sample("%s sz=%d: decode = %d, re-encode into %d bytes = %d, %llu ignored extension bytes normalised", c->desc, t, ret, ret, eret,
				  (unsigned long long)nskip);
		if (eret != ret) {
			w_report(ret < RF_WAVHEADER_MIN_SIZE ? "reencode-length|short-header" : "reencode-length", ct, case_rp(c),
				 "decode(%d bytes) = %d but re-encoding the decoded structure into %d bytes returns %d; input %s", t, ret, ret, eret, hexof(c->buf, t));
			continue;
		}
		if (memcmp(q, want, (size_t)ret)) {
			int d = 0; while (q[d] == want[d]) d++;
			w_report(ret < RF_WAVHEADER_MIN_SIZE ? "reencode-bytes|short-header" : "reencode-bytes", ct, case_rp(c),
				 "decode(%d bytes) = %d, but re-encoding into %d bytes differs from the input at offset %d (0x%02x, input 0x%02x; 0xee = never written); input %s re-encoded %s",
				 t, ret, ret, d, q[d], want[d], hexof(c->buf, ret), hexof(q, ret));
		}
	}
}

/* big headers (wav_common.h): decode from an exactly-sized guard-paged buffer, re-encode into one, compare */
static void c13d_big(const w_bigcase *c)
{
	char ct[200], key[300];
	w_big_setup();
	uint64_t t = w_big_build(c, w_big_img);
	uint8_t *p = w_big_in_end - t;
	memcpy(p, w_big_img, t);
	int ret = 0, eret = 0;
	char *rp = w_big_replay(c);
	snprintf(ct, sizeof(ct), "big-header|fmt-extension=%u", c->ext);	/* coarse: the workers see different cb/af/fact/trail first */
	W_COUNT("evaluations", 1); W_COUNT("big_headers", 1);
	memset(w_wh, 0xa5, sizeof(*w_wh));
	vx_lib_reset();
	if (VX_TRY) { ret = rf_wavheader_decode(p, (unsigned)t, w_wh); VX_END; }
	else { VX_END; w_after_fault(); W_COUNT("decode_faults_left_to_C14", 1); free(rp); return; }
	if (!(ret >= 0 && (uint64_t)ret <= t)) { W_COUNT("not_accepted", 1); W_COUNT("big_headers_not_accepted", 1); free(rp); return; }
	W_COUNT("accepted_and_reencoded", 1); W_COUNT("big_headers_accepted", 1);
	if (!w_silent && !replaying) {
		vx_hasher h; vx_h_init(&h); vx_h_u64(&h, 0xb16); vx_h_u64(&h, c->ext); vx_h_u64(&h, c->cb); vx_h_u64(&h, c->af); vx_h_u64(&h, (uint64_t)(c->fact * 4 + c->trail));
		if (vx_set_add(&seen_inputs, vx_h_done(&h))) vx_count("distinct", 1);
	}
	w_ref ref; w_ref_parse(w_big_img, t, &ref);
	for (uint64_t i = ref.skip_off; i < ref.skip_off + ref.skip_len && i < (uint64_t)ret; i++) w_big_img[i] = 0;	/* the bytes to reproduce */
	uint8_t *q = w_big_out_end - ret;
	memset(q, 0xee, (size_t)ret);
	if (VX_TRY) { eret = rf_wavheader_encode(w_wh, q, (unsigned)ret); VX_END; }
	else {
		VX_END; w_after_fault();
		snprintf(key, sizeof(key), "reencode-fault|%s", vx_fault_msg);
		w_report(key, ct, rp, "rf_wavheader_encode faults (%s) on the structure decoded from a %llu-byte header with a %u-byte fmt extension", vx_fault_msg, (unsigned long long)t, c->ext);
		free(rp); return;
	}
	if (!w_silent && !replaying && !sampled && (vx_args.worker & 1) && c->ext >= 65536 && (sampled = 1))
		vx_sample("%s cb=%u af=%u fact=%d: %llu bytes, decode = %d, re-encode into %d bytes = %d, %llu ignored extension bytes normalised", ct, c->cb, c->af, c->fact, (unsigned long long)t, ret, ret, eret,
			  (unsigned long long)ref.skip_len);
	if (eret != ret)
		w_report("reencode-length", ct, rp, "decode(%llu bytes) = %d but re-encoding the decoded structure into %d bytes returns %d (fmt extension of %u bytes)",
			 (unsigned long long)t, ret, ret, eret, c->ext);
	else if (memcmp(q, w_big_img, (size_t)ret)) {
		int d = 0; while (q[d] == w_big_img[d]) d++;
		w_report("reencode-bytes", ct, rp, "decode(%llu bytes) = %d, but re-encoding into %d bytes differs from the input at offset %d (0x%02x, input 0x%02x; 0xee = never written); fmt extension of %u bytes",
			 (unsigned long long)t, ret, ret, d, q[d], w_big_img[d], c->ext);
	}
	free(rp);
}

int main(int argc, char **argv)
{
	vx_init(argc, argv);
	vx_install_handlers();
	vx_watchdog(2.0);
	__fsetlocking(stdout, FSETLOCKING_BYCALLER); __fsetlocking(stderr, FSETLOCKING_BYCALLER);
	w_setup_templates();
	w_setup_guards();
	slen = vx_thorough() ? 3 : 2;
	maxdev = vx_thorough() ? 3 : 2;
	char *rp = vx_read_replay();
	if (rp) {
		w_case c; w_bigcase bc;
		replaying = 1;
		if (!w_big_parse(rp, &bc)) { c13d_big(&bc); vx_finish(); return 0; }
		if (w_case_parse(rp, &c)) { fprintf(stderr, "c13: malformed replay file\n"); return 3; }
		c13d_case(&c);
		vx_finish();
		return 0;
	}
	vx_set_init(&seen_inputs, 16);
	for (int t = 0; t < w_ntmpl; t++) if (vx_mine((uint64_t)t)) owns_template = 1;
	w_silent = 1;
	w_enum_strings(0, c13d_case, 0); w_enum_strings(1, c13d_case, 0);
	w_enum_headers(0, c13d_case, 0); w_enum_headers(1, c13d_case, 0);
	w_silent = 0;
	int done_dev = -1, done_len = -1;
	for (int l = 0; l <= slen && !w_stop; l++) { w_enum_strings(l, c13d_case, 1); if (!w_stop) done_len = l; }
	for (int d = 0; d <= maxdev && !w_stop; d++) { w_enum_headers(d, c13d_case, 1); if (!w_stop) done_dev = d; }
	for (int i = 0; i < W_NBIG && !w_stop; i++) {
		w_bigcase bc;
		if (!vx_mine((uint64_t)i)) continue;
		w_big_get(i, &bc); c13d_big(&bc);
		if (vx_deadline_passed()) w_stop = 1;
	}
	w_hang_epilogue();
	vx_and("exhaustive", !w_stop);
	vx_count("decode_first_header_templates", (uint64_t)(vx_args.worker == 0 ? w_ntmpl : 0));
	vx_min("decode_first_string_length_bound_completed", (uint64_t)(done_len < 0 ? 0 : done_len));
	vx_min("decode_first_deviation_bound_completed", (uint64_t)(done_dev < 0 ? 0 : done_dev));
	if (w_stop && !w_hang_abort) vx_note("decode-first: deadline reached before the stated corpus was enumerated; see *_bound_completed");
	vx_finish();
	return 0;
}
#endif

/*
 * C14, second sentence ("whatever structure results ...") - the all-fields-extreme family.
 *
 * The main part (c14_wavdecode.c) stays within <= 2 (3) deviating fields of a valid header.
 * The three helpers, however, combine several decoded fields in one expression (a division,
 * a formatted line), so a defect may need *every* numeric field at an unusual value at once.
 * This part therefore takes the FULL PRODUCT of a small extreme-value menu per numeric field
 * over three header shapes (plain 16-byte fmt chunk; fmt + fact; WAVE_FORMAT_EXTENSIBLE),
 * decodes each header with the real rf_wavheader_decode from an exactly-sized heap buffer and
 * runs validate / get_format / tostring on whatever structure results.
 *
 * Oracle: AddressSanitizer (the property's own observation point): this translation unit,
 * which #includes the librfn sources, is built with -fsanitize=address
 * -fsanitize-recover=address; __asan_on_error records every report (stack or heap overflow
 * inside the helpers, over-read of the input buffer in decode), signals are caught as in the
 * other parts, and the string returned by tostring must be a readable NUL-terminated heap
 * block (strlen + free under ASan).
 */
#include "vx.h"
#include <limits.h>

#include "pack.c"
#include "util.c"
#include "string.c"
#include "wavheader.c"

uint32_t time_now(void) { return 0; }

const char *__asan_default_options(void) { return "halt_on_error=0:detect_leaks=0:print_summary=0:handle_segv=0:handle_sigbus=0:handle_sigfpe=0:handle_abort=0:detect_stack_use_after_return=0"; }
extern const char *__asan_get_report_description(void);
static volatile int asan_errors;
static char asan_kind[64];
void __asan_on_error(void)
{
	if (!asan_errors++) snprintf(asan_kind, sizeof(asan_kind), "%s", __asan_get_report_description());
}

static const uint32_t m_af[] = { 1, 3, 0xfffe, 0, 2, 0xffff };
static const uint32_t m_ch[] = { 2, 1, 0, 10, 100, 1000, 9999, 10000, 65535 };
static const uint32_t m_rate[] = { 44100, 0, 1, 999999999u, 1000000000u, 0x7fffffffu, 0x80000000u, 0xc4653600u, 0xffffffffu };
static const uint32_t m_ba[] = { 4, 0, 1, 2, 65535 };
static const uint32_t m_bits[] = { 16, 0, 8, 32, 65535 };
static const uint32_t m_ds[] = { 0, 1, 176400, 999999999u, 0x7fffffffu, 0x80000000u, 0xc4653600u, 0xffffffffu };
static const uint32_t m_sub[] = { 1, 3, 0xfffe, 0 };	/* extensible: sub-format tag in the GUID */
#define NEL(a) ((int)(sizeof(a) / sizeof((a)[0])))

typedef struct { int shape; uint32_t af, ch, rate, ba, bits, ds, sub; } hcase;
static void put16(uint8_t *p, uint32_t v) { p[0] = (uint8_t)v; p[1] = (uint8_t)(v >> 8); }
static void put32(uint8_t *p, uint32_t v) { put16(p, v); put16(p + 2, v >> 16); }

static int build(const hcase *c, uint8_t *h)
{
	static const uint8_t guid_tail[14] = { 0x00, 0x00, 0x00, 0x00, 0x10, 0x00, 0x80, 0x00, 0x00, 0xaa, 0x00, 0x38, 0x9b, 0x71 };
	int fmt = c->shape == 2 ? 40 : 16, n = 0;
	memcpy(h, "RIFF", 4); n = 8;
	memcpy(h + n, "WAVE", 4); n += 4;
	memcpy(h + n, "fmt ", 4); put32(h + n + 4, (uint32_t)fmt); n += 8;
	put16(h + n, c->af); put16(h + n + 2, c->ch); put32(h + n + 4, c->rate); put32(h + n + 8, c->rate * c->ba);
	put16(h + n + 12, c->ba); put16(h + n + 14, c->bits); n += 16;
	if (c->shape == 2) {
		put16(h + n, 22); put16(h + n + 2, c->bits); put32(h + n + 4, 3);
		put16(h + n + 8, c->sub); memcpy(h + n + 10, guid_tail, 14); n += 24;
	}
	if (c->shape == 1) { memcpy(h + n, "fact", 4); put32(h + n + 4, 4); put32(h + n + 8, c->ba ? c->ds / c->ba : 0); n += 12; }
	memcpy(h + n, "data", 4); put32(h + n + 4, c->ds); n += 8;
	put32(h + 4, (uint32_t)(n - 8) + c->ds);
	return n;
}

static uint64_t n_cases, n_accepted, n_rejected, n_valid, n_helpers;
static vx_set seen;
static int stop;

static void report(const hcase *c, const char *fn, const char *what)
{
	char sig[200], rp[200];
	snprintf(sig, sizeof(sig), "helpers-product|%s|%s", fn, what);
	snprintf(rp, sizeof(rp), "shape=%d\naf=%u\nch=%u\nrate=%u\nba=%u\nbits=%u\nds=%u\nsub=%u\n", c->shape, c->af, c->ch, c->rate, c->ba, c->bits, c->ds, c->sub);
	vx_violation(sig, rp, "%s: %s on the structure decoded from a %s header with audio_format=%u channels=%u sample_rate=%u block_align=%u bits=%u data_size=%u sub_format=%u",
		     fn, what, c->shape == 0 ? "plain" : c->shape == 1 ? "fmt+fact" : "extensible", c->af, c->ch, c->rate, c->ba, c->bits, c->ds, c->sub);
	stop = 1;
}

#define GUARDED(fn, stmt) do { \
	asan_errors = 0; \
	if (VX_TRY) { stmt; VX_END; if (asan_errors) { char w[96]; snprintf(w, sizeof(w), "AddressSanitizer: %s", asan_kind); report(c, fn, w); return; } } \
	else { VX_END; report(c, fn, vx_fault_msg); return; } } while (0)

static void run_case(const hcase *c)
{
	uint8_t img[80];
	int n = build(c, img);
	uint8_t *h = malloc((size_t)n);		/* exactly sized: ASan traps a one-byte over-read */
	rf_wavheader_t *wh = malloc(sizeof(*wh));	/* and a write past the structure */
	volatile int ret = 0, val = 0, fmt = 0;
	char *volatile s = NULL;
	memcpy(h, img, (size_t)n);
	memset(wh, 0xa5, sizeof(*wh));
	n_cases++;
	GUARDED("rf_wavheader_decode", ret = rf_wavheader_decode(h, (unsigned)n, wh));
	if (ret == n) n_accepted++; else n_rejected++;
	GUARDED("rf_wavheader_validate", val = rf_wavheader_validate(wh));
	if (ret == n && val == 0) n_valid++;
	GUARDED("rf_wavheader_get_format", fmt = (int)rf_wavheader_get_format(wh));
	GUARDED("rf_wavheader_tostring", s = rf_wavheader_tostring(wh));
	n_helpers += 3;
	size_t len = 0;
	if (s) GUARDED("rf_wavheader_tostring (result)", len = strlen(s); free(s));
	vx_hasher hh; vx_h_init(&hh); vx_h_u64(&hh, (uint64_t)(ret == n) | (uint64_t)(val == 0) << 1 | (uint64_t)fmt << 2 | (uint64_t)len << 8 | (uint64_t)c->shape << 20);
	vx_set_add(&seen, vx_h_done(&hh));
	free(h); free(wh);
}

int main(int argc, char **argv)
{
	vx_init(argc, argv);
	vx_install_handlers();
	vx_set_init(&seen, 12);
	char *rp = vx_read_replay();
	if (rp) {
		hcase c;
#define F(k) (uint32_t)strtoul(vx_replay_field(rp, k) ? vx_replay_field(rp, k) : "0", NULL, 10)
		c.shape = (int)F("shape"); c.af = F("af"); c.ch = F("ch"); c.rate = F("rate"); c.ba = F("ba"); c.bits = F("bits"); c.ds = F("ds"); c.sub = F("sub");
		if (c.shape < 0 || c.shape > 2) { fprintf(stderr, "c14_helpers: malformed replay file\n"); return 3; }
		run_case(&c);
		vx_finish();
		return 0;
	}
	uint64_t part = 0;
	for (int shape = 0; shape < 3 && !stop; shape++)
	for (int a = 0; a < NEL(m_af) && !stop; a++)
	for (int b = 0; b < NEL(m_ch) && !stop; b++, part++) {
		if (!vx_mine(part)) continue;
		for (int r = 0; r < NEL(m_rate) && !stop; r++)
		for (int l = 0; l < NEL(m_ba) && !stop; l++)
		for (int w = 0; w < NEL(m_bits) && !stop; w++)
		for (int d = 0; d < NEL(m_ds) && !stop; d++)
		for (int g = 0; g < (shape == 2 ? NEL(m_sub) : 1) && !stop; g++) {
			hcase c = { shape, m_af[a], m_ch[b], m_rate[r], m_ba[l], m_bits[w], m_ds[d], m_sub[g] };
			if (shape == 2 && a > 2) continue;	/* extensible shape: tags 1, 3 and 0xfffe in the outer field only */
			run_case(&c);
			if (vx_deadline_passed()) { stop = 2; }
		}
	}
	vx_count("helpers_product_headers", n_cases); vx_count("helpers_product_accepted", n_accepted); vx_count("helpers_product_not_accepted", n_rejected);
	vx_count("helpers_product_accepted_and_valid", n_valid); vx_count("helpers_product_helper_calls", n_helpers);
	vx_count("helpers_product_distinct_outcomes", seen.n);
	vx_and("exhaustive", stop != 2);
	if (stop == 2) vx_note("helpers product family: deadline reached before the product was enumerated");
	vx_finish();
	return 0;
}

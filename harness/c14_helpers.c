/*
 * C14 under AddressSanitizer (part c14asan of bin/checks.d/C14.py). The librfn sources are linked as objects of their
 * own, built with -fsanitize=address like this file; only the public header is included here. Four families, each a
 * complete enumeration, each input in an EXACTLY-SIZED heap block (malloc(n)), so that a read of a single byte past the
 * declared length is an AddressSanitizer report wherever the block happens to end (malloc results are 16-byte aligned,
 * so with the length the end of the buffer takes every alignment - the guard-page placement of the main part can only
 * offer page-aligned ends, which an over-read by an aligned word load never crosses):
 *
 *  (P) helpers product ("whatever structure results ..."): the three helpers combine several decoded fields in one
 *      expression (a division, a formatted line), so a defect may need EVERY numeric field at an unusual value at once:
 *      FULL PRODUCT of an extreme-value menu per numeric field over three header shapes (plain 16-byte fmt chunk; fmt +
 *      fact; WAVE_FORMAT_EXTENSIBLE), each header decoded by the real rf_wavheader_decode, then validate / get_format /
 *      tostring on whatever structure results.
 *  (D) dense small values: a table indexed by a channel count, a sample width or a frame size is met at SMALL values no
 *      extreme-value menu contains: full product channels x block_align x bits_per_sample, each 0..32, x shape x format
 *      tag x data size, same procedure.
 *  (T) truncation sweep: every header of the wav_common.h corpus within <= 1 (thorough 2) deviating fields of the nine
 *      templates, at EVERY truncation length t = 0..len+2, from a malloc(t) block; helpers on every distinct result.
 *  (S) every byte string of 0..2 bytes from a malloc block of that size.
 *
 * Oracle: AddressSanitizer (the property's own observation point; -fsanitize-recover=address, __asan_on_error records
 * every report), the signals and the watchdog of vx.h (a call that does not return within one to two watchdog periods is an
 * endless loop), and the string returned by tostring must be a readable NUL-terminated heap block (strlen + free under
 * ASan). A family stops at its first violation (every further report would cost a screenful of ASan output or a watchdog
 * period); the violation is in the result file before anything else is run.
 */
#include "vx.h"
#include <limits.h>
#include <stdio_ext.h>

#include <librfn/time.h>
#include <librfn/wavheader.h>

uint32_t time_now(void) { return 0; }	/* referenced by util.c (ratelimit_check), never called here */

#include "wav_common.h"

#define C14H_WATCHDOG_S 4.0

const char *__asan_default_options(void) { return "halt_on_error=0:detect_leaks=0:print_summary=0:handle_segv=0:handle_sigbus=0:handle_sigfpe=0:handle_abort=0:detect_stack_use_after_return=0"; }
extern const char *__asan_get_report_description(void);
static volatile int c14h_asan_errors;
static char c14h_asan_kind[64];
void __asan_on_error(void)
{
	if (!c14h_asan_errors++) snprintf(c14h_asan_kind, sizeof(c14h_asan_kind), "%s", __asan_get_report_description());
}

/* the statics of the library back to their start-up image before every case - byte by byte and uninstrumented, because the
 * red zones AddressSanitizer lays between the library's globals are part of the image and memcpy is intercepted */
__attribute__((no_sanitize_address, noinline))
static void c14h_lib_reset(void)
{
	const char *s = vx_lib_pristine;
	if (!s) return;
	size_t dn = vx_lib_dsz(), bn = vx_lib_bsz();
	volatile char *d = __start_vxlibdata;
	for (size_t i = 0; i < dn; i++) if (d[i] != s[i]) d[i] = s[i];
	d = __start_vxlibbss;
	for (size_t i = 0; i < bn; i++) if (d[i] != s[dn + i]) d[i] = s[dn + i];
}

/* ------------------------------------------------------------------ menus of the product family
 * 16-bit fields: the extremes, a few typical values, 0x100 / 0xff00 (low byte zero) and 0x7fff / 0x8000 (sign bit) */
static const uint32_t m_af[] = { 1, 3, 0xfffe, 0, 2, 0xffff, 0x100, 0xff00, 0x7fff, 0x8000 };
static const uint32_t m_ch[] = { 2, 1, 0, 10, 100, 1000, 9999, 10000, 65535, 0x100, 0xff00, 0x7fff, 0x8000 };
static const uint32_t m_rate[] = { 44100, 0, 1, 999999999u, 1000000000u, 0x7fffffffu, 0x80000000u, 0xc4653600u, 0xffffffffu };
static const uint32_t m_ba[] = { 4, 0, 1, 2, 65535, 0x100, 0xff00, 0x7fff, 0x8000 };
static const uint32_t m_bits[] = { 16, 0, 8, 32, 65535, 0x100, 0xff00, 0x7fff, 0x8000 };
static const uint32_t m_ds[] = { 0, 1, 176400, 999999999u, 0x7fffffffu, 0x80000000u, 0xc4653600u, 0xffffffffu };
static const uint32_t m_sub[] = { 1, 3, 0xfffe, 0 };	/* extensible: sub-format tag in the GUID */
/* dense family */
#define C14H_DENSE 33					/* 0..32 */
static const uint32_t d_af[] = { 1, 3, 0xfffe };	/* extensible shape: outer tag 0xfffe, this is the sub-format tag */
static const uint32_t d_ds[] = { 0, 176400, 0xffffffffu };
#define NEL(a) ((int)(sizeof(a) / sizeof((a)[0])))

typedef struct { int shape; uint32_t af, ch, rate, ba, bits, ds, sub; } c14h_case;

static int c14h_build(const c14h_case *c, uint8_t *h)
{
	static const uint8_t guid_tail[14] = { 0x00, 0x00, 0x00, 0x00, 0x10, 0x00, 0x80, 0x00, 0x00, 0xaa, 0x00, 0x38, 0x9b, 0x71 };
	int fmt = c->shape == 2 ? 40 : 16, n = 0;
	memcpy(h, "RIFF", 4); n = 8;
	memcpy(h + n, "WAVE", 4); n += 4;
	memcpy(h + n, "fmt ", 4); w_put32(h + n + 4, (uint32_t)fmt); n += 8;
	w_put16(h + n, c->af); w_put16(h + n + 2, c->ch); w_put32(h + n + 4, c->rate); w_put32(h + n + 8, c->rate * c->ba);
	w_put16(h + n + 12, c->ba); w_put16(h + n + 14, c->bits); n += 16;
	if (c->shape == 2) {
		w_put16(h + n, 22); w_put16(h + n + 2, c->bits); w_put32(h + n + 4, 3);
		w_put16(h + n + 8, c->sub); memcpy(h + n + 10, guid_tail, 14); n += 24;
	}
	if (c->shape == 1) { memcpy(h + n, "fact", 4); w_put32(h + n + 4, 4); w_put32(h + n + 8, c->ba ? c->ds / c->ba : 0); n += 12; }
	memcpy(h + n, "data", 4); w_put32(h + n + 4, c->ds); n += 8;
	w_put32(h + 4, (uint32_t)(n - 8) + c->ds);
	return n;
}

static uint64_t n_cases, n_accepted, n_rejected, n_valid, n_helpers, n_dense, n_sweep_cases, n_sweep_decodes, n_sweep_helpers, n_strings;
static vx_set c14h_seen, c14h_seen_obs;
static int c14h_stop;		/* 1: the current family met a violation; 2: deadline */
static int c14h_replaying, c14h_sampled;

/* ------------------------------------------------------------------ one decode + helpers, all under the oracle */
static const char *c14h_fault;	/* what went wrong in the last c14h_run (NULL: nothing) */
static const char *c14h_fault_fn;
static char c14h_fault_buf[128];

#define C14H_GUARDED(fn, stmt) do { \
	c14h_asan_errors = 0; \
	if (VX_TRY) { stmt; VX_END; if (c14h_asan_errors) { snprintf(c14h_fault_buf, sizeof(c14h_fault_buf), "AddressSanitizer: %s", c14h_asan_kind); c14h_fault = c14h_fault_buf; c14h_fault_fn = fn; goto out; } } \
	else { VX_END; snprintf(c14h_fault_buf, sizeof(c14h_fault_buf), "%s", vx_fault_msg); c14h_fault = c14h_fault_buf; c14h_fault_fn = fn; goto out; } } while (0)

typedef struct { int ret, val, fmt; size_t len; int helpers_run; } c14h_result;

/* decode the n bytes at img from a malloc(n) block; helpers on the result when with_helpers (2: only on a structure not seen before) */
static void c14h_run(const uint8_t *img, int n, int with_helpers, c14h_result *r)
{
	uint8_t *h = malloc((size_t)n);			/* exactly sized: ASan traps a one-byte over-read */
	rf_wavheader_t *wh = malloc(sizeof(*wh));	/* and a write past the structure */
	volatile int ret = 0, val = 0, fmt = 0;
	char *volatile s = NULL;
	volatile size_t len = 0;
	if (!h || !wh) _exit(3);
	if (n) memcpy(h, img, (size_t)n);
	memset(wh, 0xa5, sizeof(*wh));
	memset(r, 0, sizeof(*r));
	c14h_fault = NULL; c14h_fault_fn = NULL;
	c14h_lib_reset();
	C14H_GUARDED("rf_wavheader_decode", ret = rf_wavheader_decode(h, (unsigned)n, wh));
	r->ret = ret;
	if (with_helpers == 2) {
		vx_hasher hh; vx_h_init(&hh); vx_h_bytes(&hh, wh, sizeof(*wh));
		if (!c14h_replaying && !vx_set_add(&c14h_seen_obs, vx_h_done(&hh))) with_helpers = 0;
	}
	if (with_helpers) {
		r->helpers_run = 1;
		C14H_GUARDED("rf_wavheader_validate", val = rf_wavheader_validate(wh));
		C14H_GUARDED("rf_wavheader_get_format", fmt = (int)rf_wavheader_get_format(wh));
		C14H_GUARDED("rf_wavheader_tostring", s = rf_wavheader_tostring(wh));
		if (s) C14H_GUARDED("rf_wavheader_tostring (result)", len = strlen(s); free(s); s = NULL);
		r->val = val; r->fmt = fmt; r->len = len;
	}
out:
	free(h); free(wh);
}

/* ------------------------------------------------------------------ families P and D */
static void c14h_report_fields(const c14h_case *c, const char *family)
{
	char sig[300], rp[200];
	snprintf(sig, sizeof(sig), "%s|%s|%s", family, c14h_fault_fn, c14h_fault);
	snprintf(rp, sizeof(rp), "shape=%d\naf=%u\nch=%u\nrate=%u\nba=%u\nbits=%u\nds=%u\nsub=%u\n", c->shape, c->af, c->ch, c->rate, c->ba, c->bits, c->ds, c->sub);
	vx_violation(sig, rp, "%s: %s on the structure decoded from a %s header with audio_format=%u channels=%u sample_rate=%u block_align=%u bits=%u data_size=%u sub_format=%u",
		     c14h_fault_fn, c14h_fault, c->shape == 0 ? "plain" : c->shape == 1 ? "fmt+fact" : "extensible", c->af, c->ch, c->rate, c->ba, c->bits, c->ds, c->sub);
	c14h_stop = 1;
}

static void c14h_field_case(const c14h_case *c, const char *family)
{
	uint8_t img[W_BUFMAX];
	c14h_result r;
	int n = c14h_build(c, img);
	c14h_run(img, n, 1, &r);
	/* a violation is always reported under the name of the product family: the replay file holds nothing but the field
	 * values, so a case replays the same way whichever family produced it */
	if (c14h_fault) { c14h_report_fields(c, "helpers-product"); return; }
	n_cases++;
	if (r.ret == n) n_accepted++; else n_rejected++;
	if (r.ret == n && r.val == 0) n_valid++;
	n_helpers += 3;
	vx_hasher hh; vx_h_init(&hh);
	vx_h_u64(&hh, (uint64_t)(r.ret == n) | (uint64_t)(r.val == 0) << 1 | (uint64_t)(uint32_t)r.fmt << 2 | (uint64_t)r.len << 8 | (uint64_t)c->shape << 20);
	vx_set_add(&c14h_seen, vx_h_done(&hh));
	if (!c14h_replaying && !c14h_sampled && vx_args.worker % 3 == (family[8] == 'd' ? 1 : 0) && (c14h_sampled = 1))
		vx_sample("%s: %s header audio_format=%u channels=%u sample_rate=%u block_align=%u bits=%u data_size=%u sub_format=%u from malloc(%d): decode = %d, validate = %d, get_format = %d, tostring gives %zu characters",
			  family, c->shape == 0 ? "plain" : c->shape == 1 ? "fmt+fact" : "extensible", c->af, c->ch, c->rate, c->ba, c->bits, c->ds, c->sub, n, r.ret, r.val, r.fmt, r.len);
}

/* ------------------------------------------------------------------ families T and S */
static void c14h_bytes_case(const w_case *c)
{
	c14h_result r;
	if (c->tmpl >= 0) n_sweep_cases++; else n_strings++;
	for (int t = (c->tdup + 1 > c->tmin ? c->tdup + 1 : c->tmin); t <= c->n && !c14h_stop; t++) {
		c14h_run(c->buf, t, 2, &r);
		n_sweep_decodes++;
		if (r.helpers_run) n_sweep_helpers += 3;
		if (c14h_fault) {
			char sig[500]; char *rp = w_case_replay(c);
			snprintf(sig, sizeof(sig), "asan-truncation-sweep|%s|%s|%s|sz=%d", c14h_fault_fn, c14h_fault, c->desc, t);
			vx_violation(sig, rp, "%s: %s when the first %d bytes of %s lie in a heap block of exactly %d bytes", c14h_fault_fn, c14h_fault, t, c->desc, t);
			free(rp);
			c14h_stop = 1;
			return;
		}
		if (!c14h_replaying && !c14h_sampled && vx_args.worker % 3 == 2 && c->tmpl >= 0 && t == c->n && (c14h_sampled = 1))
			vx_sample("truncation sweep under AddressSanitizer: %s, every length %d..%d from a malloc block of that size; at %d bytes decode = %d", c->desc,
				  c->tdup + 1 > c->tmin ? c->tdup + 1 : c->tmin, c->n, t, r.ret);
	}
	if (vx_deadline_passed()) c14h_stop = 2;
}
/* the enumerators of wav_common.h stop on w_stop */
static void c14h_bytes_case_cb(const w_case *c) { if (c14h_stop) { w_stop = 1; return; } c14h_bytes_case(c); if (c14h_stop) w_stop = 1; }

int main(int argc, char **argv)
{
	vx_init(argc, argv);
	vx_install_handlers();
	vx_watchdog(C14H_WATCHDOG_S);
	__fsetlocking(stdout, FSETLOCKING_BYCALLER); __fsetlocking(stderr, FSETLOCKING_BYCALLER);
	vx_set_init(&c14h_seen, 12); vx_set_init(&c14h_seen_obs, 16);
	w_setup_templates();
	char *rp = vx_read_replay();
	if (rp) {
		c14h_replaying = 1;
		if (vx_replay_field(rp, "kind")) {
			w_case wc;
			if (w_case_parse(rp, &wc)) { fprintf(stderr, "c14_helpers: malformed replay file\n"); return 3; }
			c14h_bytes_case(&wc);
			vx_finish();
			return 0;
		}
		c14h_case c;
#define C14H_F(k) (uint32_t)strtoul(vx_replay_field(rp, k) ? vx_replay_field(rp, k) : "0", NULL, 10)
		c.shape = (int)C14H_F("shape"); c.af = C14H_F("af"); c.ch = C14H_F("ch"); c.rate = C14H_F("rate"); c.ba = C14H_F("ba"); c.bits = C14H_F("bits"); c.ds = C14H_F("ds"); c.sub = C14H_F("sub");
		if (c.shape < 0 || c.shape > 2) { fprintf(stderr, "c14_helpers: malformed replay file\n"); return 3; }
		c14h_field_case(&c, "helpers-product");
		vx_finish();
		return 0;
	}
	int deadline = 0, stopped = 0;

	/* (P) */
	uint64_t part = 0;
	for (int shape = 0; shape < 3 && !c14h_stop; shape++)
	for (int a = 0; a < NEL(m_af) && !c14h_stop; a++)
	for (int b = 0; b < NEL(m_ch) && !c14h_stop; b++, part++) {
		if (!vx_mine(part)) continue;
		if (shape == 2 && a > 2) continue;	/* extensible shape: tags 1, 3 and 0xfffe in the outer field only */
		for (int r = 0; r < NEL(m_rate) && !c14h_stop; r++)
		for (int l = 0; l < NEL(m_ba) && !c14h_stop; l++)
		for (int w = 0; w < NEL(m_bits) && !c14h_stop; w++)
		for (int d = 0; d < NEL(m_ds) && !c14h_stop; d++)
		for (int g = 0; g < (shape == 2 ? NEL(m_sub) : 1) && !c14h_stop; g++) {
			c14h_case c = { shape, m_af[a], m_ch[b], m_rate[r], m_ba[l], m_bits[w], m_ds[d], m_sub[g] };
			c14h_field_case(&c, "helpers-product");
			if ((n_cases & 255) == 0 && vx_deadline_passed()) c14h_stop = 2;
		}
	}
	if (c14h_stop == 2) deadline = 1;
	uint64_t n_product = n_cases;
	if (c14h_stop == 1) { stopped = 1; vx_note("helpers product family: stopped at the first violation"); }

	/* (D) */
	c14h_stop = deadline ? 2 : 0; part = 0;
	for (int shape = 0; shape < 3 && !c14h_stop; shape++)
	for (int b = 0; b < C14H_DENSE && !c14h_stop; b++, part++) {
		if (!vx_mine(part)) continue;
		for (int a = 0; a < NEL(d_af) && !c14h_stop; a++)
		for (int l = 0; l < C14H_DENSE && !c14h_stop; l++)
		for (int w = 0; w < C14H_DENSE && !c14h_stop; w++)
		for (int d = 0; d < NEL(d_ds) && !c14h_stop; d++) {
			c14h_case c = { shape, shape == 2 ? 0xfffe : d_af[a], (uint32_t)b, 44100, (uint32_t)l, (uint32_t)w, d_ds[d], shape == 2 ? d_af[a] : 0 };
			c14h_field_case(&c, "helpers-dense");
			n_dense++;
			if ((n_dense & 255) == 0 && vx_deadline_passed()) c14h_stop = 2;
		}
	}
	if (c14h_stop == 2) deadline = 1;
	if (c14h_stop == 1) { stopped = 1; vx_note("dense small-value family: stopped at the first violation"); }

	/* (S) and (T) */
	c14h_stop = deadline ? 2 : 0; w_stop = c14h_stop != 0;
	int sweep_dev = vx_thorough() ? 2 : 1, done_dev = -1;
	for (int l = 0; l <= 2 && !w_stop; l++) w_enum_strings(l, c14h_bytes_case_cb, 1);
	for (int d = 0; d <= sweep_dev && !w_stop; d++) { w_enum_headers(d, c14h_bytes_case_cb, 1); if (!w_stop) done_dev = d; }
	if (c14h_stop == 2 || (w_stop && !c14h_stop)) deadline = 1;
	if (c14h_stop == 1) { stopped = 1; vx_note("truncation sweep under AddressSanitizer: stopped at the first violation"); }

	vx_count("helpers_product_headers", n_product); vx_count("helpers_dense_headers", n_dense);
	vx_count("helpers_families_accepted", n_accepted); vx_count("helpers_families_not_accepted", n_rejected);
	vx_count("helpers_families_accepted_and_valid", n_valid); vx_count("helpers_families_helper_calls", n_helpers);
	vx_count("helpers_families_distinct_outcomes", c14h_seen.n);
	vx_count("asan_sweep_header_cases", n_sweep_cases); vx_count("asan_sweep_byte_strings", n_strings);
	vx_count("asan_sweep_decodes_from_exactly_sized_heap_blocks", n_sweep_decodes); vx_count("asan_sweep_helper_calls", n_sweep_helpers);
	vx_min("asan_sweep_deviation_bound_completed", (uint64_t)(done_dev < 0 ? 0 : done_dev));
	vx_and("exhaustive", !deadline && !stopped);
	if (deadline) vx_note("AddressSanitizer part: deadline reached before the families were enumerated");
	vx_finish();
	return 0;
}

/*
 * C14 - decoding untrusted WAV bytes is memory-safe and reports length faithfully.
 *
 * Engine C (DESIGN.md section 2.3 / section 4 C14): the complete corpus of wav_common.h
 * (all short byte strings; nine header templates x every choice of <= 2 (thorough 3)
 * deviating fields x every menu value x EVERY truncation length) is decoded by the real
 * rf_wavheader_decode from a buffer of exactly the declared size whose last byte lies
 * against a PROT_NONE page (and, as a second pass, whose first byte follows one), into a
 * structure that itself ends at a PROT_NONE page.
 *
 * Oracle (exactly the statement):
 *   - no fault, no guard-page hit, same answer wherever the buffer lies   [reads only the supplied bytes]
 *   - the result r is  r < 0,  or  r > sz and the reference parser says the header does not
 *     end inside the sz bytes,  or  0 <= r <= sz, r == reference length, r >= 44
 *   - no proper prefix (shorter than the accepted length) of an accepted header is accepted
 *   - rf_wavheader_validate / get_format / tostring return without a fault on whatever
 *     structure the call left behind (accepted, incomplete or rejected alike).
 *   - the same length contract when the library has been used before: every deviating header,
 *     at full length, is decoded, then its template at the same address and length, then the
 *     header again, without a reset of the library's statics in between (c14_call_history).
 * For headers whose length the statement does not define (fmt size < 16, 17 or odd;
 * cb_size 22 inside a fmt chunk that is not 40 bytes; a fact chunk whose size field is
 * not 4) only memory safety, r >= 44, the truncation clause and the helper clause are
 * enforced; a length disagreement is a note.
 * Whether the decoder accepts or rejects is left free: a negative result is always allowed.
 *
 * The librfn sources are linked as objects of their own (lib= in bin/checks.d/C14.py): only
 * the public header is included here, and every static the library might keep is put back
 * to its start-up image before every decode (vx_lib_reset).
 * A call that does not return within a watchdog period is a violation of its own; after
 * W_MAXHANGS of them the worker stops and hands in everything found so far (wav_common.h).
 */
#include "vx.h"
#include <limits.h>
#include <stdio_ext.h>

#include <librfn/time.h>
#include <librfn/wavheader.h>

uint32_t time_now(void) { return 0; }	/* referenced by util.c (ratelimit_check), never called here */

/* one period of the watchdog: a call is called endless when it is still running after one to two periods (a loop of 2^32
 * trivial iterations ends well inside that) */
#define C14_WATCHDOG_S 4.0

#include "wav_common.h"

static vx_set seen_obs, seen_inputs;
static int replaying, slen, maxdev;

static int owns_template;
static int sampled;	/* one sample per worker, so that the 24 samples kept by the driver show every family: the template this
			 * worker owns, else (even workers) its first multi-deviation case or (odd workers) a big header */
static char *cur_rp;
static const char *case_rp(const w_case *c) { if (!cur_rp) cur_rp = w_case_replay(c); return cur_rp; }

static const char *hexof(const uint8_t *b, int n)
{
	static char s[2 * W_BUFMAX + 1];
	for (int i = 0; i < n; i++) snprintf(s + 2 * i, 3, "%02x", b[i]);
	s[2 * n] = 0;
	return s;
}

/* 0 = returned (*ret), 1 = faulted (vx_fault_msg) */
static int do_decode(const uint8_t *src, int t, int right, int *ret)
{
	const uint8_t *p = w_place(src, t, right);
	memset(w_wh, 0xa5, sizeof(*w_wh));
	vx_lib_reset();
	if (VX_TRY) { *ret = rf_wavheader_decode(p, (unsigned)t, w_wh); VX_END; return 0; }
	VX_END;
	w_after_fault();
	return 1;
}

static void helper_fault(const w_case *c, int t, int ret, int accepted, const char *helper)
{
	char key[400], ct[400];
	snprintf(key, sizeof(key), "helper-fault|%s|%s|decode=%s", helper, vx_fault_msg, accepted ? "accepted" : "not-accepted");
	snprintf(ct, sizeof(ct), "%s|sz=%d|ret=%d", c->desc, t, ret);
	w_report(key, ct, case_rp(c),
		 "%s() faults (%s) on the structure left by rf_wavheader_decode(%d bytes) = %d; input %s; block_align=%u data_chunk_size=%u audio_format=%u",
		 helper, vx_fault_msg, t, ret, hexof(c->buf, t), w_wh->block_align, w_wh->data_chunk_size, w_wh->audio_format);
}

static void run_helpers(const w_case *c, int t, int ret, int accepted)
{
	char *volatile s = NULL;
	W_COUNT("helper_runs", 1);
	if (VX_TRY) { (void)rf_wavheader_validate(w_wh); VX_END; } else { VX_END; w_after_fault(); helper_fault(c, t, ret, accepted, "rf_wavheader_validate"); }
	if (w_hang_abort) return;
	if (VX_TRY) { (void)rf_wavheader_get_format(w_wh); VX_END; } else { VX_END; w_after_fault(); helper_fault(c, t, ret, accepted, "rf_wavheader_get_format"); }
	if (w_hang_abort) return;
	if (VX_TRY) { s = rf_wavheader_tostring(w_wh); VX_END; } else { VX_END; w_after_fault(); helper_fault(c, t, ret, accepted, "rf_wavheader_tostring"); }
	free(s);
}

static void run_helpers_big(const char *ct, const char *rp, uint64_t t, int ret, int accepted)
{
	char *volatile s = NULL; char key[400];
	const char *bad = NULL;
	W_COUNT("helper_runs", 1);
	if (VX_TRY) { (void)rf_wavheader_validate(w_wh); VX_END; } else { VX_END; w_after_fault(); bad = "rf_wavheader_validate"; }
	if (!bad) { if (VX_TRY) { (void)rf_wavheader_get_format(w_wh); VX_END; } else { VX_END; w_after_fault(); bad = "rf_wavheader_get_format"; } }
	if (!bad) { if (VX_TRY) { s = rf_wavheader_tostring(w_wh); VX_END; } else { VX_END; w_after_fault(); bad = "rf_wavheader_tostring"; } }
	free(s);
	if (bad) {
		snprintf(key, sizeof(key), "helper-fault|%s|%s|decode=%s", bad, vx_fault_msg, accepted ? "accepted" : "not-accepted");
		w_report(key, ct, rp, "%s() faults (%s) on the structure left by rf_wavheader_decode(%llu bytes) = %d", bad, vx_fault_msg, (unsigned long long)t, ret);
	}
}

/* big headers (wav_common.h): length contract and truncation clause for headers of up to 16 MiB */
static void c14_big(const w_bigcase *c)
{
	char ct[200], key[300];
	w_big_setup();
	uint64_t n = w_big_build(c, w_big_img);
	char *rp = w_big_replay(c);
	w_ref ref; w_ref_parse(w_big_img, n, &ref);
	/* the full input, then truncation points around every boundary of the layout */
	uint64_t hl = ref.len, e = 38 + (uint64_t)c->ext, pts[20]; int np = 0;
	pts[np++] = n;
	const uint64_t cand[] = { 0, 19, 20, 37, 38, 39, 38 + (uint64_t)c->ext / 2, e - 1, e, e + 1, e + 4, e + 8, e + 12, hl - 9, hl - 8, hl - 4, hl - 1, hl };
	for (unsigned i = 0; i < sizeof(cand) / sizeof(cand[0]); i++) {
		int dup = 0;
		if (cand[i] > n) continue;
		for (int j = 0; j < np; j++) if (pts[j] == cand[i]) dup = 1;
		if (!dup) pts[np++] = cand[i];
	}
	snprintf(ct, sizeof(ct), "big-header|fmt-extension=%u", c->ext);
	W_COUNT("big_headers", 1);
	for (int k = 0; k < np && !w_hang_abort; k++) {
		uint64_t t = pts[k];
		uint8_t *p = w_big_in_end - t;
		int ret = 0;
		memcpy(p, w_big_img, t);
		memset(w_wh, 0xa5, sizeof(*w_wh));
		W_COUNT("evaluations", 1); W_COUNT("big_header_decodes", 1);
		vx_lib_reset();
		if (VX_TRY) { ret = rf_wavheader_decode(p, (unsigned)t, w_wh); VX_END; }
		else {
			VX_END; w_after_fault();
			snprintf(key, sizeof(key), "decode-fault|%s|buffer ends at guard page", vx_fault_msg);
			w_report(key, ct, rp, "rf_wavheader_decode faults (%s) on the first %llu bytes of a %llu-byte header with a %u-byte fmt extension", vx_fault_msg,
				 (unsigned long long)t, (unsigned long long)hl, c->ext);
			continue;
		}
		int accepted = ret >= 0 && (uint64_t)ret <= t;
		W_COUNT(accepted ? "outcome_accepted" : ret < 0 ? "outcome_negative" : "outcome_incomplete", 1);
		if (!w_silent && !replaying) {
			vx_hasher h; vx_h_init(&h); vx_h_u64(&h, 0xb16); vx_h_u64(&h, c->ext); vx_h_u64(&h, c->cb); vx_h_u64(&h, c->af); vx_h_u64(&h, (uint64_t)(c->fact * 4 + c->trail)); vx_h_u64(&h, t);
			if (vx_set_add(&seen_inputs, vx_h_done(&h))) vx_count("distinct", 1);
			if (t == n && !sampled && (vx_args.worker & 1) && c->ext >= 65536 && (sampled = 1))
				vx_sample("%s cb=%u af=%u fact=%d sz=%llu -> %d (reference: length %llu)", ct, c->cb, c->af, c->fact, (unsigned long long)t, ret, (unsigned long long)hl);
		}
		if (accepted && t < hl)
			w_report("truncation", ct, rp, "the first %llu bytes of a %llu-byte header (fmt extension of %u bytes) are accepted with length %d",
				 (unsigned long long)t, (unsigned long long)hl, c->ext, ret);
		else if (accepted && ret < RF_WAVHEADER_MIN_SIZE)
			w_report("min-size", ct, rp, "rf_wavheader_decode(%llu bytes) = %d: success with a header length below 44 (fmt extension of %u bytes)", (unsigned long long)t, ret, c->ext);
		else if (accepted && (uint64_t)ret != hl)
			w_report("length-mismatch", ct, rp, "rf_wavheader_decode(%llu bytes) = %d but the header occupies %llu bytes (fmt extension of %u bytes)",
				 (unsigned long long)t, ret, (unsigned long long)hl, c->ext);
		else if (!accepted && (uint64_t)(int64_t)ret > t && ret > 0 && t >= hl)
			w_report("complete-reported-incomplete", ct, rp, "rf_wavheader_decode(%llu bytes) = %d (> sz) although the complete %llu-byte header was supplied (fmt extension of %u bytes)",
				 (unsigned long long)t, ret, (unsigned long long)hl, c->ext);
		run_helpers_big(ct, rp, t, ret, accepted);
	}
	free(rp);
}

/* the length contract of the statement for one result; hist = "" for a call on the library's start-up state, else the name of
 * the call history that preceded it (part of the class key) */
static void c14_judge_as(const w_case *c, const w_case *rc /* the case whose replay text reproduces the call */, int t, int ret, const char *hist)
{
	char ct[400], key[96]; w_ref ref;
	int accepted = ret >= 0 && ret <= t;
	w_ref_parse(c->buf, (uint64_t)t, &ref);
	snprintf(ct, sizeof(ct), "%s|sz=%d|ret=%d", c->desc, t, ret);
#define C14_KEY(k) (snprintf(key, sizeof(key), "%s%s", k, hist), key)
	if (accepted) {
		if (ret < RF_WAVHEADER_MIN_SIZE)
			w_report(C14_KEY("min-size"), ct, case_rp(rc),
				 "rf_wavheader_decode(%d bytes) = %d: reported as success (0 <= r <= sz) with a header length below RF_WAVHEADER_MIN_SIZE (%d); "
				 "fmt_chunk_size=0x%x; reference: %s; input %s", t, ret, (int)RF_WAVHEADER_MIN_SIZE, ref.fmt_size,
				 ref.complete ? "complete" : "header does not end inside the supplied bytes", hexof(c->buf, t));
		else if (!ref.consistent) {
			if (!*hist) W_COUNT("inconsistent_headers_accepted", 1);
			if (!*hist && (!ref.complete || ref.len != (uint64_t)ret)) {
				W_COUNT("inconsistent_headers_length_disagrees", 1);
				vx_note("accepted headers whose length the statement leaves undefined disagree with the reference grammar (not enforced, see counter inconsistent_headers_length_disagrees)");
			}
		} else if (!ref.complete)
			w_report(C14_KEY("incomplete-accepted"), ct, case_rp(rc),
				 "rf_wavheader_decode(%d bytes) = %d: success although the header does not end inside the supplied bytes (reference length %llu); input %s",
				 t, ret, (unsigned long long)ref.len, hexof(c->buf, t));
		else if (ref.len != (uint64_t)ret)
			w_report(C14_KEY("length-mismatch"), ct, case_rp(rc),
				 "rf_wavheader_decode(%d bytes) = %d but the header occupies %llu bytes; input %s",
				 t, ret, (unsigned long long)ref.len, hexof(c->buf, t));
	} else if (ret > t) {
		if (ref.consistent && ref.complete)
			w_report(C14_KEY("complete-reported-incomplete"), ct, case_rp(rc),
				 "rf_wavheader_decode(%d bytes) = %d (> sz) although the complete %llu-byte header was supplied; input %s",
				 t, ret, (unsigned long long)ref.len, hexof(c->buf, t));
	}
#undef C14_KEY
}
static void c14_judge(const w_case *c, int t, int ret, const char *hist) { c14_judge_as(c, c, t, ret, hist); }

/* "For every byte string": also when the library has decoded something else before. Call history of length three on the
 * library state the first decode left behind (no reset): the case's template at the same address and the same length, then
 * the case's own input again; each result is held against the same contract. A decoder that remembers its last call by
 * address and size, or keeps a cursor from one call to the next, shows here - inside one replayable case. */
static void c14_call_history(const w_case *c, int t)
{
	char key[400], ct[400];
	const uint8_t *other = w_tmpl[c->tmpl].bytes;
	w_case oc;
	for (int pass = 0; pass < 2; pass++) {
		const uint8_t *src = pass == 0 ? other : c->buf;
		const uint8_t *p = w_place(src, t, 1);
		int ret = 0;
		memset(w_wh, 0xa5, sizeof(*w_wh));
		W_COUNT("call_history_decodes", 1);
		if (VX_TRY) { ret = rf_wavheader_decode(p, (unsigned)t, w_wh); VX_END; }
		else {
			VX_END; w_after_fault();
			snprintf(key, sizeof(key), "decode-fault|%s|after another decode call", vx_fault_msg);
			snprintf(ct, sizeof(ct), "%s|sz=%d|call=%d", c->desc, t, pass + 2);
			w_report(key, ct, case_rp(c), "rf_wavheader_decode faults (%s) on %d bytes %s when it is call number %d on the same buffer", vx_fault_msg, t, hexof(src, t), pass + 2);
			return;
		}
		if (pass == 0) {	/* judged as the input it is: the template's bytes */
			oc = *c; memcpy(oc.buf, other, (size_t)c->n);
			snprintf(oc.desc, sizeof(oc.desc), "%.200s:then-template", c->desc);
			c14_judge_as(&oc, c, t, ret, "|second-call");
		} else c14_judge(c, t, ret, "|third-call");
	}
}

/* results of the prefixes a case shares with its parent (the case without the last deviation): the same bytes at the same
 * length are an input of the parent and are judged there; the truncation clause of THIS case still needs to know whether
 * they were accepted. The parent's prefixes are decoded once per parent (the deviating fields of its children come in
 * ascending order, so the known range only grows). */
static struct { int valid, tmpl, nd, fld[W_MAXDEV], alt[W_MAXDEV], high; int rets[W_BUFMAX + 1]; uint8_t acc[W_BUFMAX + 1]; } c14_pc;

static int c14_pc_matches(const w_case *c)
{
	if (!c14_pc.valid || c->nd < 1 || c14_pc.tmpl != c->tmpl || c14_pc.nd != c->nd - 1) return 0;
	for (int i = 0; i < c->nd - 1; i++) if (c14_pc.fld[i] != c->fld[i] || c14_pc.alt[i] != c->alt[i]) return 0;
	return 1;
}

static void c14_case(const w_case *c)
{
	static int rets[W_BUFMAX + 1]; static uint8_t acc[W_BUFMAX + 1];
	char ct[400], key[400];
	int rmax = -1, rmax_at = -1;

	if (w_hang_abort) return;
	free(cur_rp); cur_rp = NULL;
	W_COUNT("cases", 1);
	if (c->tmpl < 0) W_COUNT("cases_byte_strings", 1);
	else if (c->nd >= 0) { snprintf(key, sizeof(key), "cases_headers_%d_deviations", c->nd); W_COUNT(key, 1); }

	/* ---- prefixes owned by the parent case: result only */
	if (c->tdup >= c->tmin) {
		if (!c14_pc_matches(c)) {
			c14_pc.valid = c->nd >= 1; c14_pc.tmpl = c->tmpl; c14_pc.nd = c->nd - 1; c14_pc.high = -1;
			for (int i = 0; i < c->nd - 1; i++) { c14_pc.fld[i] = c->fld[i]; c14_pc.alt[i] = c->alt[i]; }
		}
		for (int t = c->tmin; t <= c->tdup && t <= c->n && !w_hang_abort; t++) {
			if (t > c14_pc.high || c->tmin > 0) {
				int ret = 0;
				W_COUNT("prefix_decodes_for_the_truncation_clause", 1);
				if (do_decode(c->buf, t, 1, &ret)) { c14_pc.rets[t] = INT_MIN; c14_pc.acc[t] = 0; }
				else { c14_pc.rets[t] = ret; c14_pc.acc[t] = (uint8_t)(ret >= 0 && ret <= t); }
				if (c->tmin == 0) c14_pc.high = t;
			}
			rets[t] = c14_pc.rets[t]; acc[t] = c14_pc.acc[t];
		}
	}

	for (int t = (c->tdup + 1 > c->tmin ? c->tdup + 1 : c->tmin); t <= c->n && !w_hang_abort; t++) {
		int ret = 0; w_ref ref;
		acc[t] = 0; rets[t] = INT_MIN;
		W_COUNT("evaluations", 1);
		if (do_decode(c->buf, t, 1, &ret)) {
			snprintf(key, sizeof(key), "decode-fault|%s|buffer ends at guard page", vx_fault_msg);
			snprintf(ct, sizeof(ct), "%s|sz=%d", c->desc, t);
			w_report(key, ct, case_rp(c), "rf_wavheader_decode faults (%s) on %d bytes %s", vx_fault_msg, t, hexof(c->buf, t));
			continue;
		}
		rets[t] = ret;
		int accepted = ret >= 0 && ret <= t;
		acc[t] = (uint8_t)accepted;
		if (accepted && ret > rmax) { rmax = ret; rmax_at = t; }
		W_COUNT(accepted ? "outcome_accepted" : ret < 0 ? "outcome_negative" : "outcome_incomplete", 1);
		w_ref_parse(c->buf, (uint64_t)t, &ref);
		snprintf(ct, sizeof(ct), "%s|sz=%d|ret=%d", c->desc, t, ret);

		if (!w_silent && !replaying) {
			if (c->tmpl < 0 || (t > slen && w_owns(c, t))) {
				vx_hasher h; vx_h_init(&h); vx_h_u64(&h, (uint64_t)(c->tmpl + 1)); vx_h_u64(&h, (uint64_t)t);
				vx_h_bytes(&h, c->buf, (size_t)t);
				if (vx_set_add(&seen_inputs, vx_h_done(&h))) vx_count("distinct", 1);
			}
			if (t == c->n && c->tmpl >= 0 && !sampled && (c->nd == 0 || (c->nd >= 2 && !(vx_args.worker & 1) && !owns_template)) && (sampled = 1))
				vx_sample("%s sz=%d -> %d (reference: %s%llu%s)", c->desc, t, ret, ref.complete ? "length " : "incomplete/",
					  (unsigned long long)ref.len, ref.consistent ? "" : ", length not defined by the statement");
		}

		/* ---- the length contract */
		c14_judge(c, t, ret, "");

		/* ---- helpers on whatever structure came out (once per distinct observation) */
		int fresh = 1;
		if (!w_silent && !replaying) {
			vx_hasher h; vx_h_init(&h); vx_h_bytes(&h, w_wh, sizeof(*w_wh)); vx_h_u64(&h, (uint64_t)accepted);
			fresh = vx_set_add(&seen_obs, vx_h_done(&h));
			if (fresh) vx_count("distinct_observations", 1);
		}
		if (fresh) run_helpers(c, t, ret, accepted);
		if (w_hang_abort) break;

		/* ---- second placement: the buffer starts right after a PROT_NONE page */
		if (t == c->n || vx_thorough()) {
			rf_wavheader_t first = *w_wh; int ret2 = 0;
			W_COUNT("evaluations_start_guarded", 1);
			if (do_decode(c->buf, t, 0, &ret2)) {
				snprintf(key, sizeof(key), "decode-fault|%s|buffer starts at guard page", vx_fault_msg);
				w_report(key, ct, case_rp(c), "rf_wavheader_decode faults (%s) on %d bytes %s", vx_fault_msg, t, hexof(c->buf, t));
			} else if (ret2 != ret || memcmp(&first, w_wh, sizeof(first)))
				w_report("placement-dependent", ct, case_rp(c),
					 "rf_wavheader_decode of the same %d bytes gives %d at one address and %d at another: it depends on memory outside the supplied bytes; input %s",
					 t, ret, ret2, hexof(c->buf, t));
		}
	}
	if (w_hang_abort) return;

	/* ---- the same contract when the library has been used before (full length, headers that deviate from their template) */
	if (c->tmpl >= 0 && c->nd != 0 && rets[c->n] != INT_MIN) {
		int ret = 0;
		if (!do_decode(c->buf, c->n, 1, &ret)) c14_call_history(c, c->n);	/* do_decode: reset, then call number one */
		if (w_hang_abort) return;
	}

	/* ---- truncating an accepted header never yields success (the accepted header is one of this case's own inputs) */
	for (int t = c->tmin; t <= c->n && t < rmax; t++)
		if (acc[t]) {
			snprintf(ct, sizeof(ct), "%s|sz=%d|ret=%d|full=%d", c->desc, t, rets[t], rmax);
			w_report("truncation", ct, case_rp(c),
				 "a header accepted with length %d (from %d bytes) is also accepted (= %d) when only its first %d bytes are supplied; input %s",
				 rmax, rmax_at, rets[t], t, hexof(c->buf, c->n));
		}
}

int main(int argc, char **argv)
{
	vx_init(argc, argv);
	vx_install_handlers();
	vx_watchdog(C14_WATCHDOG_S);
	__fsetlocking(stdout, FSETLOCKING_BYCALLER); __fsetlocking(stderr, FSETLOCKING_BYCALLER);	/* a fault inside stdio must not leave a lock behind */
	w_setup_templates();
	w_setup_guards();
	slen = vx_thorough() ? 3 : 2;
	maxdev = vx_thorough() ? 3 : 2;

	char *rp = vx_read_replay();
	if (rp) {
		w_case c; w_bigcase bc;
		replaying = 1;
		if (!w_big_parse(rp, &bc)) { c14_big(&bc); vx_finish(); return 0; }
		if (w_case_parse(rp, &c)) { fprintf(stderr, "c14: malformed replay file\n"); return 3; }
		c14_case(&c);
		vx_finish();
		return 0;
	}
	vx_set_init(&seen_obs, 16);
	vx_set_init(&seen_inputs, 16);
	for (int t = 0; t < w_ntmpl; t++) if (vx_mine((uint64_t)t)) owns_template = 1;

	/* common silent part: every worker learns the same first case of each violation class */
	w_silent = 1;
	w_enum_strings(0, c14_case, 0); w_enum_strings(1, c14_case, 0);
	w_enum_headers(0, c14_case, 0); w_enum_headers(1, c14_case, 0);
	w_silent = 0;

	int done_dev = -1, done_len = -1;
	for (int l = 0; l <= slen && !w_stop; l++) { w_enum_strings(l, c14_case, 1); if (!w_stop) done_len = l; }
	for (int d = 0; d <= maxdev && !w_stop; d++) { w_enum_headers(d, c14_case, 1); if (!w_stop) done_dev = d; }
	for (int i = 0; i < W_NBIG && !w_stop; i++) {
		w_bigcase bc;
		if (!vx_mine((uint64_t)i)) continue;
		w_big_get(i, &bc); c14_big(&bc);
		if (vx_deadline_passed()) w_stop = 1;
	}
	w_hang_epilogue();

	vx_and("exhaustive", !w_stop);
	vx_min("string_length_bound_completed", (uint64_t)(done_len < 0 ? 0 : done_len));
	vx_min("deviation_bound_completed", (uint64_t)(done_dev < 0 ? 0 : done_dev));
	vx_count("header_templates", (uint64_t)(vx_args.worker == 0 ? w_ntmpl : 0));
	vx_count("scope_guard_skips", 0);	/* the quantifier has no scope guard: every byte string is a legal input */
	if (w_stop && !w_hang_abort) vx_note("deadline reached before the stated space was enumerated; see *_bound_completed");
	vx_finish();
	return 0;
}

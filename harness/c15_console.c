/*
 * C15 - console line editing, tokenising and dispatch.
 *
 * This file is compiled twice.
 *
 * (1) With -DC15_SHIM, as one of the part's `lib=` objects: console.c itself plus two accessors for its static command
 *     table. Nothing else of the harness shares that translation unit (the accessors carry the c15_ prefix), and the
 *     driver renames its writable sections, so EVERY static of console.c - the command table, the function-scope statics
 *     of the help command, anything a change adds - is part of the image that vx_lib_save / vx_lib_restore / vx_bfs_run
 *     snapshot, hash and reset. list.c, messageq.c, ringbuf.c, fibre.c and util.c are plain `lib=` objects. All of them
 *     are built with -finstrument-functions: the entry hook below tells when one of the library's own (built-in)
 *     commands runs, without looking at what it prints.
 * (2) Without it: the harness. It includes public headers only.
 *
 * Part A (explicit-state BFS): every character stream over two reduced alphabets, delivered one character at a time with
 *   console_process, from the empty line and from lines pre-filled to just below the capacity of the line buffer;
 *   state = the real console_t + a reference line editor (+ the library image).
 * Part B (bounded-exhaustive stream families): whole streams delivered through console_process, console_putchar +
 *   scheduler passes (per character and in bursts) and console_eval running in a fibre.
 * Part E: several console_eval calls, one after the other, on the same console (including the empty string).
 * Part C: registration orders, capacity and beyond, judged by which command a typed name runs.
 *
 * Every size is derived from the library's own types: the line buffer is sizeof(console_t.scratch.buf), a line holds one
 * character less, the table has c15_shim_table_slots() slots.
 */
#ifdef C15_SHIM

#include "console.c"

const console_cmd_t **c15_shim_table(void) { return cmd_table; }
size_t c15_shim_table_slots(void) { return lengthof(cmd_table); }

#else /* ------------------------------------------------------------------------------------------------ the harness */

#include "vx.h"

#include <stdio_ext.h>

#include <librfn/console.h>
#include <librfn/fibre.h>
#include <librfn/ringbuf.h>
#include <librfn/util.h>

extern const console_cmd_t **c15_shim_table(void);
extern size_t c15_shim_table_slots(void);

uint32_t time_now(void) { return 0; }
void console_hwinit(console_t *c) { (void)c; }

#define C15_LINESZ ((int)sizeof(((console_t *)0)->scratch.buf))	/* the line buffer */
#define C15_CAP (C15_LINESZ - 1)					/* characters a line can hold in front of its NUL */
#define C15_SCRATCHSZ ((int)sizeof(((console_t *)0)->scratch))		/* the union the line buffer is a member of */
#define C15_MAXARG 4							/* "at most four arguments" (the statement) */
#define C15_ARGV_SLOTS ((int)lengthof(((console_t *)0)->argv))
#define C15_RINGSZ ((int)sizeof(((console_t *)0)->ringbuf))

/* ------------------------------------------------------------ output sink
 * A cookie stream with caller-side locking and a buffer of its own: a fault or a watchdog longjmp out of stdio leaves no
 * lock held and no malloc in flight; after a fault the stream is abandoned and a new one is made. */
static FILE *c15_sink;
static uint64_t c15_out_bytes;
static console_t *c15_con;
static ssize_t c15_sink_write(void *cookie, const char *buf, size_t n) { (void)cookie; (void)buf; c15_out_bytes += n; return (ssize_t)n; }
static void c15_new_sink(void)
{
	cookie_io_functions_t io = { .read = NULL, .write = c15_sink_write, .seek = NULL, .close = NULL };
	char *b = malloc(4096);
	c15_sink = fopencookie(NULL, "w", io);
	if (!c15_sink || !b) { fprintf(stderr, "c15: no sink\n"); _exit(3); }
	__fsetlocking(c15_sink, FSETLOCKING_BYCALLER);
	setvbuf(c15_sink, b, _IOFBF, 4096);
	if (c15_con) c15_con->out = c15_sink;
}

/* ------------------------------------------------------------ which built-in command ran
 * entry hook of -finstrument-functions (library objects only; the harness itself is not instrumented) */
#define C15_MAXBUILTIN 32
static void *c15_builtin_fn[C15_MAXBUILTIN]; static const char *c15_builtin_name[C15_MAXBUILTIN]; static int c15_nbuiltin;
static volatile uint64_t c15_builtin_hits;	/* bit j: built-in j was entered */
static uint64_t c15_builtin_entries;
void __cyg_profile_func_enter(void *fn, void *site)
{
	(void)site;
	for (int j = 0; j < c15_nbuiltin; j++) if (fn == c15_builtin_fn[j]) { c15_builtin_hits |= 1ull << j; c15_builtin_entries++; }
}
void __cyg_profile_func_exit(void *fn, void *site) { (void)fn; (void)site; }
/* the library objects are built with -fstack-protector-all: a local buffer of the library that is overrun is reported when the
 * function returns, before a smashed return address is used (what a jump through one does depends on the address-space layout) */
void __stack_chk_fail(void)
{
	snprintf(vx_fault_msg, sizeof(vx_fault_msg), "stack smashing detected (a local buffer of the library was overrun)");
	if (vx_armed) { vx_fault_kind = SIGABRT; siglongjmp(vx_jb, 1); }
	static const char m[] = "c15: stack smashing detected outside VX_TRY\n";
	if (write(2, m, sizeof(m) - 1)) {}
	_exit(5);
}

/* ------------------------------------------------------------ poison behind the line buffer
 * The bytes of the scratch union that lie behind scratch.buf (none where buf is the largest member). */
static int c15_poison_armed;
static inline uint8_t c15_poison_byte(int i) { return (uint8_t)(0x80 | ((i * 37 + 11) & 0x7f)); }
static void c15_poison_tail(console_t *c)
{
	volatile uint8_t *raw = (volatile uint8_t *)&c->scratch;
	for (int i = C15_LINESZ; i < C15_SCRATCHSZ; i++) raw[i] = c15_poison_byte(i);
}
/* 0: poison intact, 1: wiped to zero, 2: anything else */
static int c15_tail_state(console_t *c)
{
	const volatile uint8_t *raw = (const volatile uint8_t *)&c->scratch;
	int p = 1, z = 1;
	for (int i = C15_LINESZ; i < C15_SCRATCHSZ; i++) { if (raw[i] != c15_poison_byte(i)) p = 0; if (raw[i]) z = 0; }
	return p ? 0 : z ? 1 : 2;
}

/* ------------------------------------------------------------ capture */
typedef struct { int16_t cmd; int16_t argc; int8_t bad; const console_cmd_t *desc; char argv[C15_MAXARG][C15_LINESZ + 1]; } c15_inv_t;
#define C15_MAXINV 600
static c15_inv_t c15_invs[C15_MAXINV]; static int c15_ninv;

static pt_state_t c15_capture(console_t *c, int which)
{
	if (c15_ninv < C15_MAXINV) {
		c15_inv_t *v = &c15_invs[c15_ninv];
		memset(v, 0, sizeof(*v));
		v->cmd = (int16_t)which; v->argc = (int16_t)(c->argc < -1 ? -1 : c->argc > 1000 ? 1000 : c->argc);
		v->desc = c->cmd;
		if (c->argc < 1 || c->argc > C15_MAXARG) v->bad = 1;
		int n = c->argc; if (n > C15_MAXARG) n = C15_MAXARG; if (n > C15_ARGV_SLOTS) n = C15_ARGV_SLOTS;
		/* only the arguments actually passed are judged: NUL-terminated strings inside the line buffer */
		for (int i = 0; i < n; i++) {
			uintptr_t p = (uintptr_t)c->argv[i], lo = (uintptr_t)c->scratch.buf;
			if (p < lo || p > lo + (uintptr_t)C15_CAP) { v->bad = 2; continue; }
			size_t room = (size_t)(lo + (uintptr_t)C15_LINESZ - p);
			size_t l = strnlen(c->argv[i], room);
			if (l == room) { v->bad = 3; continue; }
			memcpy(v->argv[i], c->argv[i], l); v->argv[i][l] = 0;
		}
		/* nothing behind the line buffer was written while the line was typed, edited and tokenised */
		if (c15_poison_armed && C15_SCRATCHSZ > C15_LINESZ && c15_tail_state(c) != 0 && !v->bad) v->bad = 4;
	}
	c15_ninv++;
	return PT_EXITED;
}
static const char *c15_bad_text(int bad)
{
	return bad == 1 ? "argc outside 1..4" : bad == 2 ? "an argv pointer outside the line buffer" :
	       bad == 3 ? "an argv string that is not NUL-terminated inside the line buffer" : "bytes behind the line buffer overwritten before the command ran";
}
static const char *c15_bad_clause(int bad) { return bad == 4 ? "write-outside-line-buffer" : "argv-unsafe"; }

static pt_state_t c15_cmd_a_fn(console_t *c) { return c15_capture(c, 0); }
static pt_state_t c15_cmd_b_fn(console_t *c) { return c15_capture(c, 2); }
static pt_state_t c15_cmd_ab_fn(console_t *c)
{
	/* yields twice before it looks at its arguments and exits */
	PT_BEGIN(&c->pt);
	PT_YIELD();
	PT_YIELD();
	c15_capture(c, 1);
	/* like the library's own udelay/pulse commands it then keeps state in the scratch area (the documented
	 * use: "commands must parse their command line before storing state in the scratch buffers") */
	c->scratch.u32[0] = 0x41424344; c->scratch.u32[1] = 0x45464748; c->scratch.u32[5] = 0x61626364;
	PT_YIELD();
	PT_END();
}
/* two names longer than a pointer that share their first 8 and 9 characters: lookups must compare whole names */
static pt_state_t c15_cmd_l1_fn(console_t *c) { return c15_capture(c, 3); }
static pt_state_t c15_cmd_l2_fn(console_t *c) { return c15_capture(c, 4); }
/* a name with an upper-case letter whose lower-case spelling is another command, and names made of the first and the last
 * printable character (they sort in front of and behind everything else in the table) */
static pt_state_t c15_cmd_uc_fn(console_t *c) { return c15_capture(c, 5); }
static pt_state_t c15_cmd_lo_fn(console_t *c) { return c15_capture(c, 6); }
static pt_state_t c15_cmd_hi_fn(console_t *c) { return c15_capture(c, 7); }
#define C15_NCMD 8
static const char *c15_cmdname[C15_NCMD] = { "a", "ab", "b", "abababab", "ababababa", "Ab", "!~", "~!" };
static const console_cmd_t c15_cmds[C15_NCMD] = {
	CONSOLE_CMD_VAR_INIT("a", c15_cmd_a_fn), CONSOLE_CMD_VAR_INIT("ab", c15_cmd_ab_fn), CONSOLE_CMD_VAR_INIT("b", c15_cmd_b_fn),
	CONSOLE_CMD_VAR_INIT("abababab", c15_cmd_l1_fn), CONSOLE_CMD_VAR_INIT("ababababa", c15_cmd_l2_fn),
	CONSOLE_CMD_VAR_INIT("Ab", c15_cmd_uc_fn), CONSOLE_CMD_VAR_INIT("!~", c15_cmd_lo_fn), CONSOLE_CMD_VAR_INIT("~!", c15_cmd_hi_fn),
};
/* registration order of the working table (not the sorted order) */
static const int c15_reg_order[C15_NCMD] = { 0, 7, 1, 5, 2, 4, 6, 3 };
static uint8_t c15_cmd_registered[C15_NCMD];	/* a table too small for all eight holds the first ones of the order above */

/* ------------------------------------------------------------ library images (command table + every other static) */
static void *c15_img_work;	/* built-ins + the eight commands above */
static void c15_fresh_from(const void *image);
#define C15_BUILTIN_BASE 100	/* expect.cmd of built-in j */

/* ------------------------------------------------------------ the reference */
typedef struct { char line[C15_LINESZ + 1]; int16_t len; uint8_t owed, limbo; } c15_model_t;
typedef struct { int cmd; int argc; char argv[C15_MAXARG][C15_LINESZ + 1]; int unspecified; } c15_expect_t;

/* what the statement defines: split on unquoted white space; a token that starts with ' or " runs to the
 * matching quote. Everything else (leading blanks, quote inside a word, unterminated or empty quote, text glued
 * to a closing quote, more than four tokens) is left open by the statement: flagged unspecified. */
static void c15_reference_tokenize(const char *line, c15_expect_t *e)
{
	memset(e, 0, sizeof(*e)); e->cmd = -1;
	int n = (int)strlen(line), i = 0, ntok = 0;
	if (n && (line[0] == ' ' || line[0] == '\t')) e->unspecified = 1;
	if (n && (line[0] == '\'' || line[0] == '"')) e->unspecified = 1;	/* a quoted command name */
	while (i < n) {
		if (line[i] == ' ' || line[i] == '\t') { i++; continue; }
		char tok[C15_LINESZ + 1]; int t = 0;
		if (line[i] == '\'' || line[i] == '"') {
			if (ntok == C15_MAXARG - 1) e->unspecified = 1;	/* a quoted fourth token: see below */
			char q = line[i++]; int closed = 0;
			while (i < n) { if (line[i] == q) { closed = 1; i++; break; } tok[t++] = line[i++]; }
			if (!closed || t == 0) e->unspecified = 1;
			if (i < n && line[i] != ' ' && line[i] != '\t') e->unspecified = 1;
		} else {
			while (i < n && line[i] != ' ' && line[i] != '\t') { if (line[i] == '\'' || line[i] == '"') e->unspecified = 1; tok[t++] = line[i++]; }
		}
		tok[t] = 0;
		if (ntok < C15_MAXARG) memcpy(e->argv[ntok], tok, (size_t)t + 1);
		ntok++;
		/* the fourth token is the last one the console can hand over; whether it also takes the rest of the
		 * line (further tokens, or just trailing blanks) is not said */
		if (ntok == C15_MAXARG && i < n) e->unspecified = 1;
	}
	if (ntok > C15_MAXARG) e->unspecified = 1;
	e->argc = ntok > C15_MAXARG ? C15_MAXARG : ntok;
	if (ntok) {
		for (int k = 0; k < C15_NCMD; k++) if (c15_cmd_registered[k] && !strcmp(e->argv[0], c15_cmdname[k])) e->cmd = k;
		for (int j = 0; j < c15_nbuiltin; j++) if (!strcmp(e->argv[0], c15_builtin_name[j])) e->cmd = C15_BUILTIN_BASE + j;
	}
}
static int c15_is_known_name(const char *s)
{
	for (int k = 0; k < C15_NCMD; k++) if (c15_cmd_registered[k] && !strcmp(s, c15_cmdname[k])) return 1;
	for (int j = 0; j < c15_nbuiltin; j++) if (!strcmp(s, c15_builtin_name[j])) return 1;
	return 0;
}

/* the reference line editor. Returns 0: no line completes; 1: `completed` is a line that this character completes;
 * 2: this character has filled the buffer - the line in the model completes now or with the next character (the
 * statement says "the buffer filling", not when), the caller decides from what it observes and sets `owed`;
 * 3: a line completes whose content the statement does not determine */
static int c15_model_char(c15_model_t *m, char ch, char *completed)
{
	if (m->owed) {
		/* a full line that was not dispatched when its last character was stored: whatever comes next completes it. What
		 * becomes of that character itself is open (dropped, or the first character of the next line): after Ctrl-C, newline
		 * or backspace the next line is empty either way, after anything else it is undetermined until a Ctrl-C */
		memcpy(completed, m->line, (size_t)m->len); completed[m->len] = 0;
		memset(m, 0, sizeof(*m));
		if (ch != 3 && ch != '\n' && ch != '\b') m->limbo = 1;
		return 1;
	}
	if (ch == 3) { memset(m, 0, sizeof(*m)); return 0; }
	if (m->limbo) { if (ch == '\n') { completed[0] = 0; return 3; } return 0; }
	if (ch == '\n') {
		memcpy(completed, m->line, (size_t)m->len); completed[m->len] = 0;
		memset(m, 0, sizeof(*m));
		return 1;
	}
	if (ch == '\b') { if (m->len) m->line[--m->len] = 0; return 0; }
	m->line[m->len++] = ch;
	if (m->len >= C15_CAP) return 2;
	return 0;
}
/* the caller saw the full line dispatched at once: take it out of the model (what follows is determined again after ^C;
 * an implementation that dispatches at once treats the next character as the first of a new line, one that dispatches
 * with the next character drops it) */
static void c15_model_take_full(c15_model_t *m, char *completed)
{
	memcpy(completed, m->line, (size_t)m->len); completed[m->len] = 0;
	memset(m, 0, sizeof(*m));
	m->limbo = 1;
}

/* ------------------------------------------------------------ comparing one completed line */
static uint64_t c15_n_lines, c15_n_lines_unspecified, c15_n_lines_cmd[C15_NCMD], c15_n_lines_unknown, c15_n_lines_builtin;
static uint64_t c15_n_lines_by_len[4];	/* <18, 18..69, 70..CAP-1, CAP */
static uint64_t c15_n_lines_ge4tok_quoted;
static vx_set c15_distinct_obs;
static char c15_failbuf[2048];
static char c15_linebuf[C15_LINESZ * 4 + 8];
/* printable rendering of a line for messages */
static const char *c15_show(const char *line)
{
	int k = 0;
	for (int i = 0; line[i] && k < (int)sizeof(c15_linebuf) - 6; i++) {
		unsigned char ch = (unsigned char)line[i];
		if (ch == '\t') { c15_linebuf[k++] = '\\'; c15_linebuf[k++] = 't'; }
		else if (ch < 0x20 || ch >= 0x7f) k += snprintf(c15_linebuf + k, 6, "\\x%02x", ch);
		else c15_linebuf[k++] = (char)ch;
	}
	c15_linebuf[k] = 0;
	return c15_linebuf;
}
static const char *c15_expect_name(int cmd) { return cmd >= C15_BUILTIN_BASE ? c15_builtin_name[cmd - C15_BUILTIN_BASE] : c15_cmdname[cmd]; }
static int c15_first_bit(uint64_t m) { int j = 0; while (j < 63 && !(m & (1ull << j))) j++; return j; }

/* returns NULL if fine, else a description. `got`/`ngot`: the harness commands captured while the line completed; `hits`:
 * the built-ins entered meanwhile; per_line = 0 when built-ins cannot be attributed to single lines (whole streams) */
static const char *c15_check_line(const char *line, const c15_inv_t *got, int ngot, uint64_t hits, int per_line, const char **clause)
{
	c15_expect_t e; c15_reference_tokenize(line, &e);
	int len = (int)strlen(line);
	c15_n_lines++;
	c15_n_lines_by_len[len < 18 ? 0 : len < 70 ? 1 : len < C15_CAP ? 2 : 3]++;
	vx_hasher h; vx_h_init(&h); vx_h_bytes(&h, line, strlen(line)); vx_h_u64(&h, (uint64_t)ngot); vx_h_u64(&h, hits);
	if (ngot) { vx_h_u64(&h, (uint64_t)got[0].cmd); vx_h_u64(&h, (uint64_t)got[0].argc); }
	vx_set_add(&c15_distinct_obs, vx_h_done(&h));
	for (int i = 0; i < ngot && i < C15_MAXINV; i++) if (got[i].bad) {
		*clause = c15_bad_clause(got[i].bad);
		snprintf(c15_failbuf, sizeof(c15_failbuf), "line \"%s\": command received %s (argc=%d)", c15_show(line), c15_bad_text(got[i].bad), got[i].argc);
		return c15_failbuf;
	}
	int ran = ngot + (per_line ? __builtin_popcountll(hits) : 0);
	if (ran > 1) { *clause = "dispatch-count"; snprintf(c15_failbuf, sizeof(c15_failbuf), "line \"%s\" ran %d registered commands", c15_show(line), ran); return c15_failbuf; }
	if (e.unspecified) { c15_n_lines_unspecified++; return NULL; }
	if (e.cmd < 0) {
		c15_n_lines_unknown++;
		if (ngot) { *clause = "dispatch-unknown"; snprintf(c15_failbuf, sizeof(c15_failbuf), "line \"%s\" names no registered command but command '%s' ran", c15_show(line), c15_cmdname[got[0].cmd]); return c15_failbuf; }
		if (per_line && hits) { *clause = "dispatch-unknown"; snprintf(c15_failbuf, sizeof(c15_failbuf), "line \"%s\" names no registered command but the built-in command '%s' ran", c15_show(line), c15_builtin_name[c15_first_bit(hits)]); return c15_failbuf; }
		return NULL;
	}
	if (e.cmd >= C15_BUILTIN_BASE) {
		c15_n_lines_builtin++;
		if (ngot) { *clause = "dispatch-wrong"; snprintf(c15_failbuf, sizeof(c15_failbuf), "line \"%s\" names the built-in '%s' but '%s' ran", c15_show(line), c15_expect_name(e.cmd), c15_cmdname[got[0].cmd]); return c15_failbuf; }
		if (per_line && hits != (1ull << (e.cmd - C15_BUILTIN_BASE))) {
			*clause = hits ? "dispatch-wrong" : "dispatch-missing";
			snprintf(c15_failbuf, sizeof(c15_failbuf), "line \"%s\" names the built-in '%s' but %s%s ran", c15_show(line), c15_expect_name(e.cmd), hits ? "built-in " : "no command", hits ? c15_builtin_name[c15_first_bit(hits)] : "");
			return c15_failbuf;
		}
		return NULL;
	}
	c15_n_lines_cmd[e.cmd]++;
	if (e.argc >= C15_MAXARG && (strchr(line, '\'') || strchr(line, '"'))) c15_n_lines_ge4tok_quoted++;
	if (!ngot) { *clause = "dispatch-missing"; snprintf(c15_failbuf, sizeof(c15_failbuf), "line \"%s\" names command '%s' but %s%s ran", c15_show(line), c15_cmdname[e.cmd], (per_line && hits) ? "the built-in " : "no registered command", (per_line && hits) ? c15_builtin_name[c15_first_bit(hits)] : ""); return c15_failbuf; }
	if (got[0].cmd != e.cmd) { *clause = "dispatch-wrong"; snprintf(c15_failbuf, sizeof(c15_failbuf), "line \"%s\" names command '%s' but '%s' ran", c15_show(line), c15_cmdname[e.cmd], c15_cmdname[got[0].cmd]); return c15_failbuf; }
	if (got[0].argc != e.argc) { *clause = "argc"; snprintf(c15_failbuf, sizeof(c15_failbuf), "line \"%s\": command saw argc=%d, the line has %d tokens", c15_show(line), got[0].argc, e.argc); return c15_failbuf; }
	for (int i = 0; i < e.argc; i++) if (strcmp(got[0].argv[i], e.argv[i])) {
		*clause = "argv";
		int k = snprintf(c15_failbuf, sizeof(c15_failbuf), "line \"%s\": argv[%d] is ", c15_show(line), i);
		k += snprintf(c15_failbuf + k, sizeof(c15_failbuf) - (size_t)k, "\"%s\", expected ", c15_show(got[0].argv[i]));
		snprintf(c15_failbuf + k, sizeof(c15_failbuf) - (size_t)k, "\"%s\"", c15_show(e.argv[i]));
		return c15_failbuf;
	}
	return NULL;
}

/* ------------------------------------------------------------ a fresh console on a given library image */
static uint8_t *c15_canary; static int c15_canary_len = 64;
static int c15_canaries_ok(void) { for (int i = 0; i < c15_canary_len; i++) if (c15_canary[i] != 0xA5) return 0; return 1; }
static c15_model_t c15_mo;
static void c15_fresh_from(const void *image)
{
	/* every static of the library (command table, scheduler, help's state, anything new) back to a known image */
	vx_lib_restore(image);
	console_init(c15_con, c15_sink);
	console_silent(c15_con);		/* no prompt before the first line (argc = 1): the fibre starts reading at once */
	memset(&c15_mo, 0, sizeof(c15_mo)); c15_ninv = 0; c15_builtin_hits = 0; c15_poison_armed = 0;
}
static void c15_fresh(void) { c15_fresh_from(c15_img_work); }
static void c15_after_fault(void) { c15_poison_armed = 0; c15_new_sink(); }

/* ------------------------------------------------------------ part A: one character with console_process, judged at once */
typedef struct { const char *chars; const char *const *names; int n; } c15_alpha_t;
static const char c15_alpha1_chars[] = { 'a', 'b', ' ', '\n', '\b', 3, '\'', '"', '\t' };
static const char *const c15_alpha1_names[] = { "a", "b", "SP", "NL", "BS", "^C", "'", "\"", "TAB" };
/* upper-case letters and the first and last printable character; names Ab, !~, ~! are registered, AB aB A a~ ... are not */
static const char c15_alpha2_chars[] = { 'a', 'b', 'A', 'B', '!', '~', ' ', '\n', '\b' };
static const char *const c15_alpha2_names[] = { "a", "b", "A", "B", "!", "~", "SP", "NL", "BS" };
static const c15_alpha_t c15_alphas[2] = { { c15_alpha1_chars, c15_alpha1_names, 9 }, { c15_alpha2_chars, c15_alpha2_names, 9 } };
static const c15_alpha_t *c15_alpha = &c15_alphas[0];
static uint64_t c15_n_chars[2][9], c15_n_fill_lines, c15_n_fill_lines_at_once, c15_n_poison_checks;

/* returns NULL if fine, else a description (clause set) */
static const char *c15_step(char ch, const char **clause)
{
	char line[C15_LINESZ + 1];
	console_t *c = c15_con;
	c15_ninv = 0; c15_builtin_hits = 0;
	c15_poison_tail(c); c15_poison_armed = 1;
	if (VX_TRY) { console_process(c, ch); VX_END; }
	else { VX_END; c15_after_fault(); *clause = "fault"; snprintf(c15_failbuf, sizeof(c15_failbuf), "%s while processing the character", vx_fault_msg); return c15_failbuf; }
	c15_poison_armed = 0;
	int was_owed = c15_mo.owed;
	int r = c15_model_char(&c15_mo, ch, line);
	int tail = C15_SCRATCHSZ > C15_LINESZ ? c15_tail_state(c) : 0;
	uint64_t hits = c15_builtin_hits;
	if (!c15_canaries_ok()) { *clause = "write-outside-console"; return "the console wrote in front of its own structure"; }
	c15_n_poison_checks++;
	if (r == 2) {
		if (!c15_ninv && !hits) {
			/* not dispatched yet (or a line that runs nothing): it is owed with the next character */
			if (tail != 0) { *clause = "write-outside-line-buffer"; return "storing a character changed bytes behind the line buffer"; }
			c15_mo.owed = 1; c15_poison_tail(c);
			return NULL;
		}
		c15_model_take_full(&c15_mo, line); c15_n_fill_lines_at_once++;
		r = 1; was_owed = 1;
	}
	if (r == 0) {
		/* a new prompt (Ctrl-C) may wipe the whole scratch area, as the header documents; storing and erasing may not */
		if (ch == 3 ? tail == 2 : tail != 0) { *clause = "write-outside-line-buffer"; return "editing the line changed bytes behind the line buffer"; }
		if (c15_ninv || hits) { *clause = "dispatch-early"; return "a command ran although no line was completed"; }
		c15_poison_tail(c);
		return NULL;
	}
	if (tail == 2) { *clause = "write-outside-line-buffer"; return "completing the line left bytes behind the line buffer that are neither untouched nor wiped"; }
	c15_poison_tail(c);
	if (r == 3) return NULL;
	if (was_owed) c15_n_fill_lines++;
	return c15_check_line(line, c15_invs, c15_ninv < C15_MAXINV ? c15_ninv : C15_MAXINV, hits, 1, clause);
}

typedef struct { console_t con; c15_model_t m; } c15_snap_t;
static void c15_stA_save(void *dst) { c15_snap_t *s = dst; memcpy(&s->con, c15_con, sizeof(console_t)); s->m = c15_mo; }
static void c15_stA_load(const void *src) { const c15_snap_t *s = src; memcpy(c15_con, &s->con, sizeof(console_t)); c15_mo = s->m; c15_con->out = c15_sink; }
static void c15_stA_canon(vx_hasher *h)
{
	console_t *c = c15_con;
	vx_h_bytes(h, &c->scratch, sizeof(c->scratch)); vx_h_u64(h, (uint64_t)(c->bufp - c->scratch.buf)); vx_h_u64(h, (uint64_t)c->argc);
	vx_h_u64(h, c->pt); vx_h_u64(h, c->fibre.priv);
	vx_h_u64(h, atomic_load(&c->ring.readi)); vx_h_u64(h, atomic_load(&c->ring.writei));
	vx_h_bytes(h, c15_mo.line, sizeof(c15_mo.line)); vx_h_u64(h, (uint64_t)c15_mo.len);
	vx_h_u64(h, (uint64_t)c15_mo.owed | (uint64_t)c15_mo.limbo << 16);
}
/* after the buffer filled, what becomes of the next character is open: only the characters after which the next line is
 * determined again (scope guard, counted) */
static int c15_opA_enabled(int op)
{
	char ch = c15_alpha->chars[op];
	if (c15_mo.limbo) return ch == 3;
	if (c15_mo.owed) return ch == 3 || ch == '\n' || ch == '\b';
	return 1;
}
static void c15_opA_describe(int op, vx_sb *sb) { vx_sb_printf(sb, "%s", c15_alpha->names[op]); }
static int c15_opA_apply(int op)
{
	const char *clause = "";
	c15_n_chars[c15_alpha == &c15_alphas[1]][op]++;
	const char *why = c15_step(c15_alpha->chars[op], &clause);
	if (why) { vx_bfs_fail(clause, "%s", why); return 1; }
	return 0;
}
/* start state: a line of n characters already typed: "ab", a blank, two long words. Returns 0 if the typing itself failed */
static int c15_prefill(int n, const char *cfg)
{
	for (int i = 0; i < n; i++) {
		char ch = (i == 2 || i == C15_CAP / 2 + 1) ? ' ' : (i < 2 ? "ab"[i] : (char)('a' + ((i >> 2) & 1)));
		const char *clause = "", *why = c15_step(ch, &clause);
		if (why) {
			vx_sb sig = {0}, rep = {0};
			vx_sb_printf(&sig, "%s|%s|while typing the start line", clause, cfg);
			vx_sb_printf(&rep, "config=%s\nops=\n", cfg);
			vx_violation(sig.s, rep.s, "%s: %s -- while typing character %d of the %d-character start line", clause, why, i + 1, n);
			free(sig.s); free(rep.s);
			return 0;
		}
	}
	return 1;
}

/* ------------------------------------------------------------ part B: whole streams through every delivery path */
#define C15_MAXSTREAM 1400
#define C15_MAXLINES 600
static uint64_t c15_n_streams, c15_n_deliveries[4], c15_n_eval_invocations, c15_n_guard_skips;
static fibre_t c15_evalf; static pt_t c15_evalpt; static const char *c15_evalstr; static int c15_eval_done;
static int c15_eval_body(fibre_t *f)
{
	(void)f;
	pt_state_t s = console_eval(&c15_evalpt, c15_con, c15_evalstr);
	c15_n_eval_invocations++;
	if (s >= PT_EXITED) c15_eval_done = 1;
	return s;
}
/* strings handed to console_eval live here: behind the terminating NUL comes a trap line, then zeros - an injection that
 * reads past its string either runs the trap or finds nothing, it never depends on what the linker put there */
static char c15_evalarea[3][C15_MAXSTREAM + 64];
static const char c15_trap[] = "\nb trap\n";
static const char *c15_eval_string(int slot, const char *s, int n)
{
	memset(c15_evalarea[slot], 0, sizeof(c15_evalarea[slot]));
	memcpy(c15_evalarea[slot], s, (size_t)n);
	memcpy(c15_evalarea[slot] + n + 1, c15_trap, sizeof(c15_trap));
	return c15_evalarea[slot];
}
/* run console_eval(s) in a fibre until it has exited and the console has gone idle; 0 if it never exits. Inside VX_TRY. */
static int c15_run_eval(const char *s, int n, uint32_t *t)
{
	fibre_init(&c15_evalf, c15_eval_body); PT_INIT(&c15_evalpt); c15_evalstr = s; c15_eval_done = 0;
	fibre_run(&c15_evalf);
	int maxpass = 400 + 8 * n, idle = 0;
	for (int k = 0; k < maxpass && idle < 3; k++) {
		uint32_t now = (*t)++, next = fibre_scheduler_next(now);
		if (c15_ninv >= C15_MAXINV) break;
		idle = (c15_eval_done && ringbuf_empty(&c15_con->ring) && next != now) ? idle + 1 : 0;
	}
	for (int j = 0; j < 8; j++) fibre_scheduler_next((*t)++);
	return c15_eval_done;
}
/* run the reference over a whole stream: expected completed lines, in order; kind[k] = 1 determined, 3 undetermined */
static int c15_reference_lines(const char *s, int n, char lines[][C15_LINESZ + 1], uint8_t *kind)
{
	int k = 0; c15_model_t m; memset(&m, 0, sizeof(m));
	for (int i = 0; i < n && k < C15_MAXLINES; i++) {
		int r = c15_model_char(&m, s[i], lines[k]);
		if (r == 2) { m.owed = 1; c15_n_fill_lines++; }	/* whole streams: when exactly the full line runs is not observed */
		else if (r) kind[k++] = (uint8_t)r;
	}
	return k;
}
/* mode 0: console_process per character; 1: console_putchar + scheduler passes after every character;
 * 2: console_putchar in bursts (ring permitting) + passes; 3: console_eval in a fibre */
static const char *c15_compare_stream(const char *s, int n, const char **clause);
static const char *c15_deliver(const char *s, int n, int mode, const char **clause)
{
	c15_fresh();
	console_t *c = c15_con;
	uint32_t t = 100;
	int per_char = mode < 2;
	const char *es = mode == 3 ? c15_eval_string(0, s, n) : NULL;
	if (VX_TRY) {
		if (mode == 0) for (int i = 0; i < n; i++) { c15_poison_tail(c); c15_poison_armed = 1; console_process(c, s[i]); }
		else if (mode == 1) for (int i = 0; i < n; i++) { c15_poison_tail(c); c15_poison_armed = 1; console_putchar(c, s[i]); for (int k = 0; k < 6; k++) fibre_scheduler_next(t++); }
		else if (mode == 2) {
			for (int i = 0; i < n; ) {
				int burst = 0;
				while (i < n && burst < C15_RINGSZ - 2) { console_putchar(c, s[i++]); burst++; }
				for (int k = 0; k < 64; k++) fibre_scheduler_next(t++);
				if (c15_ninv >= C15_MAXINV - 1) break;
			}
		} else if (!c15_run_eval(es, n, &t)) {
			VX_END; *clause = "eval-never-completes"; return "console_eval has not exited after 400 + 8 x length scheduling passes";
		}
		VX_END;
	} else { VX_END; c15_after_fault(); *clause = "fault"; snprintf(c15_failbuf, sizeof(c15_failbuf), "%s", vx_fault_msg); return c15_failbuf; }
	c15_poison_armed = 0;
	if (!c15_canaries_ok()) { *clause = "write-outside-console"; return "the console wrote in front of its own structure"; }
	if (C15_SCRATCHSZ > C15_LINESZ) {
		/* per character the poison was renewed before every character: after the last one it is untouched or wiped by the new
		 * prompt; in the other modes nothing was put there and the area must still be clear */
		int ts = c15_tail_state(c);
		if (per_char ? ts == 2 : ts != 1) { *clause = "write-outside-line-buffer"; return "the console wrote behind its line buffer"; }
	}
	return c15_compare_stream(s, n, clause);
}
/* the invocations in c15_invs / c15_builtin_hits against the lines the stream completes */
static const char *c15_compare_stream(const char *s, int n, const char **clause)
{
	static char lines[C15_MAXLINES][C15_LINESZ + 1]; static uint8_t kind[C15_MAXLINES];
	int nl = c15_reference_lines(s, n, lines, kind);
	int nall = c15_ninv < C15_MAXINV ? c15_ninv : C15_MAXINV;
	/* memory safety of what the commands were handed holds for every line, specified or not */
	for (int i = 0; i < nall; i++) if (c15_invs[i].bad) {
		*clause = c15_bad_clause(c15_invs[i].bad);
		snprintf(c15_failbuf, sizeof(c15_failbuf), "a command received %s (argc=%d)", c15_bad_text(c15_invs[i].bad), c15_invs[i].argc);
		return c15_failbuf;
	}
	/* expected invocations: one per specified line that names a command */
	int gi = 0; uint64_t want_hits = 0;
	for (int l = 0; l < nl; l++) {
		c15_expect_t e; c15_reference_tokenize(lines[l], &e);
		if (kind[l] == 3 || e.unspecified) {
			/* cannot tell whether this line ran a command: stop comparing this stream here (safety already checked) */
			c15_n_lines_unspecified++; return NULL;
		}
		int expect_run = e.cmd >= 0 && e.cmd < C15_BUILTIN_BASE;
		if (e.cmd >= C15_BUILTIN_BASE) want_hits |= 1ull << (e.cmd - C15_BUILTIN_BASE);
		const char *why = c15_check_line(lines[l], c15_invs + gi, expect_run && gi < nall ? 1 : 0, 0, 0, clause);
		if (why) return why;
		if (expect_run) gi++;
	}
	if (gi != c15_ninv) {
		*clause = "dispatch-extra";
		int k = snprintf(c15_failbuf, sizeof(c15_failbuf), "%d command invocations, the stream completes lines that name %d", c15_ninv, gi);
		if (gi < nall) snprintf(c15_failbuf + k, sizeof(c15_failbuf) - (size_t)k, "; the first one too many is '%s' with argv[1]=\"%s\"", c15_cmdname[c15_invs[gi].cmd], c15_show(c15_invs[gi].argv[1]));
		return c15_failbuf;
	}
	uint64_t hits = c15_builtin_hits;
	if (hits & ~want_hits) { *clause = "dispatch-unknown"; snprintf(c15_failbuf, sizeof(c15_failbuf), "the built-in command '%s' ran although no line of the stream names it", c15_builtin_name[c15_first_bit(hits & ~want_hits)]); return c15_failbuf; }
	if (want_hits & ~hits) { *clause = "dispatch-missing"; snprintf(c15_failbuf, sizeof(c15_failbuf), "a line names the built-in command '%s' but it did not run", c15_builtin_name[c15_first_bit(want_hits & ~hits)]); return c15_failbuf; }
	return NULL;
}
static void c15_stream_text(const char *s, int n, vx_sb *sb)
{
	/* short streams symbol by symbol, long ones as text with their length (signatures must stay readable) */
	if (n > 40) vx_sb_printf(sb, "%d:", n);
	int lim = n > 60 ? 60 : n;
	for (int i = 0; i < lim; i++) {
		unsigned char ch = (unsigned char)s[i];
		const char *nm = ch == ' ' ? "SP" : ch == '\n' ? "NL" : ch == '\b' ? "BS" : ch == 3 ? "^C" : ch == '\t' ? "TAB" : NULL;
		if (n > 40) { if (nm) vx_sb_printf(sb, "<%s>", nm); else vx_sb_printf(sb, "%c", ch); }
		else { if (nm) vx_sb_printf(sb, "%s%s", i ? " " : "", nm); else vx_sb_printf(sb, "%s%c", i ? " " : "", ch); }
	}
	if (lim < n) vx_sb_printf(sb, "...");
}
static const char *c15_modename[] = { "console_process", "console_putchar+pass-per-char", "console_putchar-bursts+passes", "console_eval-in-a-fibre" };
static int c15_report_stream(const char *s, int n, int mode, const char *clause, const char *why, const char *family)
{
	vx_sb sig = {0}, rep = {0}, st = {0};
	c15_stream_text(s, n, &st);
	vx_sb_printf(&sig, "%s|%s|%s|%s", clause, c15_modename[mode], family, st.s ? st.s : "");
	vx_sb_printf(&rep, "part=B\nmode=%d\nfamily=%s\nstream=", mode, family);
	for (int i = 0; i < n; i++) vx_sb_printf(&rep, "%02x", (unsigned char)s[i]);
	vx_sb_printf(&rep, "\n");
	vx_violation(sig.s, rep.s, "%s: stream [%s] delivered with %s: %s", clause, st.s ? st.s : "", c15_modename[mode], why);
	free(sig.s); free(rep.s); free(st.s);
	return 1;
}
static int c15_stop;	/* too many violations or hangs: stop enumerating (the run is then not called exhaustive) */
static int c15_should_stop(void)
{
	if (!c15_stop && (vx_too_many_violations() || vx_hangs_seen >= 3 || vx_deadline_passed())) { c15_stop = 1; vx_and("exhaustive", 0); }
	return c15_stop;
}
/* all deliveries of one stream; returns number of violations */
static int c15_try_stream(const char *s0, int n, const char *family, int modes_mask)
{
	int bad = 0;
	static char s[C15_MAXSTREAM + 8];
	if (n > C15_MAXSTREAM || c15_should_stop()) return 0;
	/* the quantifier: printable characters, blank, tab, backspace, Ctrl-C, newline - nothing else is ever delivered */
	for (int i = 0; i < n; i++) { unsigned char ch = (unsigned char)s0[i]; if (!((ch >= 0x20 && ch <= 0x7e) || ch == '\t' || ch == '\n' || ch == '\b' || ch == 3)) { c15_n_guard_skips++; return 0; } }
	memcpy(s, s0, (size_t)n); s[n] = 0;
	c15_n_streams++;
	for (int mode = 0; mode < 4; mode++) {
		if (!(modes_mask & (1 << mode))) continue;
		if (mode == 3 && memchr(s, 0, (size_t)n)) continue;
		const char *clause = "";
		c15_n_deliveries[mode]++;
		const char *why = c15_deliver(s, n, mode, &clause);
		if (why) bad += c15_report_stream(s, n, mode, clause, why, family);
	}
	return bad;
}

/* ---- family "short": every stream over alphabet 1 up to a length, ending in a newline */
static void c15_enum_streams(char *s, int pos, int len, int modes, int *bad)
{
	if (pos == len) { if (*bad < 6) *bad += c15_try_stream(s, len, "short", modes); return; }
	for (int k = 0; k < c15_alphas[0].n; k++) {
		if (pos == len - 1 && c15_alphas[0].chars[k] != '\n') continue;	/* so that the last line is observed */
		s[pos] = c15_alphas[0].chars[k];
		c15_enum_streams(s, pos + 1, len, modes, bad);
	}
}

/* ---- character classes used by the generated families: every printable character except blank and the two quotes */
static char c15_printable_at(int i, int pat)
{
	static const char lower[] = "abcdefghijklmnopqrstuvwxyz0123456789";
	if (pat == 0) return lower[i % 36];
	/* 0x21..0x7e without ' and " : 92 characters, upper case, digits, punctuation, both ends of the range */
	int k = (i * 7 + pat) % 92, ch = 0x21 + k;
	if (ch >= '"') ch++;
	if (ch >= '\'') ch++;
	return (char)ch;
}
/* ending of a line of `len` characters: newline below the capacity; at the capacity the buffer has filled: variants of
 * what follows (all end in Ctrl-C or newline so that what comes next is determined) */
static int c15_end_line(char *s, int n, int len, int ending)
{
	if (len < C15_CAP) { s[n++] = '\n'; return n; }
	if (ending == 0) { s[n++] = 'a'; s[n++] = 3; }
	else if (ending == 1) s[n++] = 3;
	else s[n++] = '\n';
	return n;
}
static uint64_t c15_n_fam[10];
static const char *c15_famname[10] = { "short", "long", "names", "script", "printable", "tokens", "unknown", "evalseq", "registration", "part A" };

/* ---- family "long": lines of every length 1..capacity with 1..4 tokens (name + arguments that share the rest), plain and
 * with a quoted last argument, followed by a second long line and a short one */
static int c15_make_line(char *s, int L, int k, int pat, int quoted)
{
	/* name: a / b / ab by pattern; k-1 arguments share L - strlen(name) - (k-1) characters */
	const char *name = pat % 3 == 0 ? "b" : pat % 3 == 1 ? "ab" : "a";
	int nl = (int)strlen(name), n = 0;
	if (k == 1) {	/* a bare name: only the lengths that are names */
		int match[C15_NCMD], nm = 0;
		for (int c = 0; c < C15_NCMD; c++) if ((int)strlen(c15_cmdname[c]) == L) match[nm++] = c;
		if (!nm || quoted) return 0;
		memcpy(s, c15_cmdname[match[pat % nm]], (size_t)L);
		return L;
	}
	int rest = L - nl - (k - 1) - (quoted ? 2 : 0);
	if (rest < k - 1 || (quoted && rest < k + 1)) return 0;
	memcpy(s, name, (size_t)nl); n = nl;
	int each = rest / (k - 1);
	for (int a = 1; a < k; a++) {
		int al = a == k - 1 ? rest - each * (k - 2) : each;
		s[n++] = (a + pat) % 3 == 0 ? '\t' : ' ';
		int q = quoted && a == k - 1;
		if (q) s[n++] = (pat & 1) ? '\'' : '"';
		for (int i = 0; i < al; i++) { char x = (q && i > 0 && i < al - 1 && i % 4 == 2) ? ' ' : c15_printable_at(n + a, pat); s[n++] = x; }
		if (q) s[n++] = (pat & 1) ? '\'' : '"';
	}
	return n;
}
static void c15_family_long(int slice, int nslices)
{
	static char s[4 * C15_LINESZ + 64];
	int bad = 0, sampled = 0;
	for (int L = 1; L <= C15_CAP && bad < 6; L++) {
		if (L % nslices != slice) continue;
		for (int k = 1; k <= C15_MAXARG; k++) for (int pat = 0; pat < 3; pat++) for (int quoted = 0; quoted < 2; quoted++) {
			if (quoted && k == C15_MAXARG) continue;	/* a quoted fourth token is left open by the statement */
			for (int ending = 0; ending < (L == C15_CAP ? 3 : 1) && bad < 6; ending++) {
				int n = c15_make_line(s, L, k, pat, quoted);
				if (!n) { c15_n_guard_skips++; continue; }
				n = c15_end_line(s, n, L, ending);
				/* a second line, long as well: both together straddle the ring several times */
				int L2 = C15_CAP - 1 - (L * 5) % (C15_CAP - 9);
				int m = c15_make_line(s + n, L2, 3, pat + 1, 0);
				if (m) { n += m; s[n++] = '\n'; }
				s[n++] = 'b'; s[n++] = ' '; s[n++] = 'a'; s[n++] = '\n';
				c15_n_fam[1]++;
				if (!sampled && L > 40 && k == 3 && vx_want_sample()) { sampled = 1; vx_sb sb = {0}; c15_stream_text(s, n, &sb); vx_sample("family long: %s", sb.s); free(sb.s); }
				bad += c15_try_stream(s, n, "long", 15);
			}
		}
	}
}

/* ---- family "unknown": first tokens of every length 1..capacity that name nothing, alone and with an argument */
static void c15_family_unknown(int slice, int nslices)
{
	static char s[2 * C15_LINESZ + 64];
	int bad = 0, sampled = 0;
	for (int L = 1; L <= C15_CAP && bad < 6; L++) {
		if (L % nslices != slice) continue;
		for (int pat = 0; pat < 4; pat++) for (int witharg = 0; witharg < 2; witharg++) for (int ending = 0; ending < 3 && bad < 6; ending++) {
			int n = 0, tl = witharg ? L - 2 : L;
			if (tl < 1) continue;
			if (ending && L < C15_CAP) continue;
			/* pat 0: lower case + digits from 'z'..; 1, 2: all printables; 3: the longest registered name and more of the same */
			for (int i = 0; i < tl; i++) s[n++] = pat == 3 ? "ab"[i & 1] : pat == 0 ? c15_printable_at(i + 25, 0) : c15_printable_at(i, pat + 4);
			s[n] = 0;
			if (c15_is_known_name(s)) { c15_n_guard_skips++; continue; }
			if (witharg) { s[n++] = ' '; s[n++] = 'x'; }
			n = c15_end_line(s, n, L, ending);
			s[n++] = 'b'; s[n++] = ' '; s[n++] = 'a'; s[n++] = '\n';
			c15_n_fam[6]++;
			if (!sampled && L > 30 && pat == 1 && vx_want_sample()) { sampled = 1; vx_sb sb = {0}; c15_stream_text(s, n, &sb); vx_sample("family unknown: %s", sb.s); free(sb.s); }
			bad += c15_try_stream(s, n, "unknown", 15);
		}
	}
}

/* ---- family "printable": every printable character as a name, glued to a name in front and behind, and in arguments */
static void c15_family_printable(void)
{
	char s[64]; int bad = 0;
	for (int x = 0x21; x <= 0x7e && bad < 6; x++) {
		int n = 0;
		s[n++] = (char)x; s[n++] = '\n';
		s[n++] = 'a'; s[n++] = (char)x; s[n++] = '\n';
		s[n++] = (char)x; s[n++] = 'a'; s[n++] = '\n';
		s[n++] = 'b'; s[n++] = ' '; s[n++] = (char)x; s[n++] = 'b'; s[n++] = (char)x; s[n++] = '\t'; s[n++] = (char)x; s[n++] = '\n';
		s[n++] = 'a'; s[n++] = 'b'; s[n++] = ' '; s[n++] = 'Q'; s[n++] = (char)x; s[n++] = '\n';
		c15_n_fam[4]++;
		if (x == '~' && vx_want_sample()) { vx_sb sb = {0}; c15_stream_text(s, n, &sb); vx_sample("family printable: %s", sb.s); free(sb.s); }
		bad += c15_try_stream(s, n, "printable", 15);
	}
}

/* ---- family "names": around every registered and built-in name: exact, other case, one shorter, one longer, differing late */
static void c15_family_names(void)
{
	static char s[C15_LINESZ * 2];
	int bad = 0, total = C15_NCMD + c15_nbuiltin;
	for (int c = 0; c < total && bad < 6; c++) {
		const char *nm = c < C15_NCMD ? c15_cmdname[c] : c15_builtin_name[c - C15_NCMD];
		int l = (int)strlen(nm);
		if (l + 8 > C15_CAP) continue;
		for (int v = 0; v < 12 && bad < 6; v++) {
			char w[C15_LINESZ]; memcpy(w, nm, (size_t)l + 1); int wl = l;
			switch (v) {
			case 0: break;
			case 1: for (int i = 0; i < wl; i++) if (w[i] >= 'a' && w[i] <= 'z') w[i] = (char)(w[i] - 32); break;	/* upper case */
			case 2: for (int i = 0; i < wl; i++) if (w[i] >= 'A' && w[i] <= 'Z') w[i] = (char)(w[i] + 32); break;	/* lower case */
			case 3: if ((w[0] | 0x20) >= 'a' && (w[0] | 0x20) <= 'z') w[0] = (char)(w[0] ^ 0x20); else w[0] = (char)(w[0] + 1); break;	/* first character: other case / neighbour */
			case 4: if ((w[wl - 1] | 0x20) >= 'a' && (w[wl - 1] | 0x20) <= 'z') w[wl - 1] = (char)(w[wl - 1] ^ 0x20); else w[wl - 1] = (char)(w[wl - 1] - 1); break;
			case 5: w[--wl] = 0; break;										/* one shorter */
			case 6: w[wl] = w[wl - 1]; w[++wl] = 0; break;								/* one longer */
			case 7: w[wl++] = '~'; w[wl] = 0; break;
			case 8: memmove(w + 1, w, (size_t)wl + 1); w[0] = '!'; wl++; break;
			case 9: w[wl - 1] = (char)(w[wl - 1] + 1); break;							/* differs in the last character */
			case 10: w[wl - 1] = (char)(w[wl - 1] - 1); break;
			case 11: w[wl++] = '0'; w[wl] = 0; break;
			}
			if (wl < 1) continue;
			int n = 0;
			memcpy(s + n, w, (size_t)wl); n += wl; s[n++] = '\n';
			memcpy(s + n, w, (size_t)wl); n += wl; s[n++] = ' '; s[n++] = 'X'; s[n++] = '\t'; s[n++] = '\''; s[n++] = 'b'; s[n++] = ' '; s[n++] = 'B'; s[n++] = '\''; s[n++] = '\n';
			c15_n_fam[2]++;
			if (c == 5 && v == 1 && vx_want_sample()) { vx_sb sb = {0}; c15_stream_text(s, n, &sb); vx_sample("family names: %s", sb.s); free(sb.s); }
			bad += c15_try_stream(s, n, "names", 15);
		}
	}
	/* all the names in one stream */
	int n = 0;
	for (int c = 0; c < total; c++) { const char *nm = c < C15_NCMD ? c15_cmdname[c] : c15_builtin_name[c - C15_NCMD]; int l = (int)strlen(nm); if (n + l + 2 < (int)sizeof(s)) { memcpy(s + n, nm, (size_t)l); n += l; s[n++] = '\n'; } }
	c15_n_fam[2]++;
	c15_try_stream(s, n, "names", 15);
}

/* ---- family "tokens": lines of 1..K tokens, every combination of token kinds (plain, upper case / punctuation, single- and
 * double-quoted, quoted with a blank, quoted with the other quote inside), three kinds of separator */
static const char *const c15_tok_kind[6] = { "a", "'a'", "\"b\"", "bB~", "'a B'", "\"!'~\"" };
static const char *const c15_tok_first[3] = { "a", "ab", "b" };
static void c15_family_tokens(int first, int K, int nkinds)
{
	static char s[128];
	int bad = 0;
	for (int k = 1; k <= K && bad < 6; k++) {
		int idx[8] = {0};
		for (;;) {
			for (int sep = 0; sep < 3 && bad < 6; sep++) {
				int n = 0;
				n += snprintf(s + n, sizeof(s) - (size_t)n, "%s", c15_tok_first[first]);
				for (int a = 1; a < k; a++) n += snprintf(s + n, sizeof(s) - (size_t)n, "%s%s", sep == 0 ? " " : sep == 1 ? "\t" : "  ", c15_tok_kind[idx[a]]);
				if (n >= C15_CAP) { c15_n_guard_skips++; continue; }
				s[n++] = '\n'; s[n++] = 'b'; s[n++] = ' '; s[n++] = 'a'; s[n++] = '\n';
				c15_n_fam[5]++;
				if (k == 5 && idx[1] == 1 && idx[2] == 4 && idx[3] == 0 && idx[4] == 2 && sep == 0 && vx_want_sample()) { vx_sb sb = {0}; c15_stream_text(s, n, &sb); vx_sample("family tokens: %s", sb.s); free(sb.s); }
				bad += c15_try_stream(s, n, "tokens", 15);
			}
			int a = k - 1;
			while (a >= 1 && ++idx[a] == nkinds) idx[a--] = 0;
			if (a < 1 || bad >= 6 || c15_stop) break;
		}
	}
}

/* ---- family "script": many short lines, total length around the sizes a narrow cursor would wrap at */
static void c15_family_script(void)
{
	static char s[C15_MAXSTREAM + 8];
	static const int totals[] = { 120, 254, 255, 256, 257, 258, 300, 511, 512, 513, 1000 };
	int bad = 0;
	for (unsigned ti = 0; ti < sizeof(totals) / sizeof(totals[0]) && bad < 6; ti++) {
		int n = 0, line = 0;
		while (n < totals[ti]) {
			const char *l = (line % 3 == 0) ? "ab a\n" : (line % 3 == 1) ? "b\n" : "a bb ab\n";
			int ll = (int)strlen(l);
			if (n + ll > totals[ti]) { while (n < totals[ti] - 1) s[n++] = ' '; s[n++] = '\n'; break; }
			memcpy(s + n, l, (size_t)ll); n += ll; line++;
		}
		s[n] = 0;
		c15_n_fam[3]++;
		bad += c15_try_stream(s, n, "script", 13);	/* console_process, putchar bursts, console_eval */
	}
}

/* ------------------------------------------------------------ part E: several console_eval calls on one console */
static const char *const c15_eval_pool[] = {
	"", "a\n", "ab 1 2\n", "b 3\na 4\n", "a", " 'x Y' ~\n", "b\n",
	"ab 0123456789 ABCDEFGHIJKLMNOPQRST\nb 'u v' w\n",	/* longer than the ring, two lines */
};
#define C15_NPOOL ((int)(sizeof(c15_eval_pool) / sizeof(c15_eval_pool[0])))
static uint64_t c15_n_evals, c15_n_empty_evals;
static int c15_evalseq_case(const int *idx, int n)
{
	static char cat[C15_MAXSTREAM]; int cn = 0;
	const char *clause = "", *why = NULL;
	char desc[64]; int dk = 0;
	if (c15_should_stop()) return 0;
	for (int i = 0; i < n; i++) dk += snprintf(desc + dk, sizeof(desc) - (size_t)dk, "%s%d", i ? "," : "", idx[i]);
	c15_fresh();
	uint32_t t = 100;
	c15_n_fam[7]++; c15_n_streams++;
	const char *es[3];
	for (int i = 0; i < n; i++) { const char *p = c15_eval_pool[idx[i]]; int l = (int)strlen(p); es[i] = c15_eval_string(i, p, l); memcpy(cat + cn, p, (size_t)l); cn += l; }
	if (VX_TRY) {
		for (int i = 0; i < n && !why; i++) {
			c15_n_evals++; if (!es[i][0]) c15_n_empty_evals++;
			c15_n_deliveries[3]++;
			if (!c15_run_eval(es[i], (int)strlen(es[i]), &t)) { clause = "eval-never-completes"; snprintf(c15_failbuf, sizeof(c15_failbuf), "console_eval number %d on this console has not exited after 400 + 8 x length scheduling passes", i + 1); why = c15_failbuf; }
		}
		VX_END;
	} else { VX_END; c15_after_fault(); clause = "fault"; snprintf(c15_failbuf, sizeof(c15_failbuf), "%s", vx_fault_msg); why = c15_failbuf; }
	if (!why && !c15_canaries_ok()) { clause = "write-outside-console"; why = "the console wrote in front of its own structure"; }
	if (!why && C15_SCRATCHSZ > C15_LINESZ && c15_tail_state(c15_con) != 1) { clause = "write-outside-line-buffer"; why = "the console wrote behind its line buffer"; }
	/* executed once: the invocations are those of the concatenated strings, nothing else */
	if (!why) why = c15_compare_stream(cat, cn, &clause);
	if (!why) return 0;
	vx_sb sig = {0}, rep = {0}, st = {0};
	for (int i = 0; i < n; i++) { vx_sb_printf(&st, "%s\"", i ? " then " : ""); const char *p = c15_eval_pool[idx[i]]; for (; *p; p++) { if (*p == '\n') vx_sb_printf(&st, "\\n"); else vx_sb_printf(&st, "%c", *p); } vx_sb_printf(&st, "\""); }
	vx_sb_printf(&sig, "%s|console_eval-sequence|%s", clause, st.s);
	vx_sb_printf(&rep, "part=E\nseq=%s\n", desc);
	vx_violation(sig.s, rep.s, "%s: console_eval of %s, one after the other on one console: %s", clause, st.s, why);
	free(sig.s); free(rep.s); free(st.s);
	return 1;
}
static void c15_family_evalseq(int slice, int nslices)
{
	int bad = 0, idx[3];
	for (int n = 1; n <= 3; n++) {
		int total = 1; for (int i = 0; i < n; i++) total *= C15_NPOOL;
		for (int code = 0; code < total && bad < 6; code++) {
			if (code % nslices != slice) continue;
			int c = code; for (int i = 0; i < n; i++) { idx[i] = c % C15_NPOOL; c /= C15_NPOOL; }
			if (n == 3 && idx[0] == 2 && idx[1] == 0 && idx[2] == 3 && vx_want_sample()) vx_sample("family evalseq: console_eval(\"ab 1 2\\n\"), then console_eval(\"\"), then console_eval(\"b 3\\na 4\\n\") on the same console");
			bad += c15_evalseq_case(idx, n);
		}
	}
}

/* ------------------------------------------------------------ part C: registration, judged by what a typed name runs */
static uint64_t c15_n_reg_orders, c15_n_reg_lookups;
typedef struct { int fault, ninv, cmd; const console_cmd_t *desc; uint64_t hits; } c15_found_t;
/* type `name` + newline into a fresh console on library image `img` */
static c15_found_t c15_lookup(const void *img, const char *name)
{
	c15_found_t f; memset(&f, 0, sizeof(f));
	c15_fresh_from(img);
	c15_n_reg_lookups++;
	if (VX_TRY) {
		for (const char *p = name; *p; p++) console_process(c15_con, *p);
		console_process(c15_con, '\n');
		VX_END;
	} else { VX_END; c15_after_fault(); f.fault = 1; return f; }
	f.ninv = c15_ninv; f.hits = c15_builtin_hits;
	if (c15_ninv) { f.cmd = c15_invs[0].cmd; f.desc = c15_invs[0].desc; }
	return f;
}
#define C15_POOLBASE 20
static pt_state_t c15_pool0_fn(console_t *c) { return c15_capture(c, C15_POOLBASE + 0); }
static pt_state_t c15_pool1_fn(console_t *c) { return c15_capture(c, C15_POOLBASE + 1); }
static pt_state_t c15_pool2_fn(console_t *c) { return c15_capture(c, C15_POOLBASE + 2); }
static pt_state_t c15_pool3_fn(console_t *c) { return c15_capture(c, C15_POOLBASE + 3); }
static pt_state_t c15_filler_fn(console_t *c) { return c15_capture(c, 99); }
static const console_cmd_t c15_pool_cmds[4] = { CONSOLE_CMD_VAR_INIT("a", c15_pool0_fn), CONSOLE_CMD_VAR_INIT("ab", c15_pool1_fn), CONSOLE_CMD_VAR_INIT("B", c15_pool2_fn), CONSOLE_CMD_VAR_INIT("ba", c15_pool3_fn) };
static void c15_reg_fail(const char *clause, const char *desc, const char *why)
{
	vx_sb sig = {0}, rep = {0};
	vx_sb_printf(&sig, "%s|registration|%s", clause, desc);
	vx_sb_printf(&rep, "part=C\ncase=%s\n", desc);
	vx_violation(sig.s, rep.s, "%s: %s: %s", clause, desc, why);
	free(sig.s); free(rep.s);
}
static void *c15_img_tmp, *c15_img_tmp2;
/* every built-in is still found, the empty line and unknown names find nothing; NULL if fine */
static const char *c15_common_lookups(const void *img, const char *const *unknown, int nunknown)
{
	static char w[200];
	for (int j = 0; j < c15_nbuiltin; j++) {
		c15_found_t f = c15_lookup(img, c15_builtin_name[j]);
		if (f.fault) { snprintf(w, sizeof(w), "%s while the built-in name '%s' was typed", vx_fault_msg, c15_builtin_name[j]); return w; }
		if (f.ninv || f.hits != (1ull << j)) { snprintf(w, sizeof(w), "the built-in command '%s' is no longer found by its name", c15_builtin_name[j]); return w; }
	}
	for (int u = 0; u < nunknown; u++) {
		c15_found_t f = c15_lookup(img, unknown[u]);
		if (f.fault) { snprintf(w, sizeof(w), "%s while the unknown name '%s' was typed", vx_fault_msg, unknown[u]); return w; }
		if (f.ninv || f.hits) { snprintf(w, sizeof(w), "the %s '%s' runs a command", unknown[u][0] ? "unregistered name" : "empty line", unknown[u]); return w; }
	}
	return NULL;
}
static void c15_part_c_case(const int *order, int n, const char *only)
{
	char desc[96]; int k = snprintf(desc, sizeof(desc), "order");
	for (int i = 0; i < n; i++) k += snprintf(desc + k, sizeof(desc) - (size_t)k, " %s", c15_pool_cmds[order[i]].name);
	if (only && strcmp(only, desc)) return;
	if (c15_should_stop()) return;
	c15_n_reg_orders++; c15_n_fam[8]++;
	vx_lib_reset();		/* the table as the library ships it */
	int slots = (int)c15_shim_table_slots(), used = 0, okn = 0, inmask = 0;
	{ const console_cmd_t **tab = c15_shim_table(); for (int i = 0; i < slots; i++) if (tab[i]) used++; }
	for (int i = 0; i < n; i++) {
		int r;
		vx_lib_save(c15_img_tmp2);
		if (VX_TRY) { r = console_register(&c15_pool_cmds[order[i]]); VX_END; }
		else { VX_END; c15_after_fault(); c15_reg_fail("fault", desc, vx_fault_msg); return; }
		if (r == 0) { okn++; inmask |= 1 << order[i]; continue; }
		/* a table smaller than today's may be full before all four are in: then the refusal must change nothing */
		if (used + okn < slots) { c15_reg_fail("register-refused", desc, "console_register failed although the table has room"); return; }
		vx_lib_save(c15_img_tmp);
		if (memcmp(c15_img_tmp, c15_img_tmp2, vx_lib_size())) { c15_reg_fail("failed-register-changes-table", desc, "console_register failed but the library's state was modified"); return; }
	}
	vx_lib_save(c15_img_tmp);
	for (int p = 0; p < 4; p++) {
		int present = (inmask >> p) & 1;
		c15_found_t f = c15_lookup(c15_img_tmp, c15_pool_cmds[p].name);
		char w[160];
		if (f.fault) { snprintf(w, sizeof(w), "%s while the name '%s' was typed", vx_fault_msg, c15_pool_cmds[p].name); c15_reg_fail("fault", desc, w); return; }
		if (present && (f.ninv != 1 || f.hits || f.cmd != C15_POOLBASE + p)) { snprintf(w, sizeof(w), "registered command '%s' is not found by its exact name", c15_pool_cmds[p].name); c15_reg_fail("lookup", desc, w); return; }
		if (!present && (f.ninv || f.hits)) { snprintf(w, sizeof(w), "name '%s' was never registered but a command runs", c15_pool_cmds[p].name); c15_reg_fail("lookup", desc, w); return; }
	}
	static const char *const unknown[] = { "", "abc", "b", "A", "AB", "Ba" };
	const char *why = c15_common_lookups(c15_img_tmp, unknown, 6);
	if (why) c15_reg_fail(strstr(why, "while the") ? "fault" : "lookup", desc, why);
}
static void c15_part_c_orders(const char *only)
{
	for (int n = 1; n <= 4; n++) { int o[4]; for (o[0] = 0; o[0] < 4; o[0]++) for (o[1] = 0; o[1] < (n > 1 ? 4 : 1); o[1]++) for (o[2] = 0; o[2] < (n > 2 ? 4 : 1); o[2]++) for (o[3] = 0; o[3] < (n > 3 ? 4 : 1); o[3]++) {
		int dup = 0; for (int i = 0; i < n; i++) for (int j = 0; j < i; j++) dup |= o[i] == o[j];
		if (!dup) c15_part_c_case(o, n, only); } }
}
/* fill the table to its capacity and beyond. The capacity is the library's: `slots` entries of which `used` are taken when
 * the program starts (built-ins and the end marker). While a slot is free registration must succeed; a failed registration
 * changes nothing (the whole library image is compared); whatever succeeded is found afterwards, every time */
static void c15_part_c_capacity(int ascending, const char *only)
{
	const char *desc = ascending ? "fill to capacity and beyond, ascending names" : "fill to capacity and beyond, descending names";
	if (only && strcmp(only, desc)) return;
	if (c15_should_stop()) return;
	c15_n_reg_orders++; c15_n_fam[8]++;
	vx_lib_reset();
	int slots = (int)c15_shim_table_slots(), used = 0;
	const console_cmd_t **tab = c15_shim_table();
	for (int i = 0; i < slots; i++) if (tab[i]) used++;
	int tries = slots - used + 8;
	console_cmd_t *filler = calloc((size_t)tries, sizeof(*filler)); char (*fname)[8] = calloc((size_t)tries, 8); uint8_t *in = calloc((size_t)tries, 1);
	if (!filler || !fname || !in) _exit(3);
	int ok = 0; char w[200];
	static const char *const unknown[] = { "", "zzz", "z", "y000" };
	for (int i = 0; i < tries; i++) {
		/* descending names: every insertion shifts all earlier ones; ascending: always in front of the end marker */
		snprintf(fname[i], 8, "z%04d", ascending ? 1000 + i : 9000 - i); filler[i].name = fname[i]; filler[i].fn = c15_filler_fn;
		vx_lib_save(c15_img_tmp2);
		int r;
		if (VX_TRY) { r = console_register(&filler[i]); VX_END; }
		else { VX_END; c15_after_fault(); snprintf(w, sizeof(w), "%s in registration number %d", vx_fault_msg, i + 1); c15_reg_fail("fault", desc, w); goto out; }
		vx_lib_save(c15_img_tmp);
		if (r == 0) { ok++; in[i] = 1; }
		else {
			if (used + ok < slots) { snprintf(w, sizeof(w), "registration number %d failed although %d of the table's %d slots are free", i + 1, slots - used - ok, slots); c15_reg_fail("capacity", desc, w); goto out; }
			if (memcmp(c15_img_tmp, c15_img_tmp2, vx_lib_size())) { c15_reg_fail("failed-register-changes-table", desc, "console_register failed but the library's state was modified"); goto out; }
		}
		for (int q = 0; q <= i; q++) {
			c15_found_t f = c15_lookup(c15_img_tmp, fname[q]);
			if (f.fault) { snprintf(w, sizeof(w), "%s while the name '%s' was typed after registration number %d", vx_fault_msg, fname[q], i + 1); c15_reg_fail("fault", desc, w); goto out; }
			if (in[q] && (f.ninv != 1 || f.hits || f.desc != &filler[q])) { snprintf(w, sizeof(w), "after registration number %d the registered command number %d is not found by its name", i + 1, q + 1); c15_reg_fail("lookup", desc, w); goto out; }
			if (!in[q] && (f.ninv || f.hits)) { snprintf(w, sizeof(w), "after registration number %d (refused) its name runs a command", q + 1); c15_reg_fail("lookup", desc, w); goto out; }
		}
		const char *why = c15_common_lookups(c15_img_tmp, unknown, 4);
		if (why) { snprintf(w, sizeof(w), "after registration number %d: %s", i + 1, why); c15_reg_fail(strstr(why, "while the") ? "fault" : "lookup", desc, w); goto out; }
	}
	if (used + ok < slots) { snprintf(w, sizeof(w), "%d registrations succeeded, the %d-slot table with %d entries at the start has room for %d", ok, slots, used, slots - used); c15_reg_fail("capacity", desc, w); }
	vx_max("table_slots", (uint64_t)slots); vx_max("registrations_accepted", (uint64_t)ok);
out:
	free(filler); free(fname); free(in);
}

/* ------------------------------------------------------------ main */
static vx_bfs c15_bfs;
static c15_snap_t c15_live;
/* The last level of the search is not stored: every state found at the last but one depth is expanded on the spot (each
 * enabled character applied and judged, the state put back). The transitions are exactly those of a search one level
 * deeper; the states they lead to are counted (distinct hashes) but cost no snapshot. */
static int c15_probe_depth; static void *c15_probe_img; static vx_set c15_frontier; static uint64_t c15_n_probe_transitions, c15_n_probe_disabled;
static void c15_probe_fail(int op, const char *clause, const char *why)
{
	vx_bfs *b = &c15_bfs; vx_sb hist = {0}, rep = {0}, sig = {0};
	vx_bfs_history(b, &hist, &rep);			/* the history of the state just found ... */
	vx_sb_printf(&hist, "; "); b->describe(op, &hist);	/* ... and the character applied to it */
	while (rep.n && rep.s[rep.n - 1] == '\n') rep.s[--rep.n] = 0;
	vx_sb_printf(&rep, " %d\n", op);
	vx_sb_printf(&sig, "%s|%s|%s", clause, b->name ? b->name : "", hist.s);
	vx_violation(sig.s, rep.s, "%s: %s -- after history [%s]", clause, why, hist.s);
	free(hist.s); free(rep.s); free(sig.s);
}
static void c15_on_new(int depth)
{
	if (depth != c15_probe_depth || vx_too_many_violations() || vx_hangs_seen >= 3) return;
	c15_snap_t keep; c15_stA_save(&keep); vx_lib_save(c15_probe_img);
	for (int op = 0; op < c15_alpha->n; op++) {
		if (!c15_opA_enabled(op)) { c15_n_probe_disabled++; continue; }
		const char *clause = "";
		c15_n_chars[c15_alpha == &c15_alphas[1]][op]++; c15_n_probe_transitions++;
		const char *why = c15_step(c15_alpha->chars[op], &clause);
		if (why) c15_probe_fail(op, clause, why);
		else { vx_hasher h; vx_h_init(&h); c15_stA_canon(&h); vx_lib_hash(&h); vx_set_add(&c15_frontier, vx_h_done(&h)); }
		c15_stA_load(&keep); vx_lib_restore(c15_probe_img);
		if (vx_too_many_violations() || vx_hangs_seen >= 3) break;
	}
}
static void c15_run_bfs(int alpha, int fill, int depth, const char *replay)
{
	static char names[24][16]; static int nn;
	char *nm = names[nn++ % 24];
	snprintf(nm, 16, "%s%d", alpha ? "case" : "fill", fill);
	c15_alpha = &c15_alphas[alpha];
	c15_fresh();
	if (!c15_prefill(fill, nm)) return;
	vx_bfs *b = &c15_bfs;
	memset(b, 0, sizeof(*b));
	b->size = sizeof(c15_snap_t); b->nops = c15_alpha->n; b->enabled = c15_opA_enabled; b->apply = c15_opA_apply; b->canon = c15_stA_canon;
	b->describe = c15_opA_describe; b->save = c15_stA_save; b->load = c15_stA_load; b->live = &c15_live;
	b->name = nm;
	if (replay) { vx_bfs_replay(b, replay); return; }
	b->max_depth = depth - 1; b->on_new = c15_on_new; c15_probe_depth = depth - 1;
	if (!c15_probe_img) c15_probe_img = malloc(vx_lib_size());
	vx_set_init(&c15_frontier, 16);
	uint64_t p0 = c15_n_probe_transitions;
	vx_bfs_run(b);
	int capped = b->capped || vx_too_many_violations() || vx_hangs_seen >= 3;
	vx_count("states", b->states); vx_count("transitions", b->transitions + (c15_n_probe_transitions - p0)); vx_count("traces", b->transitions + (c15_n_probe_transitions - p0));
	vx_count("states_of_the_last_level_hashed_not_stored", c15_frontier.n);
	vx_count("scope_guard_disabled_ops", b->disabled + c15_n_probe_disabled); c15_n_probe_disabled = 0;
	vx_and("exhaustive", !capped);
	c15_n_fam[9]++;
	vx_sample("part A %s (%s alphabet): BFS depth %d + last level expanded on the spot = all histories of %d characters; %llu states stored, %llu last-level states, %llu transitions", nm, alpha ? "case/boundary" : "editing",
		  b->depth_done, b->depth_done + 1, (unsigned long long)b->states, (unsigned long long)c15_frontier.n, (unsigned long long)(b->transitions + c15_n_probe_transitions - p0));
	vx_set_free(&c15_frontier);
	vx_bfs_free(b);
}

int main(int argc, char **argv)
{
	vx_init(argc, argv);
	vx_install_handlers();
	vx_watchdog(3.0);
	vx_set_init(&c15_distinct_obs, 16);
	if (!vx_lib_size()) { fprintf(stderr, "c15: the part must be built with lib= (library image missing)\n"); return 3; }
	c15_new_sink();
	/* the console object sits between a canary block and a guard page */
	uint8_t *area = vx_guard_alloc(sizeof(console_t) + (size_t)c15_canary_len, 1);
	c15_canary = area; memset(area, 0xA5, (size_t)c15_canary_len); c15_con = (console_t *)(area + c15_canary_len);
	/* the built-ins: the named entries of the table as the library ships it */
	{
		const console_cmd_t **tab = c15_shim_table(); int slots = (int)c15_shim_table_slots();
		for (int i = 0; i < slots && tab[i] && c15_nbuiltin < C15_MAXBUILTIN; i++) if (tab[i]->name) {
			c15_builtin_fn[c15_nbuiltin] = (void *)(uintptr_t)tab[i]->fn; c15_builtin_name[c15_nbuiltin] = tab[i]->name; c15_nbuiltin++;
		}
	}
	c15_img_work = malloc(vx_lib_size()); c15_img_tmp = malloc(vx_lib_size()); c15_img_tmp2 = malloc(vx_lib_size());
	if (!c15_img_work || !c15_img_tmp || !c15_img_tmp2) return 3;
	{
		/* as many of the harness commands as the table has free slots for (all eight in a table of 11 slots or more) */
		const console_cmd_t **tab = c15_shim_table(); int slots = (int)c15_shim_table_slots(), used = 0, nreg = 0;
		for (int i = 0; i < slots; i++) if (tab[i]) used++;
		for (int i = 0; i < C15_NCMD && used + nreg < slots; i++) {
			if (console_register(&c15_cmds[c15_reg_order[i]]) != 0) {
				vx_violation("register-refused|registration|harness commands", "part=C\ncase=harness commands\n", "register-refused: console_register failed for '%s' although %d of the table's %d slots are free", c15_cmdname[c15_reg_order[i]], slots - used - nreg, slots);
				vx_finish(); return 0;
			}
			c15_cmd_registered[c15_reg_order[i]] = 1; nreg++;
		}
		if (nreg < C15_NCMD) { vx_note("the command table has room for only %d of the 8 harness commands: lines naming the others are expected to run nothing", nreg); vx_and("exhaustive", 0); }
	}
	vx_lib_save(c15_img_work);

	const int fills[7] = { 0, C15_CAP - 9, C15_CAP - 5, C15_CAP - 3, C15_CAP - 2, C15_CAP - 1, C15_CAP };
	const int fills2[3] = { 0, C15_CAP - 4, C15_CAP - 1 };
	int depthA = vx_thorough() ? 9 : 7, depthFill = vx_thorough() ? 7 : 5;
	int depthA2 = vx_thorough() ? 8 : 7, depthFill2 = vx_thorough() ? 6 : 4;
	int lenB = vx_thorough() ? 6 : 5;

	char *rp = vx_read_replay();
	if (rp) {
		const char *part = vx_replay_field(rp, "part");
		if (part && part[0] == 'B') {
			int mode = atoi(vx_replay_field(rp, "mode")); char fam[64]; snprintf(fam, sizeof(fam), "%s", vx_replay_field(rp, "family"));
			const char *hx = strstr(rp, "stream="); static char s[C15_MAXSTREAM + 8]; int n = 0;
			if (hx) hx += 7;
			for (; hx && hx[2 * n] > ' ' && hx[2 * n + 1] > ' ' && n < C15_MAXSTREAM; n++) { unsigned v; sscanf(hx + 2 * n, "%2x", &v); s[n] = (char)v; }
			s[n] = 0;
			c15_try_stream(s, n, fam, 1 << mode);
		} else if (part && part[0] == 'E') {
			int idx[3], n = 0; const char *q = vx_replay_field(rp, "seq");
			while (q && *q && n < 3) { idx[n] = atoi(q) % C15_NPOOL; n++; q = strchr(q, ','); if (q) q++; }
			if (n) c15_evalseq_case(idx, n);
		} else if (part && part[0] == 'C') {
			char want[96]; snprintf(want, sizeof(want), "%s", vx_replay_field(rp, "case"));
			c15_part_c_orders(want);
			c15_part_c_capacity(0, want); c15_part_c_capacity(1, want);
		} else {
			const char *cn = vx_replay_field(rp, "config");
			int alpha = cn && !strncmp(cn, "case", 4), f = cn ? atoi(cn + 4) : 0;
			c15_run_bfs(alpha, f, 0, rp);
		}
		vx_finish();
		return 0;
	}

	/* work units: part A start states; part B families in slices; part E; part C */
	uint64_t unit = 0;
	for (int i = 0; i < 7; i++) if (vx_mine(unit++)) c15_run_bfs(0, fills[i], fills[i] ? depthFill : depthA, NULL);
	for (int i = 0; i < 3; i++) if (vx_mine(unit++)) c15_run_bfs(1, fills2[i], fills2[i] ? depthFill2 : depthA2, NULL);
	for (int k = 0; k < c15_alphas[0].n; k++) {
		if (!vx_mine(unit++)) continue;
		char s[16]; int bad = 0; char first = c15_alphas[0].chars[k];
		for (int len = 1; len <= lenB && !c15_should_stop(); len++) {
			if (len == 1) { if (first == '\n') { s[0] = '\n'; c15_n_fam[0]++; c15_try_stream(s, 1, "short", 14); } continue; }
			s[0] = first;
			uint64_t before = c15_n_streams;
			c15_enum_streams(s, 1, len, 14, &bad);	/* modes 1,2,3 (mode 0 is part A) */
			c15_n_fam[0] += c15_n_streams - before;
		}
	}
	if (vx_mine(unit++)) { c15_part_c_orders(NULL); c15_part_c_capacity(0, NULL); c15_part_c_capacity(1, NULL); }
	for (int sl = 0; sl < 4; sl++) if (vx_mine(unit++)) c15_family_long(sl, 4);
	for (int sl = 0; sl < 2; sl++) if (vx_mine(unit++)) c15_family_unknown(sl, 2);
	if (vx_mine(unit++)) { c15_family_names(); c15_family_printable(); c15_family_script(); }
	/* tokens: quick 1..5 tokens over all six kinds and 6 tokens over three; thorough 1..6 over six and 7 over three */
	for (int first = 0; first < 3; first++) {
		if (vx_mine(unit++)) c15_family_tokens(first, vx_thorough() ? 6 : 5, 6);
		if (vx_mine(unit++)) {
			/* one more token, kinds a / 'a' / "b" only: the enumeration of the smaller counts is repeated, counted again */
			c15_family_tokens(first, vx_thorough() ? 7 : 6, 3);
		}
	}
	for (int sl = 0; sl < 3; sl++) if (vx_mine(unit++)) c15_family_evalseq(sl, 3);

	vx_count("evaluations", c15_n_streams + c15_n_reg_orders); vx_count("distinct", c15_distinct_obs.n);
	vx_count("streams", c15_n_streams);
	for (int m = 0; m < 4; m++) { char nm[64]; snprintf(nm, sizeof(nm), "deliveries_%s", c15_modename[m]); vx_count(nm, c15_n_deliveries[m]); }
	for (int f = 0; f < 9; f++) { char nm[64]; snprintf(nm, sizeof(nm), "cases_family_%s", c15_famname[f]); vx_count(nm, c15_n_fam[f]); }
	vx_count("lines_compared", c15_n_lines); vx_count("lines_unspecified_by_the_statement", c15_n_lines_unspecified); vx_count("lines_unknown_or_empty", c15_n_lines_unknown);
	vx_count("lines_naming_a_builtin", c15_n_lines_builtin);
	for (int k = 0; k < C15_NCMD; k++) { char nm[64]; snprintf(nm, sizeof(nm), "lines_cmd_%s", c15_cmdname[k]); vx_count(nm, c15_n_lines_cmd[k]); }
	vx_count("lines_shorter_than_18", c15_n_lines_by_len[0]); vx_count("lines_18_to_69", c15_n_lines_by_len[1]);
	vx_count("lines_70_to_capacity_minus_1", c15_n_lines_by_len[2]); vx_count("lines_of_capacity", c15_n_lines_by_len[3]);
	vx_count("lines_4_tokens_with_quotes_content_compared", c15_n_lines_ge4tok_quoted);
	vx_count("lines_completed_by_a_full_buffer", c15_n_fill_lines); vx_count("full_lines_dispatched_with_their_last_character", c15_n_fill_lines_at_once);
	vx_count("steps_with_poison_behind_the_line_buffer", c15_n_poison_checks);
	vx_count("builtin_command_entries_seen", c15_builtin_entries);
	vx_count("registration_cases", c15_n_reg_orders); vx_count("registration_lookups", c15_n_reg_lookups);
	vx_count("eval_invocations", c15_n_eval_invocations); vx_count("eval_calls_in_sequences", c15_n_evals); vx_count("eval_calls_with_the_empty_string", c15_n_empty_evals);
	vx_count("generator_scope_guard_skips", c15_n_guard_skips); vx_count("console_output_bytes", c15_out_bytes);
	vx_max("line_buffer_bytes", (uint64_t)C15_LINESZ); vx_max("scratch_union_bytes", (uint64_t)C15_SCRATCHSZ); vx_max("library_image_bytes", (uint64_t)vx_lib_size());
	for (int a = 0; a < 2; a++) for (int k = 0; k < 9; k++) { char nm[48]; snprintf(nm, sizeof(nm), "chars_%s_%s", a ? "case" : "edit", c15_alphas[a].names[k]); vx_count(nm, c15_n_chars[a][k]); }
	vx_finish();
	return 0;
}

#endif /* C15_SHIM */

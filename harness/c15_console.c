/*
 * C15 - console line editing, tokenising and dispatch.
 *
 * Part A (explicit-state BFS): every character stream over a reduced alphabet
 * delivered with console_process, from the empty line and from lines pre-filled
 * to 70..79 characters; state = the real console_t + a reference line editor.
 * Part B (bounded-exhaustive streams): the same streams delivered through
 * console_putchar + scheduler passes and through console_eval running in a fibre;
 * the captured command invocations must equal the reference for every delivery.
 * Part C: registration orders, capacity and beyond.
 * console.c, fibre.c, list.c, messageq.c, ringbuf.c, util.c are #included so the
 * static command table and the scheduler state can be reset between scenarios.
 */
#include "vx.h"

#include "list.c"
#include "messageq.c"
#include "ringbuf.c"
#include "fibre.c"
#include "util.c"
#include "console.c"

uint32_t time_now(void) { return 0; }
void console_hwinit(console_t *c) { (void)c; }

/* ------------------------------------------------------------ capture */
typedef struct { int8_t cmd; int8_t argc; char argv[4][82]; int8_t bad; } inv_t;
static inv_t invs[260]; static int ninv;
static console_t *CON;

static pt_state_t capture(console_t *c, int which)
{
	if (ninv < 260) {
		inv_t *v = &invs[ninv];
		memset(v, 0, sizeof(*v));
		v->cmd = (int8_t)which; v->argc = (int8_t)c->argc;
		if (c->argc < 1 || c->argc > 4) v->bad = 1;
		for (int i = 0; i < 4; i++) {
			/* every argv (also the unused ones) must be a NUL-terminated string inside the line buffer */
			char *p = c->argv[i];
			if (p < c->scratch.buf || p > c->scratch.buf + 79) { v->bad = 2; continue; }
			size_t room = (size_t)(c->scratch.buf + 80 - p);
			if (strnlen(p, room) == room) { v->bad = 3; continue; }
			if (i < c->argc && i < 4) snprintf(v->argv[i], sizeof(v->argv[i]), "%s", p);
		}
	}
	ninv++;
	return PT_EXITED;
}
static pt_state_t cmd_a_fn(console_t *c) { return capture(c, 0); }
static pt_state_t cmd_b_fn(console_t *c) { return capture(c, 2); }
static pt_state_t cmd_ab_fn(console_t *c)
{
	/* yields twice before it looks at its arguments and exits */
	PT_BEGIN(&c->pt);
	PT_YIELD();
	PT_YIELD();
	capture(c, 1);
	/* like the library's own udelay/pulse commands it then keeps state in the scratch area (the documented
	 * use: "commands must parse their command line before storing state in the scratch buffers") */
	c->scratch.u32[0] = 0x41424344; c->scratch.u32[1] = 0x45464748; c->scratch.u32[5] = 0x61626364;
	PT_YIELD();
	PT_END();
}
static const console_cmd_t cmd_a = CONSOLE_CMD_VAR_INIT("a", cmd_a_fn);
static const console_cmd_t cmd_ab = CONSOLE_CMD_VAR_INIT("ab", cmd_ab_fn);
static const console_cmd_t cmd_b = CONSOLE_CMD_VAR_INIT("b", cmd_b_fn);
/* two names longer than a pointer (8 bytes here, 4 on the 32-bit targets) that share their first 8 and 9 characters:
 * lookups must compare whole names */
static pt_state_t cmd_l1_fn(console_t *c) { return capture(c, 3); }
static pt_state_t cmd_l2_fn(console_t *c) { return capture(c, 4); }
static const console_cmd_t cmd_l1 = CONSOLE_CMD_VAR_INIT("abababab", cmd_l1_fn);
static const console_cmd_t cmd_l2 = CONSOLE_CMD_VAR_INIT("ababababa", cmd_l2_fn);
static const char *cmdname[] = { "a", "ab", "b", "abababab", "ababababa" };
#define NCMD 5

static const console_cmd_t *pristine_table[32];
static void table_reset(void) { memcpy(cmd_table, pristine_table, sizeof(cmd_table)); }

/* ------------------------------------------------------------ the reference */
typedef struct { char line[80]; int len; } model_t;
typedef struct { int cmd; int argc; char argv[4][80]; int unspecified; } expect_t;

/* what the statement defines: split on unquoted white space; a token that starts with ' or " runs to the
 * matching quote. Everything else (leading blanks, quote inside a word, unterminated or empty quote, text glued
 * to a closing quote, more than four tokens) is left open by the statement: flagged unspecified. */
static void reference_tokenize(const char *line, expect_t *e)
{
	memset(e, 0, sizeof(*e)); e->cmd = -1;
	int n = (int)strlen(line), i = 0, ntok = 0;
	if (n && (line[0] == ' ' || line[0] == '\t')) e->unspecified = 1;
	if (n && (line[0] == '\'' || line[0] == '"')) e->unspecified = 1;	/* a quoted command name */
	while (i < n) {
		if (line[i] == ' ' || line[i] == '\t') { i++; continue; }
		char tok[80]; int t = 0;
		if (line[i] == '\'' || line[i] == '"') {
			if (ntok == 3) e->unspecified = 1;	/* a quoted fourth token: see below */
			char q = line[i++]; int closed = 0;
			while (i < n) { if (line[i] == q) { closed = 1; i++; break; } tok[t++] = line[i++]; }
			if (!closed || t == 0) e->unspecified = 1;
			if (i < n && line[i] != ' ' && line[i] != '\t') e->unspecified = 1;
		} else {
			while (i < n && line[i] != ' ' && line[i] != '\t') { if (line[i] == '\'' || line[i] == '"') e->unspecified = 1; tok[t++] = line[i++]; }
		}
		tok[t] = 0;
		if (ntok < 4) snprintf(e->argv[ntok], 80, "%s", tok);
		ntok++;
		/* the fourth token is the last one the console can hand over; whether it also takes the rest of the
		 * line (further tokens, or just trailing blanks) is not said */
		if (ntok == 4 && i < n) e->unspecified = 1;
	}
	if (ntok > 4) e->unspecified = 1;
	e->argc = ntok > 4 ? 4 : ntok;
	if (ntok) for (int k = 0; k < NCMD; k++) if (!strcmp(e->argv[0], cmdname[k])) e->cmd = k;
}

/* ------------------------------------------------------------ comparing one completed line */
static uint64_t n_lines, n_lines_unspecified, n_lines_cmd[NCMD + 1], n_lines_unknown;
static vx_set distinct_obs;
static char failbuf[400];
/* returns NULL if fine, else a description; `got`/`ngot` are the invocations captured while the line completed */
static const char *check_line(const char *line, const inv_t *got, int ngot, const char **clause)
{
	expect_t e; reference_tokenize(line, &e);
	n_lines++;
	vx_hasher h; vx_h_init(&h); vx_h_bytes(&h, line, strlen(line)); vx_h_u64(&h, (uint64_t)ngot);
	if (ngot) { vx_h_u64(&h, (uint64_t)got[0].cmd); vx_h_u64(&h, (uint64_t)got[0].argc); }
	vx_set_add(&distinct_obs, vx_h_done(&h));
	for (int i = 0; i < ngot && i < 260; i++) if (got[i].bad) {
		*clause = "argv-unsafe";
		snprintf(failbuf, sizeof(failbuf), "line \"%s\": command received %s", line, got[i].bad == 1 ? "argc outside 1..4" : got[i].bad == 2 ? "an argv pointer outside the line buffer" : "an argv string that is not NUL-terminated inside the line buffer");
		return failbuf;
	}
	if (ngot > 1) { *clause = "dispatch-count"; snprintf(failbuf, sizeof(failbuf), "line \"%s\" ran %d registered commands", line, ngot); return failbuf; }
	if (e.unspecified) { n_lines_unspecified++; return NULL; }
	if (e.cmd < 0) {
		n_lines_unknown++;
		if (ngot) { *clause = "dispatch-unknown"; snprintf(failbuf, sizeof(failbuf), "line \"%s\" names no registered command but command '%s' ran", line, cmdname[got[0].cmd]); return failbuf; }
		return NULL;
	}
	n_lines_cmd[e.cmd]++;
	if (!ngot) { *clause = "dispatch-missing"; snprintf(failbuf, sizeof(failbuf), "line \"%s\" names command '%s' but no registered command ran", line, cmdname[e.cmd]); return failbuf; }
	if (got[0].cmd != e.cmd) { *clause = "dispatch-wrong"; snprintf(failbuf, sizeof(failbuf), "line \"%s\" names command '%s' but '%s' ran", line, cmdname[e.cmd], cmdname[got[0].cmd]); return failbuf; }
	if (got[0].argc != e.argc) { *clause = "argc"; snprintf(failbuf, sizeof(failbuf), "line \"%s\": command saw argc=%d, the line has %d tokens", line, got[0].argc, e.argc); return failbuf; }
	for (int i = 0; i < e.argc; i++) if (strcmp(got[0].argv[i], e.argv[i])) {
		*clause = "argv"; snprintf(failbuf, sizeof(failbuf), "line \"%s\": argv[%d] is \"%s\", expected \"%s\"", line, i, got[0].argv[i], e.argv[i]); return failbuf;
	}
	return NULL;
}

/* ------------------------------------------------------------ part A: BFS with console_process */
static const char alphabet[] = { 'a', 'b', ' ', '\n', '\b', 3, '\'', '"', '\t' };
static const char *alphaname[] = { "a", "b", "SP", "NL", "BS", "^C", "'", "\"", "TAB" };
#define NALPHA 9

static struct { console_t *c; } dummy;
typedef struct { console_t con; model_t m; uint8_t must_ctrlc; } snapA_t;
static model_t Mo;
static uint8_t must_ctrlc;	/* the 80th character completed a line; whether it also starts the next line is open: discard with ^C */
static FILE *sink; static char sinkbuf[1 << 16];

static void stA_save(void *dst) { snapA_t *s = dst; memcpy(&s->con, CON, sizeof(console_t)); s->m = Mo; s->must_ctrlc = must_ctrlc; }
static void stA_load(const void *src) { const snapA_t *s = src; memcpy(CON, &s->con, sizeof(console_t)); Mo = s->m; must_ctrlc = s->must_ctrlc; }
static void stA_canon(vx_hasher *h)
{
	console_t *c = CON;
	vx_h_bytes(h, &c->scratch, sizeof(c->scratch)); vx_h_u64(h, (uint64_t)(c->bufp - c->scratch.buf)); vx_h_u64(h, (uint64_t)c->argc);
	vx_h_u64(h, c->pt); vx_h_u64(h, c->fibre.priv);
	vx_h_u64(h, atomic_load(&c->ring.readi)); vx_h_u64(h, atomic_load(&c->ring.writei));
	vx_h_bytes(h, Mo.line, sizeof(Mo.line)); vx_h_u64(h, (uint64_t)Mo.len); vx_h_u64(h, must_ctrlc);
}
static int opA_enabled(int op) { if (must_ctrlc) return alphabet[op] == 3; return 1; }
static void opA_describe(int op, vx_sb *sb) { vx_sb_printf(sb, "%s", alphaname[op]); }
static uint64_t n_chars[NALPHA], n_fill_lines;

/* feed one character to the reference editor; returns 1 and copies the completed line if it completes one */
static int model_char(char ch, char *completed)
{
	if (ch == '\n' || Mo.len >= 79) {
		memcpy(completed, Mo.line, (size_t)Mo.len); completed[Mo.len] = 0;
		if (ch != '\n') { must_ctrlc = 1; n_fill_lines++; }
		memset(&Mo, 0, sizeof(Mo));
		return 1;
	}
	if (ch == '\b') { if (Mo.len) Mo.line[--Mo.len] = 0; return 0; }
	if (ch == 3) { memset(&Mo, 0, sizeof(Mo)); must_ctrlc = 0; return 0; }
	Mo.line[Mo.len++] = ch;
	return 0;
}
static int scratch_tail_clean(console_t *c)
{
	/* the line buffer is scratch.buf[80]; the rest of the scratch area (x86-64: 160 bytes) must stay clear,
	 * except its last two bytes where console_eval keeps its cursor */
	const volatile uint8_t *raw = (const volatile uint8_t *)&c->scratch;
	for (size_t i = 80; i + 2 < sizeof(c->scratch); i++) if (raw[i]) return 0;
	return 1;
}
static uint8_t *con_canary_lo, *con_canary_hi;
static int canaries_ok(void)
{
	for (int i = 0; i < 64; i++) if (con_canary_lo[i] != 0xA5) return 0;
	(void)con_canary_hi;
	return 1;
}
static int opA_apply(int op)
{
	char ch = alphabet[op], line[80];
	n_chars[op]++;
	ninv = 0;
	rewind(sink);
	if (VX_TRY) { console_process(CON, ch); VX_END; }
	else { VX_END; vx_bfs_fail("fault", "%s while processing the character", vx_fault_msg); return 1; }
	int completes = model_char(ch, line);
	if (!scratch_tail_clean(CON) || !canaries_ok()) { vx_bfs_fail("write-outside-line-buffer", "the console wrote outside its 80-byte line buffer"); return 1; }
	if (!completes) {
		if (ninv) { vx_bfs_fail("dispatch-early", "a command ran although no line was completed"); return 1; }
		return 0;
	}
	const char *clause = "", *why = check_line(line, invs, ninv, &clause);
	if (why) { vx_bfs_fail(clause, "%s", why); return 1; }
	return 0;
}

static void console_fresh(void)
{
	memset(&kernel, 0, sizeof(kernel));
	memset(atomic_runq_buf, 0, sizeof(atomic_runq_buf));
	messageq_init(&kernel.atomic_runq, atomic_runq_buf, sizeof(atomic_runq_buf), sizeof(atomic_runq_buf[0]));
	console_init(CON, sink);
	console_silent(CON);		/* no prompt before the first line (argc = 1): the fibre starts reading at once */
	memset(&Mo, 0, sizeof(Mo)); must_ctrlc = 0; ninv = 0;
}
/* start state: a line of n characters already typed (pattern of words) */
static void prefill(int n)
{
	for (int i = 0; i < n; i++) {
		/* "ab" and two long words: a line that names a registered command with two arguments */
		char ch = (i == 2 || i == 40) ? ' ' : (i < 2 ? "ab"[i] : 'a' + (char)((i >> 2) & 1));
		char line[80];
		console_process(CON, ch);
		model_char(ch, line);
	}
}

/* ------------------------------------------------------------ part B: other deliveries of whole streams */
static uint64_t n_streams, n_deliveries[3], n_eval_invocations;
static fibre_t evalf; static pt_t evalpt; static const char *evalstr; static int eval_done;
static int eval_body(fibre_t *f)
{
	(void)f;
	pt_state_t s = console_eval(&evalpt, CON, evalstr);
	n_eval_invocations++;
	if (s >= PT_EXITED) eval_done = 1;
	return s;
}
/* run the reference over a whole stream: expected completed lines, in order */
static int reference_lines(const char *s, int n, char lines[][80])
{
	int k = 0; memset(&Mo, 0, sizeof(Mo)); must_ctrlc = 0;
	for (int i = 0; i < n; i++) if (model_char(s[i], lines[k])) k++;
	return k;
}
/* mode 0: console_process per character; 1: console_putchar + a scheduler pass after every character;
 * 2: console_putchar in bursts (ring permitting) + passes; 3: console_eval in a fibre */
static const char *deliver(const char *s, int n, int mode, const char **clause)
{
	static char lines[260][80]; int nl = reference_lines(s, n, lines);
	console_fresh();
	static inv_t all[260]; int nall = 0;
	/* invocations are attributed to lines in order of completion: collect them all, then compare line by line */
	ninv = 0;
	uint32_t t = 100;
	if (VX_TRY) {
		if (mode == 0) for (int i = 0; i < n; i++) console_process(CON, s[i]);
		else if (mode == 1) for (int i = 0; i < n; i++) { console_putchar(CON, s[i]); for (int k = 0; k < 6; k++) fibre_scheduler_next(t++); }
		else if (mode == 2) {
			for (int i = 0; i < n; ) {
				int burst = 0;
				while (i < n && burst < 14) { console_putchar(CON, s[i++]); burst++; }
				for (int k = 0; k < 64; k++) fibre_scheduler_next(t++);
				if (ninv >= 259) break;
			}
		} else {
			fibre_init(&evalf, eval_body); PT_INIT(&evalpt); evalstr = s; eval_done = 0;
			fibre_run(&evalf);
			int k;
			int maxpass = 400 + 8 * n;
			for (k = 0; k < maxpass && (!eval_done || !ringbuf_empty(&CON->ring) || kernel.runq.head); k++) fibre_scheduler_next(t++);
			for (int j = 0; j < 8; j++) fibre_scheduler_next(t++);
			if (!eval_done) { VX_END; *clause = "eval-never-completes"; return "console_eval has not exited after 400 + 8 x length scheduling passes"; }
		}
		VX_END;
	} else { VX_END; *clause = "fault"; snprintf(failbuf, sizeof(failbuf), "%s", vx_fault_msg); return failbuf; }
	if (!scratch_tail_clean(CON) || !canaries_ok()) { *clause = "write-outside-line-buffer"; return "the console wrote outside its 80-byte line buffer"; }
	nall = ninv < 260 ? ninv : 260; memcpy(all, invs, sizeof(inv_t) * (size_t)nall);
	/* memory safety of what the commands were handed holds for every line, specified or not */
	for (int i = 0; i < nall; i++) if (all[i].bad) {
		*clause = "argv-unsafe";
		snprintf(failbuf, sizeof(failbuf), "a command received %s", all[i].bad == 1 ? "argc outside 1..4" : all[i].bad == 2 ? "an argv pointer outside the line buffer" : "an argv string that is not NUL-terminated inside the line buffer");
		return failbuf;
	}
	/* expected invocations: one per specified line that names a command */
	int gi = 0;
	for (int l = 0; l < nl; l++) {
		expect_t e; reference_tokenize(lines[l], &e);
		if (e.unspecified) {
			/* cannot tell whether this line ran a command: stop comparing this stream here (safety already checked) */
			n_lines_unspecified++; return NULL;
		}
		int expect_run = e.cmd >= 0;
		const char *why = check_line(lines[l], all + gi, expect_run && gi < nall ? 1 : 0, clause);
		if (why) return why;
		if (expect_run) gi++;
	}
	if (gi != ninv) { *clause = "dispatch-extra"; snprintf(failbuf, sizeof(failbuf), "%d command invocations, the stream completes lines that name %d", ninv, gi); return failbuf; }
	return NULL;
}
static void stream_text(const char *s, int n, vx_sb *sb)
{
	for (int i = 0; i < n; i++) { int k = 0; while (k < NALPHA && alphabet[k] != s[i]) k++; vx_sb_printf(sb, "%s%s", i ? " " : "", k < NALPHA ? alphaname[k] : "?"); }
}
static const char *modename[] = { "console_process", "console_putchar+pass-per-char", "console_putchar-bursts+passes", "console_eval-in-a-fibre" };
static int report_stream(const char *s, int n, int mode, const char *clause, const char *why, const char *family)
{
	vx_sb sig = {0}, rep = {0}, st = {0};
	stream_text(s, n, &st);
	vx_sb_printf(&sig, "%s|%s|%s|%s", clause, modename[mode], family, st.s ? st.s : "");
	vx_sb_printf(&rep, "part=B\nmode=%d\nfamily=%s\nstream=", mode, family);
	for (int i = 0; i < n; i++) vx_sb_printf(&rep, "%02x", (unsigned char)s[i]);
	vx_sb_printf(&rep, "\n");
	vx_violation(sig.s, rep.s, "%s: stream [%s] delivered with %s: %s", clause, st.s ? st.s : "", modename[mode], why);
	free(sig.s); free(rep.s); free(st.s);
	return 1;
}
/* all deliveries of one stream; returns number of violations */
static int try_stream(const char *s0, int n, const char *family, int modes_mask)
{
	int bad = 0;
	char s[1400]; memcpy(s, s0, (size_t)n); s[n] = 0;	/* console_eval takes a C string */
	n_streams++;
	for (int mode = 0; mode < 4; mode++) {
		if (!(modes_mask & (1 << mode))) continue;
		if (mode == 3 && memchr(s, 0, (size_t)n)) continue;
		const char *clause = "";
		n_deliveries[mode > 2 ? 2 : mode ? 1 : 0]++;
		const char *why = deliver(s, n, mode, &clause);
		if (why) bad += report_stream(s, n, mode, clause, why, family);
	}
	return bad;
}

/* ------------------------------------------------------------ part C: registration */
static uint64_t n_reg_orders, n_reg_lookups;
static const console_cmd_t pool_cmds[4] = { CONSOLE_CMD_VAR_INIT("a", cmd_a_fn), CONSOLE_CMD_VAR_INIT("ab", cmd_ab_fn), CONSOLE_CMD_VAR_INIT("b", cmd_b_fn), CONSOLE_CMD_VAR_INIT("ba", cmd_a_fn) };
static console_cmd_t filler[40]; static char fillname[40][8];
static void reg_fail(const char *clause, const char *desc, const char *why)
{
	vx_sb sig = {0}, rep = {0};
	vx_sb_printf(&sig, "%s|registration|%s", clause, desc);
	vx_sb_printf(&rep, "part=C\ncase=%s\n", desc);
	vx_violation(sig.s, rep.s, "%s: %s: %s", clause, desc, why);
	free(sig.s); free(rep.s);
}
static const console_cmd_t *lookup(const char *name)
{
	console_t *c = CON;
	snprintf(c->scratch.buf, 80, "%s", name); c->argv[0] = c->scratch.buf;
	find_command(c);
	n_reg_lookups++;
	return c->cmd;
}
static void part_c_case(const int *order, int n, const char *only)
{
	char desc[96]; int k = snprintf(desc, sizeof(desc), "order");
	for (int i = 0; i < n; i++) k += snprintf(desc + k, sizeof(desc) - (size_t)k, " %s", pool_cmds[order[i]].name);
	if (only && strcmp(only, desc)) return;
	n_reg_orders++;
	table_reset();
	if (VX_TRY) {
		for (int i = 0; i < n; i++) if (console_register(&pool_cmds[order[i]]) != 0) { VX_END; reg_fail("register-refused", desc, "console_register failed although the table has room"); return; }
		for (int p = 0; p < 4; p++) {
			int present = 0; for (int i = 0; i < n; i++) present |= (order[i] == p);
			const console_cmd_t *f = lookup(pool_cmds[p].name);
			if (present && f != &pool_cmds[p]) { VX_END; char w[96]; snprintf(w, sizeof(w), "registered command '%s' is not found by its exact name", pool_cmds[p].name); reg_fail("lookup", desc, w); return; }
			if (!present && f->name) { VX_END; char w[96]; snprintf(w, sizeof(w), "name '%s' was never registered but a command is found", pool_cmds[p].name); reg_fail("lookup", desc, w); return; }
		}
		if (lookup("echo")->name == NULL || lookup("help")->name == NULL) { VX_END; reg_fail("lookup", desc, "a built-in command is no longer found"); return; }
		if (lookup("")->name || lookup("abc")->name) { VX_END; reg_fail("lookup", desc, "an empty or unknown name finds a command"); return; }
		VX_END;
	} else { VX_END; reg_fail("fault", desc, vx_fault_msg); }
}
static void part_c_capacity(const char *only)
{
	const char *desc = "fill to capacity and beyond";
	if (only && strcmp(only, desc)) return;
	n_reg_orders++;
	table_reset();
	int ok = 0;
	if (VX_TRY) {
		for (int i = 0; i < 40; i++) {
			/* descending names: every insertion shifts the whole table */
			snprintf(fillname[i], sizeof(fillname[i]), "z%02d", 60 - i); filler[i].name = fillname[i]; filler[i].fn = cmd_a_fn;
			const console_cmd_t *before[32]; memcpy(before, cmd_table, sizeof(before));
			int r = console_register(&filler[i]);
			if (r == 0) { ok++; if (lookup(fillname[i]) != &filler[i]) { VX_END; reg_fail("lookup", desc, "a command registered into a nearly full table is not found"); return; } }
			else if (memcmp(before, cmd_table, sizeof(before))) { VX_END; reg_fail("failed-register-changes-table", desc, "console_register failed but the table was modified"); return; }
			if (lookup("echo")->name == NULL) { VX_END; reg_fail("lookup", desc, "built-in 'echo' lost while filling the table"); return; }
			if (lookup("zzz")->name != NULL) { VX_END; reg_fail("lookup", desc, "unknown name finds a command while filling the table"); return; }
		}
		VX_END;
	} else { VX_END; reg_fail("fault", desc, vx_fault_msg); return; }
	if (ok != 29) { char w[96]; snprintf(w, sizeof(w), "%d registrations succeeded, the 32-entry table with 3 built-ins has room for 29", ok); reg_fail("capacity", desc, w); }
}

/* ------------------------------------------------------------ main */
static void enum_streams(char *s, int pos, int len, const char *family, int modes, int *bad)
{
	if (pos == len) { if (*bad < 6) *bad += try_stream(s, len, family, modes); return; }
	for (int k = 0; k < NALPHA; k++) {
		if (pos == len - 1 && alphabet[k] != '\n') continue;	/* streams end with a newline so that the last line is observed */
		s[pos] = alphabet[k];
		enum_streams(s, pos + 1, len, family, modes, bad);
	}
}

int main(int argc, char **argv)
{
	vx_init(argc, argv);
	vx_install_handlers();
	vx_watchdog(3.0);
	vx_set_init(&distinct_obs, 16);
	sink = fmemopen(sinkbuf, sizeof(sinkbuf), "w");
	/* the console object sits between a canary block and a guard page */
	uint8_t *area = vx_guard_alloc(sizeof(console_t) + 64, 1);
	con_canary_lo = area; memset(area, 0xA5, 64); CON = (console_t *)(area + 64); con_canary_hi = area;
	memcpy(pristine_table, cmd_table, sizeof(cmd_table));
	table_reset(); console_register(&cmd_a); console_register(&cmd_ab); console_register(&cmd_b); console_register(&cmd_l2); console_register(&cmd_l1);
	const console_cmd_t *work_table[32]; memcpy(work_table, cmd_table, sizeof(work_table));
	(void)dummy;

	vx_bfs b = { .size = sizeof(snapA_t), .nops = NALPHA, .enabled = opA_enabled, .apply = opA_apply, .canon = stA_canon,
		     .describe = opA_describe, .save = stA_save, .load = stA_load };
	static snapA_t live; b.live = &live;
	static const int fills[] = { 0, 70, 74, 76, 77, 78, 79 };
	int depthA = vx_thorough() ? 9 : 7, depthFill = vx_thorough() ? 7 : 5;
	int lenB = vx_thorough() ? 6 : 5;

	char *rp = vx_read_replay();
	if (rp) {
		const char *part = vx_replay_field(rp, "part");
		if (part && part[0] == 'B') {
			int mode = atoi(vx_replay_field(rp, "mode")); char fam[64]; snprintf(fam, sizeof(fam), "%s", vx_replay_field(rp, "family"));
			const char *hx = strstr(rp, "stream="); static char s[1400]; int n = 0;
			if (hx) hx += 7;
			for (; hx && hx[2 * n] > ' ' && hx[2 * n + 1] > ' ' && n < 1390; n++) { unsigned v; sscanf(hx + 2 * n, "%2x", &v); s[n] = (char)v; }
			s[n] = 0;
			memcpy(cmd_table, work_table, sizeof(work_table));
			try_stream(s, n, fam, 1 << mode);
		} else if (part && part[0] == 'C') {
			char want[96]; snprintf(want, sizeof(want), "%s", vx_replay_field(rp, "case"));
			for (int n = 1; n <= 4; n++) { int o[4]; for (o[0] = 0; o[0] < 4; o[0]++) for (o[1] = 0; o[1] < (n > 1 ? 4 : 1); o[1]++) for (o[2] = 0; o[2] < (n > 2 ? 4 : 1); o[2]++) for (o[3] = 0; o[3] < (n > 3 ? 4 : 1); o[3]++) {
				int dup = 0; for (int i = 0; i < n; i++) for (int j = 0; j < i; j++) dup |= o[i] == o[j];
				if (!dup) part_c_case(o, n, want); } }
			part_c_capacity(want);
		} else {
			const char *cn = vx_replay_field(rp, "config"); int f = cn ? atoi(cn + 4) : 0;
			memcpy(cmd_table, work_table, sizeof(work_table));
			console_fresh(); prefill(f); b.name = cn;
			vx_bfs_replay(&b, rp);
		}
		vx_finish();
		return 0;
	}

	/* partitions: 0..6 part A start states, 7..15 part B (first character), 16 part C, 17.. long-line families */
	for (unsigned i = 0; i < sizeof(fills) / sizeof(fills[0]); i++) {
		if (!vx_mine(i)) continue;
		static char names[8][16]; snprintf(names[i], 16, "fill%d", fills[i]);
		memcpy(cmd_table, work_table, sizeof(work_table));
		console_fresh(); prefill(fills[i]);
		b.name = names[i]; b.max_depth = fills[i] ? depthFill : depthA;
		vx_bfs_run(&b);
		vx_count("states", b.states); vx_count("transitions", b.transitions); vx_count("traces", b.transitions);
		vx_count("scope_guard_disabled_ops", b.disabled);
		vx_and("exhaustive", !b.capped);
		vx_sample("part A %s: BFS depth %d, %llu states, %llu transitions", names[i], b.depth_done, (unsigned long long)b.states, (unsigned long long)b.transitions);
		vx_bfs_free(&b);
	}
	for (int k = 0; k < NALPHA; k++) {
		if (!vx_mine((uint64_t)(7 + k))) continue;
		memcpy(cmd_table, work_table, sizeof(work_table));
		char s[16]; int bad = 0;
		for (int len = 1; len <= lenB; len++) {
			if (len == 1) { if (alphabet[k] == '\n') { s[0] = '\n'; try_stream(s, 1, "short", 14); } continue; }
			s[0] = alphabet[k];
			enum_streams(s, 1, len, "short", 14, &bad);	/* modes 1,2,3 (mode 0 is part A) */
			if (vx_deadline_passed()) { vx_and("exhaustive", 0); break; }
		}
	}
	if (vx_mine(16)) {
		memcpy(cmd_table, work_table, sizeof(work_table));
		for (int n = 1; n <= 4; n++) { int o[4]; for (o[0] = 0; o[0] < 4; o[0]++) for (o[1] = 0; o[1] < (n > 1 ? 4 : 1); o[1]++) for (o[2] = 0; o[2] < (n > 2 ? 4 : 1); o[2]++) for (o[3] = 0; o[3] < (n > 3 ? 4 : 1); o[3]++) {
			int dup = 0; for (int i = 0; i < n; i++) for (int j = 0; j < i; j++) dup |= o[i] == o[j];
			if (!dup) part_c_case(o, n, NULL); } }
		part_c_capacity(NULL);
		table_reset();
	}
	/* long streams: lines of 1..3 words around the ring size (15) and the line limit (79), several lines per stream, every delivery */
	if (vx_mine(17)) {
		memcpy(cmd_table, work_table, sizeof(work_table));
		static char s[400];
		int bad = 0;
		for (int total = 10; total <= 90 && bad < 6; total++) for (int variant = 0; variant < 4 && bad < 6; variant++) {
			/* "ab" + blanks/words up to `total` characters, newline, then a second short line */
			int n = 0;
			s[n++] = 'a'; if (variant & 1) s[n++] = 'b';
			while (n < total) { s[n] = (n % 5 == 2) ? ' ' : ((variant & 2) ? 'b' : 'a'); n++; }
			if (total < 79) s[n++] = '\n'; else { s[n++] = 'a'; s[n++] = 3; }	/* past the limit: the overflowing character, then ^C */
			s[n++] = 'b'; s[n++] = ' '; s[n++] = 'a'; s[n++] = '\n';
			s[n] = 0;
			bad += try_stream(s, n, "long", 15);
		}
	}
	/* names around the long registered commands: exact, one shorter, one longer, differing late */
	if (vx_mine(17)) {
		memcpy(cmd_table, work_table, sizeof(work_table));
		static const char *near[] = { "abababab\n", "ababababa\n", "abababa\n", "ababababb\n", "ababababab\n", "abababab a\n", "ababababa 'b b'\n",
					      "abababaa\n", "ababababaa b\n", "abababab\nababababa\nababababb\na\n" };
		int bad = 0;
		for (unsigned i = 0; i < sizeof(near) / sizeof(near[0]) && bad < 6; i++) bad += try_stream(near[i], (int)strlen(near[i]), "names", 15);
	}
	/* scripts: many short lines, total length around the sizes a narrow cursor would wrap at */
	if (vx_mine(17)) {
		memcpy(cmd_table, work_table, sizeof(work_table));
		static char s[1400];
		static const int totals[] = { 120, 254, 255, 256, 257, 258, 300, 511, 512, 513, 1000 };
		int bad = 0;
		for (unsigned ti = 0; ti < sizeof(totals) / sizeof(totals[0]) && bad < 6; ti++) {
			int n = 0, line = 0;
			while (n < totals[ti]) {
				const char *l = (line % 3 == 0) ? "ab a\n" : (line % 3 == 1) ? "b\n" : "a bb ab\n";
				int ll = (int)strlen(l);
				if (n + ll > totals[ti]) { while (n < totals[ti] - 1) s[n++] = ' '; s[n++] = '\n'; break; }
				memcpy(s + n, l, (size_t)ll); n += ll; line++;
			}
			s[n] = 0;
			bad += try_stream(s, n, "script", 13);	/* console_process, putchar bursts, console_eval */
		}
	}
	vx_count("evaluations", n_streams + n_reg_orders); vx_count("distinct", distinct_obs.n);
	vx_count("streams_delivered_other_than_console_process", n_streams); vx_count("deliveries_putchar", n_deliveries[1]); vx_count("deliveries_eval", n_deliveries[2]);
	vx_count("lines_compared", n_lines); vx_count("lines_unspecified_by_the_statement", n_lines_unspecified); vx_count("lines_unknown_or_empty", n_lines_unknown);
	vx_count("lines_cmd_a", n_lines_cmd[0]); vx_count("lines_cmd_ab", n_lines_cmd[1]); vx_count("lines_cmd_b", n_lines_cmd[2]);
	vx_count("lines_cmd_abababab", n_lines_cmd[3]); vx_count("lines_cmd_ababababa", n_lines_cmd[4]);
	vx_count("lines_completed_by_a_full_buffer", n_fill_lines);
	vx_count("registration_cases", n_reg_orders); vx_count("registration_lookups", n_reg_lookups); vx_count("eval_invocations", n_eval_invocations);
	for (int k = 0; k < NALPHA; k++) { char nm[32]; snprintf(nm, sizeof(nm), "chars_%s", alphaname[k]); vx_count(nm, n_chars[k]); }
	vx_finish();
	return 0;
}

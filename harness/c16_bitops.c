/*
 * C16 - bit-counting helpers equal their mathematical definitions on all inputs.
 *
 * This file is the harness proper: it enumerates arguments, judges results and writes the evidence. It never includes
 * a librfn header. The calls of bitcnt / clz / ctz / ilog2 and the expansions of const_pop / const_lssb live in the
 * "user" unit c16_user.c (see c16_user.h), which includes only the public headers, as a user of the library does;
 * bitops.c is linked as a separate object (lib=['bitops.c'] in bin/checks.d/C16.py).
 *
 * One source, three kinds of binary:
 *   -DC16_PART_FUNCS   (c16f) the four functions: ALL 2^32 arguments through the plain call, all 2^32 through pointers
 *                      to the functions when the header makes a name a macro (else a structured subset), and the
 *                      argument-form families: run-time values of every integer type, operator expressions written
 *                      without parentheses, a generated table of constant-expression arguments.
 *   -DC16_PART_MACROS  (c16m) const_pop / const_lssb: structured 64-bit patterns and lanes at run time, the same
 *                      argument-form families, and the generated table evaluated by the compiler in static initialisers
 *                      (compared with the definition and with the run-time value).
 *   -DC16_PART_ILP32   (c16i) both of the above for an ILP32 build of the library (gcc -m32): the compile-time table is
 *                      read back from the object file without running it; everything else is evaluated by the libc-free
 *                      helper c16_ilp32.c, which this part drives through a pipe (no lanes: run-time 64-bit patterns only).
 *
 * Signatures name the first failing case of a family in its canonical order (independent of the worker partition).
 */
#include "vx.h"
#include <errno.h>
#include <poll.h>
#include <sys/wait.h>

#include "c16_judge.h"

#if defined(__GNUC__) && !defined(__clang__) && !defined(__OPTIMIZE__)
/* the -O0 build variant is about the library and the user unit (separate objects); judging 2^32 results need not crawl.
 * (After the includes: the pragma also defines __OPTIMIZE__, which c16_user.h uses to tell a variant build.) */
#pragma GCC optimize("O2")
#endif

#if !defined(C16_PART_FUNCS) && !defined(C16_PART_MACROS) && !defined(C16_PART_ILP32)
#error "build with -DC16_PART_FUNCS, -DC16_PART_MACROS or -DC16_PART_ILP32"
#endif
#if defined(C16_PART_FUNCS) || defined(C16_PART_ILP32)
#define C16_DO_FUNCS 1
#endif
#if defined(C16_PART_MACROS) || defined(C16_PART_ILP32)
#define C16_DO_MACROS 1
#endif

_Static_assert(sizeof(struct c16_item) == 32 && sizeof(struct c16_res) == 48 && sizeof(struct c16_req) == 24 &&
	       sizeof(struct c16_reply) == 128 && sizeof(struct c16_sweep_out) == 36112, "wire format");

static const char *const c16_fname[C16_NF] = { "bitcnt", "clz", "ctz", "ilog2" };
static const char *const c16_mname[C16_NM] = { "const_pop", "const_lssb" };
static const char *const c16_tname[C16_NTYPES] = {
#define C16_X(I, NAME, T) [I] = #NAME,
	C16_TYPES(C16_X)
#undef C16_X
};
static const char *const c16_etext[C16_NEXPRS] = {
#define C16_X(I, E) [I] = #E,
	C16_EXPRS(C16_X)
#undef C16_X
};
static const char *const c16_otname[] = {
#define C16_X(I, T) [I] = #T,
	C16_OPTYPES(C16_X)
#undef C16_X
};
static const unsigned c16_otbits[] = { 8, 32, 64 };

/* ILP32: counters and signatures carry the build they belong to, like the driver's build variants */
#ifdef C16_PART_ILP32
#ifndef C16_ILP32_OPT
#define C16_ILP32_OPT "-O2"
#endif
#define C16_TAG " [gcc -m32 " C16_ILP32_OPT "]"
#define C16_SIGTAG "[gcc -m32 " C16_ILP32_OPT "] "
#define C16_ABI "ILP32 (gcc -m32 " C16_ILP32_OPT ")"
#else
#define C16_TAG ""
#define C16_SIGTAG ""
#define C16_ABI "LP64"
#endif
static void c16_count(const char *name, uint64_t v) { char nm[160]; snprintf(nm, sizeof(nm), "%s%s", name, C16_TAG); vx_count(nm, v); }
static void c16_max(const char *name, uint64_t v) { char nm[160]; snprintf(nm, sizeof(nm), "%s%s", name, C16_TAG); vx_max(nm, v); }

static void c16_selfcheck(void)
{
	uint64_t bad = 0;
	if (c16j_selfcheck(&bad)) { fprintf(stderr, "c16: reference self-check failed for 0x%016llx\n", (unsigned long long)bad); _exit(3); }
	vx_count("reference_selfcheck_cases", c16j_selfcheck_n);
}

/* exact value of a result: 128 bits hold every c16_pair */
static inline __int128 c16_wide_of(c16_pair p) { return p.neg ? (__int128)(long long)p.bits : (__int128)p.bits; }
/* how a value is named in a signature: itself when it could be a bit count or an index, else "out-of-range" - a value
 * that far off is usually indeterminate (a builtin with an undefined result, a stale register) and must not make the
 * signature differ from run to run; the message gives the number */
static const char *c16_got(__int128 w, char buf[48])
{
	if (w >= -64 && w <= 128) snprintf(buf, 48, "%d", (int)w);
	else snprintf(buf, 48, "out-of-range");
	return buf;
}
static const char *c16_num(__int128 w, char buf[48])
{
	if (w < 0) snprintf(buf, 48, "-%llu", (unsigned long long)(-w));
	else if (w >> 64) snprintf(buf, 48, "2^64+%llu", (unsigned long long)w);
	else snprintf(buf, 48, "%llu", (unsigned long long)w);
	return buf;
}

/* =========================================================================================== the evaluator
 * ev_items(): evaluate n items (c16_user.h) - locally in the user unit linked into this binary, or in the ILP32 helper.
 * A fault (failed assert, signal, endless loop) inside an item comes back as status C16_S_FAULT with the kind in aux. */
static uint64_t ev_faults, ev_hangs;
static int ev_abandoned;			/* too many hangs / helper failures: stop enumerating, the run is incomplete */
static char ev_last_fault[256];

#ifndef C16_PART_ILP32
/* ------------------------------------------------------------------ local */
static void ev_local_one(const struct c16_item *it, struct c16_res *r)
{
#ifdef C16_PART_FUNCS
	c16u_f_item(it, r);
#else
	c16u_m_item(it, r);
#endif
}
static void ev_items(const struct c16_item *it, struct c16_res *rs, unsigned n)
{
	if (ev_abandoned) { for (unsigned i = 0; i < n; i++) rs[i].status = C16_S_NONE; return; }
	if (n > 1) {
		if (VX_TRY) { for (unsigned i = 0; i < n; i++) ev_local_one(&it[i], &rs[i]); VX_END; return; }
		VX_END;
		vx_lib_reset();
	}
	for (volatile unsigned i = 0; i < n; i++) {	/* a fault somewhere in the batch: again, one by one */
		if (ev_abandoned) { rs[i].status = C16_S_NONE; continue; }
		if (VX_TRY) { ev_local_one(&it[i], &rs[i]); VX_END; continue; }
		VX_END;
		vx_lib_reset();
		rs[i].status = C16_S_FAULT; rs[i].aux = (uint32_t)vx_fault_kind;
		rs[i].v[1].neg = 1;	/* rs[i].c is valid: the user unit stores the argument before it makes the call */
		snprintf(ev_last_fault, sizeof(ev_last_fault), "%s", vx_fault_msg);
		ev_faults++;
		if (vx_fault_kind == VX_FAULT_HANG && ++ev_hangs >= 3) ev_abandoned = 1;
	}
}
static void ev_type_info(unsigned t, unsigned *bits, int *is_signed)
{
	switch (t) {
#define C16_X(I, NAME, T) case I: *bits = 8 * sizeof(T); *is_signed = (T)-1 < 0; break;
	C16_TYPES(C16_X)
#undef C16_X
	default: *bits = 0; *is_signed = 0;
	}
}
static void ev_start(void) {}
static void ev_stop(void) {}

#else
/* ------------------------------------------------------------------ remote: the ILP32 helper on a pipe */
#ifndef C16_ILP32_BIN
#error "C16_PART_ILP32 needs -DC16_ILP32_BIN=\"path of the helper\""
#endif
static pid_t rem_pid = -1;
static int rem_to = -1, rem_from = -1;
static uint64_t rem_spawns;
static int rem_unusable;		/* the helper cannot be run at all (no 32-bit execution here): the part is left out */

static void ev_stop(void)
{
	if (rem_to >= 0) close(rem_to);
	if (rem_from >= 0) close(rem_from);
	rem_to = rem_from = -1;
	if (rem_pid > 0) { int st; kill(rem_pid, SIGKILL); while (waitpid(rem_pid, &st, 0) < 0 && errno == EINTR) {} }
	rem_pid = -1;
}
static void ev_start(void)
{
	int a[2], b[2];
	ev_stop();
	if (rem_unusable) return;
	if (access(C16_ILP32_BIN, X_OK) != 0) { rem_unusable = 1; return; }
	if (pipe(a) || pipe(b)) { perror("c16: pipe"); _exit(3); }
	rem_pid = fork();
	if (rem_pid < 0) { perror("c16: fork"); _exit(3); }
	if (rem_pid == 0) {
		struct itimerval off; memset(&off, 0, sizeof(off)); setitimer(ITIMER_REAL, &off, NULL);
		dup2(a[0], 0); dup2(b[1], 1);
		close(a[0]); close(a[1]); close(b[0]); close(b[1]);
		execl(C16_ILP32_BIN, C16_ILP32_BIN, (char *)NULL);
		_exit(127);
	}
	close(a[0]); close(b[1]);
	rem_to = a[1]; rem_from = b[0];
	rem_spawns++;
}
static int rem_write(const void *p, size_t n)
{
	const char *c = p;
	while (n) {
		ssize_t r = write(rem_to, c, n);
		if (r < 0 && errno == EINTR) continue;
		if (r <= 0) return -1;
		c += r; n -= (size_t)r;
	}
	return 0;
}
static int rem_read(void *p, size_t n)
{
	char *c = p;
	while (n) {
		struct pollfd pf = { rem_from, POLLIN, 0 };
		int pr = poll(&pf, 1, 600 * 1000);	/* the helper has a CPU-time watchdog of its own; this is the last resort */
		if (pr < 0 && errno == EINTR) continue;
		if (pr <= 0) return -1;
		ssize_t r = read(rem_from, c, n);
		if (r < 0 && errno == EINTR) continue;
		if (r <= 0) return -1;
		c += r; n -= (size_t)r;
	}
	return 0;
}
/* one request; 0 = payload read, 1 = the helper reported a fault (rep), -1 = the helper died without saying why */
static int rem_request(const struct c16_req *rq, const void *items, size_t isz, void *payload, size_t psz, struct c16_reply *rep)
{
	if (rem_pid <= 0) ev_start();
	if (rem_pid <= 0) return -1;
	memset(rep, 0, sizeof(*rep));
	if (rem_write(rq, sizeof(*rq)) || (isz && rem_write(items, isz)) || rem_read(rep, sizeof(*rep))) { ev_stop(); return -1; }
	if (rep->status) { rep->msg[sizeof(rep->msg) - 1] = 0; ev_stop(); return 1; }
	if (rem_read(payload, psz)) { ev_stop(); return -1; }
	return 0;
}
static int rem_dead;			/* requests that ended without a reply */
static void rem_died(void)
{
	if (++rem_dead >= 3) { ev_abandoned = 1; if (rem_spawns <= 3) rem_unusable = 1; }
}
#define REM_BATCH 4096
static void ev_items(const struct c16_item *it, struct c16_res *rs, unsigned n)
{
	static struct c16_item buf[REM_BATCH];
	for (unsigned off = 0; off < n; off += REM_BATCH) {
		unsigned m = n - off < REM_BATCH ? n - off : REM_BATCH;
		static uint8_t faulted[REM_BATCH]; static uint32_t fkind[REM_BATCH];
		memcpy(buf, it + off, m * sizeof(buf[0]));
		memset(faulted, 0, m);
		for (;;) {
			struct c16_req rq = { C16_RQ_ITEMS, m, 0, 0 };
			struct c16_reply rep;
			if (ev_abandoned) { for (unsigned i = 0; i < m; i++) rs[off + i].status = C16_S_NONE; break; }
			int k = rem_request(&rq, buf, m * sizeof(buf[0]), rs + off, m * sizeof(rs[0]), &rep);
			if (k == 0) break;
			if (k < 0) { rem_died(); continue; }
			if (rep.index >= m) { fprintf(stderr, "c16: ILP32 helper: %s\n", rep.msg); _exit(3); }
			faulted[rep.index] = 1; fkind[rep.index] = rep.status; buf[rep.index].kind = C16_K_NOP;
			snprintf(ev_last_fault, sizeof(ev_last_fault), "%s", rep.msg);
			ev_faults++;
			if (rep.status == VX_FAULT_HANG && ++ev_hangs >= 3) ev_abandoned = 1;
			if (ev_faults >= 200) ev_abandoned = 1;	/* every fault costs a new process */
		}
		for (unsigned i = 0; i < m; i++) if (faulted[i]) { rs[off + i].status = C16_S_FAULT; rs[off + i].aux = fkind[i]; }
	}
}
static void ev_type_info(unsigned t, unsigned *bits, int *is_signed)
{
	struct c16_item it = { C16_K_INFO_TYPE, t, 0, 0, 0, 0 };
	struct c16_res r;
	ev_items(&it, &r, 1);
	if (r.status != C16_S_OK) { *bits = 0; *is_signed = 0; return; }
	*bits = (unsigned)r.c; *is_signed = (int)r.v[0].neg;
}
#endif

/* =========================================================================================== items: judge, report */
static int c16_is_f(uint32_t kind) { return kind >= C16_K_F_U32 && kind <= C16_K_F_CONST; }
static int c16_is_m(uint32_t kind) { return kind >= C16_K_M_U64 && kind <= C16_K_M_OP; }

/* the generated constant-argument tables as the harness sees them: the text of the argument and what the generator
 * (Python) says its value, popcount and lowest set bit are */
#ifdef C16_DO_FUNCS
struct c16_fmeta { const char *text; uint32_t x; };
static const struct c16_fmeta c16_fmeta[] = {
#define C16_FC(ID, E, X) { #E, X },
#define C16_FC0(ID, E) { #E, 0 },
#include C16_FTAB_INC
#undef C16_FC
#undef C16_FC0
	{ NULL, 0 }
};
#define C16_NFMETA (sizeof(c16_fmeta) / sizeof(c16_fmeta[0]) - 1)
#endif
#ifdef C16_DO_MACROS
struct c16_mmeta { const char *text; uint64_t c; int py[C16_NM]; };
static const struct c16_mmeta c16_mmeta[] = {
#define C16_K(E, C, P, L) { #E, C, { P, L } },
#include C16_MTAB_INC
#undef C16_K
	{ NULL, 0, { 0, 0 } }
};
#define C16_NMMETA (sizeof(c16_mmeta) / sizeof(c16_mmeta[0]) - 1)
#endif

struct verdict { int judged, nres; int bad[C16_NM]; int fault; __int128 got[C16_NM]; int want[C16_NM]; };

static void c16_internal(const char *what, const struct c16_item *it, const struct c16_res *r)
{
	fprintf(stderr, "c16: internal error: %s (kind=%u idx=%u f=%u a=0x%llx b=0x%llx -> status=%u c=0x%llx)\n", what, it->kind, it->idx,
		it->f, (unsigned long long)it->a, (unsigned long long)it->b, r->status, (unsigned long long)r->c);
	_exit(3);
}
/* 1 = the item violates the statement, 0 = it does not (or is outside it: v->judged == 0) */
static int judge_item(const struct c16_item *it, const struct c16_res *r, struct verdict *v)
{
	memset(v, 0, sizeof(*v));
	if (r->status == C16_S_SKIP || r->status == C16_S_NONE) return 0;
	v->judged = 1;
	if (c16_is_f(it->kind)) {
		v->nres = 1;
		if (r->status == C16_S_FAULT) {
			/* the argument is known for the plain forms; for expressions it is not needed to call a fault a fault,
			 * except that ilog2(0) is outside the statement: those are never sent (the user unit checks first) */
			v->fault = (int)r->aux; v->bad[0] = 1;
			v->want[0] = (it->kind == C16_K_F_U32 || it->kind == C16_K_F_PTR || it->kind == C16_K_F_TYPED) ?
				c16j_want_f(it->f, (uint32_t)it->a) : -999;
			return 1;
		}
		if (r->c >> 32) c16_internal("function argument wider than 32 bits", it, r);
		if ((it->kind == C16_K_F_U32 || it->kind == C16_K_F_PTR || it->kind == C16_K_F_TYPED) && r->c != it->a)
			c16_internal("the user unit saw another argument", it, r);
#ifdef C16_DO_FUNCS
		if (it->kind == C16_K_F_CONST && (it->idx >= C16_NFMETA || r->c != c16_fmeta[it->idx].x))
			c16_internal("generator and compiler disagree on the value of a constant argument", it, r);
#endif
		if (it->f == C16_F_ILOG2 && !r->c) c16_internal("ilog2(0) was called", it, r);
		v->want[0] = c16j_want_f(it->f, (uint32_t)r->c);
		v->got[0] = c16_wide_of(r->v[0]);
		v->bad[0] = v->got[0] != v->want[0];
		return v->bad[0];
	}
	if (c16_is_m(it->kind)) {
		v->nres = C16_NM;
		if (r->status == C16_S_FAULT) { v->fault = (int)r->aux; v->bad[0] = v->bad[1] = 1; v->want[0] = v->want[1] = -999; return 1; }
		if ((it->kind == C16_K_M_U64 || it->kind == C16_K_M_TYPED) && r->c != it->a)
			c16_internal("the user unit saw another argument", it, r);
		v->want[C16_M_POP] = c16j_pop64(r->c); v->want[C16_M_LSSB] = c16j_lssb64(r->c);
		for (int m = 0; m < C16_NM; m++) { v->got[m] = c16_wide_of(r->v[m]); v->bad[m] = v->got[m] != v->want[m]; }
		return v->bad[0] || v->bad[1];
	}
	v->judged = 0;
	return 0;
}

/* the case in words / as a signature stem */
static void describe_item(const struct c16_item *it, int m, char *sig, size_t ssz, char *txt, size_t tsz)
{
	unsigned ot = it->idx / C16_NEXPRS, e = it->idx % C16_NEXPRS;
	unsigned long long a = it->a, b = it->b;
	const char *fn = it->f < C16_NF ? c16_fname[it->f] : "?", *mn = c16_mname[m ? 1 : 0];
	switch (it->kind) {
	case C16_K_F_U32:
		snprintf(sig, ssz, "func|%s|x=0x%08llx", fn, a);
		snprintf(txt, tsz, "%s(x) with uint32_t x = 0x%08llx", fn, a); break;
	case C16_K_F_PTR:
		if (b) {
			snprintf(sig, ssz, "func-ptr|%s|x=0x%08llx|registers=%s", fn, a, b == 1 ? "0xa5.." : b == 2 ? "0" : "~0");
			snprintf(txt, tsz, "(*p)(0x%08llx) with p = &%s (the out-of-line function), called with every caller-saved register holding %s",
				 a, fn, b == 1 ? "0xa5a5..a5" : b == 2 ? "0" : "all ones");
			break;
		}
		snprintf(sig, ssz, "func-ptr|%s|x=0x%08llx", fn, a);
		snprintf(txt, tsz, "(*p)(0x%08llx) with p = &%s (the out-of-line function)", a, fn); break;
	case C16_K_F_TYPED:
		snprintf(sig, ssz, "func-typed|%s|type=%s|x=0x%llx", fn, it->idx < C16_NTYPES ? c16_tname[it->idx] : "?", a);
		snprintf(txt, tsz, "%s(x) with %s x = 0x%llx", fn, it->idx < C16_NTYPES ? c16_tname[it->idx] : "?", a); break;
	case C16_K_F_OP:
		snprintf(sig, ssz, "func-expr|%s(%s)|operands=%s|a=0x%llx|b=0x%llx", fn, c16_etext[e], ot < 3 ? c16_otname[ot] : "?", a, b);
		snprintf(txt, tsz, "%s(%s) with %s a = 0x%llx, b = 0x%llx (s = b mod %u, q = b & 1)", fn, c16_etext[e],
			 ot < 3 ? c16_otname[ot] : "?", a, b, ot < 3 && c16_otbits[ot] >= 32 ? c16_otbits[ot] : 16); break;
#ifdef C16_DO_FUNCS
	case C16_K_F_CONST:
		snprintf(sig, ssz, "func-const|%s(%s)", fn, it->idx < C16_NFMETA ? c16_fmeta[it->idx].text : "?");
		snprintf(txt, tsz, "%s(%s)", fn, it->idx < C16_NFMETA ? c16_fmeta[it->idx].text : "?"); break;
#endif
	case C16_K_M_U64:
		snprintf(sig, ssz, "macro|%s|runtime|c=0x%016llx", mn, a);
		snprintf(txt, tsz, "%s(c) evaluated at run time for uint64_t c = 0x%016llx", mn, a); break;
	case C16_K_M_TYPED:
		snprintf(sig, ssz, "macro|%s|runtime-typed|type=%s|c=0x%llx", mn, it->idx < C16_NTYPES ? c16_tname[it->idx] : "?", a);
		snprintf(txt, tsz, "%s(x) evaluated at run time for %s x = 0x%llx", mn, it->idx < C16_NTYPES ? c16_tname[it->idx] : "?", a); break;
	case C16_K_M_OP:
		snprintf(sig, ssz, "macro|%s(%s)|runtime-expr|operands=%s|a=0x%llx|b=0x%llx", mn, c16_etext[e], ot < 3 ? c16_otname[ot] : "?", a, b);
		snprintf(txt, tsz, "%s(%s) evaluated at run time with %s a = 0x%llx, b = 0x%llx (s = b mod %u, q = b & 1)", mn, c16_etext[e],
			 ot < 3 ? c16_otname[ot] : "?", a, b, ot < 3 && c16_otbits[ot] >= 32 ? c16_otbits[ot] : 16); break;
	default:
		snprintf(sig, ssz, "item|%u", it->kind); snprintf(txt, tsz, "item of kind %u", it->kind);
	}
}

/* evaluate one item again (three times: an indeterminate result must not end up in the signature) and record what is
 * wrong with it; returns 1 if something was */
static int report_item(const struct c16_item *it, const char *how)
{
	struct c16_res r[3]; struct verdict v[3];
	int any = 0;
	int was_abandoned = ev_abandoned;
	ev_abandoned = 0;
	memset(v, 0, sizeof(v));
	for (int k = 0; k < 3; k++) {
		ev_items(it, &r[k], 1); any |= judge_item(it, &r[k], &v[k]);
		if (v[k].fault) { for (int j = k + 1; j < 3; j++) { r[j] = r[k]; v[j] = v[k]; } break; }	/* a fault costs up to a watchdog period */
	}
	ev_abandoned |= was_abandoned;
	if (!any) return 0;
	for (int m = 0; m < (v[0].nres ? v[0].nres : v[1].nres ? v[1].nres : v[2].nres); m++) {
		char stem[384], txt[512], sig[512], rep[256], gb[48], nb[48];
		int bad = v[0].bad[m] || v[1].bad[m] || v[2].bad[m];
		if (!bad) continue;
		describe_item(it, m, stem, sizeof(stem), txt, sizeof(txt));
		snprintf(rep, sizeof(rep), "kind=item\nk=%u\nidx=%u\nf=%u\na=0x%llx\nb=0x%llx\n", it->kind, it->idx, it->f,
			 (unsigned long long)it->a, (unsigned long long)it->b);
		int k = v[0].fault ? 0 : v[1].fault ? 1 : v[2].fault ? 2 : -1;
		if (k >= 0) {
			if (v[k].want[m] != -999) snprintf(sig, sizeof(sig), C16_SIGTAG "%s|fault|want=%d", stem, v[k].want[m]);
			else snprintf(sig, sizeof(sig), C16_SIGTAG "%s|fault", stem);
			vx_violation(sig, rep, "%s does not return a value: %s (%s; %s)", txt, ev_last_fault, how, C16_ABI);
			continue;
		}
		if (v[0].got[m] != v[1].got[m] || v[0].got[m] != v[2].got[m]) {
			snprintf(sig, sizeof(sig), C16_SIGTAG "%s|got=unstable|want=%d", stem, v[0].want[m]);
			vx_violation(sig, rep, "%s gives a different value every time (%s, then %s), the definition gives %d (%s; %s)", txt,
				     c16_num(v[0].got[m], gb), c16_num(v[0].got[m] != v[1].got[m] ? v[1].got[m] : v[2].got[m], nb),
				     v[0].want[m], how, C16_ABI);
			continue;
		}
		snprintf(sig, sizeof(sig), C16_SIGTAG "%s|got=%s|want=%d", stem, c16_got(v[0].got[m], gb), v[0].want[m]);
		vx_violation(sig, rep, "%s gives %s, the definition gives %d (%s; %s)", txt, c16_num(v[0].got[m], nb), v[0].want[m], how, C16_ABI);
	}
	return 1;
}

/* ------------------------------------------------------------------ a family of items in canonical order */
typedef int (*emit_fn)(const struct c16_item *it, void *ctx);	/* non-zero: stop enumerating */
typedef void (*family_fn)(emit_fn emit, void *ctx);

#define RUN_BATCH 2048
struct runner {
	const char *name; int find;		/* find: look at every item (not only this worker's share) until the first bad one */
	struct c16_item it[RUN_BATCH]; struct c16_res rs[RUN_BATCH]; unsigned n;
	uint64_t index, judged, results, skipped, faults, bad[C16_NF];
	int found, canonical; unsigned canon_m, mmask; struct c16_item first; uint64_t explained;
	uint8_t seen[66 * 66]; uint64_t distinct; int sampled;
};
static int m_kmax(void);
#ifdef C16_DO_FUNCS
static int first_bad(unsigned f, int ptr, uint32_t *out);
#endif
#ifdef C16_DO_MACROS
static void fam_m_structured(emit_fn emit, void *ctx);
#endif
static int c16_in_structured_set(uint64_t c, int kmax)
{
	uint64_t n = ~c;
	if (c16j_pop64(c) <= kmax || c16j_pop64(n) <= kmax) return 1;
	if (c && !(((c >> __builtin_ctzll(c)) + 1) & (c >> __builtin_ctzll(c)))) return 1;
	if (n && !(((n >> __builtin_ctzll(n)) + 1) & (n >> __builtin_ctzll(n)))) return 1;
	return 0;
}
/* a failing case of an argument-form family says something new only if the plain form (a uint32_t / uint64_t variable with
 * the same value) does not fail as well: that failure is reported by the sweep over all arguments (functions) or by the
 * structured patterns (macros). 1 = nothing new; 2 = *plain is the case to report instead (a 64-bit value outside the
 * structured patterns) */
static int c16_explained(const struct c16_item *it, const struct c16_res *r, const struct verdict *v, struct c16_item *plain)
{
	struct c16_res pr; struct verdict pv;
	if (it->kind == C16_K_F_U32 || it->kind == C16_K_M_U64) return 0;
	uint64_t c;
	if (r->status == C16_S_OK) c = r->c;
	else if (it->kind == C16_K_F_PTR || it->kind == C16_K_F_TYPED || it->kind == C16_K_M_TYPED) c = it->a;
	else if (r->status == C16_S_FAULT && r->v[1].neg == 1) c = r->c;	/* a fault caught in this process: the argument was stored first */
#ifdef C16_DO_FUNCS
	else if (it->kind == C16_K_F_CONST && it->idx < C16_NFMETA) c = c16_fmeta[it->idx].x;
#endif
	else return 0;
	if (c16_is_f(it->kind)) {
		*plain = (struct c16_item){ C16_K_F_U32, 0, it->f, 0, c, 0 };
		ev_items(plain, &pr, 1);
		return judge_item(plain, &pr, &pv) ? 1 : 0;
	}
	*plain = (struct c16_item){ C16_K_M_U64, 0, 0, 0, c, 0 };
	ev_items(plain, &pr, 1);
	if (!judge_item(plain, &pr, &pv)) return 0;
	for (int m = 0; m < C16_NM; m++) if (v->bad[m] && !pv.bad[m]) return 0;
	return c16_in_structured_set(c, m_kmax()) ? 1 : 2;
}
static int run_flush(struct runner *R)
{
	struct verdict v;
	if (!R->n) return R->found;
	ev_items(R->it, R->rs, R->n);
	for (unsigned i = 0; i < R->n && !R->found; i++) {
		int bad = judge_item(&R->it[i], &R->rs[i], &v);
		if (!v.judged) { R->skipped++; continue; }
		R->judged++; R->results += (uint64_t)v.nres;
		if (bad) {
			if (v.fault) R->faults++;
			if (c16_is_f(R->it[i].kind)) R->bad[R->it[i].f]++;
			else for (int m = 0; m < C16_NM; m++) R->bad[m] += (uint64_t)v.bad[m];
			if (R->find && R->mmask && c16_is_m(R->it[i].kind) && !((v.bad[0] ? 1u : 0) & R->mmask) && !((v.bad[1] ? 2u : 0) & R->mmask)) continue;
			if (R->find) {
				struct c16_item plain;
				int ex = c16_explained(&R->it[i], &R->rs[i], &v, &plain);
				/* functions: the plain call fails for this value too, so the defect is the one the sweep over all arguments
				 * sees - reported here under the sweep's signature (smallest failing argument), because an indeterminate
				 * result may have looked right during this worker's sweep. macros: inside the structured patterns the
				 * first family reports it; outside, the plain form with this value is the case to report */
				if (ex == 1 && !c16_is_f(R->it[i].kind)) { R->explained++; continue; }
				if (ex) { R->canonical = ex; R->canon_m = (v.bad[0] ? 1u : 0) | (v.bad[1] ? 2u : 0); }
				R->found = 1; R->first = ex ? plain : R->it[i];
			}
			continue;
		}
		/* distinct result tuples of this worker's share of the family */
		unsigned idx = c16_is_f(R->it[i].kind) ? (unsigned)R->it[i].f * 66 + (unsigned)(v.want[0] + 1)
						       : (unsigned)v.want[0] * 66 + (unsigned)(v.want[1] + 1);
		if (idx < sizeof(R->seen) && !R->seen[idx]) { R->seen[idx] = 1; R->distinct++; }
		#ifdef C16_VARIANT_BUILD
		if (0) {
#else
		if (!R->find && !R->sampled && vx_args.worker == 0 && vx_want_sample() && R->judged % 97 == 5) {
#endif
			char stem[384], txt[512], nb[48], nc[48];
			describe_item(&R->it[i], 0, stem, sizeof(stem), txt, sizeof(txt));
			R->sampled = 1;
			if (c16_is_f(R->it[i].kind)) vx_sample("%s: %s = %s" C16_TAG, R->name, txt, c16_num(v.got[0], nb));
			else vx_sample("%s: %s = %s, const_lssb of the same = %s" C16_TAG, R->name, txt, c16_num(v.got[0], nb), c16_num(v.got[1], nc));
		}
	}
	R->n = 0;
	return R->found || ev_abandoned;
}
static int run_emit(const struct c16_item *it, void *ctx)
{
	struct runner *R = ctx;
	uint64_t i = R->index++;
	if (!R->find && !vx_mine(i >> 6)) return 0;
	R->it[R->n++] = *it;
	return R->n == RUN_BATCH ? run_flush(R) : 0;
}
/* check this worker's share of a family, count, and name the family's first failing case if the share had one */
static struct runner c16_R;
static uint64_t c16_distinct;
static int run_family(const char *name, family_fn fam, uint64_t *results_total)
{
	struct runner *R = &c16_R;
	char nm[96];
	memset(R, 0, sizeof(*R)); R->name = name;
	fam(run_emit, R); run_flush(R);
	snprintf(nm, sizeof(nm), "%s_cases", name); c16_count(nm, R->judged);
	snprintf(nm, sizeof(nm), "%s_skipped_out_of_scope", name); c16_count(nm, R->skipped);
	uint64_t nbad = 0;
	for (unsigned k = 0; k < sizeof(R->bad) / sizeof(R->bad[0]); k++) nbad += R->bad[k];
	snprintf(nm, sizeof(nm), "%s_mismatches", name); c16_count(nm, nbad);
	snprintf(nm, sizeof(nm), "%s_faults", name); c16_count(nm, R->faults);
	c16_distinct += R->distinct;
	if (results_total) *results_total += R->results;
	if (!nbad) return 0;
	memset(R, 0, sizeof(*R)); R->name = name; R->find = 1;
	fam(run_emit, R); run_flush(R);
	if (R->found && R->canonical == 2) {
#ifdef C16_DO_MACROS
		/* a 64-bit value outside the structured patterns fails in the plain form too: name the first failing structured
		 * pattern instead if there is one (the same defect under the signature the structured family gives it) */
		struct c16_item plain = R->first; unsigned mm = R->canon_m;
		memset(R, 0, sizeof(*R)); R->name = name; R->find = 1; R->mmask = mm;
		fam_m_structured(run_emit, R); run_flush(R);
		if (R->found) report_item(&R->first, "first failing structured pattern");
		else { snprintf(nm, sizeof(nm), "no structured pattern fails; found in the family '%s'", name); report_item(&plain, nm); }
#endif
	} else if (R->found && R->canonical) {
#ifdef C16_DO_FUNCS
		uint32_t x; struct c16_item it = R->first;
		if (first_bad(it.f, 0, &x)) it.a = x;
		snprintf(nm, sizeof(nm), "0x%08x is the smallest failing argument", (uint32_t)it.a);
		if (!report_item(&it, nm)) { snprintf(nm, sizeof(nm), "fails like the plain call; found in the family '%s'", name); report_item(&R->first, nm); }
#endif
	} else if (R->found) { snprintf(nm, sizeof(nm), "first failing case of the family '%s'", name); report_item(&R->first, nm); }
	else if (!R->explained) vx_note("internal: %s: mismatches counted but none found on rescan", name);
	snprintf(nm, sizeof(nm), "%s_failing_like_plain_form", name); c16_count(nm, R->explained);
	return 1;
}

/* ------------------------------------------------------------------ structured values of a given width
 * 0, all-ones, every k-bit pattern for k = 1..kmax (positions ascending, lexicographic) each followed by its complement,
 * every contiguous mask lo..hi (hi > lo) each followed by its complement - all within w bits */
typedef int (*value_fn)(uint64_t v, void *ctx);
static int c16_kbits(int w, uint64_t ones, int k, int from, uint64_t acc, value_fn f, void *ctx)
{
	if (k == 0) return f(acc, ctx) || f(~acc & ones, ctx);
	for (int i = from; i <= w - k; i++) if (c16_kbits(w, ones, k - 1, i + 1, acc | (1ULL << i), f, ctx)) return 1;
	return 0;
}
static int c16_structured(int w, int kmax, value_fn f, void *ctx)
{
	uint64_t ones = w >= 64 ? ~0ULL : (1ULL << w) - 1;
	if (w <= 0) return f(0, ctx);
	if (f(0, ctx) || f(ones, ctx)) return 1;
	for (int k = 1; k <= kmax && k <= w; k++) if (c16_kbits(w, ones, k, 0, 0, f, ctx)) return 1;
	for (int lo = 0; lo < w; lo++) for (int hi = lo + 1; hi < w; hi++) {
		uint64_t m = (hi == 63 ? ~0ULL : (1ULL << (hi + 1)) - 1) & ~((1ULL << lo) - 1);
		if (f(m, ctx) || f(~m & ones, ctx)) return 1;
	}
	return 0;
}

/* values of the run-time argument types: every value of a type of up to 16 bits, structured values for wider types;
 * only non-negative values (what a negative argument means to a bit counter is not part of the statement) */
struct typed_ctx { emit_fn emit; void *ctx; struct c16_item it; int isf; };
static int typed_value(uint64_t v, void *ctx)
{
	struct typed_ctx *t = ctx;
	t->it.a = v;
	if (!t->isf) return t->emit(&t->it, t->ctx);
	for (unsigned f = 0; f < C16_NF; f++) {
		if (f == C16_F_ILOG2 && !v) continue;
		t->it.f = f;
		if (t->emit(&t->it, t->ctx)) return 1;
	}
	return 0;
}
static void fam_typed(emit_fn emit, void *ctx, int isf)
{
	struct typed_ctx t = { emit, ctx, { isf ? C16_K_F_TYPED : C16_K_M_TYPED, 0, 0, 0, 0, 0 }, isf };
	for (unsigned ty = 0; ty < C16_NTYPES; ty++) {
		unsigned bits; int sg;
		ev_type_info(ty, &bits, &sg);
		if (!bits) continue;
		int w = (int)bits - (sg ? 1 : 0);
		if (isf && w > 32) w = 32;
		t.it.idx = ty;
		if (w <= 16) { for (uint64_t v = 0; v < (1ULL << w); v++) if (typed_value(v, &t)) return; }
		else if (c16_structured(w, vx_thorough() ? 3 : 2, typed_value, &t)) return;
	}
}
/* operands of the operator forms: 0, all-ones, every one-bit pattern, and a few values with bits in several places */
static unsigned op_values(unsigned bits, uint64_t *out)
{
	static const uint64_t extra[] = { 3, 0xf0, 0xf01, 0x7f, 0x55, 0xaaaa5555u, 0x7fffffffu, 0xf0f0f0f00f0f0f0fULL };
	uint64_t ones = bits >= 64 ? ~0ULL : (1ULL << bits) - 1;
	unsigned n = 0;
	out[n++] = 0; out[n++] = ones;
	for (unsigned i = 0; i < bits; i++) out[n++] = 1ULL << i;
	for (unsigned i = 0; i < sizeof(extra) / sizeof(extra[0]); i++) {
		int dup = 0;
		if (extra[i] > ones) continue;
		for (unsigned j = 0; j < n; j++) dup |= out[j] == extra[i];
		if (!dup) out[n++] = extra[i];
	}
	return n;
}
static void fam_ops(emit_fn emit, void *ctx, int isf)
{
	struct c16_item it = { isf ? C16_K_F_OP : C16_K_M_OP, 0, 0, 0, 0, 0 };
	uint64_t val[80];
	for (unsigned ot = 0; ot < (isf ? C16_NOPTYPES_F : C16_NOPTYPES_M); ot++) {
		unsigned nv = op_values(c16_otbits[ot], val);
		for (unsigned e = 0; e < C16_NEXPRS; e++) for (unsigned i = 0; i < nv; i++) for (unsigned j = 0; j < nv; j++) {
			it.idx = ot * C16_NEXPRS + e; it.a = val[i]; it.b = val[j];
			if (!isf) { if (emit(&it, ctx)) return; continue; }
			for (unsigned f = 0; f < C16_NF; f++) { it.f = f; if (emit(&it, ctx)) return; }
		}
	}
}

/* =========================================================================================== the four functions */
#ifdef C16_DO_FUNCS

#define SW_CHUNK 4096u
#define BLOCK_LOG2 24
#define NBLOCKS (1u << (32 - BLOCK_LOG2))
#define FAULT_CAP 64		/* faults of one function (per worker) before it is no longer swept: every fault is a case redone alone */

static uint64_t sw_calls[2][C16_NF], sw_bad[2][C16_NF], sw_faults[2][C16_NF];
static unsigned sw_alive[2] = { 15, 15 };
static int sw_complete = 1;

/* sweep [base, base+n) through the plain call (ptr = 0) or through the function pointers (ptr = 1) into o;
 * returns 0, or the fault kind with *at = first argument of the chunk of SW_CHUNK in which the fault happened */
#ifndef C16_PART_ILP32
static int ev_sweep(uint32_t base, uint64_t n, unsigned mask, int ptr, struct c16_sweep_out *o, uint32_t *at)
{
	static int64_t buf[C16_NF][SW_CHUNK];
	int64_t *const r[C16_NF] = { buf[0], buf[1], buf[2], buf[3] };
	for (uint64_t off = 0; off < n; off += SW_CHUNK) {
		uint32_t b = base + (uint32_t)off, m = n - off < SW_CHUNK ? (uint32_t)(n - off) : SW_CHUNK;
		if (VX_TRY) {
			if (ptr) c16u_f_sweep_ptr(b, m, mask, r[0], r[1], r[2], r[3]);
			else c16u_f_sweep(b, m, mask, r[0], r[1], r[2], r[3]);
			VX_END;
		} else {
			VX_END; vx_lib_reset();
			snprintf(ev_last_fault, sizeof(ev_last_fault), "%s", vx_fault_msg);
			*at = b; return vx_fault_kind;
		}
		c16j_judge(b, m, mask, r, o);
	}
	return 0;
}
static int ev_fp_ok(void) { return c16u_fp_ok; }
static unsigned ev_macro_mask(void) { return c16u_f_macro_mask; }
static unsigned ev_nconst(void) { return c16u_f_nconst; }
#else
static int ev_sweep(uint32_t base, uint64_t n, unsigned mask, int ptr, struct c16_sweep_out *o, uint32_t *at)
{
	static struct c16_sweep_out part;
	while (n) {	/* requests of at most 2^24 arguments */
		uint32_t m = n > (1u << 24) ? (1u << 24) : (uint32_t)n;
		struct c16_req rq = { C16_RQ_SWEEP, m, base, mask | (ptr ? 256u : 0) };
		struct c16_reply rep;
		int k;
		if (ev_abandoned) { *at = base; return -1; }
		k = rem_request(&rq, NULL, 0, &part, sizeof(part), &rep);
		if (k < 0) { rem_died(); continue; }
		if (k > 0) {
			if (rep.index == 0xffffffffu) { fprintf(stderr, "c16: ILP32 helper: %s\n", rep.msg); _exit(3); }
			snprintf(ev_last_fault, sizeof(ev_last_fault), "%s", rep.msg);
			*at = base + rep.index * SW_CHUNK; return (int)rep.status;
		}
		for (unsigned f = 0; f < C16_NF; f++) {
			o->calls[f] += part.calls[f]; o->bad[f] += part.bad[f];
			if (part.have[f] && !o->have[f]) { o->have[f] = 1; o->first_x[f] = part.first_x[f]; o->first_got[f] = part.first_got[f]; }
		}
		for (unsigned i = 0; i < C16_NTUPLES; i++) if (part.seen[i] && !o->seen[i]) { o->seen[i] = 1; o->distinct++; }
		base += m; n -= m;
	}
	return 0;
}
static struct c16_res c16_info;
static void ev_info(void)
{
	struct c16_item it = { C16_K_INFO, 0, 0, 0, 0, 0 };
	if (c16_info.status == C16_S_OK && c16_info.v[1].bits) return;
	ev_items(&it, &c16_info, 1);
}
static int ev_fp_ok(void) { ev_info(); return (int)c16_info.v[0].neg; }
static unsigned ev_macro_mask(void) { ev_info(); return (unsigned)c16_info.v[0].bits; }
static unsigned ev_nconst(void) { ev_info(); return (unsigned)c16_info.c; }
#endif

/* the chunk in which a sweep faulted, call by call */
static void sweep_slow(uint32_t base, uint32_t n, int ptr, struct c16_sweep_out *o)
{
	static struct c16_item it[SW_CHUNK]; static struct c16_res rs[SW_CHUNK];
	struct verdict v;
	vx_count("chunks_rerun_after_fault" C16_TAG, 1);
	for (unsigned f = 0; f < C16_NF; f++) {
		unsigned k = 0;
		if (!(sw_alive[ptr] & 1u << f)) continue;
		for (uint32_t i = 0; i < n; i++) {
			if (f == C16_F_ILOG2 && base + i == 0) continue;
			it[k] = (struct c16_item){ ptr ? C16_K_F_PTR : C16_K_F_U32, 0, f, 0, base + i, 0 }; k++;
		}
		ev_items(it, rs, k);
		for (unsigned i = 0; i < k; i++) {
			if (!judge_item(&it[i], &rs[i], &v)) { if (v.judged) o->calls[f]++; continue; }
			o->calls[f]++; o->bad[f]++;
			if (v.fault) sw_faults[ptr][f]++;
			if (!o->have[f]) { o->have[f] = 1; o->first_x[f] = (uint32_t)it[i].a; }
		}
		if (sw_faults[ptr][f] >= FAULT_CAP) {
			sw_alive[ptr] &= ~(1u << f); sw_complete = 0;
			vx_note("%s%s: %d faults in this worker's share; the function is not swept any further" C16_TAG, c16_fname[f],
				ptr ? " through a pointer" : "", FAULT_CAP);
		}
	}
}
/* one block of arguments, faults included */
static void sweep_block(uint32_t base, uint64_t n, int ptr, struct c16_sweep_out *o)
{
	uint64_t done = 0;
	memset(o, 0, sizeof(*o));
	while (done < n && sw_alive[ptr] && !ev_abandoned) {
		uint32_t at = 0;
		int k = ev_sweep(base + (uint32_t)done, n - done, sw_alive[ptr], ptr, o, &at);
		if (!k) { done = n; break; }
		if (k < 0) break;
		/* [base+done, at) was judged chunk by chunk (local) or is judged again below (remote: the reply of a faulting
		 * request carries no results) */
#ifdef C16_PART_ILP32
		if (at > base + (uint32_t)done) {
			uint32_t at2 = 0;
			if (ev_sweep(base + (uint32_t)done, at - (base + (uint32_t)done), sw_alive[ptr], ptr, o, &at2)) { sw_complete = 0; break; }
		}
#endif
		uint32_t m = n - (at - base) < SW_CHUNK ? (uint32_t)(n - (at - base)) : SW_CHUNK;
		sweep_slow(at, m, ptr, o);
		done = (uint64_t)(at - base) + m;
	}
	if (done < n) sw_complete = 0;
}

/* smallest argument of the whole space on which f fails */
static int first_bad(unsigned f, int ptr, uint32_t *out)
{
	static struct c16_sweep_out o;
	for (uint64_t base = 0; base < (1ULL << 32) && !ev_abandoned; base += 1u << 20) {
		uint32_t at = 0;
		memset(&o, 0, sizeof(o));
		int k = ev_sweep((uint32_t)base, 1u << 20, 1u << f, ptr, &o, &at);
		if (k < 0) return 0;
		if (k > 0) {	/* the first bad argument is either before the faulting chunk (mismatch) or in it */
			static struct c16_item it[SW_CHUNK]; static struct c16_res rs[SW_CHUNK];
			struct verdict v;
#ifdef C16_PART_ILP32
			if (at > (uint32_t)base) {
				uint32_t at2 = 0;
				memset(&o, 0, sizeof(o));
				if (ev_sweep((uint32_t)base, at - (uint32_t)base, 1u << f, ptr, &o, &at2)) return 0;
			}
#endif
			if (o.have[f]) { *out = o.first_x[f]; return 1; }
			unsigned n = 0;
			for (uint32_t i = 0; i < SW_CHUNK; i++) {
				if (f == C16_F_ILOG2 && at + i == 0) continue;
				it[n++] = (struct c16_item){ ptr ? C16_K_F_PTR : C16_K_F_U32, 0, f, 0, at + i, 0 };
			}
			ev_items(it, rs, n);
			for (unsigned i = 0; i < n; i++) if (judge_item(&it[i], &rs[i], &v)) { *out = (uint32_t)it[i].a; return 1; }
			base = (uint64_t)at + SW_CHUNK - (1u << 20);	/* a fault that did not repeat: go on behind the chunk */
			continue;
		}
		if (o.have[f]) { *out = o.first_x[f]; return 1; }
	}
	return 0;
}

/* families of argument forms */
static void fam_f_typed(emit_fn e, void *c) { fam_typed(e, c, 1); }
static void fam_f_ops(emit_fn e, void *c) { fam_ops(e, c, 1); }
static void fam_f_const(emit_fn emit, void *ctx)
{
	struct c16_item it = { C16_K_F_CONST, 0, 0, 0, 0, 0 };
	unsigned n = ev_nconst();
	if (n != C16_NFMETA) { fprintf(stderr, "c16: constant-form tables of the harness and the user unit differ (%u, %u)\n", n, (unsigned)C16_NFMETA); _exit(3); }
	for (unsigned i = 0; i < n; i++) for (unsigned f = 0; f < C16_NF; f++) {
		if (f == C16_F_ILOG2 && !c16_fmeta[i].x) continue;
		it.idx = i; it.f = f;
		if (emit(&it, ctx)) return;
	}
}
struct ptrsub { emit_fn emit; void *ctx; unsigned pattern; };
static int ptrsub_value(uint64_t v, void *ctx)
{
	struct ptrsub *p = ctx;
	for (unsigned f = 0; f < C16_NF; f++) {
		struct c16_item it = { C16_K_F_PTR, 0, f, 0, v, p->pattern };
		if (f == C16_F_ILOG2 && !v) continue;
		if (p->emit(&it, p->ctx)) return 1;
	}
	return 0;
}
static void fam_f_ptr_subset(emit_fn emit, void *ctx)
{
	struct ptrsub p = { emit, ctx, 0 };
	c16_structured(32, 3, ptrsub_value, &p);
}
/* the same values, the registers filled with three patterns before each call */
static void fam_f_ptr_regs(emit_fn emit, void *ctx)
{
	for (unsigned pat = 1; pat <= 3; pat++) {
		struct ptrsub p = { emit, ctx, pat };
		if (c16_structured(32, 3, ptrsub_value, &p)) return;
	}
}

static void funcs_main(void)
{
	static struct c16_sweep_out o;
	static uint8_t seen_all[C16_NTUPLES];
	uint64_t blocks[2] = { 0, 0 }, distinct_tagged = 0, distinct_untagged = 0, ev = 0, form_results = 0;
	/* the pointer form is a different piece of code from the plain call only if the header makes a name a macro; then (and
	 * in the thorough tier anyway) it gets the full sweep, otherwise a structured subset */
	int fp = ev_fp_ok(), ptr_full = fp && (ev_macro_mask() || vx_thorough());
	c16_count("public_header_defines_names_as_macros_mask", vx_args.worker == 0 ? ev_macro_mask() : 0);
	if (!fp) vx_note("the addresses of the four functions cannot be taken with this public header: the pointer-call family is left out" C16_TAG);

	for (int ptr = 0; ptr <= (ptr_full ? 1 : 0); ptr++)
		for (uint32_t b = 0; b < NBLOCKS; b++) {
			if (!vx_mine(b + (uint32_t)ptr * 7)) continue;
			if (vx_deadline_passed() || ev_abandoned) { sw_complete = 0; break; }
			sweep_block(b << BLOCK_LOG2, 1ULL << BLOCK_LOG2, ptr, &o);
			for (unsigned f = 0; f < C16_NF; f++) { sw_calls[ptr][f] += o.calls[f]; sw_bad[ptr][f] += o.bad[f]; }
			if (!ptr) {
				distinct_tagged += o.distinct;
				for (unsigned i = 0; i < C16_NTUPLES; i++) if (o.seen[i] && !seen_all[i]) { seen_all[i] = 1; distinct_untagged++; }
				if (b == 0) vx_count("scope_guard_skipped_ilog2_of_0" C16_TAG, 1);
			}
			blocks[ptr]++;
			if (!ptr && vx_args.worker == 0 && blocks[0] == 1 && vx_want_sample()) {
				uint32_t x = (b << BLOCK_LOG2) + 0x00a5f00du * (b + 1) % (1u << BLOCK_LOG2);
				struct c16_item it[C16_NF]; struct c16_res rs[C16_NF];
				for (unsigned f = 0; f < C16_NF; f++) it[f] = (struct c16_item){ C16_K_F_U32, 0, f, 0, x | 1, 0 };
				ev_items(it, rs, C16_NF);
				vx_sample("x=0x%08x: bitcnt=%lld clz=%lld ctz=%lld ilog2=%lld (builtins: %d %d %d %d)" C16_TAG, x | 1,
					  (long long)rs[0].v[0].bits, (long long)rs[1].v[0].bits, (long long)rs[2].v[0].bits, (long long)rs[3].v[0].bits,
					  c16j_pop32(x | 1), c16j_clz32(x | 1), c16j_ctz32(x | 1), c16j_ilog2(x | 1));
			}
		}
	for (int ptr = 0; ptr < 2; ptr++) for (unsigned f = 0; f < C16_NF; f++) {
		char nm[96];
		snprintf(nm, sizeof(nm), "calls%s_%s", ptr ? "_through_pointer" : "", c16_fname[f]); c16_count(nm, sw_calls[ptr][f]);
		snprintf(nm, sizeof(nm), "mismatches%s_%s", ptr ? "_through_pointer" : "", c16_fname[f]); c16_count(nm, sw_bad[ptr][f]);
		snprintf(nm, sizeof(nm), "faults%s_%s", ptr ? "_through_pointer" : "", c16_fname[f]); c16_count(nm, sw_faults[ptr][f]);
		ev += sw_calls[ptr][f];
	}
	c16_count("func_blocks_of_2^24_done", blocks[0]);
	c16_count("func_blocks_of_2^24_done_through_pointer", blocks[1]);

	/* the argument-form families */
	c16_distinct = 0;
	if (fp && !ptr_full) run_family("func_ptr_subset", fam_f_ptr_subset, &form_results);
	if (fp) run_family("func_ptr_regs", fam_f_ptr_regs, &form_results);
	run_family("func_typed", fam_f_typed, &form_results);
	run_family("func_expr", fam_f_ops, &form_results);
	run_family("func_const", fam_f_const, &form_results);
	c16_max("func_constant_expression_forms", C16_NFMETA);

	c16_count("evaluations", ev + form_results);
	c16_count("distinct", distinct_tagged + c16_distinct);
	c16_max("distinct_result_tuples_within_one_worker_max", distinct_untagged);
	if (ev_abandoned) sw_complete = 0;
	vx_and("exhaustive", sw_complete);
	vx_and("exhaustive_functions" C16_TAG, sw_complete);

	for (int ptr = 0; ptr < 2; ptr++) for (unsigned f = 0; f < C16_NF; f++) {
		uint32_t x;
		if (!sw_bad[ptr][f]) continue;
		if (first_bad(f, ptr, &x)) {
			struct c16_item it = { ptr ? C16_K_F_PTR : C16_K_F_U32, 0, f, 0, x, 0 };
			char how[96]; snprintf(how, sizeof(how), "0x%08x is the smallest failing argument", x);
			if (ptr) {	/* the plain call fails for this argument as well: that is the case reported (by the plain sweep) */
				struct c16_item pl = { C16_K_F_U32, 0, f, 0, x, 0 }; struct c16_res pr; struct verdict pv;
				ev_items(&pl, &pr, 1);
				if (judge_item(&pl, &pr, &pv)) { it = pl; if (first_bad(f, 0, &x)) { it.a = x; snprintf(how, sizeof(how), "0x%08x is the smallest failing argument", x); } }
			}
			if (!report_item(&it, how)) vx_note("internal: %s(0x%08x) failed in the sweep but not alone" C16_TAG, c16_fname[f], x);
		} else vx_note("internal: %s mismatches counted but none found on rescan" C16_TAG, c16_fname[f]);
	}
}
#endif /* C16_DO_FUNCS */

/* =========================================================================================== the two macros */
#ifdef C16_DO_MACROS

/* ---- the compile-time table: entry i as (compiler's reading of the argument, const_pop, const_lssb) */
#ifdef C16_PART_ILP32
#include "c16_ilp32_gen.h"	/* the table section of the -m32 object, extracted with objcopy by the prebuild hook */
#define TAB_ENTRY 40
static unsigned tab_n(void) { return C16_ILP32_TABLE_OK ? (unsigned)(sizeof(c16_ilp32_table) / TAB_ENTRY) : 0; }
static uint64_t tab_u64(const unsigned char *p) { uint64_t v; memcpy(&v, p, 8); return v; }
static void tab_get(unsigned i, uint64_t *cc, __int128 ct[C16_NM])
{
	const unsigned char *e = c16_ilp32_table + (size_t)i * TAB_ENTRY;
	*cc = tab_u64(e);
	for (int m = 0; m < C16_NM; m++) {
		c16_pair p = { tab_u64(e + 8 + 16 * m), (long long)tab_u64(e + 16 + 16 * m) };
		ct[m] = c16_wide_of(p);
	}
}
#else
static unsigned tab_n(void) { return c16u_ntable; }
static void tab_get(unsigned i, uint64_t *cc, __int128 ct[C16_NM])
{
	*cc = c16u_table[i].cc;
	for (int m = 0; m < C16_NM; m++) ct[m] = c16u_table[i].v[m];
}
#endif

/* table entry i: the compile-time value against the definition and against the run-time value of the same argument;
 * rec: bit 0 record 'constant', bit 1 record 'constant-vs-runtime' for macro m */
static int check_table(unsigned i, int m, int rec)
{
	const struct c16_mmeta *e = &c16_mmeta[i];
	uint64_t cc; __int128 ct[C16_NM];
	char sig[640], rep[512], gb[48], nb[48], rb[48];
	int r = 0;
	tab_get(i, &cc, ct);
	if (cc != e->c || e->py[C16_M_POP] != c16j_pop64(e->c) || e->py[C16_M_LSSB] != c16j_lssb64(e->c)) {
		fprintf(stderr, "c16: generator, compiler and builtins disagree on the argument %s (%s): 0x%016llx 0x%016llx\n", e->text, C16_ABI,
			(unsigned long long)e->c, (unsigned long long)cc);
		_exit(3);
	}
	int want = e->py[m];
	struct c16_item it = { C16_K_M_U64, 0, 0, 0, e->c, 0 };
	struct c16_res rs;
	ev_items(&it, &rs, 1);
	snprintf(rep, sizeof(rep), "kind=table\ni=%u\nm=%d\narg=%s\n", i, m, e->text);
	if (ct[m] != want) {
		r |= 1;
		if (rec & 1) {
			snprintf(sig, sizeof(sig), C16_SIGTAG "macro|%s|constant|arg=%s|got=%s|want=%d", c16_mname[m], e->text, c16_got(ct[m], gb), want);
			vx_violation(sig, rep, "%s(%s) evaluated by the compiler (static initialiser, %s) is %s, the definition gives %d "
				     "(the argument is 0x%016llx)", c16_mname[m], e->text, C16_ABI, c16_num(ct[m], nb), want, (unsigned long long)e->c);
		}
	}
	if (rs.status == C16_S_OK && ct[m] != c16_wide_of(rs.v[m])) {
		r |= 2;
		if (rec & 2) {
			snprintf(sig, sizeof(sig), C16_SIGTAG "macro|%s|constant-vs-runtime|arg=%s|constant=%s|runtime=%s", c16_mname[m], e->text,
				 c16_got(ct[m], gb), c16_got(c16_wide_of(rs.v[m]), rb));
			vx_violation(sig, rep, "%s(%s) is %s as a compile-time constant but %s for a run-time uint64_t argument of the same value "
				     "0x%016llx (%s)", c16_mname[m], e->text, c16_num(ct[m], nb), c16_num(c16_wide_of(rs.v[m]), rb),
				     (unsigned long long)e->c, C16_ABI);
		}
	}
	return r;
}

/* ---- families */
struct u64_ctx { emit_fn emit; void *ctx; };
static int u64_value(uint64_t v, void *ctx)
{
	struct u64_ctx *u = ctx;
	struct c16_item it = { C16_K_M_U64, 0, 0, 0, v, 0 };
	return u->emit(&it, u->ctx);
}
static int m_kmax(void)
{
#if defined(C16_PART_ILP32)
	return 3;
#else
	return vx_thorough() ? 4 : 3;
#endif
}
static void fam_m_structured(emit_fn emit, void *ctx) { struct u64_ctx u = { emit, ctx }; c16_structured(64, m_kmax(), u64_value, &u); }
static void fam_m_typed(emit_fn e, void *c) { fam_typed(e, c, 0); }
static void fam_m_ops(emit_fn e, void *c) { fam_ops(e, c, 0); }

#ifndef C16_PART_ILP32
/* ---- lanes: one 32-bit half sweeps, the other is a boundary value (local only: 2^27..2^35 evaluations) */
static const uint32_t lane_boundary[4] = { 0, 1, 0x80000000u, 0xffffffffu };
#define NLANES 8
static inline uint64_t lane_value(int lane, uint32_t v)
{
	uint32_t o = lane_boundary[lane & 3];
	return lane < 4 ? ((uint64_t)o << 32) | v : ((uint64_t)v << 32) | o;
}
static uint64_t lane_bad[C16_NM], lane_first[C16_NM], lane_faults; static int lane_first_set[C16_NM];
static uint8_t lane_seen[66 * 66]; static uint64_t lane_distinct;
#define LANE_CHUNK 4096
static void lane_chunk(const uint64_t *c, unsigned n)
{
	static c16_pair pop[LANE_CHUNK], lssb[LANE_CHUNK];
	if (VX_TRY) { c16u_m_u64(c, n, pop, lssb); VX_END; }
	else {	/* a fault: the chunk again as single items */
		static struct c16_item it[LANE_CHUNK]; static struct c16_res rs[LANE_CHUNK];
		VX_END; vx_lib_reset();
		for (unsigned i = 0; i < n; i++) it[i] = (struct c16_item){ C16_K_M_U64, 0, 0, 0, c[i], 0 };
		ev_items(it, rs, n);
		for (unsigned i = 0; i < n; i++) {
			pop[i] = rs[i].v[0]; lssb[i] = rs[i].v[1];
			if (rs[i].status != C16_S_OK) { pop[i].neg = lssb[i].neg = 1; pop[i].bits = lssb[i].bits = 0x8000000000000000ULL; lane_faults++; }
		}
	}
	for (unsigned i = 0; i < n; i++) {
		int wp = c16j_pop64(c[i]), wl = c16j_lssb64(c[i]);
		int bp = !(pop[i].neg == 0 && pop[i].bits == (unsigned long long)wp);
		int bl = !(lssb[i].neg == (wl < 0) && lssb[i].bits == (unsigned long long)(long long)wl);
		if (bp) { lane_bad[0]++; if (!lane_first_set[0]) { lane_first_set[0] = 1; lane_first[0] = c[i]; } }
		if (bl) { lane_bad[1]++; if (!lane_first_set[1]) { lane_first_set[1] = 1; lane_first[1] = c[i]; } }
		if (!bp && !bl) { unsigned idx = (unsigned)wp * 66 + (unsigned)(wl + 1); if (!lane_seen[idx]) { lane_seen[idx] = 1; lane_distinct++; } }
	}
}
#endif

static void macros_main(void)
{
	uint64_t results = 0, tab = 0, bad_ct[C16_NM] = { 0, 0 }, bad_agree[C16_NM] = { 0, 0 };
	int complete = 1;
	c16_distinct = 0;

	/* (a) run-time families */
	run_family("macro_structured_rt", fam_m_structured, &results);
	run_family("macro_typed_rt", fam_m_typed, &results);
	run_family("macro_expr_rt", fam_m_ops, &results);

	/* (b) the compile-time table */
	if (tab_n() != C16_NMMETA) {
#ifdef C16_PART_ILP32
		if (!C16_ILP32_TABLE_OK) vx_note("ILP32 compile-time table left out: %s", C16_ILP32_NOTE);
		else
#endif
		{ fprintf(stderr, "c16: the table of the user unit has %u entries, the harness expects %u\n", tab_n(), (unsigned)C16_NMMETA); _exit(3); }
		complete = 0;
	} else {
		for (unsigned i = 0; i < tab_n() && !ev_abandoned; i++) {
			if (!vx_mine(i >> 4)) continue;
			for (int m = 0; m < C16_NM; m++) {
				int r = check_table(i, m, 0);
				if (r & 1) bad_ct[m]++;
				if (r & 2) bad_agree[m]++;
			}
			tab++;
			if (vx_args.worker == 0 && vx_want_sample() && i % 1201 == 5 + 16 * (i / 1201 % 2)) {
				uint64_t cc; __int128 ct[C16_NM]; char a[48], b[48];
				tab_get(i, &cc, ct);
				vx_sample("table #%u: const_pop(%s) = %s and const_lssb(%s) = %s as constants" C16_TAG, i, c16_mmeta[i].text, c16_num(ct[0], a),
					  c16_mmeta[i].text, c16_num(ct[1], b));
			}
		}
	}
	c16_count("table_constants_compile_time", tab);
	c16_max("table_size", tab_n());

	/* (c) lanes */
#ifndef C16_PART_ILP32
	{
#ifdef C16_VARIANT_BUILD
		int nshift = vx_thorough() ? 2 : 3, wbits = vx_thorough() ? 24 : 16;
#else
		int nshift = vx_thorough() ? 1 : 2, wbits = vx_thorough() ? 32 : 24;
#endif
		static const int shifts[3] = { 0, 8, 16 };
		int bbits = wbits < 20 ? wbits : 20;			/* work unit: 2^20 (2^16) arguments */
		uint64_t units_per = 1ULL << (wbits - bbits), unit = 0, lane_evals = 0, units_done = 0;
		static uint64_t cbuf[LANE_CHUNK];
		for (int lane = 0; lane < NLANES && complete; lane++)
			for (int si = 0; si < nshift && complete; si++)
				for (uint64_t u = 0; u < units_per; u++, unit++) {
					if (!vx_mine(unit)) continue;
					if (vx_deadline_passed() || ev_abandoned) { complete = 0; break; }
					uint64_t w0 = u << bbits;
					for (uint64_t w = w0; w < w0 + (1ULL << bbits); w += LANE_CHUNK) {
						for (unsigned i = 0; i < LANE_CHUNK; i++) cbuf[i] = lane_value(lane, (uint32_t)((w + i) << shifts[si]));
						lane_chunk(cbuf, LANE_CHUNK);
					}
					lane_evals += 1ULL << bbits; units_done++;
					c16_distinct += lane_distinct; lane_distinct = 0; memset(lane_seen, 0, sizeof(lane_seen));
					if (vx_args.worker == 0 && vx_nsamples < 8 && unit % 16 == 0 && unit / 16 % 5 == 1) {
						uint64_t c = lane_value(lane, (uint32_t)((w0 + 0x5a5a5u) << shifts[si]));
						struct c16_item it = { C16_K_M_U64, 0, 0, 0, c, 0 }; struct c16_res rs;
						ev_items(&it, &rs, 1);
						vx_sample("lane %d (%s half sweeps, the other half = 0x%08x) c=0x%016llx: const_pop=%lld const_lssb=%lld (run time)",
							  lane, lane < 4 ? "low" : "high", lane_boundary[lane & 3], (unsigned long long)c,
							  (long long)rs.v[0].bits, (long long)rs.v[1].bits);
					}
				}
		results += 2 * lane_evals;
		c16_count("lane_arguments_runtime", lane_evals);
		c16_count("lane_units_done", units_done);
		c16_count("lane_faults", lane_faults);
		for (int m = 0; m < C16_NM; m++) { char nm[64]; snprintf(nm, sizeof(nm), "mismatches_runtime_lanes_%s", c16_mname[m]); c16_count(nm, lane_bad[m]); }
		vx_note("macros: 2^64 arguments cannot be enumerated; covered sub-spaces: every %d-or-fewer-bit pattern, every contiguous mask, "
			"their complements, 8 lanes (one 32-bit half sweeping all 2^%d values at %d alignments, the other in "
			"{0,1,0x80000000,0xffffffff}), and the argument-form families", m_kmax(), wbits, nshift);
	}
#else
	vx_note("ILP32 macros: every 3-or-fewer-bit pattern, every contiguous mask, their complements and the argument-form families at run "
		"time in the -m32 helper; the compile-time table read back from the -m32 object; no lanes");
#endif

	c16_count("evaluations", results + 2 * tab);
	c16_count("distinct", c16_distinct);
	for (int m = 0; m < C16_NM; m++) {
		char nm[64];
		snprintf(nm, sizeof(nm), "mismatches_constant_%s", c16_mname[m]); c16_count(nm, bad_ct[m]);
		snprintf(nm, sizeof(nm), "mismatches_constant_vs_runtime_%s", c16_mname[m]); c16_count(nm, bad_agree[m]);
	}
	/* the 2^64 argument space of the macros is covered on sub-spaces only */
	vx_and("exhaustive", 0);
	vx_and("exhaustive_macros", 0);
	if (ev_abandoned) complete = 0;
	vx_and("macro_subspaces_complete" C16_TAG, complete);

	/* canonical witnesses */
	for (int m = 0; m < C16_NM; m++) {
#ifndef C16_PART_ILP32
		if (lane_bad[m]) {	/* the structured patterns come first in the canonical order; a lane argument only if none of them fails */
			struct c16_item it = { C16_K_M_U64, 0, 0, 0, lane_first[m], 0 };
			struct runner *R = &c16_R;
			memset(R, 0, sizeof(*R)); R->name = "macro_structured_rt"; R->find = 1;
			fam_m_structured(run_emit, R); run_flush(R);
			if (R->found) report_item(&R->first, "first failing structured pattern");
			else report_item(&it, "no structured pattern fails; first failing lane argument of this worker");
		}
#endif
		if (bad_ct[m] || bad_agree[m]) {
			int seen_kind = 0;
			for (unsigned i = 0; i < tab_n() && seen_kind != 3; i++) {
				int r = check_table(i, m, 0) & ~seen_kind;	/* record only the kinds not yet witnessed by an earlier entry */
				if (r) { check_table(i, m, r); seen_kind |= r; }
			}
		}
	}
}
#endif /* C16_DO_MACROS */

#ifndef C16_DO_MACROS
static int m_kmax(void) { return 3; }
#endif

/* =========================================================================================== replay, main */
static void replay(const char *rp)
{
	const char *kind = vx_replay_field(rp, "kind");
	char kd[32]; snprintf(kd, sizeof(kd), "%s", kind ? kind : "");
	vx_count("evaluations", 1);
	if (!strcmp(kd, "item")) {
		struct c16_item it; const char *s;
		memset(&it, 0, sizeof(it));
		if ((s = vx_replay_field(rp, "k"))) it.kind = (uint32_t)strtoul(s, NULL, 0);
		if ((s = vx_replay_field(rp, "idx"))) it.idx = (uint32_t)strtoul(s, NULL, 0);
		if ((s = vx_replay_field(rp, "f"))) it.f = (uint32_t)strtoul(s, NULL, 0);
		if ((s = vx_replay_field(rp, "a"))) it.a = strtoull(s, NULL, 0);
		if ((s = vx_replay_field(rp, "b"))) it.b = strtoull(s, NULL, 0);
		if (!(c16_is_f(it.kind) || c16_is_m(it.kind))) return;
#ifndef C16_DO_FUNCS
		if (c16_is_f(it.kind)) return;
#endif
#ifndef C16_DO_MACROS
		if (c16_is_m(it.kind)) return;
#endif
		report_item(&it, "replay");
	}
#ifdef C16_DO_MACROS
	else if (!strcmp(kd, "table")) {
		const char *s = vx_replay_field(rp, "i");
		unsigned i = s ? (unsigned)strtoul(s, NULL, 0) : 0;
		int m = (s = vx_replay_field(rp, "m")) ? atoi(s) : 0;
		char arg[256]; snprintf(arg, sizeof(arg), "%s", (s = vx_replay_field(rp, "arg")) ? s : "");
		if (tab_n() != C16_NMMETA || m < 0 || m >= C16_NM) return;
		if (i >= C16_NMMETA || strcmp(c16_mmeta[i].text, arg)) {	/* the table was regenerated differently: find the argument by its text */
			for (i = 0; i < C16_NMMETA && strcmp(c16_mmeta[i].text, arg); i++) {}
			if (i >= C16_NMMETA) return;
		}
		check_table(i, m, 3);
	}
#endif
}

int main(int argc, char **argv)
{
	vx_init(argc, argv);
	vx_install_handlers();
	vx_watchdog(2.0);
	signal(SIGPIPE, SIG_IGN);
	ev_start();
#ifdef C16_PART_ILP32
	if (rem_pid <= 0) rem_unusable = 1;
	else { unsigned b; int s; ev_type_info(0, &b, &s); if (!b) rem_unusable = 1; }
	if (rem_unusable) {	/* only the table read back from the object file is left */
		vx_note("ILP32: the -m32 helper %s; only the compile-time table is checked (%s)",
			access(C16_ILP32_BIN, X_OK) ? "was not built" : "cannot be run here", C16_ILP32_NOTE);
		ev_abandoned = 1;
		vx_and("exhaustive", 0);
	}
#endif
	char *rp = vx_read_replay();
	if (rp) { replay(rp); ev_stop(); vx_finish(); return 0; }
	c16_selfcheck();
#ifdef C16_PART_ILP32
	if (!rem_unusable)
#endif
#ifdef C16_DO_FUNCS
	funcs_main();
#endif
#ifdef C16_DO_MACROS
	macros_main();
#endif
	c16_count("faults_total", ev_faults);
	if (ev_abandoned) vx_note("enumeration stopped early after repeated hangs or helper failures: the run is incomplete" C16_TAG);
	ev_stop();
	vx_finish();
	return 0;
}

/*
 * c16_fptr.c - the addresses of the four functions, taken the way a user does who hands them to a callback
 * (int (*p)(uint32_t) = clz;). A unit of its own and optional (bin/checks.d/C16.py names c16_fptr_none.c as the
 * fallback): a public header that maps a name onto something whose address cannot be taken is not a violation of
 * C16, it only means this form of call does not exist.
 */
#include <librfn/bitops.h>
#include "c16_user.h"

int (*const c16u_fp[C16_NF])(uint32_t) = { bitcnt, clz, ctz, ilog2 };
const int c16u_fp_ok = 1;

/* c16_fptr_none.c - fallback for c16_fptr.c: no function addresses available, the pointer-call family is left out */
#include "c16_user.h"

int (*const c16u_fp[C16_NF])(uint32_t) = { 0, 0, 0, 0 };
const int c16u_fp_ok = 0;

"""c16_gen.py - generator of the constant-expression argument tables of check C16 (used by bin/checks.d/C16.py).

A table line is  C16_K(<argument as a user writes it>, <(uint64_t) value of the argument>, <popcount>, <lowest set bit>)
for the macros and  C16_FC(<id>, <argument>, <value>) / C16_FC0(<id>, <argument>)  (value 0: no ilog2) for the functions.
The value of an argument is computed here with a small model of C's integer constant expressions (type of a literal by
suffix, base and value; usual arithmetic conversions; wrap-around of unsigned types) for the ABI named by long_bits.
The harness compares this value with the compiler's own (uint64_t)(argument) for every entry, so a mistake in the model
stops the run as an internal error instead of producing a verdict. Forms whose value is negative or that overflow a
signed type are not generated (the statement speaks about non-negative 32-/64-bit arguments; overflow is undefined).
"""

INT, LONG, LLONG = 0, 1, 2


class Abi(object):
    def __init__(self, long_bits):
        self.long_bits = long_bits

    def bits(self, rank):
        return (32, self.long_bits, 64)[rank]

    def fits(self, v, t):
        rank, signed = t
        b = self.bits(rank)
        return 0 <= v < (1 << (b - 1 if signed else b))

    def literal_type(self, v, suffix, hexa):
        s = suffix.upper()
        u = 'U' in s
        l = s.replace('U', '')
        lo = {'': INT, 'L': LONG, 'LL': LLONG}[l]
        cands = []
        for rank in (INT, LONG, LLONG):
            if rank < lo:
                continue
            if not u:
                cands.append((rank, True))
            if u or hexa:
                cands.append((rank, False))
        for t in cands:
            if self.fits(v, t):
                return t
        return None

    def conv(self, t1, t2):
        """usual arithmetic conversions (both already promoted: nothing here is narrower than int)"""
        if t1 == t2:
            return t1
        (r1, s1), (r2, s2) = t1, t2
        if s1 == s2:
            return (max(r1, r2), s1)
        (ur, _), (sr, _) = (t1, t2) if not s1 else (t2, t1)
        if ur >= sr:
            return (ur, False)
        if self.bits(sr) > self.bits(ur):
            return (sr, True)
        return (sr, False)

    def wrap(self, v, t):
        """value of the mathematical result v in type t; None = negative or signed overflow (not generated)"""
        rank, signed = t
        b = self.bits(rank)
        if signed:
            return v if 0 <= v < (1 << (b - 1)) else None
        return v % (1 << b)


def lit(abi, v, suffix, hexa=True):
    t = abi.literal_type(v, suffix, hexa)
    if t is None:
        return None
    return (('0x%x' if hexa else '%d') % v) + suffix, v, t


BOOL = (INT, True)


def binop(abi, op, A, B):
    """(text, value, type) of 'A op B' or None"""
    (ta, va, tya), (tb, vb, tyb) = A, B
    text = '%s %s %s' % (ta, op, tb)
    if op in ('<<', '>>'):
        if vb >= abi.bits(tya[0]):
            return None
        v = abi.wrap(va << vb if op == '<<' else va >> vb, tya)
        return None if v is None else (text, v, tya)
    if op in ('<', '==', '&&', '||'):
        v = {'<': va < vb, '==': va == vb, '&&': bool(va) and bool(vb), '||': bool(va) or bool(vb)}[op]
        return (text, int(v), BOOL)
    t = abi.conv(tya, tyb)
    m = {'*': va * vb, '+': va + vb, '-': va - vb, '&': va & vb, '^': va ^ vb, '|': va | vb}[op]
    v = abi.wrap(m, t)
    return None if v is None else (text, v, t)


def cond(abi, c, A, B):
    (ta, va, tya), (tb, vb, tyb) = A, B
    t = abi.conv(tya, tyb)
    v = abi.wrap(va if c[1] else vb, t)
    return None if v is None else ('%s ? %s : %s' % (c[0], ta, tb), v, t)


def unop(abi, op, A):
    ta, va, tya = A
    if op == '!':
        return ('!' + ta, int(not va), BOOL)
    b = abi.bits(tya[0])
    m = {'~': (~va) if tya[1] else ((1 << b) - 1 - va), '-': -va}[op]
    v = abi.wrap(m, tya)
    return None if v is None else (op + ta, v, tya)


BINOPS = ['*', '+', '-', '<<', '>>', '<', '==', '&', '^', '|', '&&', '||']
SUFFIXES = ['', 'U', 'L', 'UL', 'LL', 'ULL']
CASTS = [('uint8_t', 8, False), ('uint16_t', 16, False), ('uint32_t', 32, False), ('uint64_t', 64, False),
         ('int', 32, True), ('unsigned', 32, False), ('int64_t', 64, True), ('unsigned char', 8, False),
         ('unsigned short', 16, False), ('long long', 64, True), ('unsigned long long', 64, False)]


def forms(abi, width, opvalues, opclasses):
    """argument forms with a value below 2**width: [(text, value)] in canonical order, no text twice"""
    out, have = [], set()

    def add(f):
        if f is None:
            return
        text, v = f[0], f[1]
        if v >= (1 << width) or text in have:
            return
        have.add(text)
        out.append((text, v))

    ones = [(1 << b) - 1 for b in (7, 8, 15, 16, 31, 32, 63, 64) if b <= width]
    single = [0] + [1 << i for i in range(width)] + ones
    # 1. literals of every suffix: 0, every one-bit pattern, all-ones of every type (hexadecimal; decimal where C allows)
    for s in SUFFIXES:
        for v in single:
            add(lit(abi, v, s, True))
        for v in single:
            add(lit(abi, v, s, False))
        if abi.literal_type(0o17, s, True):
            add(('017' + s, 0o17))                      # an octal literal
    # 2. casts of a constant to the fixed-width and basic types
    for name, b, signed in CASTS:
        top = b - 1 if signed else b
        top = min(top, width)
        for v in [0] + [1 << i for i in range(top)] + [(1 << top) - 1]:
            add(('(%s)0x%x' % (name, v), v))
        for v in (0, 1 << (top - 1), (1 << top) - 1):
            add(('(%s) 0x%xULL' % (name, v), v))
    for text, v in (('sizeof(char)', 1), ('sizeof(uint64_t)', 8), ("'A'", 65), ("'\\0'", 0)):
        add((text, v))
    # 3. operator expressions over literals: every precedence level of C's binary operators, ?: and the unary operators
    shifts = [0, 1, 4, 31, 32, 63]
    for cls in opclasses:
        lits = [x for x in (lit(abi, v, cls) for v in opvalues) if x]
        for A in lits:
            for B in lits:
                for op in BINOPS:
                    if op in ('<<', '>>'):
                        continue
                    add(binop(abi, op, A, B))
                add(cond(abi, ('1', 1), A, B))
                add(cond(abi, ('0', 0), A, B))
                f = binop(abi, '&', A, B)
                if f:
                    add(cond(abi, f, A, B))
            for sh in shifts:
                S = lit(abi, sh, '', False)
                add(binop(abi, '<<', A, S))
                add(binop(abi, '>>', A, S))
            for op in ('~', '!', '-'):
                add(unop(abi, op, A))
            add(('(%s)' % A[0], A[1]))
    # mixed classes: an unsuffixed literal with a ULL one, both ways round
    if '' in opclasses and 'ULL' in opclasses:
        la = [x for x in (lit(abi, v, '') for v in opvalues) if x]
        lb = [x for x in (lit(abi, v, 'ULL') for v in opvalues) if x]
        for A in la:
            for B in lb:
                for op in ('+', '&', '^', '|'):
                    add(binop(abi, op, A, B))
                    add(binop(abi, op, B, A))
                add(cond(abi, ('1', 1), A, B))
                add(cond(abi, ('0', 0), B, A))
    return out


# operands of the operator forms: bits in different places, so that every wrong grouping changes the value
OPVALUES64 = [0, 1, 0xf0, 0xf01, 0xffffffff, 0x8000000000000000]
OPVALUES32 = [0, 1, 0xf0, 0xf01, 0x80000000, 0xffffffff]


def macro_forms(long_bits):
    return forms(Abi(long_bits), 64, OPVALUES64, ['', 'U', 'ULL'] if long_bits == 64 else ['', 'U', 'UL', 'ULL'])


def func_forms(long_bits):
    return forms(Abi(long_bits), 32, OPVALUES32, ['', 'U'] if long_bits == 64 else ['', 'UL'])


def pop_lssb(k):
    return bin(k).count('1'), ((k & -k).bit_length() - 1 if k else -1)


def write_mtab(path, what, entries):
    with open(path, 'w') as f:
        f.write('/* generated by harness/c16_gen.py: %s, %d entries */\n' % (what, len(entries)))
        for text, v in entries:
            p, l = pop_lssb(v)
            f.write('C16_K(%s, 0x%016xULL, %d, %d)\n' % (text, v, p, l))


def write_ftab(path, what, entries):
    with open(path, 'w') as f:
        f.write('/* generated by harness/c16_gen.py: %s, %d entries */\n' % (what, len(entries)))
        for i, (text, v) in enumerate(entries):
            if v:
                f.write('C16_FC(%d, %s, 0x%08xU)\n' % (i, text, v))
            else:
                f.write('C16_FC0(%d, %s)\n' % (i, text))

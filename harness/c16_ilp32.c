/*
 * c16_ilp32.c - libc-free helper program for the ILP32 part of check C16 (gcc -m32 -ffreestanding -nostdlib -static).
 *
 * librfn's real targets are 32-bit microcontrollers where long is 32 bits wide; on the LP64 host a cast to unsigned long
 * or a __builtin_clzl is indistinguishable from the 64-/32-bit operation that was meant. This program is bitops.c and
 * the user unit c16_user.c compiled for ILP32 (x86 -m32: int, long and pointers 32 bits). It has no libc (the sandbox has
 * no 32-bit C library): raw Linux system calls, an <assert.h> stub provided by the build (bin/checks.d/C16.py).
 *
 * It is a server on stdin/stdout for the harness part c16i (c16_bitops.c -DC16_PART_ILP32), which does all the
 * enumerating and - except for the sweeps over all 2^32 arguments, which are judged here with the same code
 * (c16_judge.h) - all the judging:
 *   struct c16_req { op = C16_RQ_ITEMS, n } + n items     ->  struct c16_reply + n results
 *   struct c16_req { op = C16_RQ_SWEEP, n, a = base, b }  ->  struct c16_reply + struct c16_sweep_out
 * A failed assert, a fatal signal or a call that does not return (no progress during one second of CPU time) ends the
 * program with a reply whose status is the fault kind (same numbers as vx.h) and whose index is the item / chunk at
 * fault; the harness starts a new helper and goes on behind that item.
 */
#include "c16_judge.h"

/* ------------------------------------------------------------------ system calls (i386) */
static long c16h_sys(long n, long a, long b, long c, long d)
{
	long r;
	__asm__ volatile("int $0x80" : "=a"(r) : "a"(n), "b"(a), "c"(b), "d"(c), "S"(d) : "memory");
	return r;
}
#define C16H_EXIT 252	/* exit_group */
#define C16H_READ 3
#define C16H_WRITE 4
#define C16H_SETITIMER 104
#define C16H_RT_SIGACTION 174

static void c16h_exit(int code) { for (;;) c16h_sys(C16H_EXIT, code, 0, 0, 0); }
static int c16h_read_full(void *p, unsigned n)
{
	unsigned got = 0;
	while (got < n) {
		long r = c16h_sys(C16H_READ, 0, (long)((char *)p + got), (long)(n - got), 0);
		if (r == -4) continue;	/* EINTR */
		if (r <= 0) return 0;
		got += (unsigned)r;
	}
	return 1;
}
static void c16h_write_full(const void *p, unsigned n)
{
	unsigned done = 0;
	while (done < n) {
		long r = c16h_sys(C16H_WRITE, 1, (long)((const char *)p + done), (long)(n - done), 0);
		if (r == -4) continue;
		if (r <= 0) c16h_exit(7);
		done += (unsigned)r;
	}
}

/* what gcc may emit calls to even in freestanding code */
void *memcpy(void *d, const void *s, size_t n) { char *a = d; const char *b = s; while (n--) *a++ = *b++; return d; }
void *memmove(void *d, const void *s, size_t n)
{
	char *a = d; const char *b = s;
	if (a < b) while (n--) *a++ = *b++;
	else while (n--) a[n] = b[n];
	return d;
}
void *memset(void *d, int c, size_t n) { char *a = d; while (n--) *a++ = (char)c; return d; }
int memcmp(const void *x, const void *y, size_t n)
{
	const unsigned char *a = x, *b = y;
	for (; n--; a++, b++) if (*a != *b) return *a < *b ? -1 : 1;
	return 0;
}

/* what gcc emits calls to for 64-bit division and for bit-counting builtins on a target without the instructions: the
 * sandbox has no 32-bit libgcc either. Plain loops, so that they cannot end up calling themselves. */
unsigned long long __udivmoddi4(unsigned long long n, unsigned long long d, unsigned long long *rem)
{
	unsigned long long q = 0, r = 0;
	if (!d) { volatile int z = 0; q = (unsigned long long)(1 / z); }	/* SIGFPE, as the real thing */
	for (int i = 63; i >= 0; i--) {
		r = (r << 1) | ((n >> i) & 1);
		if (r >= d) { r -= d; q |= 1ULL << i; }
	}
	if (rem) *rem = r;
	return q;
}
unsigned long long __udivdi3(unsigned long long n, unsigned long long d) { return __udivmoddi4(n, d, 0); }
unsigned long long __umoddi3(unsigned long long n, unsigned long long d) { unsigned long long r; __udivmoddi4(n, d, &r); return r; }
long long __divdi3(long long n, long long d)
{
	unsigned long long q = __udivmoddi4(n < 0 ? 0ULL - (unsigned long long)n : (unsigned long long)n,
					    d < 0 ? 0ULL - (unsigned long long)d : (unsigned long long)d, 0);
	return (n < 0) != (d < 0) ? (long long)(0ULL - q) : (long long)q;
}
long long __moddi3(long long n, long long d)
{
	unsigned long long r;
	__udivmoddi4(n < 0 ? 0ULL - (unsigned long long)n : (unsigned long long)n, d < 0 ? 0ULL - (unsigned long long)d : (unsigned long long)d, &r);
	return n < 0 ? (long long)(0ULL - r) : (long long)r;
}
int __popcountdi2(unsigned long long x) { int n = 0; for (int i = 0; i < 64; i++) n += (int)((x >> i) & 1); return n; }
int __popcountsi2(unsigned x) { int n = 0; for (int i = 0; i < 32; i++) n += (int)((x >> i) & 1); return n; }
int __ctzdi2(unsigned long long x) { int n = 0; while (n < 64 && !((x >> n) & 1)) n++; return n; }
int __ctzsi2(unsigned x) { int n = 0; while (n < 32 && !((x >> n) & 1)) n++; return n; }
int __clzdi2(unsigned long long x) { int n = 0; while (n < 64 && !((x >> (63 - n)) & 1)) n++; return n; }
int __clzsi2(unsigned x) { int n = 0; while (n < 32 && !((x >> (31 - n)) & 1)) n++; return n; }
int __ffsdi2(unsigned long long x) { return x ? __ctzdi2(x) + 1 : 0; }
int __paritydi2(unsigned long long x) { return __popcountdi2(x) & 1; }
int __paritysi2(unsigned x) { return __popcountsi2(x) & 1; }

/* ------------------------------------------------------------------ faults */
static volatile uint32_t c16h_index;		/* item / chunk being evaluated */
static volatile uint32_t c16h_progress, c16h_progress_seen;

static void c16h_append(char *buf, unsigned cap, unsigned *n, const char *s)
{
	while (s && *s && *n + 1 < cap) buf[(*n)++] = *s++;
	buf[*n] = 0;
}
static void c16h_fault7(unsigned kind, const char *m1, const char *m2, const char *m3, const char *m4, const char *m5,
			const char *m6, const char *m7)
{
	struct c16_reply rep;
	unsigned n = 0;
	memset(&rep, 0, sizeof(rep));
	rep.status = kind; rep.index = c16h_index;
	c16h_append(rep.msg, sizeof(rep.msg), &n, m1); c16h_append(rep.msg, sizeof(rep.msg), &n, m2);
	c16h_append(rep.msg, sizeof(rep.msg), &n, m3); c16h_append(rep.msg, sizeof(rep.msg), &n, m4);
	c16h_append(rep.msg, sizeof(rep.msg), &n, m5); c16h_append(rep.msg, sizeof(rep.msg), &n, m6);
	c16h_append(rep.msg, sizeof(rep.msg), &n, m7);
	c16h_write_full(&rep, sizeof(rep));
	c16h_exit(0);
}
static void c16h_fault(unsigned kind, const char *m) { c16h_fault7(kind, m, 0, 0, 0, 0, 0, 0); }
/* the library's assert() lands here (through the <assert.h> stub of this build); same text as vx.h produces */
__attribute__((noreturn)) void __assert_fail(const char *expr, const char *file, unsigned int line, const char *func)
{
	const char *base = file;
	(void)line;
	for (const char *p = file; p && *p; p++) if (*p == '/') base = p + 1;
	c16h_fault7(1, "assert(", expr, ") in ", func ? func : "?", " [", base, "]");
	for (;;) c16h_exit(0);
}
static void c16h_on_signal(int sig)
{
	static const char *const names[] = { [4] = "signal 4 (SIGILL)", [7] = "signal 7 (SIGBUS)", [8] = "signal 8 (SIGFPE)",
					     [11] = "signal 11 (SIGSEGV)", [6] = "signal 6 (SIGABRT)", [5] = "signal 5 (SIGTRAP)" };
	c16h_fault((unsigned)sig, sig >= 0 && sig < 12 && names[sig] ? names[sig] : "signal");
}
static void c16h_on_tick(int sig)
{
	(void)sig;
	if (c16h_progress == c16h_progress_seen)
		c16h_fault(2, "no progress for one watchdog period (endless loop)");
	c16h_progress_seen = c16h_progress;
}
struct c16h_sigaction { void (*handler)(int); unsigned long flags; void (*restorer)(void); unsigned long mask[2]; };
static void c16h_signal(int sig, void (*fn)(int))
{
	struct c16h_sigaction sa;
	memset(&sa, 0, sizeof(sa));
	sa.handler = fn; sa.flags = 0x40000000ul;	/* SA_NODEFER; the handlers never return except c16h_on_tick */
	c16h_sys(C16H_RT_SIGACTION, sig, (long)&sa, 0, 8);
}

/* ------------------------------------------------------------------ the server */
#define C16H_MAXITEMS 4096
#define C16H_CHUNK 4096
static struct c16_item c16h_items[C16H_MAXITEMS];
static struct c16_res c16h_res[C16H_MAXITEMS];
static int64_t c16h_r[C16_NF][C16H_CHUNK];
static struct c16_sweep_out c16h_out;

static void c16h_main(void)
{
	struct c16_reply ok;
	uint64_t bad = 0;
	/* one tick per second of CPU time spent in this process: two ticks without progress = the code under test loops */
	struct { long isec, iusec, vsec, vusec; } it = { 1, 0, 1, 0 };
	c16h_signal(4, c16h_on_signal); c16h_signal(5, c16h_on_signal); c16h_signal(6, c16h_on_signal);
	c16h_signal(7, c16h_on_signal); c16h_signal(8, c16h_on_signal); c16h_signal(11, c16h_on_signal);
	c16h_signal(26, c16h_on_tick);	/* SIGVTALRM */
	c16h_sys(C16H_SETITIMER, 1 /* ITIMER_VIRTUAL */, (long)&it, 0, 0);
	memset(&ok, 0, sizeof(ok));
	c16h_index = 0xffffffffu;
	if (c16j_selfcheck(&bad)) c16h_fault(3, "reference self-check failed in the ILP32 helper");
	for (;;) {
		struct c16_req rq;
		if (!c16h_read_full(&rq, sizeof(rq))) c16h_exit(0);
		if (rq.op == C16_RQ_ITEMS) {
			if (rq.n > C16H_MAXITEMS || !c16h_read_full(c16h_items, rq.n * sizeof(c16h_items[0]))) c16h_exit(6);
			for (uint32_t i = 0; i < rq.n; i++) {
				c16h_index = i; c16h_progress++;
				if (c16h_items[i].kind >= C16_K_M_U64 && c16h_items[i].kind <= C16_K_M_OP)
					c16u_m_item(&c16h_items[i], &c16h_res[i]);
				else
					c16u_f_item(&c16h_items[i], &c16h_res[i]);
			}
			c16h_index = 0xffffffffu;
			c16h_write_full(&ok, sizeof(ok));
			c16h_write_full(c16h_res, rq.n * sizeof(c16h_res[0]));
		} else if (rq.op == C16_RQ_SWEEP) {
			int64_t *const r[C16_NF] = { c16h_r[0], c16h_r[1], c16h_r[2], c16h_r[3] };
			unsigned mask = (unsigned)rq.b & 15u, ptr = (unsigned)(rq.b >> 8) & 1u;
			uint32_t base = (uint32_t)rq.a, left = rq.n, chunk = 0;
			memset(&c16h_out, 0, sizeof(c16h_out));
			while (left) {
				uint32_t n = left < C16H_CHUNK ? left : C16H_CHUNK;
				c16h_index = chunk++; c16h_progress++;
				if (ptr) c16u_f_sweep_ptr(base, n, mask, r[0], r[1], r[2], r[3]);
				else c16u_f_sweep(base, n, mask, r[0], r[1], r[2], r[3]);
				c16j_judge(base, n, mask, r, &c16h_out);
				base += n; left -= n;
			}
			c16h_index = 0xffffffffu;
			c16h_write_full(&ok, sizeof(ok));
			c16h_write_full(&c16h_out, sizeof(c16h_out));
		} else
			c16h_exit(6);
	}
}

void c16h_entry(void) { c16h_main(); c16h_exit(0); }
__asm__(".globl _start\n_start:\n\txor %ebp, %ebp\n\tand $-16, %esp\n\tcall c16h_entry\n\thlt\n");

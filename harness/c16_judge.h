/*
 * c16_judge.h - the definitions C16 judges against, and the judge of a sweep over consecutive 32-bit arguments.
 * Shared by the harness (c16_bitops.c, LP64) and the libc-free ILP32 helper (c16_ilp32.c), so freestanding C only.
 * The compiler builtins are the reference; both programs validate them against bit-by-bit loops before use.
 */
#ifndef C16_JUDGE_H_
#define C16_JUDGE_H_

#include "c16_user.h"

static inline int c16j_pop32(uint32_t x) { return __builtin_popcount(x); }
static inline int c16j_clz32(uint32_t x) { return x ? __builtin_clz(x) : 32; }
static inline int c16j_ctz32(uint32_t x) { return x ? __builtin_ctz(x) : 32; }
static inline int c16j_ilog2(uint32_t x) { return 31 - __builtin_clz(x); }	/* x > 0 */
#ifndef C16_ILP32	/* the helper judges only the four functions (no 64-bit builtins without libgcc) */
static inline int c16j_pop64(uint64_t c) { return __builtin_popcountll(c); }
static inline int c16j_lssb64(uint64_t c) { return c ? __builtin_ctzll(c) : -1; }
#endif

static inline int c16j_want_f(unsigned f, uint32_t x)
{
	switch (f) {
	case C16_F_BITCNT: return c16j_pop32(x);
	case C16_F_CLZ: return c16j_clz32(x);
	case C16_F_CTZ: return c16j_ctz32(x);
	default: return c16j_ilog2(x);
	}
}

/* the definitions spelled out bit by bit; used only to validate the builtins */
static int c16j_naive_pop(uint64_t c, int w) { int n = 0; for (int i = 0; i < w; i++) n += (int)((c >> i) & 1); return n; }
static int c16j_naive_ctz(uint64_t c, int w) { int n = 0; while (n < w && !((c >> n) & 1)) n++; return n; }
static int c16j_naive_clz(uint64_t c, int w) { int n = 0; while (n < w && !((c >> (w - 1 - n)) & 1)) n++; return n; }

static uint64_t c16j_selfcheck_n;
static int c16j_selfcheck32(uint32_t x)
{
	c16j_selfcheck_n++;
	return c16j_pop32(x) == c16j_naive_pop(x, 32) && c16j_clz32(x) == c16j_naive_clz(x, 32) &&
	       c16j_ctz32(x) == c16j_naive_ctz(x, 32) && (!x || c16j_ilog2(x) == 31 - c16j_naive_clz(x, 32));
}
static int c16j_selfcheck64(uint64_t c)
{
#ifndef C16_ILP32
	int l = c16j_naive_ctz(c, 64);
	c16j_selfcheck_n++;
	return c16j_pop64(c) == c16j_naive_pop(c, 64) && c16j_lssb64(c) == (l == 64 ? -1 : l);
#else
	(void)c; return 1;
#endif
}
/* 0 = the builtins agree with the definitions on ~5*10^5 structured values; otherwise *bad is an offending value */
static int c16j_selfcheck(uint64_t *bad)
{
	for (uint32_t v = 0; v < 0x10000; v++) {
		uint32_t a[4] = { v, v << 16, v * 0x10001u, ~v };
		uint64_t b[4] = { v, (uint64_t)v << 48, (uint64_t)v << 24, ~(uint64_t)v << 16 };
		for (int i = 0; i < 4; i++) {
			if (!c16j_selfcheck32(a[i])) { *bad = a[i]; return 1; }
			if (!c16j_selfcheck64(b[i])) { *bad = b[i]; return 1; }
		}
	}
	for (int i = 0; i < 64; i++) for (int j = i; j < 64; j++) {
		uint64_t c = (1ULL << i) | (1ULL << j);
		if (!c16j_selfcheck64(c)) { *bad = c; return 1; }
		if (!c16j_selfcheck64(~c)) { *bad = ~c; return 1; }
		if (j < 32 && (!c16j_selfcheck32((uint32_t)c) || !c16j_selfcheck32(~(uint32_t)c))) { *bad = c; return 1; }
	}
	return 0;
}

/* results r[f][i] of the calls f(base + i), i < n, for the functions in mask (ilog2 only for x > 0), against the
 * definitions; o accumulates (zero it before the first chunk of a block) */
static void c16j_judge_one(uint32_t x, uint32_t i, unsigned mask, int64_t *const r[C16_NF], struct c16_sweep_out *o)
{
	int w[C16_NF] = { c16j_pop32(x), c16j_clz32(x), c16j_ctz32(x), 31 - c16j_clz32(x) };
	for (unsigned f = 0; f < C16_NF; f++) {
		if (!(mask & 1u << f) || (f == C16_F_ILOG2 && !x) || r[f][i] == w[f]) continue;
		o->bad[f]++;
		if (!o->have[f]) {
			o->have[f] = 1; o->first_x[f] = x;
			o->first_got[f].bits = (unsigned long long)r[f][i]; o->first_got[f].neg = r[f][i] < 0;
		}
	}
}
static void c16j_judge(uint32_t base, uint32_t n, unsigned mask, int64_t *const r[C16_NF], struct c16_sweep_out *o)
{
	const int64_t *rb = r[C16_F_BITCNT], *rc = r[C16_F_CLZ], *rt = r[C16_F_CTZ], *ri = r[C16_F_ILOG2];
	for (unsigned f = 0; f < C16_NF; f++)
		if (mask & 1u << f) o->calls[f] += n - (f == C16_F_ILOG2 && base == 0 && n > 0);
	if (mask != (1u << C16_NF) - 1) {
		for (uint32_t i = 0; i < n; i++) c16j_judge_one(base + i, i, mask, r, o);
		return;
	}
	for (uint32_t i = 0; i < n; i++) {
		uint32_t x = base + i;
		int wp = c16j_pop32(x), wl = c16j_clz32(x), wt = c16j_ctz32(x);
		if (rb[i] == wp && rc[i] == wl && rt[i] == wt && (!x || ri[i] == 31 - wl)) {
			unsigned idx = ((unsigned)wp * 33 + (unsigned)wl) * 33 + (unsigned)wt;
			if (!o->seen[idx]) { o->seen[idx] = 1; o->distinct++; }
		} else
			c16j_judge_one(x, i, mask, r, o);
	}
}

#endif /* C16_JUDGE_H_ */

/*
 * c16_user.c - the "user" of the library for property C16. Two sections, each compiled as an object of its own:
 *
 *   -DC16U_FUNCS   includes ONLY <librfn/bitops.h> (before anything else) and calls bitcnt / clz / ctz / ilog2 the way
 *                  a user writes the calls - whatever the public header makes of the four names (prototypes today;
 *                  macros, inline functions or builtins tomorrow) is what gets judged. bitops.c itself is a separate
 *                  object (lib=['bitops.c']).
 *   -DC16U_MACROS  includes <stdint.h> and <librfn/constexpr.h> and expands const_pop / const_lssb on arguments of every
 *                  type and shape: run-time values of every integer type, operator expressions that are passed to the
 *                  macro unparenthesised, and a generated table of constant expressions in static initialisers.
 *
 * Nothing of the harness (vx.h) is visible here and no identifier without the c16u_/C16 prefix is defined, so whatever
 * the library headers define cannot clash. See c16_user.h for the interface.
 */
#if defined(C16U_FUNCS)
#include <librfn/bitops.h>
#elif defined(C16U_MACROS)
#include <stdint.h>
#include <librfn/constexpr.h>
#else
#error "build with -DC16U_FUNCS or -DC16U_MACROS"
#endif

#include "c16_user.h"

/* c16u_p = the exact value of EXPR, evaluated once (the type of the expression is whatever the library makes it) */
#define C16U_ONCE(EXPR) __typeof__(EXPR) c16u_v = EXPR; c16_pair c16u_p = C16_PAIR(c16u_v);

/* the scope guards below compare every kind of expression with 0 on purpose */
#pragma GCC diagnostic ignored "-Wtype-limits"
#if defined(__clang__)
#pragma GCC diagnostic ignored "-Wtautological-compare"
#else
#pragma GCC diagnostic ignored "-Wbool-compare"
#endif

/* ===================================================================================== the four functions */
#if defined(C16U_FUNCS)

const unsigned c16u_f_macro_mask = 0
#ifdef bitcnt
	| 1u << C16_F_BITCNT
#endif
#ifdef clz
	| 1u << C16_F_CLZ
#endif
#ifdef ctz
	| 1u << C16_F_CTZ
#endif
#ifdef ilog2
	| 1u << C16_F_ILOG2
#endif
	;

/* f(ARG) for the function named by it->f; the result keeps its exact value whatever type the call expression has */
#define C16U_CALL(ARG) \
	switch (it->f) { \
	case C16_F_BITCNT: { C16U_ONCE(bitcnt(ARG)) r->v[0] = c16u_p; } break; \
	case C16_F_CLZ: { C16U_ONCE(clz(ARG)) r->v[0] = c16u_p; } break; \
	case C16_F_CTZ: { C16U_ONCE(ctz(ARG)) r->v[0] = c16u_p; } break; \
	case C16_F_ILOG2: if (!r->c) goto skip; { C16U_ONCE(ilog2(ARG)) r->v[0] = c16u_p; } break; \
	default: goto none; \
	}

/* ---- all arguments: the plain call with a uint32_t variable */
void c16u_f_sweep(uint32_t base, uint32_t n, unsigned mask, int64_t *rb, int64_t *rc, int64_t *rt, int64_t *ri)
{
	if (mask == (1u << C16_NF) - 1) {
		for (uint32_t i = 0; i < n; i++) {
			uint32_t x = base + i;
			rb[i] = bitcnt(x); rc[i] = clz(x); rt[i] = ctz(x);
			if (x) ri[i] = ilog2(x);
		}
		return;
	}
	for (uint32_t i = 0; i < n; i++) {
		uint32_t x = base + i;
		if (mask & 1u << C16_F_BITCNT) rb[i] = bitcnt(x);
		if (mask & 1u << C16_F_CLZ) rc[i] = clz(x);
		if (mask & 1u << C16_F_CTZ) rt[i] = ctz(x);
		if ((mask & 1u << C16_F_ILOG2) && x) ri[i] = ilog2(x);
	}
}
/* ---- all arguments: through pointers to the functions (the out-of-line versions, whatever the header maps the names to) */
void c16u_f_sweep_ptr(uint32_t base, uint32_t n, unsigned mask, int64_t *rb, int64_t *rc, int64_t *rt, int64_t *ri)
{
	int (*const pb)(uint32_t) = c16u_fp[C16_F_BITCNT], (*const pc)(uint32_t) = c16u_fp[C16_F_CLZ];
	int (*const pt)(uint32_t) = c16u_fp[C16_F_CTZ], (*const pi)(uint32_t) = c16u_fp[C16_F_ILOG2];
	if (!c16u_fp_ok) return;
	for (uint32_t i = 0; i < n; i++) {
		uint32_t x = base + i;
		if (mask & 1u << C16_F_BITCNT) rb[i] = pb(x);
		if (mask & 1u << C16_F_CLZ) rc[i] = pc(x);
		if (mask & 1u << C16_F_CTZ) rt[i] = pt(x);
		if ((mask & 1u << C16_F_ILOG2) && x) ri[i] = pi(x);
	}
}

/* ---- a call of the out-of-line function with every caller-saved register filled with a pattern first: the result of a
 * function must not depend on what the registers happened to hold (this is how a builtin with an undefined result for some
 * argument shows: e.g. x86 bsf/bsr leave the destination as it was for a zero source) */
#if defined(__x86_64__)
__asm__(".text\n"
	".type c16u_tramp, @function\n"
	"c16u_tramp:\n"			/* rdi = function, esi = argument, rdx = pattern */
	"\tpush %rbx\n"
	"\tmov %rdi, %rbx\n"
	"\tmov %esi, %edi\n"
	"\tmov %rdx, %rax\n\tmov %rdx, %rcx\n\tmov %rdx, %rsi\n"
	"\tmov %rdx, %r8\n\tmov %rdx, %r9\n\tmov %rdx, %r10\n\tmov %rdx, %r11\n"
	"\tcall *%rbx\n"
	"\tpop %rbx\n"
	"\tret\n"
	".size c16u_tramp, .-c16u_tramp\n");
int c16u_tramp(int (*fn)(uint32_t), uint32_t x, unsigned long pattern);
#define C16U_HAVE_TRAMP 1
#elif defined(__i386__)
__asm__(".text\n"
	".type c16u_tramp, @function\n"
	"c16u_tramp:\n"			/* 4(%esp) = function, 8(%esp) = argument, 12(%esp) = pattern */
	"\tpush %ebx\n"
	"\tmov 8(%esp), %ebx\n"
	"\tmov 12(%esp), %ecx\n"
	"\tmov 16(%esp), %eax\n"
	"\tsub $4, %esp\n"
	"\tpush %ecx\n"
	"\tmov %eax, %ecx\n\tmov %eax, %edx\n"
	"\tcall *%ebx\n"
	"\tadd $8, %esp\n"
	"\tpop %ebx\n"
	"\tret\n"
	".size c16u_tramp, .-c16u_tramp\n");
int c16u_tramp(int (*fn)(uint32_t), uint32_t x, unsigned long pattern);
#define C16U_HAVE_TRAMP 1
#else
#define C16U_HAVE_TRAMP 0
static int c16u_tramp(int (*fn)(uint32_t), uint32_t x, unsigned long pattern) { (void)pattern; return fn(x); }
#endif

/* ---- a run-time argument of every integer type (a value the type cannot hold, or a negative one, is out of scope) */
static void c16u_f_typed(const struct c16_item *it, struct c16_res *r)
{
	switch (it->idx) {
#define C16U_X(I, NAME, T) case I: { T x = (T)it->a; if (x < 0 || (uint64_t)x != it->a) goto skip; \
		r->c = (uint64_t)x; if (r->c >> 32) goto skip; C16U_CALL(x) } break;
	C16_TYPES(C16U_X)
#undef C16U_X
	default: goto none;
	}
	r->status = C16_S_OK; return;
skip:	r->status = C16_S_SKIP; return;
none:	r->status = C16_S_NONE;
}

/* ---- operator expressions as the argument, written without parentheses around them */
#define C16U_CASE(I, E) case I: if ((E) < 0) goto skip; r->c = (uint64_t)(E); if (r->c >> 32) goto skip; C16U_CALL(E) break;
#define C16U_X(TI, T) \
static void c16u_f_op_##TI(const struct c16_item *it, struct c16_res *r) \
{ \
	T a = (T)it->a, b = (T)it->b; \
	int s = (int)(it->b % (sizeof(T) < 4 ? 16 : 8 * sizeof(T))), q = (int)(it->b & 1); \
	if (a != it->a || b != it->b) goto skip; \
	(void)s; (void)q; \
	switch (it->idx % C16_NEXPRS) { C16_EXPRS(C16U_CASE) default: goto none; } \
	r->status = C16_S_OK; return; \
skip:	r->status = C16_S_SKIP; return; \
none:	r->status = C16_S_NONE; \
}
C16_OPTYPES(C16U_X)
#undef C16U_X
#undef C16U_CASE

/* ---- constant expressions as the argument (generated: literals of every suffix, casts, operator expressions) */
#define C16U_FN(F, CALL) case F: { C16U_ONCE(CALL) *c16u_out = c16u_p; } return 1;
#define C16_FC(ID, E, X) static int c16u_fc_##ID(unsigned c16u_f, c16_pair *c16u_out) { switch (c16u_f) { \
	C16U_FN(C16_F_BITCNT, bitcnt(E)) C16U_FN(C16_F_CLZ, clz(E)) C16U_FN(C16_F_CTZ, ctz(E)) C16U_FN(C16_F_ILOG2, ilog2(E)) } return 0; }
#define C16_FC0(ID, E) static int c16u_fc_##ID(unsigned c16u_f, c16_pair *c16u_out) { switch (c16u_f) { \
	C16U_FN(C16_F_BITCNT, bitcnt(E)) C16U_FN(C16_F_CLZ, clz(E)) C16U_FN(C16_F_CTZ, ctz(E)) } return 0; }
#include C16_FTAB_INC
#undef C16_FC
#undef C16_FC0
static const struct { int (*fn)(unsigned, c16_pair *); unsigned long long arg; } c16u_fc[] = {
#define C16_FC(ID, E, X) { c16u_fc_##ID, (unsigned long long)(E) },
#define C16_FC0(ID, E) { c16u_fc_##ID, (unsigned long long)(E) },
#include C16_FTAB_INC
#undef C16_FC
#undef C16_FC0
	{ 0, 0 }
};
const unsigned c16u_f_nconst = sizeof(c16u_fc) / sizeof(c16u_fc[0]) - 1;

void c16u_f_item(const struct c16_item *it, struct c16_res *r)
{
	r->status = C16_S_NONE; r->aux = 0; r->c = 0;
	r->v[0].bits = r->v[1].bits = 0; r->v[0].neg = r->v[1].neg = 0;
	switch (it->kind) {
	case C16_K_NOP: r->status = C16_S_SKIP; return;
	case C16_K_F_U32: {
		uint32_t x = (uint32_t)it->a;
		if (x != it->a) goto skip;
		r->c = x;
		C16U_CALL(x)
		r->status = C16_S_OK; return;
	}
	case C16_K_F_PTR: {
		uint32_t x = (uint32_t)it->a;
		if (x != it->a || !c16u_fp_ok || it->f >= C16_NF || (it->f == C16_F_ILOG2 && !x)) goto skip;
		r->c = x;
		if (it->b && !C16U_HAVE_TRAMP) goto skip;
		if (it->b) { C16U_ONCE(c16u_tramp(c16u_fp[it->f], x, it->b == 1 ? (unsigned long)0xa5a5a5a5a5a5a5a5ull : it->b == 2 ? 0ul : ~0ul)) r->v[0] = c16u_p; }
		else { C16U_ONCE(c16u_fp[it->f](x)) r->v[0] = c16u_p; }
		r->status = C16_S_OK; return;
	}
	case C16_K_F_TYPED: c16u_f_typed(it, r); return;
	case C16_K_F_OP:
		switch (it->idx / C16_NEXPRS) {
#define C16U_X(TI, T) case TI: if (TI < C16_NOPTYPES_F) { c16u_f_op_##TI(it, r); return; } break;
		C16_OPTYPES(C16U_X)
#undef C16U_X
		}
		goto none;
	case C16_K_F_CONST:
		if (it->idx >= c16u_f_nconst || it->f >= C16_NF) goto none;
		r->c = c16u_fc[it->idx].arg;
		if (!c16u_fc[it->idx].fn(it->f, &r->v[0])) goto skip;	/* ilog2 of a constant 0 is never written */
		r->status = C16_S_OK; return;
	case C16_K_INFO_TYPE:
		switch (it->idx) {
#define C16U_X(I, NAME, T) case I: r->c = 8 * sizeof(T); r->v[0].neg = (T)-1 < 0; break;
		C16_TYPES(C16U_X)
#undef C16U_X
		default: goto none;
		}
		r->status = C16_S_OK; return;
	case C16_K_INFO:
		r->c = c16u_f_nconst; r->v[0].bits = c16u_f_macro_mask; r->v[0].neg = c16u_fp_ok; r->v[1].bits = sizeof(long);
		r->status = C16_S_OK; return;
	default: goto none;
	}
skip:	r->status = C16_S_SKIP; return;
none:	r->status = C16_S_NONE;
}

#endif /* C16U_FUNCS */

/* ======================================================================================== the two macros */
#if defined(C16U_MACROS)

#ifndef C16U_TABLE_ONLY

#define C16U_EVAL(ARG) { { C16U_ONCE(const_pop(ARG)) r->v[C16_M_POP] = c16u_p; } { C16U_ONCE(const_lssb(ARG)) r->v[C16_M_LSSB] = c16u_p; } }

/* ---- the plain form: a uint64_t variable */
void c16u_m_u64(const uint64_t *c, unsigned n, c16_pair *pop, c16_pair *lssb)
{
	for (unsigned i = 0; i < n; i++) {
		uint64_t x = c[i];
		{ C16U_ONCE(const_pop(x)) pop[i] = c16u_p; }
		{ C16U_ONCE(const_lssb(x)) lssb[i] = c16u_p; }
	}
}

/* ---- a run-time argument of every integer type */
static void c16u_m_typed(const struct c16_item *it, struct c16_res *r)
{
	switch (it->idx) {
#define C16U_X(I, NAME, T) case I: { T x = (T)it->a; if (x < 0 || (uint64_t)x != it->a) goto skip; \
		r->c = (uint64_t)x; C16U_EVAL(x) } break;
	C16_TYPES(C16U_X)
#undef C16U_X
	default: r->status = C16_S_NONE; return;
	}
	r->status = C16_S_OK; return;
skip:	r->status = C16_S_SKIP;
}

/* ---- operator expressions as the argument, written without parentheses around them */
#define C16U_CASE(I, E) case I: if ((E) < 0) goto skip; r->c = (uint64_t)(E); C16U_EVAL(E) break;
#define C16U_X(TI, T) \
static void c16u_m_op_##TI(const struct c16_item *it, struct c16_res *r) \
{ \
	T a = (T)it->a, b = (T)it->b; \
	int s = (int)(it->b % (sizeof(T) < 4 ? 16 : 8 * sizeof(T))), q = (int)(it->b & 1); \
	if (a != it->a || b != it->b) goto skip; \
	(void)s; (void)q; \
	switch (it->idx % C16_NEXPRS) { C16_EXPRS(C16U_CASE) default: r->status = C16_S_NONE; return; } \
	r->status = C16_S_OK; return; \
skip:	r->status = C16_S_SKIP; \
}
C16_OPTYPES(C16U_X)
#undef C16U_X
#undef C16U_CASE

void c16u_m_item(const struct c16_item *it, struct c16_res *r)
{
	r->status = C16_S_NONE; r->aux = 0; r->c = 0;
	r->v[0].bits = r->v[1].bits = 0; r->v[0].neg = r->v[1].neg = 0;
	switch (it->kind) {
	case C16_K_NOP: r->status = C16_S_SKIP; return;
	case C16_K_M_U64: { uint64_t x = it->a; r->c = x; C16U_EVAL(x) r->status = C16_S_OK; return; }
	case C16_K_M_TYPED: c16u_m_typed(it, r); return;
	case C16_K_M_OP:
		switch (it->idx / C16_NEXPRS) {
#define C16U_X(TI, T) case TI: c16u_m_op_##TI(it, r); return;
		C16_OPTYPES(C16U_X)
#undef C16U_X
		}
		return;
	default: return;
	}
}

#endif /* !C16U_TABLE_ONLY */

/* ---- constant expressions as the argument: the compiler evaluates the macros in static initialisers (which also shows
 * that they are constant expressions); (uint64_t)(E) next to them is the compiler's own reading of the argument */
#ifdef C16U_TABLE_SECTION
#define C16U_SECTION __attribute__((section(C16U_TABLE_SECTION), used))
#else
#define C16U_SECTION
#endif
#define C16_K(E, C, P, L) { (unsigned long long)(E), { C16_WIDE(const_pop(E)), C16_WIDE(const_lssb(E)) } },
const struct c16u_k c16u_table[] C16U_SECTION = {
#include C16_MTAB_INC
};
#undef C16_K
const unsigned c16u_ntable = sizeof(c16u_table) / sizeof(c16u_table[0]);

#endif /* C16U_MACROS */

/*
 * c16_user.h - interface between the C16 harness (c16_bitops.c, which knows vx.h and nothing of
 * librfn) and the "user" translation unit c16_user.c (which knows <librfn/bitops.h> or
 * <librfn/constexpr.h> and nothing of the harness): the user unit calls bitcnt / clz / ctz / ilog2 and
 * expands const_pop / const_lssb exactly the way a user of the library writes them, the harness
 * enumerates the arguments and judges the results.
 *
 * The same user unit is compiled three ways:
 *   - LP64, linked into the harness binary (parts c16f, c16m and their build variants),
 *   - ILP32 (gcc -m32 -ffreestanding), linked with c16_ilp32.c into a libc-free helper program that the
 *     harness part c16i talks to through a pipe (the items and results below are the wire format),
 *   - ILP32, table only: the compile-time table is read back from the object file (objcopy), never run.
 * Everything in here is freestanding C (only <stdint.h>/<stddef.h>) and has the same layout on both ABIs.
 */
#ifndef C16_USER_H_
#define C16_USER_H_

#include <stdint.h>
#include <stddef.h>

/* ---- the exact value of an integer expression of any type of up to 64 bits: the statement speaks about values
 * ("-1 for c = 0"), so a result is never narrowed or reinterpreted before it is judged: an unsigned 2^64-1 is not -1 */
typedef struct { unsigned long long bits; long long neg; } c16_pair;
#define C16_PAIR(e) { (unsigned long long)(e), (e) < 0 }

/* compile-time table entries keep the value in one expansion where the ABI has a wider type (the big LP64 table) */
#ifdef __SIZEOF_INT128__
typedef __int128 c16_wide;
#define C16_WIDE(e) ((__int128)(e))
#else
typedef c16_pair c16_wide;
#define C16_WIDE(e) C16_PAIR(e)
#endif

enum { C16_F_BITCNT, C16_F_CLZ, C16_F_CTZ, C16_F_ILOG2, C16_NF };
enum { C16_M_POP, C16_M_LSSB, C16_NM };

/* ---- one case = one item; one answer = one result */
enum {
	C16_K_NOP,
	C16_K_M_U64,	/* const_pop(x), const_lssb(x) with `uint64_t x` = a */
	C16_K_M_TYPED,	/* ... with `T x` = a, T = type idx */
	C16_K_M_OP,	/* ... with an operator expression (op idx) over run-time operands a, b as the argument */
	C16_K_F_U32,	/* f(x) with `uint32_t x` = a */
	C16_K_F_PTR,	/* (*p)(x) with p = &f (the out-of-line function); b = 1, 2, 3: every caller-saved register holds a pattern at the call */
	C16_K_F_TYPED,	/* f(x) with `T x` = a */
	C16_K_F_OP,	/* f(operator expression over run-time operands a, b) */
	C16_K_F_CONST,	/* f(constant expression), entry idx of the generated table c16_ftab*.inc */
	C16_K_INFO_TYPE,	/* c = sizeof(T) * 8, v[0].neg = T is signed */
	C16_K_INFO,	/* c = number of constant function forms, v[0].bits = table entries, v[1].bits = sizeof(long) */
};
enum { C16_S_OK, C16_S_SKIP /* outside the statement: negative or too wide argument, ilog2(0) */, C16_S_FAULT, C16_S_NONE /* no such index */ };

struct c16_item { uint32_t kind, idx, f, pad; uint64_t a, b; };
struct c16_res { uint32_t status, aux; uint64_t c; c16_pair v[2]; };	/* c: the argument as the callee/macro saw it, (uint64_t)(expr) */

/* ---- run-time argument types (name, type) */
typedef unsigned long c16_ulong;
typedef long long c16_llong;
typedef unsigned long long c16_ullong;
typedef signed char c16_schar;
#define C16_TYPES(X) \
	X(0, int, int) X(1, unsigned, unsigned) X(2, uint8_t, uint8_t) X(3, uint16_t, uint16_t) X(4, uint32_t, uint32_t) \
	X(5, uint64_t, uint64_t) X(6, int64_t, int64_t) X(7, char, char) X(8, signed char, c16_schar) X(9, short, short) \
	X(10, long, long) X(11, unsigned long, c16_ulong) X(12, long long, c16_llong) X(13, unsigned long long, c16_ullong) \
	X(14, _Bool, _Bool)
#define C16_NTYPES 15

/* ---- operator expressions over run-time operands `T a, b; int s, q;` - one of every precedence level of C's binary
 * operators, the conditional operator and the unary operators; s = b mod (width of the promoted a), q = b & 1 */
#define C16_EXPRS(X) \
	X(0, a * b) X(1, a + b) X(2, a - b) X(3, a << s) X(4, a >> s) X(5, a < b) X(6, a == b) X(7, a & b) X(8, a ^ b) \
	X(9, a | b) X(10, a && b) X(11, a || b) X(12, q ? a : b) X(13, ~a) X(14, !a) X(15, -a) X(16, a) X(17, (a)) \
	X(18, a & b ? a : b)
#define C16_NEXPRS 19	/* no / and %: 64-bit division needs libgcc, which the freestanding ILP32 build does not have */
/* operand types of the operator forms (op index = operand type * C16_NEXPRS + expression) */
#define C16_OPTYPES(X) X(0, uint8_t) X(1, uint32_t) X(2, uint64_t)
#define C16_NOPTYPES_M 3	/* macros: all three */
#define C16_NOPTYPES_F 2	/* functions: uint8_t and uint32_t operands (the argument has to be a 32-bit x) */

/* ---- what c16_user.c exports (one section per -DC16U_FUNCS / -DC16U_MACROS) */
void c16u_f_item(const struct c16_item *it, struct c16_res *r);
void c16u_f_sweep(uint32_t base, uint32_t n, unsigned mask, int64_t *rb, int64_t *rc, int64_t *rt, int64_t *ri);
void c16u_f_sweep_ptr(uint32_t base, uint32_t n, unsigned mask, int64_t *rb, int64_t *rc, int64_t *rt, int64_t *ri);
extern const unsigned c16u_f_nconst;
extern const unsigned c16u_f_macro_mask;	/* bit f: the public header defines name f as a macro */
/* c16_fptr.c / c16_fptr_none.c */
extern int (*const c16u_fp[C16_NF])(uint32_t);
extern const int c16u_fp_ok;

void c16u_m_item(const struct c16_item *it, struct c16_res *r);
void c16u_m_u64(const uint64_t *c, unsigned n, c16_pair *pop, c16_pair *lssb);
struct c16u_k { unsigned long long cc; c16_wide v[C16_NM]; };
extern const struct c16u_k c16u_table[];
extern const unsigned c16u_ntable;

/* ---- which generated tables this build uses (bin/checks.d/C16.py writes them into the build directory) */
#if defined(C16_ILP32) || defined(C16_PART_ILP32)
#define C16_MTAB_INC "c16_mtab_ilp32.inc"
#define C16_FTAB_INC "c16_ftab_ilp32.inc"
#elif defined(__OPTIMIZE_SIZE__) || !defined(__OPTIMIZE__) || defined(NDEBUG) || defined(__clang__) || defined(__CHAR_UNSIGNED__)
/* a build variant (other optimisation level, NDEBUG, clang, unsigned char): the argument-form families in full, the bulk
 * of plain 64-bit literals (which does not depend on the build) only in the primary gcc -O2 build */
#define C16_VARIANT_BUILD 1
#define C16_MTAB_INC "c16_mtab_small.inc"
#define C16_FTAB_INC "c16_ftab.inc"
#else
#define C16_MTAB_INC "c16_mtab_big.inc"
#define C16_FTAB_INC "c16_ftab.inc"
#endif

/* ---- wire format of the ILP32 helper (c16_ilp32.c): request header, then n items for C16_RQ_ITEMS; the answer is a
 * reply header and, if status is 0, the payload (n results / one c16_sweep_out) */
enum { C16_RQ_ITEMS = 1, C16_RQ_SWEEP = 2 };
struct c16_req { uint32_t op, n; uint64_t a, b; };	/* SWEEP: a = base, n = count, b = function mask | ptr << 8 */
struct c16_reply { uint32_t status /* 0 ok, else fault kind */, index; char msg[120]; };
#define C16_NTUPLES (33 * 33 * 33)
struct c16_sweep_out {
	uint64_t calls[C16_NF], bad[C16_NF]; uint32_t first_x[C16_NF]; uint32_t have[C16_NF]; c16_pair first_got[C16_NF];
	uint64_t distinct; uint8_t seen[C16_NTUPLES + 7];
};

#endif /* C16_USER_H_ */

/*
 * C17 - rand31_r is exactly the Park-Miller minimal standard generator.
 *
 * The generator is a finite state machine with one 31-bit state word. Every
 * state s in 1..2^31-2 is loaded into the seed, the real rand31_r (rand.c) makes
 * one step, and the returned value and the stored seed are compared with the
 * 64-bit reference 16807*s mod (2^31-1) and with the range 1..2^31-2.
 * The thorough tier also walks the orbit of the real generator from seed 1 in
 * lock-step with the reference and requires the first return to 1 after exactly
 * 2^31-2 steps (and never a value outside 1..2^31-2 on the way).
 *
 * The signature of a failure names the smallest failing state of the whole
 * space (found by a rescan from 1), so it is the same for every worker layout.
 */
#include "vx.h"

/* rand.c is linked as an object of its own (lib=['rand.c']); this file sees rand31_r exactly as a user does, through
 * <librfn/rand.h> (a macro or inline version there is what gets checked), and every static of rand.c is put back to its
 * start-of-program image before each block and before each single step (vx_lib_reset) */
#include <librfn/rand.h>

#define M31 2147483647u			/* 2^31 - 1 */
#define NSTATES (M31 - 1)		/* states 1 .. 2^31-2 */

static inline uint32_t model_next(uint32_t s) { return (uint32_t)(((uint64_t)s * 16807u) % M31); }

/* Which path of Carta's reduction a state takes (model-side classification, only
 * for the coverage counters: the rare carry cases must be seen to be visited). */
static inline int folds_over(uint32_t s)
{
	uint64_t lo = 16807ull * (s & 0xffff), hi = 16807ull * (s >> 16);
	return lo + ((hi & 0x7fff) << 16) + (hi >> 15) > 0x7fffffffull;
}

#define BLOCK_LOG2 20			/* work unit: 2^20 consecutive states */
#define NBLOCKS (1u << (31 - BLOCK_LOG2))

static uint64_t n_states, n_fold, n_bad_value, n_bad_stored, n_bad_range;

/* one block, no fault capture inside (the caller arms it); plain code cannot
 * fault here, but a modified rand31_r might (division, table lookup, ...) */
static void run_block(uint32_t lo, uint32_t hi)		/* states lo .. hi inclusive */
{
	vx_lib_reset();
	for (uint32_t s = lo; ; s++) {
		uint32_t seed = s, r = rand31_r(&seed), want = model_next(s);
		if (r != want) n_bad_value++;
		if (seed != r) n_bad_stored++;		/* with r == want this is seed == want; kept separate so one wrong value is one signature */
		if (r < 1 || r > M31 - 1) n_bad_range++;
		n_fold += (uint64_t)folds_over(s);
		if (s == hi) break;
	}
	n_states += (uint64_t)hi - lo + 1;
}

/* one step under its own fault capture; returns fault kind (0 = returned) */
static volatile uint32_t one_r, one_seed;
static int step_one(uint32_t s, uint32_t *r, uint32_t *seed)
{
	one_seed = s;
	vx_lib_reset();
	if (VX_TRY) { uint32_t t = s; one_r = rand31_r(&t); one_seed = t; VX_END; *r = one_r; *seed = one_seed; return 0; }
	VX_END;
	return vx_fault_kind;
}
/* 0 fine; otherwise records nothing, just classifies */
enum { BAD_VALUE = 1, BAD_STORED = 2, BAD_FAULT = 4 };
static int classify(uint32_t s)
{
	uint32_t r = 0, seed = 0, want = model_next(s);
	if (step_one(s, &r, &seed)) return BAD_FAULT;
	return (r != want ? BAD_VALUE : 0) | (seed != r ? BAD_STORED : 0);
}

/* record the violation(s) of kind `what` (mask of BAD_*) shown by state s */
static void report(uint32_t s, int what)
{
	uint32_t r = 0, seed = 0, want = model_next(s);
	char sig[256], rep[64];
	snprintf(rep, sizeof(rep), "kind=state\ns=%u\n", s);
	if (step_one(s, &r, &seed)) {
		snprintf(sig, sizeof(sig), "step|fault|s=%u|want=%u", s, want);
		vx_violation(sig, rep, "rand31_r with state %u does not return: %s; Park-Miller gives %u", s, vx_fault_msg, want);
		return;
	}
	if ((what & BAD_VALUE) && r != want) {
		snprintf(sig, sizeof(sig), "step|value|s=%u|got=%u|want=%u", s, r, want);
		vx_violation(sig, rep, "rand31_r with state %u returns %u%s (and stores %u), 16807*%u mod (2^31-1) is %u (smallest failing state)",
			     s, r, (r < 1 || r > M31 - 1) ? " (outside 1..2^31-2)" : "", seed, s, want);
	}
	if ((what & BAD_STORED) && seed != r) {
		snprintf(sig, sizeof(sig), "step|stored|s=%u|stored=%u|returned=%u|want=%u", s, seed, r, want);
		vx_violation(sig, rep, "rand31_r with state %u leaves %u in *seedp but returns %u; the new state and the value must both be 16807*%u mod (2^31-1) = %u (smallest failing state)",
			     s, seed, r, s, want);
	}
}

/* smallest state (of the WHOLE space) failing in the given way */
static volatile uint32_t scan_hit; static volatile int scan_found;
static void scan_block(int what, uint32_t lo, uint32_t hi)
{
	vx_lib_reset();
	for (uint32_t s = lo; ; s++) {
		uint32_t seed = s, r = rand31_r(&seed), want = model_next(s);
		if ((what == BAD_VALUE && r != want) || (what == BAD_STORED && seed != r)) { scan_hit = s; scan_found = 1; return; }
		if (s == hi) break;
	}
}
static int first_bad(int what, uint32_t *out)
{
	for (uint32_t b = 0; b < NBLOCKS; b++) {
		if (vx_deadline_passed()) return 0;
		uint32_t lo = b << BLOCK_LOG2, hi = lo + (1u << BLOCK_LOG2) - 1;
		if (lo < 1) lo = 1;
		if (hi > M31 - 1) hi = M31 - 1;
		scan_found = 0;
		if (VX_TRY) { scan_block(what, lo, hi); VX_END; }
		else {
			VX_END;
			for (uint32_t s = lo; ; s++) {
				int c = classify(s);
				if ((what == BAD_FAULT) ? (c & BAD_FAULT) : (c & (what | BAD_FAULT))) { scan_hit = s; scan_found = 1; break; }
				if (s == hi) break;
			}
		}
		if (scan_found) { *out = scan_hit; return 1; }
	}
	return 0;
}

/* ---- orbit walk: real generator and reference side by side from seed 1 */
static void orbit(void)
{
	static volatile uint64_t steps;		/* survives a fault longjmp */
	uint32_t seed = 1, m = 1, last_r = 1;
	uint64_t n = 0;
	int complete = 1;
	char sig[256];
	const char *rep = "kind=orbit\n";
	steps = 0;
	vx_lib_reset();
	for (;;) {
		/* 2^22 steps per fault-capture section */
		uint64_t chunk = 1u << 22;
		int stop = 0;
		if (VX_TRY) {
			for (uint64_t i = 0; i < chunk; i++) {
				uint32_t r = rand31_r(&seed);
				m = model_next(m);
				n++; last_r = r;
				if (r != seed || r != m || r < 1 || r > M31 - 1 || r == 1) { stop = 1; break; }
			}
			steps = n;
			VX_END;
		} else {
			VX_END;
			snprintf(sig, sizeof(sig), "orbit|fault|after>=%llu", (unsigned long long)steps);
			vx_violation(sig, rep, "walking from seed 1: rand31_r does not return (%s) somewhere after step %llu",
				     vx_fault_msg, (unsigned long long)steps);
			vx_count("orbit_steps", steps);
			vx_and("orbit_full_period", 0);
			return;
		}
		if (stop) break;
		if (n > (uint64_t)NSTATES + 8) break;				/* cannot happen for a map into 31 bits; belt */
		if (vx_deadline_passed()) { complete = 0; break; }
	}
	vx_count("orbit_steps", n);
	if (!complete) {
		vx_and("exhaustive", 0); vx_and("orbit_full_period", 0);
		vx_note("orbit walk stopped by the deadline after %llu steps", (unsigned long long)n);
		return;
	}
	/* the loop stopped at step n with value `seed` (returned value == stored seed unless that was the reason) */
	if (seed == 1 && m == 1 && n == NSTATES) {
		vx_and("orbit_full_period", 1);
		vx_sample("orbit from seed 1: first return to 1 after %llu steps (= 2^31-2), every value in 1..2^31-2 and equal to the reference",
			  (unsigned long long)n);
		return;
	}
	vx_and("orbit_full_period", 0);
	if (seed < 1 || seed > M31 - 1) {
		snprintf(sig, sizeof(sig), "orbit|leaves-range|step=%llu|value=%u", (unsigned long long)n, seed);
		vx_violation(sig, rep, "walking from seed 1 the state after %llu steps is %u, outside 1..2^31-2%s", (unsigned long long)n, seed,
			     seed == 0 ? " (absorbing state 0)" : "");
	} else if (seed == 1) {
		snprintf(sig, sizeof(sig), "orbit|period|returns-to-1-after=%llu", (unsigned long long)n);
		vx_violation(sig, rep, "walking from seed 1 the generator returns to 1 after %llu steps, the full period is %u",
			     (unsigned long long)n, NSTATES);
	} else {
		snprintf(sig, sizeof(sig), "orbit|diverges|step=%llu|returned=%u|stored=%u|want=%u", (unsigned long long)n, last_r, seed, m);
		vx_violation(sig, rep, "walking from seed 1, step %llu returns %u and stores %u where Park-Miller gives %u",
			     (unsigned long long)n, last_r, seed, m);
	}
}

/* run block b from the pristine library state; record a violation if any step of it disagrees with the reference */
static int block_bad(uint32_t b)
{
	uint32_t lo = b << BLOCK_LOG2, hi = lo + (1u << BLOCK_LOG2) - 1;
	if (lo < 1) lo = 1;
	if (hi > M31 - 1) hi = M31 - 1;
	uint64_t k[5] = { n_states, n_fold, n_bad_value, n_bad_stored, n_bad_range };
	int fault = 0;
	if (VX_TRY) { run_block(lo, hi); VX_END; } else { VX_END; fault = 1; }
	uint64_t dv = n_bad_value - k[2], ds = n_bad_stored - k[3], dr = n_bad_range - k[4];
	n_states = k[0]; n_fold = k[1]; n_bad_value = k[2]; n_bad_stored = k[3]; n_bad_range = k[4];
	if (!fault && !dv && !ds && !dr) return 0;
	char sig[128], rep[64];
	snprintf(sig, sizeof(sig), "block|depends-on-earlier-calls|states=%u..%u", lo, hi);
	snprintf(rep, sizeof(rep), "kind=block\nb=%u\n", b);
	vx_violation(sig, rep, "consecutive calls of rand31_r for the states %u..%u, starting from the library's start-of-program state: %llu wrong values, %llu wrong stored seeds, %llu values out of range%s - although no single state fails on its own: the result depends on earlier calls",
		     lo, hi, (unsigned long long)dv, (unsigned long long)ds, (unsigned long long)dr, fault ? ", and a fault" : "");
	return 1;
}

int main(int argc, char **argv)
{
	vx_init(argc, argv);
	vx_install_handlers();
	vx_watchdog(2.0);
	char *rp = vx_read_replay();
	if (rp) {
		const char *kind = vx_replay_field(rp, "kind");
		if (kind && !strcmp(kind, "orbit")) orbit();
		else if (kind && !strcmp(kind, "block")) block_bad((uint32_t)strtoul(vx_replay_field(rp, "b"), NULL, 0) % NBLOCKS);
		else {
			const char *s = vx_replay_field(rp, "s");
			uint32_t st = s ? (uint32_t)strtoul(s, NULL, 0) : 0;
			if (st >= 1 && st <= M31 - 1) { report(st, BAD_VALUE | BAD_STORED | BAD_FAULT); vx_count("transitions", 1); vx_count("states", 1); vx_count("traces", 1); }
		}
		vx_finish();
		return 0;
	}

	int complete = 1, faulted = 0; uint64_t blocks = 0;
	for (uint32_t b = 0; b < NBLOCKS; b++) {
		if (!vx_mine(b)) continue;
		if (vx_deadline_passed()) { complete = 0; break; }
		uint32_t lo = b << BLOCK_LOG2, hi = lo + (1u << BLOCK_LOG2) - 1;
		if (lo < 1) lo = 1;			/* scope guard: state 0 is outside the statement */
		if (hi > M31 - 1) hi = M31 - 1;		/* scope guard: so are 2^31-1 and above */
		static uint64_t save[5];
		save[0] = n_states; save[1] = n_fold; save[2] = n_bad_value; save[3] = n_bad_stored; save[4] = n_bad_range;
		if (VX_TRY) { run_block(lo, hi); VX_END; }
		else {	/* forget the partial block, redo it step by step */
			VX_END;
			n_states = save[0]; n_fold = save[1]; n_bad_value = save[2]; n_bad_stored = save[3]; n_bad_range = save[4];
			vx_count("blocks_rerun_after_fault", 1);
			for (uint32_t s = lo; ; s++) {
				int c = classify(s);
				if (c & BAD_FAULT) { faulted++; vx_count("faults", 1); }
				if (c & BAD_VALUE) n_bad_value++;
				if (c & BAD_STORED) n_bad_stored++;
				n_fold += (uint64_t)folds_over(s); n_states++;
				if (s == hi) break;
			}
		}
		blocks++;
		if (vx_want_sample() && b % 171 == 3) {
			uint32_t s = lo + 12345 + b, seed = s, r = rand31_r(&seed);
			vx_sample("state %u -> rand31_r returns %u, *seedp = %u; 16807*s mod (2^31-1) = %u; folded sum %s 2^31-1", s, r, seed,
				  model_next(s), folds_over(s) ? "exceeds" : "does not exceed");
		}
	}
	vx_count("states", n_states);
	vx_count("transitions", n_states);
	vx_count("traces", n_states);		/* every step of the real code is compared with the reference */
	vx_count("states_where_carta_fold_exceeds_modulus", n_fold);
	vx_count("states_where_carta_fold_fits", n_states - n_fold);
	vx_count("mismatch_returned_value", n_bad_value);
	vx_count("mismatch_stored_seed_vs_returned", n_bad_stored);
	vx_count("returned_value_out_of_range", n_bad_range);
	vx_count("blocks_of_2^20_done", blocks);
	if (vx_args.worker == 0) vx_count("scope_guard_states_outside_1..2^31-2_not_run", (1ULL << 32) - NSTATES);
	vx_and("exhaustive", complete);

	uint32_t s; uint64_t v0 = vx_viol_total;
	if (n_bad_value && first_bad(BAD_VALUE, &s)) report(s, BAD_VALUE);
	if (n_bad_stored && first_bad(BAD_STORED, &s)) report(s, BAD_STORED);
	if (faulted && first_bad(BAD_FAULT, &s)) report(s, BAD_FAULT);
	/* mismatches were counted but no single state reproduces one on its own (a result that depends on earlier calls, e.g.
	 * a first-use flag in a static), or the rescan ran out of time: the counters are judged all the same - name the first
	 * block of this worker that shows a mismatch when run from the library's start-of-program state */
	if ((n_bad_value || n_bad_stored || n_bad_range || faulted) && vx_viol_total == v0)
		for (uint32_t b = 0; b < NBLOCKS; b++) {
			if (!vx_mine(b)) continue;
			if (block_bad(b)) break;
		}

	/* thorough: the full-period consequence, checked directly (one sequential walk, one worker) */
	if (vx_thorough() && vx_mine(NBLOCKS)) orbit();

	vx_finish();
	return 0;
}
